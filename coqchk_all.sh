#!/bin/bash
# independent re-check of every compiled property module (and everything it depends on) with coqchk; prints the axioms
cd /verif/coq || exit 2
mods=$(grep 'Properties_' _CoqProject | sed 's/\.v$//; s#/#.#; s/^/Heph./' | tr '\n' ' ')
{ echo "# coqchk -silent -o -Q . Heph <all Properties modules of _CoqProject>  ($(date -u +%Y-%m-%dT%H:%MZ), $(coqchk --version 2>&1 | head -1))"; echo "# modules: $mods"; timeout 3000 coqchk -silent -o -Q . Heph $mods 2>&1; echo "exit=$?"; } > COQCHK.txt
tail -n 16 COQCHK.txt
