(* Properties_C04.v -- the property theorems, nothing else. *)
From Coq Require Import List Arith Bool.
Import ListNotations.
From Heph Require Import Types.Syntax Types.Corr IR.Syntax IR.Diff.
From Heph Require IR.DiffProofs.
Import DiffProofs.

(* the difference between the program before and after the mutation is defined iff nothing
   but types differs, is empty iff the programs are identical, and lists exactly the type
   slots at which they differ *)
Theorem type_changes_nil_iff : forall path p p', type_changes path p p' = Some [] <-> p = p'.
Proof. exact DiffProofs.type_changes_nil_iff. Qed.
Print Assumptions type_changes_nil_iff.

Theorem type_changes_same_skeleton :
  forall path p p' cs, type_changes path p p' = Some cs ->
  map (fun n => (kind_of n, name_of_node n, num_of n, flags_of n, length (tys_of n))) (nodes p) =
  map (fun n => (kind_of n, name_of_node n, num_of n, flags_of n, length (tys_of n))) (nodes p').
Proof. exact DiffProofs.type_changes_same_skeleton. Qed.
Print Assumptions type_changes_same_skeleton.

Theorem type_changes_complete :
  forall p p' cs, type_changes [] p p' = Some cs ->
  forall path i o o',
    In (path, i, o, o') cs <->
    (slot_at p path i = Some o /\ slot_at p' path i = Some o' /\ o <> o').
Proof. exact DiffProofs.type_changes_complete. Qed.
Print Assumptions type_changes_complete.
