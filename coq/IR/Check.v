(* IR/Check.v -- the reference checker for generated programs: name resolution / scoping /
   mutability (C05) and type checking of every typed position (C01), over the generic IR.
   It is LENIENT by construction: a position it cannot type yields TUnk and is counted as
   unchecked, never rejected.  Definitions only. *)
From Coq Require Import List Arith Bool.
Import ListNotations.
From Heph Require Import Types.Syntax Types.Subst Types.Subtype Types.Decl Types.Corr Types.TableOk IR.Syntax.

(* ---------- language description (filled in by the harness from the imported factory) ---------- *)
Record lang := {
  l_bool : nat; l_any : nat; l_unit : nat; l_string : nat; l_char : nat;
  l_numbers : list nat;                (* built-in numeric classes *)
  l_java_lambda : bool                 (* nested functions are lambdas: only final locals may be captured *)
}.

(* ---------- declarations extracted from the tree ---------- *)
Record field := { fd_name : nat; fd_ty : option ty; fd_final : bool }.
Record fparam := { fp_name : nat; fp_ty : option ty; fp_vararg : bool; fp_default : bool }.
Record func := { fn_name : nat; fn_tparams : list ty; fn_params : list fparam; fn_ret : option ty;
                 fn_abstract : bool; fn_override : bool; fn_final : bool }.
Record cls := { cl_name : nat; cl_cid : nat; cl_kind : nat; cl_final : bool; cl_tparams : list ty;
                cl_supers : list ty; cl_fields : list field; cl_funcs : list func }.

Definition nth_ty (n : node) (i : nat) : option ty :=
  match nth_error (tys_of n) i with Some o => o | None => None end.
Definition flag (n : node) (i : nat) : bool := nth i (flags_of n) false.
Definition kids_of_kind (k : nat) (n : node) : list node := filter (fun c => Nat.eqb (kind_of c) k) (kids_of n).

Definition mk_param (n : node) : fparam :=
  {| fp_name := name_of_node n; fp_ty := nth_ty n 0; fp_vararg := flag n 0; fp_default := flag n 1 |}.

Definition func_ret (n : node) : option ty :=
  match nth_ty n 0 with Some t => Some t | None => nth_ty n 1 end.

Definition mk_func (n : node) : func :=
  {| fn_name := name_of_node n; fn_tparams := present (skipn 2 (tys_of n));
     fn_params := map mk_param (kids_of_kind kParamDecl n); fn_ret := func_ret n;
     fn_abstract := negb (flag n 3); fn_override := flag n 1; fn_final := flag n 0 |}.

Definition mk_field (n : node) : field :=
  {| fd_name := name_of_node n; fd_ty := nth_ty n 0; fd_final := flag n 0 |}.

Fixpoint find_nat2 (l : list (nat * nat)) (k : nat) : option nat :=
  match l with [] => None | (a, b) :: l' => if Nat.eqb a k then Some b else find_nat2 l' k end.

Definition mk_cls (cn : list (nat * nat)) (n : node) : cls :=
  {| cl_name := name_of_node n; cl_cid := match find_nat2 cn (name_of_node n) with Some c => c | None => 0 end;
     cl_kind := num_of n; cl_final := flag n 0; cl_tparams := present (tys_of n);
     cl_supers := flat_map (fun s => present (firstn 1 (tys_of s))) (kids_of_kind kSuperInst n);
     cl_fields := map mk_field (kids_of_kind kFieldDecl n);
     cl_funcs := map mk_func (kids_of_kind kFuncDecl n) |}.

Definition classes_of (cn : list (nat * nat)) (p : node) : list cls :=
  map (mk_cls cn) (kids_of_kind kClassDecl p).

Definition world_of (cs : list cls) (bclasses : ctable) (bt : btable) (arr : option nat) : world :=
  {| w_ct := map (fun c => (cl_cid c, {| c_params := cl_tparams c; c_supers := cl_supers c |})) cs ++ bclasses;
     w_bt := bt; w_array := arr |}.

Definition find_cls (cs : list cls) (cid : nat) : option cls := find (fun c => Nat.eqb (cl_cid c) cid) cs.
Definition find_cls_by_name (cs : list cls) (nm : nat) : option cls := find (fun c => Nat.eqb (cl_name c) nm) cs.

(* ---------- result of typing an expression ---------- *)
Inductive tres := TOk (t : ty) | TBot | TUnk.

(* an error: path of child indices from the root, and a code
   1 initializer  2 call argument  3 constructor argument  4 super-constructor argument
   5 function result  6 conditional branch  7 assignment  8 type argument outside its bound
   9 unresolved variable  10 unresolved function  11 unresolved field  12 unresolved class
   13 wrong number of arguments  14 assignment to a final variable/field  15 instantiation of a
   non-regular class  16 abstract member not implemented  17 incompatible override
   18 inheritance from a final class  19 default value  20 condition is not Boolean
   21 identifier declared twice in one scope  22 reserved word  23 non-final local captured by a Java lambda
   24 type variable not in scope
   25 (inference mode) erased return type of a function that calls itself
   26 (inference mode) erased type arguments that nothing determines *)
Definition err := (list nat * nat * option ty * option ty)%type.   (* path, code, actual type, expected type *)
Definition mkerr (p : list nat) (c : nat) : err := (p, c, None, None).

Record env := {
  e_vars : list (nat * option ty * bool);      (* innermost first: name, type, final *)
  e_funcs : list func;                          (* local (nested) functions, innermost first *)
  e_cls : option cls;                           (* enclosing class *)
  e_lambda_depth : nat;                         (* number of variables that were declared outside the innermost Java lambda *)
  e_in_lambda : bool;
  e_cur : nat;                                  (* name of the enclosing function whose declared return type was erased (0 = none) *)
  e_direct : bool                               (* the expression is directly the initializer / body of a declaration whose type was erased *)
}.

Definition undirect (G : env) : env :=
  {| e_vars := e_vars G; e_funcs := e_funcs G; e_cls := e_cls G; e_lambda_depth := e_lambda_depth G;
     e_in_lambda := e_in_lambda G; e_cur := e_cur G; e_direct := false |}.
Definition direct (G : env) (b : bool) : env :=
  {| e_vars := e_vars G; e_funcs := e_funcs G; e_cls := e_cls G; e_lambda_depth := e_lambda_depth G;
     e_in_lambda := e_in_lambda G; e_cur := e_cur G; e_direct := b |}.

(* an unbounded type variable has the top type as its bound (T <: Any / Object in every target language; the IR's own
   relation, and SubA with it, has no such rule): applied to both sides of every assignability question *)
Fixpoint topify (top : ty) (t : ty) : ty :=
  match t with
  | TVar x v None => TVar x v (Some top)
  | TVar x v (Some b) => TVar x v (Some (topify top b))
  | TApp c l => TApp c (map (topify top) l)
  | TWild Cov (Some (TBuiltin x pr)) =>
      (* out Top is the star projection: it contains every argument *)
      match top with
      | TBuiltin y _ => if Nat.eqb x y then TWild Inv None else TWild Cov (Some (TBuiltin x pr))
      | _ => TWild Cov (Some (TBuiltin x pr))
      end
  | TWild v (Some b) => TWild v (Some (topify top b))
  | x => x
  end.

Section Checker.
  Context (infer : bool)       (* true: a local variable without declared type gets the type synthesised for its
                                  initializer (what a compiler infers) instead of the recorded one *)
          (strict : bool)      (* true: positions that cannot be typed are reported too (to measure coverage) *)
          (L : lang) (w : world) (cs : list cls) (topfuncs : list func)
          (topvars : list (nat * option ty * bool)) (kw : list nat).

  Definition tbool := TBuiltin (l_bool L) false.

  (* assignability of a synthesised type to an expected type: accepted when the declarative
     checker derives it or the implementation's own (modelled) is_assignable accepts it;
     rejected only when the declarative checker refutes it and the implementation's model
     does not accept it.  Numeric literals and built-in numbers follow the IR's rule. *)
  Definition both_numbers (s t : ty) : bool :=
    match s, t with
    | TBuiltin a _, TBuiltin b _ => existsb (Nat.eqb a) (l_numbers L) && existsb (Nat.eqb b) (l_numbers L)
    | _, _ => false
    end.

  (* a sink whose type is a projection: out U accepts what U accepts, in L accepts an L;
     a star sink is unknown *)
  Definition norm_expected (t : option ty) : option ty :=
    match t with
    | Some (TWild Cov (Some u)) => Some u
    | Some (TWild Contra (Some l)) => Some l
    | Some (TWild _ _) => None
    | x => x
    end.

  Definition assignable (s : tres) (t0 : option ty) : bool :=
    let t := norm_expected t0 in
    match s, t with
    | TBot, _ => true
    | TUnk, _ | _, None => negb strict
    | TOk a0, Some b =>
        (* boxing: a value of a primitive built-in type may be used where its class is expected *)
        let top := TBuiltin (l_any L) false in
        let a := topify top (match a0 with TBuiltin x true => TBuiltin x false | x => x end) in
        let b := topify top b in
        match sub_ref w 40 [] a b with
        | Yes => true
        | Unk => negb strict
        | No => match is_assignable w 40 a b with Rt => true | _ => false end
        end
    end.


  (* position of x in the local variables (0 = innermost) *)
  Fixpoint var_index (vs : list (nat * option ty * bool)) (x : nat) : option nat :=
    match vs with
    | [] => None
    | (y, _, _) :: vs' => if Nat.eqb x y then Some 0 else option_map S (var_index vs' x)
    end.

  (* members of the class of a receiver type, with the class's parameters instantiated;
     walks up the declared supertypes *)
  Definition class_of_ty (t : ty) : option (nat * list ty) :=
    match t with
    | TClass c => Some (c, [])
    | TApp c args => Some (c, args)
    | _ => None
    end.

  Definition has_wild_arg (args : list ty) : bool := existsb is_wild args.

  Fixpoint find_field (fuel : nat) (recv : ty) (f : nat) : option (option ty * bool) :=
    match fuel with
    | O => None
    | S fu =>
        match recv with
        | TVar _ _ (Some b) => find_field fu b f
        | _ =>
            match class_of_ty recv with
            | None => None
            | Some (c, args) =>
                match find_cls cs c with
                | None => None
                | Some cl =>
                    let m := mk_map (cl_tparams cl) args in
                    match find (fun fd => Nat.eqb (fd_name fd) f) (cl_fields cl) with
                    | Some fd => Some (option_map (subst false m) (fd_ty fd), fd_final fd)
                    | None =>
                        (fix up (l : list ty) : option (option ty * bool) :=
                           match l with
                           | [] => None
                           | s :: l' => match find_field fu (subst false m s) f with
                                        | Some r => Some r
                                        | None => up l'
                                        end
                           end) (cl_supers cl)
                    end
                end
            end
        end
    end.

  (* a method of the receiver's class chain, with the substitution of the class parameters *)
  Fixpoint find_method (fuel : nat) (recv : ty) (f : nat) : option (func * list (ty * ty)) :=
    match fuel with
    | O => None
    | S fu =>
        match recv with
        | TVar _ _ (Some b) => find_method fu b f
        | _ =>
            match class_of_ty recv with
            | None => None
            | Some (c, args) =>
                match find_cls cs c with
                | None => None
                | Some cl =>
                    let m := mk_map (cl_tparams cl) args in
                    let inherited :=
                        (fix up (l : list ty) : option (func * list (ty * ty)) :=
                           match l with
                           | [] => None
                           | s :: l' => match find_method fu (subst false m s) f with
                                        | Some r => Some r
                                        | None => up l'
                                        end
                           end) (cl_supers cl) in
                    match find (fun fn => Nat.eqb (fn_name fn) f) (cl_funcs cl) with
                    | Some fn =>
                        (* an overriding function inherits the default values of the overridden one *)
                        match inherited with
                        | Some (sfn, _) =>
                            Some ({| fn_name := fn_name fn; fn_tparams := fn_tparams fn;
                                     fn_params := map (fun pq => {| fp_name := fp_name (fst pq); fp_ty := fp_ty (fst pq);
                                                                    fp_vararg := fp_vararg (fst pq);
                                                                    fp_default := fp_default (fst pq) || fp_default (snd pq) |})
                                                      (combine (fn_params fn) (fn_params sfn)) ++
                                                  skipn (length (fn_params sfn)) (fn_params fn);
                                     fn_ret := fn_ret fn; fn_abstract := fn_abstract fn; fn_override := fn_override fn;
                                     fn_final := fn_final fn |}, m)
                        | None => Some (fn, m)
                        end
                    | None => inherited
                    end
                end
            end
        end
    end.

  Definition self_type (cl : cls) : ty :=
    match cl_tparams cl with [] => TClass (cl_cid cl) | ps => TApp (cl_cid cl) ps end.

  Definition chk_assign (s : tres) (t : option ty) (p : list nat) (c : nat) : list err :=
    if assignable s t then [] else [(p, c, match s with TOk a => Some a | _ => None end, t)].

  (* a name: local variable / parameter, then a field of the enclosing class or of one of its
     superclasses, then a top-level variable *)
  Definition lookup_var (G : env) (x : nat) : option (option ty * bool * bool (* local? *)) :=
    match find (fun v => Nat.eqb (fst (fst v)) x) (e_vars G) with
    | Some (_, t, f) => Some (t, f, true)
    | None =>
        match (match e_cls G with Some cl => find_field 12 (self_type cl) x | None => None end) with
        | Some (t, f) => Some (t, f, false)
        | None =>
            match find (fun v => Nat.eqb (fst (fst v)) x) topvars with
            | Some (_, t, f) => Some (t, f, false)
            | None => None
            end
        end
    end.

  (* reading through a projection: out U reads as U; anything else is unknown *)
  Definition read_ty (t : option ty) : tres :=
    match t with
    | None => TUnk
    | Some (TWild Cov (Some u)) => TOk u
    | Some (TWild _ _) => TUnk
    | Some t' => if has_wildcards t' && false then TUnk else TOk t'
    end.

  (* a type whose arguments contain a top-level wildcard cannot be used for member typing *)
  Definition usable_receiver (t : ty) : bool :=
    match t with
    | TApp _ args => negb (has_wild_arg args)
    | TClass _ => true
    | TVar _ _ (Some (TApp _ args)) => negb (has_wild_arg args)
    | TVar _ _ (Some (TClass _)) => true
    | _ => false
    end.

  (* member type seen through a receiver: with a projected receiver only member types that mention
     no projection after substitution are determined *)
  Definition member_ty (usable : bool) (t : option ty) : tres :=
    if usable then read_ty t
    else match t with
         | Some u => if is_wild u || has_wildcards u then TUnk else read_ty t
         | None => TUnk
         end.

  Definition is_callarg (n : node) : bool := Nat.eqb (kind_of n) 26.

  (* bounds of explicit type arguments *)
  Definition targs_ok (tparams targs : list ty) (m0 : list (ty * ty)) : bool :=
    let m := mk_map tparams targs ++ m0 in
    forallb (fun pa => match tvar_bound (fst pa) with
                       | None => true
                       | Some b => match snd pa with
                                   | TWild _ _ => true
                                   | a => assignable (TOk a) (Some (subst false m b))
                                   end
                       end) (combine tparams targs).

  (* bounds of the type arguments of ANY type occurrence  C<args>  of a class of the program: a concrete argument is
     within its parameter's bound (the other arguments substituted); for  in L  the lower bound L is *)
  Definition type_bounds_ok (t : ty) : bool :=
    match t with
    | TApp c args =>
        match find (fun cl => Nat.eqb (cl_cid cl) c) cs with
        | Some cl =>
            let ps := cl_tparams cl in
            if negb (Nat.eqb (length ps) (length args)) then true
            else
              let m := mk_map ps args in
              forallb (fun pa => match tvar_bound (fst pa) with
                                 | None => true
                                 | Some b =>
                                     let b' := subst false m b in
                                     if existsb (fun qa => is_wild (snd qa) && occurs (fst qa) b) (combine ps args)
                                     then true   (* the bound mentions a parameter whose argument is a projection: not judged (javac substitutes it textually) *)
                                     else match snd pa with
                                          | TWild Contra (Some l) => assignable (TOk l) (Some b')
                                          | TWild _ _ => true
                                          | a => assignable (TOk a) (Some b')
                                          end
                                 end) (combine ps args)
        | None => true
        end
    | _ => true
    end.

  Fixpoint chk (fuel : nat) (G : env) (path : list nat) (exp : option ty) (e : node) {struct fuel} : tres * list err :=
    match fuel with
    | O => (TUnk, [])
    | S fu =>
        let kids := kids_of e in
        let k := kind_of e in
        (* check a list of expressions, collecting results *)
        let chk_list := fix go (i : nat) (l : list node) : list tres * list err :=
                          match l with
                          | [] => ([], [])
                          | x :: l' => let '(t, er) := chk fu (undirect G) (path ++ [i]) None x in
                                       let '(ts, ers) := go (S i) l' in (t :: ts, er ++ ers)
                          end in
        (* arguments of a call against parameters: positional, named, defaults, vararg *)
        let chk_args := fun (code : nat) (m : list (ty * ty)) (ps : list fparam) (off : nat) (args : list node) (generic_unknown : bool) =>
          (fix go (i : nat) (ps : list fparam) (args : list node) (named_seen : bool) : list err :=
             match args with
             | [] => if forallb (fun p => fp_default p || fp_vararg p) ps || named_seen then [] else [mkerr (path) 13]
             | a :: args' =>
                 let ae := match kids_of a with x :: _ => x | [] => a end in
                 let nm := if is_callarg a then name_of_node a else 0 in
                 let apath := path ++ [i] ++ (if is_callarg a then [0] else []) in
                 let anode := if is_callarg a then ae else a in
                 if negb (Nat.eqb nm 0) then
                   (* named argument *)
                   match find (fun p => Nat.eqb (fp_name p) nm) ps with
                   | None => snd (chk fu (undirect G) apath None anode) ++ [mkerr (path ++ [i]) 13] ++ go (S i) ps args' true
                   | Some p =>
                       let pt := if generic_unknown then None else option_map (subst false m) (fp_ty p) in
                       let '(t, er) := chk fu (undirect G) apath pt anode in
                       er ++ (if generic_unknown then [] else chk_assign t pt (path ++ [i]) code)
                          ++ go (S i) ps args' true
                   end
                 else
                   match ps with
                   | [] => snd (chk fu (undirect G) apath None anode) ++ [mkerr (path ++ [i]) 13]
                   | p :: ps' =>
                       let pt := option_map (subst false m) (fp_ty p) in
                       (* a vararg parameter of type Array<T> accepts elements of type T *)
                       let pt' := if fp_vararg p then match pt with Some (TApp _ [el]) => Some el | x => x end else pt in
                       let '(t, er) := chk fu (undirect G) apath (if generic_unknown || fp_vararg p then None else pt') anode in
                       er ++ (if generic_unknown || (fp_vararg p && assignable t pt) then [] else chk_assign t pt' (path ++ [i]) code)
                          ++ go (S i) (if fp_vararg p then ps else ps') args' named_seen
                   end
             end) off ps args false in
        match k with
        (* constants *)
        | 9 => (* BottomConstant(t): translated as a cast of the bottom value to t when t is recorded *)
               (match nth_ty e 0 with Some _ => read_ty (nth_ty e 0) | None => TBot end, [])
        | 10 | 11 => (read_ty (nth_ty e 0), [])
        | 12 => (TOk tbool, [])
        | 13 => (TOk (TBuiltin (l_char L) false), [])
        | 14 => (TOk (TBuiltin (l_string L) false), [])
        | 15 => (* ArrayExpr *)
            let '(ts, ers) := chk_list 0 kids in
            let el := match nth_ty e 0 with Some (TApp _ [x]) => Some x | _ => None end in
            (match nth_ty e 0 with Some t => TOk t | None => TUnk end,
             ers ++ flat_map (fun it => chk_assign (snd it) el (path ++ [fst it]) 1)
                             (combine (seq 0 (length ts)) ts))
        | 16 => (* Variable *)
            match lookup_var G (name_of_node e) with
            | None => (TUnk, [mkerr (path) 9])
            | Some (t, fin, loc) =>
                let cap := if l_java_lambda L && e_in_lambda G && loc && negb fin then
                             match var_index (e_vars G) (name_of_node e) with
                             | Some i => if e_lambda_depth G <=? i then [mkerr (path) 23] else []
                             | None => []
                             end
                           else [] in
                (read_ty t, cap)
            end
        | 17 => (* Conditional: cond, true, false *)
            match kids with
            | [c; t; f] =>
                let '(tc, e1) := chk fu (undirect G) (path ++ [0]) (Some tbool) c in
                (* smart cast: `x is T` narrows x in the true branch *)
                let Gt := match c with
                          | N 22 _ _ [false] [Some ct] [N 16 x _ _ _ _] =>
                              {| e_vars := (x, Some ct, true) :: e_vars G; e_funcs := e_funcs G; e_cls := e_cls G;
                                 e_lambda_depth := e_lambda_depth G; e_in_lambda := e_in_lambda G; e_cur := e_cur G; e_direct := false |}
                          | _ => G
                          end in
                let '(ttr, e2) := chk fu Gt (path ++ [1]) exp t in
                let '(tf, e3) := chk fu G (path ++ [2]) exp f in
                (* the recorded type of a conditional is only an approximation (gen_conditional): the
                   branches are checked against the type expected by the CONTEXT; the recorded type is
                   used only where the context expects nothing (receiver positions) *)
                match exp with
                | Some _ =>
                    (TBot,
                     e1 ++ (chk_assign tc (Some tbool) (path ++ [0]) 20) ++
                     e2 ++ (chk_assign ttr exp (path ++ [1]) 6) ++
                     e3 ++ (chk_assign tf exp (path ++ [2]) 6))
                | None =>
                    (read_ty (nth_ty e 0), e1 ++ (chk_assign tc (Some tbool) (path ++ [0]) 20) ++ e2 ++ e3)
                end
            | _ => (TUnk, [])
            end
        | 18 | 19 | 20 => let '(_, ers) := chk_list 0 kids in (TOk tbool, ers)
        | 21 => let '(ts, ers) := chk_list 0 kids in (match ts with t :: _ => t | [] => TUnk end, ers)
        | 22 => let '(_, ers) := chk_list 0 kids in (TOk tbool, ers)
        | 23 => (* New *)
            match nth_ty e 0 with
            | None => (TUnk, [])
            | Some ct =>
                let fts : list (option ty) :=
                  match class_of_ty ct with
                  | Some (c, args) =>
                      match find_cls cs c with
                      | Some cl => if has_wild_arg args then map (fun _ => None) (cl_fields cl)
                                   else map (fun fd => option_map (subst false (mk_map (cl_tparams cl) args)) (fd_ty fd)) (cl_fields cl)
                      | None => []
                      end
                  | None => []
                  end in
                let '(ts, ers) :=
                  (fix go (i : nat) (l : list node) (fs : list (option ty)) : list tres * list err :=
                     match l with
                     | [] => ([], [])
                     | x :: l' =>
                         let ft := match fs with f0 :: _ => f0 | [] => None end in
                         let '(t, er) := chk fu (undirect G) (path ++ [i]) ft x in
                         let '(ts, ers) := go (S i) l' (tl fs) in
                         (t :: ts, er ++ chk_assign t ft (path ++ [i]) 3 ++ ers)
                     end) 0 kids fts in
                match class_of_ty ct with
                | None => (TOk ct, ers)           (* built-in top type / unit *)
                | Some (c, args) =>
                    match find_cls cs c with
                    | None => (TOk ct, ers ++ (if c <? 90 then [mkerr (path) 12] else []))
                    | Some cl =>
                        (TOk ct,
                         ers ++ (if infer && e_direct G && flag e 0 && is_none exp &&
                                    existsb (fun tv => negb (existsb (fun fd => match fd_ty fd with Some t => occurs tv t | None => false end)
                                                                     (cl_fields cl))) (cl_tparams cl)
                                 then [mkerr path 26] else []) ++
                                (if Nat.eqb (cl_kind cl) 0 then [] else [mkerr (path) 15]) ++
                         (if Nat.eqb (length ts) (length fts) then [] else [mkerr (path) 13]) ++
                         (if targs_ok (cl_tparams cl) args [] then [] else [mkerr (path) 8]))
                    end
                end
            end
        | 24 => (* FieldAccess *)
            match kids with
            | [r] =>
                let '(tr, er) := chk fu (undirect G) (path ++ [0]) None r in
                match tr with
                | TOk rt =>
                    match find_field 12 rt (name_of_node e) with
                    | Some (ft, _) => (member_ty (usable_receiver rt) ft, er)
                    | None => (TUnk, er ++ (match class_of_ty rt with Some _ => [mkerr (path) 11] | None => [] end))
                    end
                | _ => (TUnk, er)
                end
            | _ => (TUnk, [])
            end
        | 25 => (* FunctionCall: [receiver] ++ args *)
            let has_recv := flag e 2 in
            let is_ref := flag e 0 in
            let targs := present (tys_of e) in
            let '(recv, args) := match has_recv, kids with
                                 | true, r :: a => (Some r, a)
                                 | _, a => (None, a)
                                 end in
            let off := if has_recv then 1 else 0 in
            let '(tr, er) := match recv with
                             | Some r => chk fu (undirect G) (path ++ [0]) None r
                             | None => (TUnk, [])
                             end in
            (* arguments are always visited (scoping), typed against the callee when it is known *)
            let visit_only := fun (_ : unit) =>
                                (fix go (i : nat) (l : list node) : list err :=
                                   match l with
                                   | [] => []
                                   | a :: l' => snd (chk fu (undirect G) (path ++ [i] ++ (if is_callarg a then [0] else [])) None
                                                         (if is_callarg a then match kids_of a with x :: _ => x | [] => a end else a))
                                                ++ go (S i) l'
                                   end) off args in
            if is_ref then
              (* call through a variable / field of function type *)
              match recv with
              | None => (TUnk, (match lookup_var G (name_of_node e) with
                                | Some _ => []
                                | None => match e_cls G with
                                          | Some cl => match find_field 12 (self_type cl) (name_of_node e) with Some _ => [] | None => [mkerr (path) 10] end
                                          | None => [mkerr (path) 10]
                                          end
                                end) ++ visit_only tt)
              | Some _ => (TUnk, er ++ visit_only tt)
              end
            else
              let callee : option (func * list (ty * ty) * bool (* receiver usable *)) :=
                match recv with
                | Some _ =>
                    match tr with
                    | TOk rt => match find_method 12 rt (name_of_node e) with
                                | Some (fn, m) => Some (fn, m, usable_receiver rt)
                                | None => None
                                end
                    | _ => None
                    end
                | None =>
                    match find (fun fn => Nat.eqb (fn_name fn) (name_of_node e)) (e_funcs G) with
                    | Some fn => Some (fn, [], true)
                    | None =>
                        match (match e_cls G with
                               | Some cl => find_method 12 (self_type cl) (name_of_node e)
                               | None => None end) with
                        | Some (fn, m) => Some (fn, m, true)
                        | None => match find (fun fn => Nat.eqb (fn_name fn) (name_of_node e)) topfuncs with
                                  | Some fn => Some (fn, [], true)
                                  | None => None
                                  end
                        end
                    end
                end in
              match callee with
              | None =>
                  (TUnk, er ++ visit_only tt ++
                         (match recv, tr with
                          | Some _, TOk rt => match class_of_ty rt with Some (c, _) => if c <? 90 then [mkerr (path) 10] else [] | None => [] end
                          | Some _, _ => []
                          | None, _ => [mkerr (path) 10]
                          end))
              | Some (fn, m, usable) =>
                  let generic := negb (Nat.eqb (length (fn_tparams fn)) 0) in
                  let explicit := Nat.eqb (length targs) (length (fn_tparams fn)) && generic in
                  let m' := (if explicit then mk_map (fn_tparams fn) targs else []) ++ m in
                  let unknown := (generic && negb explicit) || negb usable in
                  let ers := chk_args 2 m' (fn_params fn) off args unknown in
                  let same_class := match recv, tr with
                                    | None, _ => true
                                    | Some _, TOk rt => match class_of_ty rt, e_cls G with
                                                        | Some (c, _), Some cl => Nat.eqb c (cl_cid cl)
                                                        | _, _ => false
                                                        end
                                    | Some _, _ => false
                                    end in
                  let rec_err := if infer && negb (Nat.eqb (e_cur G) 0) && Nat.eqb (name_of_node e) (e_cur G) && same_class
                                 then [mkerr path 25] else [] in
                  let undet := if infer && e_direct G && flag e 1 && generic && is_none exp &&
                                  existsb (fun tv => negb (existsb (fun p => match fp_ty p with Some t => occurs tv t | None => false end)
                                                                   (fn_params fn))) (fn_tparams fn)
                               then [mkerr path 26] else [] in
                  (if generic && negb explicit then TUnk else member_ty usable (option_map (subst false m') (fn_ret fn)),
                   er ++ ers ++ rec_err ++ undet ++
                   (if explicit && negb (targs_ok (fn_tparams fn) targs m) then [mkerr (path) 8] else []))
              end
        | 26 => match kids with [x] => chk fu G (path ++ [0]) exp x | _ => (TUnk, []) end
        | 27 => (* FunctionReference *)
            let '(_, er) := match kids with [r] => chk fu (undirect G) (path ++ [0]) None r | _ => (TUnk, []) end in
            (read_ty (nth_ty e 0), er)
        | 28 => (* Assignment: [receiver] ++ [expr] *)
            let has_recv := flag e 0 in
            match has_recv, kids with
            | true, [r; x] =>
                let '(tr, e1) := chk fu (undirect G) (path ++ [0]) None r in
                match tr with
                | TOk rt =>
                    match find_field 12 rt (name_of_node e) with
                    | Some (ft, fin) =>
                        (* writing through a projected receiver: a field whose type is the projected
                           parameter itself accepts only the bottom value (out / star) or a value of the
                           lower bound (in); a field type that mentions no projection is checked as usual *)
                        let only_bottom := negb (usable_receiver rt) &&
                                           match ft with Some (TWild Cov _) | Some (TWild _ None) => true | _ => false end in
                        let ft' := if usable_receiver rt then ft
                                   else match ft with
                                        | Some (TWild Contra (Some l)) => Some l
                                        | Some t => if is_wild t || has_wildcards t then None else Some t
                                        | None => None
                                        end in
                        let '(tx, e2) := chk fu (undirect G) (path ++ [1]) ft' x in
                        (TUnk, e1 ++ e2 ++ (if fin then [mkerr (path) 14] else []) ++
                               (if only_bottom then match tx with TOk a => [(path, 7, Some a, ft)] | _ => [] end
                                else chk_assign tx ft' path 7))
                    | None => (TUnk, e1 ++ snd (chk fu (undirect G) (path ++ [1]) None x) ++
                                     (match class_of_ty rt with Some _ => [mkerr (path) 11] | None => [] end))
                    end
                | _ => (TUnk, e1 ++ snd (chk fu (undirect G) (path ++ [1]) None x))
                end
            | false, [x] =>
                let target := match lookup_var G (name_of_node e) with
                              | Some (t, fin, _) => Some (t, fin)
                              | None => None
                              end in
                match target with
                | Some (t, fin) =>
                    let '(tx, e2) := chk fu (undirect G) (path ++ [0]) t x in
                    (TUnk, e2 ++ (if fin then [mkerr (path) 14] else []) ++ (chk_assign tx t (path) 7))
                | None => (TUnk, snd (chk fu (undirect G) (path ++ [0]) None x) ++ [mkerr (path) 9])
                end
            | _, _ => (TUnk, [])
            end
        | 8 => (* Lambda: params ++ [body] *)
            let ps := kids_of_kind kParamDecl e in
            let body := filter (fun c => negb (Nat.eqb (kind_of c) kParamDecl)) kids in
            let G' := {| e_vars := rev (map (fun p => (name_of_node p, nth_ty p 0, true)) ps) ++ e_vars G;
                         e_funcs := e_funcs G; e_cls := e_cls G;
                         e_lambda_depth := length ps; e_in_lambda := true; e_cur := e_cur G; e_direct := false |} in
            let ers := match body with
                       | [b] => let '(tb, eb) := chk fu G' (path ++ [length ps]) (nth_ty e 0) b in
                                eb ++ (match nth_ty e 0 with
                                       | Some rt => if (match rt with TBuiltin u _ => Nat.eqb u (l_unit L) | _ => false end)
                                                       then [] else chk_assign tb (Some rt) path 5
                                       | None => []
                                       end)
                       | _ => []
                       end in
            (read_ty (nth_ty e 1), ers)
        | 7 => (* Block: statements in order; the value is that of the last expression *)
            (fix go (i : nat) (G : env) (seen : list nat) (l : list node) (last : tres) : tres * list err :=
               match l with
               | [] => (last, [])
               | s :: l' =>
                   match kind_of s with
                   | 6 => (* VarDecl *)
                       let vt0 := match nth_ty s 0 with Some t => Some t | None => if infer then None else nth_ty s 1 end in
                       let '(ti, ei) := match kids_of s with [x] => chk fu (direct G (infer && (match nth_ty s 0 with None => true | Some _ => false end))) (path ++ [i; 0]) vt0 x | _ => (TUnk, []) end in
                       let vt := match vt0, ti with
                                 | Some t, _ => Some t
                                 | None, TOk t => if infer then Some t else nth_ty s 1
                                 | None, TBot => if infer then Some TNothing else nth_ty s 1   (* val y = TODO(): a compiler infers Nothing *)
                                 | None, _ => nth_ty s 1
                                 end in
                       let dup := if existsb (Nat.eqb (name_of_node s)) seen then [mkerr (path ++ [i]) 21] else [] in
                       let kwe := if existsb (Nat.eqb (name_of_node s)) kw then [mkerr (path ++ [i]) 22] else [] in
                       let G' := {| e_vars := (name_of_node s, vt, flag s 0) :: e_vars G; e_funcs := e_funcs G; e_cls := e_cls G;
                                    e_lambda_depth := S (e_lambda_depth G); e_in_lambda := e_in_lambda G; e_cur := e_cur G; e_direct := false |} in
                       let '(r, er) := go (S i) G' (name_of_node s :: seen) l' TUnk in
                       (r, ei ++ (chk_assign ti (vt) (path ++ [i]) 1) ++ dup ++ kwe ++ er)
                   | 4 => (* nested function *)
                       let fn := mk_func s in
                       let G' := {| e_vars := e_vars G; e_funcs := fn :: e_funcs G; e_cls := e_cls G;
                                    e_lambda_depth := e_lambda_depth G; e_in_lambda := e_in_lambda G; e_cur := e_cur G; e_direct := false |} in
                       let ef := chk_func fu G' (path ++ [i]) s (l_java_lambda L) in
                       let dup := if existsb (Nat.eqb (name_of_node s)) seen then [mkerr (path ++ [i]) 21] else [] in
                       let '(r, er) := go (S i) G' (name_of_node s :: seen) l' TUnk in
                       (r, ef ++ dup ++ er)
                   | _ =>
                       let '(t, e1) := chk fu (direct G (e_direct G && (match l' with [] => true | _ => false end))) (path ++ [i]) (match l' with [] => exp | _ => None end) s in
                       let '(r, er) := go (S i) G seen l' t in
                       (r, e1 ++ er)
                   end
               end) 0 G [] kids TUnk
        | _ => (TUnk, [])
        end
    end
  (* a function declaration: parameters (and their defaults), body against the result type *)
  with chk_func (fuel : nat) (G : env) (path : list nat) (f : node) (as_lambda : bool) {struct fuel} : list err :=
    match fuel with
    | O => []
    | S fu =>
        let ps := kids_of_kind kParamDecl f in
        let body := filter (fun c => negb (Nat.eqb (kind_of c) kParamDecl)) (kids_of f) in
        let defaults :=
          flat_map (fun ip => match kids_of (snd ip) with
                              | [d] => let '(td, ed) := chk fu (undirect G) (path ++ [fst ip; 0]) (nth_ty (snd ip) 0) d in
                                       ed ++ (chk_assign td ((nth_ty (snd ip) 0)) (path ++ [fst ip]) 19)
                              | _ => []
                              end) (combine (seq 0 (length ps)) ps) in
        let dupp := if Nat.eqb (length ps) (length (nodup Nat.eq_dec (map name_of_node ps))) then [] else [mkerr (path) 21] in
        let G' := {| e_vars := rev (map (fun p => (name_of_node p, nth_ty p 0, true)) ps) ++ e_vars G;
                     e_funcs := e_funcs G; e_cls := e_cls G;
                     e_lambda_depth := if as_lambda then length ps else length ps + length (e_vars G);
                     e_in_lambda := as_lambda || e_in_lambda G;
                     e_cur := if infer && (match nth_ty f 0 with None => true | Some _ => false end) then name_of_node f else 0;
                     e_direct := infer && (match nth_ty f 0 with None => true | Some _ => false end) |} in
        let erased := infer && (match nth_ty f 0 with None => true | Some _ => false end) in
        let rt := if erased then None else func_ret f in
        let is_unit := match func_ret f with Some (TBuiltin u _) => Nat.eqb u (l_unit L) | _ => false end in
        match body with
        | [b] =>
            let '(tb, eb) := chk fu G' (path ++ [length ps]) (if is_unit then None else rt) b in
            defaults ++ dupp ++ eb ++ (if is_unit || erased then [] else chk_assign tb rt path 5)
        | _ => defaults ++ dupp
        end
    end.
End Checker.

(* ---------- whole programs ---------- *)

Definition fresh_env (c : option cls) (vars : list (nat * option ty * bool)) : env :=
  {| e_vars := vars; e_funcs := []; e_cls := c; e_lambda_depth := 0; e_in_lambda := false; e_cur := 0; e_direct := false |}.

(* inherited abstract functions of a class: walks the supertypes *)
Fixpoint abstract_funcs (fuel : nat) (cs : list cls) (t : ty) : list (func * list (ty * ty)) :=
  match fuel with
  | O => []
  | S fu =>
      match t with
      | TClass c | TApp c _ =>
          match find_cls cs c with
          | None => []
          | Some cl =>
              let args := match t with TApp _ a => a | _ => [] end in
              let m := mk_map (cl_tparams cl) args in
              map (fun fn => (fn, m)) (filter fn_abstract (cl_funcs cl)) ++
              flat_map (fun s => map (fun fm => (fst fm, map (fun kv => (fst kv, subst false m (snd kv))) (snd fm)))
                                     (filter (fun fm => negb (existsb (fun g => Nat.eqb (fn_name g) (fn_name (fst fm)) && negb (fn_abstract g)) (cl_funcs cl)))
                                             (abstract_funcs fu cs s))) (cl_supers cl)
          end
      | _ => []
      end
  end.

(* ---------- type variables in scope (code 24) ----------
   every type variable occurring in a type attribute of a node must be a type parameter of an
   enclosing class or function declaration (bounds may mention the other parameters) *)
Fixpoint tvars_of (t : ty) : list nat :=
  match t with
  | TVar x _ None => [x]
  | TVar x _ (Some b) => x :: tvars_of b
  | TApp _ l => flat_map tvars_of l
  | TWild _ (Some b) => tvars_of b
  | _ => []
  end.

Definition declared_tvars (n : node) : list nat :=
  if Nat.eqb (kind_of n) kClassDecl then flat_map (fun t => match t with TVar x _ _ => [x] | _ => [] end) (present (tys_of n))
  else if Nat.eqb (kind_of n) kFuncDecl then
    flat_map (fun t => match t with TVar x _ _ => [x] | _ => [] end) (present (skipn 2 (tys_of n)))
  else [].

Fixpoint tv_scope (scope : list nat) (path : list nat) (n : node) {struct n} : list err :=
  match n with
  | N k nm num fl tys kids =>
      let scope' := declared_tvars n ++ scope in
      (if forallb (fun x => existsb (Nat.eqb x) scope') (flat_map tvars_of (present tys)) then [] else [mkerr path 24]) ++
      (fix go (i : nat) (l : list node) : list err :=
         match l with
         | [] => []
         | c :: l' => tv_scope scope' (path ++ [i]) c ++ go (S i) l'
         end) 0 kids
  end.

Definition tv_scope_all (p : node) : list err :=
  match p with N _ _ _ _ _ kids =>
    (fix go (i : nat) (l : list node) : list err :=
       match l with [] => [] | c :: l' => tv_scope [] [i] c ++ go (S i) l' end) 0 kids
  end.

(* a use-site projection on a type parameter X that IS the bound of another parameter (class Foo<X, Y : X>), while that
   other parameter has a concrete argument: Foo<out Number, Int> -- the argument of Y would have to be within the
   captured X, which no nameable type is (javac: "type argument Integer is not within bounds of type-variable Y").
   A bound that mentions X only as a type argument (Y : Box<X>, Y : Box<out X>) is not covered: javac substitutes
   the projection textually there (Foo<? extends Number, Box<Integer>> is accepted for Y extends Box<? extends X>). *)
Definition dep_proj_ok (cs : list cls) (t : ty) : bool :=
  match t with
  | TApp c args =>
      match find (fun cl => Nat.eqb (cl_cid cl) c) cs with
      | Some cl =>
          let ps := cl_tparams cl in
          if negb (Nat.eqb (length ps) (length args)) then true
          else forallb (fun ia => match snd ia with
                                  | TWild _ (Some _) =>
                                      forallb (fun jb => match tvar_bound (fst jb) with
                                                         | Some b => negb (match b, fst ia with TVar x _ _, TVar y _ _ => Nat.eqb x y | _, _ => false end) ||
                                                                     is_wild (snd jb)
                                                         | None => true
                                                         end) (combine ps args)
                                  | _ => true
                                  end) (combine ps args)
      | None => true
      end
  | _ => true
  end.

Definition wf_types (cs : list cls) (p : node) : list err :=
  map (fun t => (([] : list nat), 27, Some t, (None : option ty)))
      (filter (fun t => negb (dep_proj_ok cs t)) (type_occurrences p)).

Fixpoint dedup_ty (seen l : list ty) : list ty :=
  match l with
  | [] => []
  | t :: l' => if existsb (ty_eqb t) seen then dedup_ty seen l' else t :: dedup_ty (t :: seen) l'
  end.

Definition check_program (infer strict : bool) (L : lang) (cn : list (nat * nat)) (bclasses : ctable) (bt : btable) (arr : option nat)
           (kw : list nat) (p : node) : list err :=
  let cs := classes_of cn p in
  let w := world_of cs bclasses bt arr in
  let topfuncs := map mk_func (kids_of_kind kFuncDecl p) in
  let fuel := 60 in
  let topvars0 := map (fun v => (name_of_node v, match nth_ty v 0 with Some t => Some t | None => nth_ty v 1 end, flag v 0))
                      (kids_of_kind kVarDecl p) in
  (* inference mode: a top-level variable whose declared type was removed gets the type synthesised
     for its initializer (typed in the environment of the recorded types) *)
  let topvars :=
    if infer then
      map (fun v => (name_of_node v,
                     match nth_ty v 0 with
                     | Some t => Some t
                     | None => match kids_of v with
                               | [x] => match fst (chk infer false L w cs topfuncs topvars0 kw fuel (fresh_env None []) [] None x) with
                                        | TOk t => Some t
                                        | TBot => Some TNothing
                                        | TUnk => nth_ty v 1
                                        end
                               | _ => nth_ty v 1
                               end
                     end, flag v 0)) (kids_of_kind kVarDecl p)
    else topvars0 in
  flat_map
    (fun id =>
       let '(i, d) := id in
       match kind_of d with
       | 6 => (* top-level variable *)
           let '(ti, ei) := match kids_of d with
                            | [x] => chk infer strict L w cs topfuncs topvars kw fuel
                                         (direct (fresh_env None []) (infer && (match nth_ty d 0 with None => true | Some _ => false end))) [i; 0]
                                         (match nth_ty d 0 with Some t => Some t | None => if infer then None else nth_ty d 1 end) x
                            | _ => (TUnk, []) end in
           ei ++ (chk_assign strict L w ti (match nth_ty d 0 with Some t => Some t | None => if infer then None else nth_ty d 1 end) ([i]) 1)
              ++ (if existsb (Nat.eqb (name_of_node d)) kw then [mkerr ([i]) 22] else [])
       | 4 => chk_func infer strict L w cs topfuncs topvars kw fuel (fresh_env None []) [i] d false
              ++ (if existsb (Nat.eqb (name_of_node d)) kw then [mkerr ([i]) 22] else [])
       | 1 => (* class *)
           let cl := mk_cls cn d in
           let G := fresh_env (Some cl) [] in
           (* super-constructor arguments; final superclasses *)
           flat_map (fun js =>
                       let '(j, s) := js in
                       if Nat.eqb (kind_of s) kSuperInst then
                         match nth_ty s 0 with
                         | Some st =>
                             match st with
                             | TClass c | TApp c _ =>
                                 match find_cls cs c with
                                 | Some scl =>
                                     (if cl_final scl then [mkerr ([i; j]) 18] else []) ++
                                     (let m := mk_map (cl_tparams scl) (match st with TApp _ a => a | _ => [] end) in
                                      let fts := map (fun fd => option_map (subst false m) (fd_ty fd)) (cl_fields scl) in
                                      if flag s 0 then
                                        (if Nat.eqb (length (kids_of s)) (length fts) then [] else [mkerr ([i; j]) 13]) ++
                                        flat_map (fun ka =>
                                                    let '(k, (a, ft)) := ka in
                                                    let '(ta, ea) := chk infer strict L w cs topfuncs topvars kw fuel G [i; j; k] ft a in
                                                    ea ++ (chk_assign strict L w ta (ft) ([i; j; k]) 4))
                                                 (combine (seq 0 (length (kids_of s))) (combine (kids_of s) fts))
                                      else [])
                                 | None => if c <? 90 then [mkerr ([i; j]) 12] else []
                                 end
                             | _ => []
                             end
                         | None => []
                         end
                       else if Nat.eqb (kind_of s) kFuncDecl then
                         chk_func infer strict L w cs topfuncs topvars kw fuel G [i; j] s false ++
                         (* an overriding function has the parameter types of the function it overrides (with the
                            supertype's arguments substituted) and an assignable return type *)
                         (if flag s 1 then
                            let fn := mk_func s in
                            match (fix up (l : list ty) : option (func * list (ty * ty)) :=
                                     match l with
                                     | [] => None
                                     | st :: l' => match find_method cs 12 st (fn_name fn) with Some r => Some r | None => up l' end
                                     end) (cl_supers cl) with
                            | None => [mkerr [i; j] 17]
                            | Some (sfn, m) =>
                                if negb (Nat.eqb (length (fn_tparams sfn)) (length (fn_tparams fn))) then [mkerr [i; j] 17]
                                else if negb (Nat.eqb (length (fn_tparams sfn)) 0) then []
                                else if negb (Nat.eqb (length (fn_params fn)) (length (fn_params sfn))) then [mkerr [i; j] 17]
                                else
                                  (if forallb (fun pq => match fp_ty (fst pq), fp_ty (snd pq) with
                                                         | Some a, Some b0 => py_eqb a (subst false m b0)
                                                         | _, _ => true
                                                         end) (combine (fn_params fn) (fn_params sfn))
                                   then [] else [mkerr [i; j] 17]) ++
                                  (match fn_ret fn with
                                   | Some r => chk_assign strict L w (read_ty (Some r)) (option_map (subst false m) (fn_ret sfn)) [i; j] 17
                                   | None => []
                                   end)
                            end
                          else [])
                       else [])
                    (combine (seq 0 (length (kids_of d))) (kids_of d)) ++
           (* a regular class implements every inherited abstract function *)
           (if Nat.eqb (cl_kind cl) 0 then
              flat_map (fun s => flat_map (fun fm => if existsb (fun g => Nat.eqb (fn_name g) (fn_name (fst fm)) && negb (fn_abstract g)) (cl_funcs cl)
                                                     then [] else [mkerr ([i]) 16])
                                          (abstract_funcs 10 cs s)) (cl_supers cl)
            else []) ++
           (if existsb (Nat.eqb (name_of_node d)) kw then [mkerr ([i]) 22] else [])
       | _ => []
       end)
    (combine (seq 0 (length (kids_of p))) (kids_of p)) ++ tv_scope_all p ++ wf_types cs p ++
    map (fun t => (([] : list nat), 28, Some t, (None : option ty)))
        (filter (fun t => negb (type_bounds_ok strict L w cs t))
                (dedup_ty [] (filter (fun t => match t with
                                               | TApp c _ => match find (fun cl => Nat.eqb (cl_cid cl) c) cs with
                                                             | Some cl => existsb (fun tp => match tvar_bound tp with Some _ => true | None => false end) (cl_tparams cl)
                                                             | None => false
                                                             end
                                               | _ => false
                                               end) (type_occurrences p)))).

(* the errors that belong to one property *)
Definition only_codes (codes : list nat) (l : list err) : list err :=
  filter (fun e => existsb (Nat.eqb (snd (fst (fst e)))) codes) l.

Definition typing_codes : list nat := [1; 2; 3; 4; 5; 6; 7; 8; 16; 17; 18; 19; 20; 27; 28].
Definition scoping_codes : list nat := [9; 10; 11; 12; 13; 14; 15; 21; 22; 23; 24].

(* what the erasure check judges: the typing codes plus the two inference-mode codes *)
Definition erasure_codes : list nat := typing_codes ++ [25; 26].
