(* IR/WorkProofs.v -- proofs about IR/Work.v (C18: bounded work). *)
From Coq Require Import List Arith Bool Lia.
Import ListNotations.
From Heph Require Import IR.Work.

(* ---------- (1) the schedule loop terminates after exactly the remaining number of calls ---------- *)

(* 1-based numbers of the transformations that produce a program, given the oracle *)
Fixpoint produced (base : nat) (n : nat) (o : list bool) : list nat :=
  match n with
  | 0 => []
  | S n' => let '(b, o') := next o in (if b then [S base] else []) ++ produced (S base) n' o'
  end.

Lemma cp_loop_spec : forall n p o calls applied,
    n = slen p - cur p ->
    cp_loop n p o calls applied =
    Some ({| cur := Nat.max (cur p) (slen p); slen := slen p |}, calls + n, applied ++ produced (cur p) n o).
Proof.
  induction n as [|n IH]; intros p o calls applied Hn.
  - destruct p as [c l]; cbn [cur slen] in *.
    assert (Hct : can_transform {| cur := c; slen := l |} = false).
    { unfold can_transform; cbn [cur slen]. apply Nat.ltb_ge. lia. }
    cbn [cp_loop]. rewrite Hct. cbn [produced].
    rewrite app_nil_r, Nat.add_0_r. f_equal. f_equal. f_equal. f_equal. cbn [cur slen]. lia.
  - destruct p as [c l]; cbn [cur slen] in *.
    assert (Hct : can_transform {| cur := c; slen := l |} = true).
    { unfold can_transform; cbn [cur slen]. apply Nat.ltb_lt. lia. }
    cbn [cp_loop]. rewrite Hct. cbn [produced].
    destruct (next o) as [b o'] eqn:Hnx.
    unfold transform_program; cbn [cur slen].
    rewrite (IH {| cur := S c; slen := l |} o' (S calls)); cbn [cur slen]; [|lia].
    f_equal. f_equal; [f_equal|].
    + f_equal; lia.
    + lia.
    + destruct b; rewrite <- ?app_assoc; reflexivity.
Qed.

Lemma cp_loop_terminates : forall p o,
    cur p <= slen p ->
    exists applied,
      cp_loop (slen p - cur p) p o 0 [] = Some ({| cur := slen p; slen := slen p |}, slen p - cur p, applied).
Proof.
  intros p o H. rewrite (cp_loop_spec (slen p - cur p) p o 0 []) by reflexivity.
  exists (produced (cur p) (slen p - cur p) o). cbn [app]. f_equal. f_equal. f_equal.
  f_equal. lia.
Qed.

Lemma cp_loop_more_fuel : forall n p o calls applied,
    slen p - cur p <= n ->
    cp_loop n p o calls applied = cp_loop (slen p - cur p) p o calls applied.
Proof.
  induction n as [|n IH]; intros p o calls applied H.
  - replace (slen p - cur p) with 0 by lia. reflexivity.
  - destruct (slen p - cur p) as [|k] eqn:Hk.
    + cbn [cp_loop]. assert (can_transform p = false) as ->; [|reflexivity].
      unfold can_transform. apply Nat.ltb_ge. lia.
    + cbn [cp_loop]. destruct (can_transform p); [|reflexivity].
      destruct (next o) as [b o']. unfold transform_program.
      rewrite IH; cbn [cur slen]; [|lia].
      replace (slen p - S (cur p)) with k by lia. reflexivity.
Qed.

(* every transformation of the schedule is attempted exactly once, whatever the outcomes *)
Lemma cp_loop_calls : forall n p o k q a,
    cp_loop n p o 0 [] = Some (q, k, a) -> k = slen p - cur p /\ can_transform q = false.
Proof.
  intros n p o k q a H.
  destruct (le_lt_dec (slen p - cur p) n) as [Hle|Hlt].
  - rewrite cp_loop_more_fuel in H by exact Hle.
    rewrite (cp_loop_spec _ p o 0 []) in H by reflexivity.
    inversion H; subst. split; [reflexivity|].
    unfold can_transform; cbn [cur slen]. apply Nat.ltb_ge. lia.
  - exfalso. revert p o H Hlt. generalize (@nil nat). generalize 0.
    induction n as [|n IH]; intros c ap p o H Hlt.
    + cbn [cp_loop] in H. assert (can_transform p = true) as E; [|rewrite E in H; discriminate].
      unfold can_transform. apply Nat.ltb_lt. lia.
    + cbn [cp_loop] in H. assert (can_transform p = true) as E.
      { unfold can_transform. apply Nat.ltb_lt. lia. }
      rewrite E in H. destruct (next o) as [b o']. unfold transform_program in H.
      apply IH in H; [exact H|]. cbn [cur slen]. lia.
Qed.

(* ---------- (2) the erasure search performs at most budget + 1 feasibility checks ---------- *)

Lemma search_checks_le_total : forall results budget i k,
    snd (search budget i results k) <= k + length results.
Proof.
  induction results as [|r rest IH]; intros budget i k; cbn [search length].
  - cbn. lia.
  - destruct (negb (budget =? 0) && (budget <? i)); cbn [snd]; [lia|].
    destruct r; cbn [snd]; [lia|].
    specialize (IH budget (S i) (S k)). lia.
Qed.

Lemma search_checks_bounded_gen : forall results budget i k,
    0 < budget ->
    snd (search budget i results k) <= k + (S budget - i).
Proof.
  induction results as [|r rest IH]; intros budget i k Hb; cbn [search].
  - cbn. lia.
  - destruct (budget =? 0) eqn:E0; [apply Nat.eqb_eq in E0; lia|]. cbn [negb andb].
    destruct (budget <? i) eqn:Elt; cbn [snd]; [lia|].
    apply Nat.ltb_ge in Elt.
    destruct r; cbn [snd]; [lia|].
    specialize (IH budget (S i) (S k) Hb). lia.
Qed.

Lemma search_checks_bounded : forall results budget,
    0 < budget -> snd (search budget 0 results 0) <= S budget.
Proof.
  intros results budget Hb. pose proof (search_checks_bounded_gen results budget 0 0 Hb). lia.
Qed.

(* what is applied is the first feasible combination, and it lies within the budget *)
Lemma search_finds_first_gen : forall results budget i k j,
    fst (search budget i results k) = Some j ->
    i <= j /\ nth (j - i) results false = true /\
    (forall m, m < j - i -> nth m results false = false) /\
    (budget = 0 \/ j <= budget).
Proof.
  induction results as [|r rest IH]; intros budget i k j H; cbn [search] in H.
  - discriminate.
  - destruct (negb (budget =? 0) && (budget <? i)) eqn:Ecut; cbn [fst] in H; [discriminate|].
    destruct r.
    + cbn [fst] in H. inversion H; subst j. rewrite Nat.sub_diag. cbn [nth].
      split; [lia|]. split; [reflexivity|]. split; [intros m Hm; lia|].
      apply andb_false_iff in Ecut. destruct Ecut as [E|E].
      * left. apply negb_false_iff, Nat.eqb_eq in E. exact E.
      * right. apply Nat.ltb_ge in E. exact E.
    + apply IH in H. destruct H as (Hij & Hn & Hall & Hb).
      split; [lia|]. replace (j - i) with (S (j - S i)) by lia. cbn [nth].
      split; [exact Hn|]. split; [|exact Hb].
      intros m Hm. destruct m as [|m]; [reflexivity|]. cbn [nth]. apply Hall. lia.
Qed.

Lemma search_finds_first : forall results budget j,
    fst (search budget 0 results 0) = Some j ->
    nth j results false = true /\ (forall m, m < j -> nth m results false = false) /\ (budget = 0 \/ j <= budget).
Proof.
  intros results budget j H. apply search_finds_first_gen in H.
  rewrite Nat.sub_0_r in H. destruct H as (_ & A & B & C). auto.
Qed.

(* nothing is applied only if no combination within the budget is feasible *)
Lemma search_none_gen : forall results budget i k m,
    fst (search budget i results k) = None ->
    m < length results -> (budget = 0 \/ i + m <= budget) -> nth m results false = false.
Proof.
  induction results as [|r rest IH]; intros budget i k m H Hm Hb; cbn [length] in Hm; [lia|].
  cbn [search] in H.
  destruct (negb (budget =? 0) && (budget <? i)) eqn:Ecut.
  - apply andb_true_iff in Ecut. destruct Ecut as [E1 E2].
    apply negb_true_iff, Nat.eqb_neq in E1. apply Nat.ltb_lt in E2. lia.
  - destruct r; cbn [fst] in H; [discriminate|].
    destruct m as [|m]; [reflexivity|]. cbn [nth].
    apply (IH budget (S i) (S k) m H); [lia|]. destruct Hb; [left; assumption|right; lia].
Qed.

Lemma search_none : forall results budget m,
    fst (search budget 0 results 0) = None ->
    m < length results -> (budget = 0 \/ m <= budget) -> nth m results false = false.
Proof.
  intros results budget m H Hm Hb. apply (search_none_gen results budget 0 0 m H Hm). exact Hb.
Qed.

(* ---------- (3) gen_new's cut ---------- *)

Lemma gen_bottom_ignores_only_leaves : forall sn d m pr ol ol',
    gen_bottom_rule sn d m pr ol = gen_bottom_rule sn d m pr ol'.
Proof. reflexivity. Qed.

Lemma gen_bottom_forced : forall sn d m ol,
    2 * m < d -> gen_bottom_rule sn d m false ol = true.
Proof.
  intros sn d m ol H. unfold gen_bottom_rule.
  apply Nat.ltb_lt in H. rewrite H. cbn. apply orb_true_r.
Qed.
