(* IR/PrintScala.v -- a Gallina model of src/translators/scala.py (ScalaTranslator).
   Definitions only.  The structure follows IR/PrintKotlin.v (the two Python files are siblings);
   nothing is shared with it: this file is self-contained.

   INPUT.  A printing-oriented tree `pnode` = PN kind children, one node per AST object that
   the translator visits, where `children` is exactly `node.children()` (in that order) and
   `kind` carries the attributes the translator reads (names, literals, operators, flags, the
   numbers of params / fields / ... by which the implementation splits `children_res`, and
   the types as `ptype`).  harness/ir2print_scala.py produces these terms from ast.Program.

   STATE.  The translator object is modelled explicitly: record `st` (ident, is_unit,
   is_lambda, _cast_integers, _children_res, _nodes_stack, context) is what the visit_* methods
   of the nodes read and write; record `translator` adds `program`, which only visit_program
   assigns.  Every visit_* method is a state-passing function st -> st transcribed statement by
   statement (visit_super_instantiation sets ident to 0 and never restores it, exactly as in
   kotlin.py).  The string that a method builds from the popped children results is factored
   out as a pure function `*_text` of those results and of the state values it reads; where
   the format strings contain brackets the text functions use `paren` / `brace` / `brack`, so
   that "(if (" is T "(" ++ T "if " ++ T "(" ++ ... -- the flattened text is the same.
   `children_res` and `nodes_stack` are stored REVERSED (head = last element of the Python list).

   OUTPUT.  Texts are lists of segments (`segs`); the text is `flatten`.  A segment is plain
   text or a marked piece: the name of a declaration in declaration position, a literal, an
   operator.  The marks do not influence the text; they are what the C12 theorems talk about.

   Differences from KotlinTranslator that matter for the properties:
     * ScalaTranslator never consults self.context (no tu.is_sam): `context` only records that
       visit_program assigned it; there is no SAM table;
     * visit_lambda sets is_lambda = True unconditionally and does not read _nodes_stack;
       visit_func_ref does (the prefix "val _y = ");
     * visit_is prints `e.isInstanceOf[T]` whatever the operator: `is` and `!is` have the same
       text (Properties_C12_scala.v: scala_is_negation_not_printed_refuted);
     * visit_new prints "new " IN FRONT of the indentation, and `1.asInstanceOf[Any]` for Any;
     * visit_func_call prints the name between backquotes and, without a receiver, splits a
       dotted name at its last dot and prints the two parts WITHOUT the dot;
     * visit_equality_expr does not switch _cast_integers on.

   Exceptions (IndexError / AttributeError on malformed trees) are not modelled: the model is
   total and uses defaults.  Strings are byte strings (UTF-8); `s[k:]` of the implementation
   acts on code points, so the model is exact where the cut prefix is ASCII. *)
From Coq Require Import String Ascii List Arith Bool.
Import ListNotations.
Open Scope string_scope.
Open Scope list_scope.

(* ------------------------------------------------------------------------------------ *)
(* strings                                                                                *)

Definition nl : string := String (ascii_of_nat 10) EmptyString.

Fixpoint spaces (n : nat) : string :=
  match n with 0 => EmptyString | S k => String " "%char (spaces k) end.

Definition str_empty (s : string) : bool :=
  match s with EmptyString => true | _ => false end.

Fixpoint join (sep : string) (l : list string) : string :=
  match l with
  | [] => EmptyString
  | x :: r => match r with [] => x | _ => (x ++ sep ++ join sep r)%string end
  end.

Fixpoint string_drop (n : nat) (s : string) : string :=
  match n with
  | 0 => s
  | S k => match s with EmptyString => EmptyString | String _ r => string_drop k r end
  end.

(* Python `s.rsplit(".", 1)`: None when s has no dot, else (before the last dot, after it) *)
Fixpoint rsplit_dot (s : string) : option (string * string) :=
  match s with
  | EmptyString => None
  | String a r =>
      match rsplit_dot r with
      | Some (x, y) => Some (String a x, y)
      | None => if Ascii.eqb a "."%char then Some (EmptyString, r) else None
      end
  end.

(* ------------------------------------------------------------------------------------ *)
(* segments                                                                               *)

Inductive dkind := DClass | DField | DFunc | DParam | DTypeParam | DVar.

Inductive seg :=
| Txt (s : string)
| Decl (k : dkind) (name : string)     (* a declared name, in declaration position *)
| Lit (s : string)                      (* the text of a literal *)
| Op (s : string).                      (* the text of an operator *)

Definition segs := list seg.

Definition seg_text (sg : seg) : string :=
  match sg with Txt s => s | Decl _ s => s | Lit s => s | Op s => s end.

Fixpoint flatten (l : segs) : string :=
  match l with [] => EmptyString | sg :: r => (seg_text sg ++ flatten r)%string end.

Definition T (s : string) : segs := [Txt s].

(* Python `if some_str:` *)
Definition segs_empty (l : segs) : bool := forallb (fun sg => str_empty (seg_text sg)) l.

Fixpoint joins (sep : segs) (l : list segs) : segs :=
  match l with
  | [] => []
  | x :: r => match r with [] => x | _ => x ++ sep ++ joins sep r end
  end.

(* Python `s[n:]` on the flattened text *)
Fixpoint drop_segs (l : segs) (n : nat) : segs :=
  match n with
  | 0 => l
  | _ => match l with
         | [] => []
         | sg :: r =>
             let len := String.length (seg_text sg) in
             if Nat.leb len n then drop_segs r (n - len)
             else Txt (string_drop n (seg_text sg)) :: r
         end
  end.

(* ------------------------------------------------------------------------------------ *)
(* types as the translator sees them                                                      *)

(* the class of a non-parameterized, non-wildcard type object: the scala_types builtins the
   translator compares with (exact class; Builtin.__eq__ compares classes), a type parameter,
   an unapplied type constructor (also the ones that are builtins: sc.ArrayType ...), any other
   Builtin, a SimpleClassifier, anything else *)
Inductive tcls :=
| CUnit | CLong | CShort | CByte | CNumber | CFloat | CAny
| CTypeVar | CTypeCon | CBuiltin | CSimple | COther.

Inductive ptype :=
| TName (c : tcls) (name : string)
| TWild (variance : nat) (bound : option ptype)                 (* types.WildCardType *)
| TApp (name : string) (can_infer : bool) (args : list ptype).  (* types.ParameterizedType *)

(* ScalaTranslator.get_type_name together with type_arg2str *)
Fixpoint type_name (t : ptype) : string :=
  match t with
  | TName _ n => n
  | TWild _ b => match b with Some t' => type_name t' | None => EmptyString end
  | TApp n _ args =>
      (n ++ "[" ++
       join ", " (map (fun a =>
                         match a with
                         | TWild v b =>
                             match v with
                             | 0 => "?"
                             | 1 => "? <: " ++ match b with Some t' => type_name t' | None => EmptyString end
                             | _ => "? >: " ++ match b with Some t' => type_name t' | None => EmptyString end
                             end
                         | _ => type_name a
                         end) args) ++ "]")%string
  end.

(* the attribute `.name` of a type object *)
Definition ptype_dot_name (t : ptype) : string :=
  match t with TName _ n => n | TWild _ _ => "*" | TApp n _ _ => n end.

(* Type.has_type_variables(): AbstractType (type parameters, type constructors) True, Builtin /
   SimpleClassifier False, WildCardType `bound and bound.has_type_variables()`, ParameterizedType
   any(...) over the type arguments *)
Fixpoint has_tvars (t : ptype) : bool :=
  match t with
  | TName c _ => match c with CTypeVar | CTypeCon => true | _ => false end
  | TWild _ b => match b with Some t' => has_tvars t' | None => false end
  | TApp _ _ args => existsb has_tvars args
  end.

(* Type.is_type_var() *)
Definition is_tvar (t : ptype) : bool :=
  match t with TName CTypeVar _ => true | _ => false end.

(* `t == sc.Unit`, `t == sc.Any` *)
Definition is_unit_ty (t : ptype) : bool :=
  match t with TName CUnit _ => true | _ => false end.

Definition is_any_ty (t : ptype) : bool :=
  match t with TName CAny _ => true | _ => false end.

Definition opt_is_unit (t : option ptype) : bool :=
  match t with Some t' => is_unit_ty t' | None => false end.

(* array_type.type_args[0] *)
Definition ty_arg0 (t : ptype) : option ptype :=
  match t with TApp _ _ (a :: _) => Some a | _ => None end.

Definition ty_arg0_name (t : ptype) : string :=
  match ty_arg0 t with Some a => type_name a | None => EmptyString end.

Definition ty_arg0_has_tvars (t : ptype) : bool :=
  match ty_arg0 t with Some a => has_tvars a | None => false end.

Definition ty_arg0_is_tvar (t : ptype) : bool :=
  match ty_arg0 t with Some a => is_tvar a | None => false end.

Definition ty_can_infer (t : ptype) : bool :=
  match t with TApp _ ci _ => ci | _ => false end.

(* ------------------------------------------------------------------------------------ *)
(* the tree                                                                               *)

Inductive binop_cls := BLogical | BEquality | BComparison | BArith.

Inductive pkind :=
| KBlock (is_func_block : bool)
| KSuper (class_type : ptype) (args_none : bool)
| KClass (name : string) (class_type : nat) (is_final : bool) (nfields nsupers nfuncs : nat)
| KTypeParam (name : string) (variance : nat) (bound : option ptype)
| KVarDecl (name : string) (is_final : bool) (var_type : option ptype) (inferred : ptype)
| KCallArg (name : option string)
| KField (name : string) (ftype : ptype) (is_final can_override override : bool)
| KParam (name : string) (param_type : ptype) (vararg : bool)
| KFunc (name : string) (ret_type : option ptype) (inferred : ptype)
        (is_final is_method override has_body : bool) (nparams ntparams : nat)
        (* is_method: func_type == FunctionDeclaration.CLASS_METHOD *)
| KLambda (ret_type : option ptype) (nparams : nat) (has_body : bool)
| KBottom (t : option ptype)
| KInt (lit : string) (integer_type : option ptype)
| KReal (lit : string) (real_type : option ptype)
| KChar (lit : string)
| KString (lit : string)
| KBool (lit : string)
| KArray (array_type : ptype) (length : nat)
| KVariable (name : string)
| KBinOp (c : binop_cls) (op : string) (is_not : bool)
| KCond
| KIs (op : string) (is_not : bool) (rexpr : ptype)
| KNew (class_type : ptype)
| KFieldAccess (field : string)
| KFuncRef (func : string)
| KFuncCall (func : string) (type_args : list ptype) (can_infer has_receiver : bool)
| KAssign (name : string) (has_receiver : bool).

Inductive pnode := PN (k : pkind) (children : list pnode).

Definition kind_of (n : pnode) : pkind := match n with PN k _ => k end.
Definition children_of (n : pnode) : list pnode := match n with PN _ cs => cs end.

Record pprogram := mkProgram {
  decls : list pnode        (* Program.children() *)
}.

Definition is_block_kind (k : pkind) : bool := match k with KBlock _ => true | _ => false end.
Definition is_bottom_kind (k : pkind) : bool := match k with KBottom _ => true | _ => false end.
(* isinstance(x, (ast.FunctionReference, ast.Lambda)) *)
Definition is_ref_or_lambda_kind (k : pkind) : bool :=
  match k with KFuncRef _ | KLambda _ _ _ => true | _ => false end.

(* isinstance(children[-1], ast.Block) *)
Definition last_is_block (cs : list pnode) : bool :=
  match rev cs with c :: _ => is_block_kind (kind_of c) | [] => false end.

(* isinstance(children[0], ast.BottomConstant) *)
Definition first_is_bottom (cs : list pnode) : bool :=
  match cs with c :: _ => is_bottom_kind (kind_of c) | [] => false end.

(* isinstance(children[i], (ast.FunctionReference, ast.Lambda)) *)
Definition nth_is_ref_or_lambda (i : nat) (cs : list pnode) : bool :=
  match nth_error cs i with Some c => is_ref_or_lambda_kind (kind_of c) | None => false end.

(* str(Operator) *)
Definition op_str (op : string) (is_not : bool) : string :=
  if is_not then ("!" ++ op)%string else op.

(* ------------------------------------------------------------------------------------ *)
(* the translator object                                                                  *)

Record st := mkSt {
  ident : nat;
  is_unit : bool;
  is_lambda : bool;
  cast_integers : bool;
  children_res : list segs;            (* _children_res, reversed *)
  nodes_stack : list (option pkind);   (* _nodes_stack, reversed *)
  context : option pprogram            (* self.context: None, or the context of that program;
                                          assigned by visit_program, never read *)
}.

Record translator := mkTr {
  tst : st;
  program : option segs                (* self.program *)
}.

(* ScalaTranslator.__init__ / _reset_state *)
Definition init_st : st := mkSt 0 false false false [] [None] None.
Definition init_tr : translator := mkTr init_st None.

Definition set_ident (v : nat) (s : st) : st :=
  mkSt v (is_unit s) (is_lambda s) (cast_integers s) (children_res s) (nodes_stack s) (context s).
Definition set_is_unit (v : bool) (s : st) : st :=
  mkSt (ident s) v (is_lambda s) (cast_integers s) (children_res s) (nodes_stack s) (context s).
Definition set_is_lambda (v : bool) (s : st) : st :=
  mkSt (ident s) (is_unit s) v (cast_integers s) (children_res s) (nodes_stack s) (context s).
Definition set_cast (v : bool) (s : st) : st :=
  mkSt (ident s) (is_unit s) (is_lambda s) v (children_res s) (nodes_stack s) (context s).
Definition set_res (v : list segs) (s : st) : st :=
  mkSt (ident s) (is_unit s) (is_lambda s) (cast_integers s) v (nodes_stack s) (context s).
Definition set_stack (v : list (option pkind)) (s : st) : st :=
  mkSt (ident s) (is_unit s) (is_lambda s) (cast_integers s) (children_res s) v (context s).
Definition set_context (v : option pprogram) (s : st) : st :=
  mkSt (ident s) (is_unit s) (is_lambda s) (cast_integers s) (children_res s) (nodes_stack s) v.

(* self._children_res.append(r) *)
Definition push (r : segs) (s : st) : st := set_res (r :: children_res s) s.

(* pop_children_res(children), n = len(children): the last n results in order, and the state
   without them (for n = 0 both Python branches give [] and an unchanged list) *)
Definition pop_res (n : nat) (s : st) : list segs * st :=
  (rev (firstn n (children_res s)), set_res (skipn n (children_res s)) s).

Definition nth_seg (i : nat) (l : list segs) : segs := nth i l [].
Definition last_seg (l : list segs) : segs := last l [].
Definition nonempty {A} (l : list A) : bool := match l with [] => false | _ => true end.

Definition paren (r : segs) : segs := T "(" ++ r ++ T ")".
Definition brace (r : segs) : segs := T "{" ++ r ++ T "}".
Definition brack (r : segs) : segs := T "[" ++ r ++ T "]".

(* ------------------------------------------------------------------------------------ *)
(* the visit_* methods, parameterised by the recursive `node.accept(self)`                 *)

Definition visitor := pnode -> st -> st.

(* for c in children: c.accept(self) *)
Definition visit_children (rec : visitor) (cs : list pnode) (s : st) : st :=
  fold_left (fun s c => rec c s) cs s.

(* ---- visit_block: always braces, statements terminated by ";" *)
Definition semi_nl : string := (";" ++ nl)%string.

Definition block_text (is_func_block is_unit0 is_lambda0 : bool) (idt : nat) (cr : list segs) : segs :=
  let res := T nl ++ joins (T semi_nl) (removelast cr) in
  let res := if nonempty (removelast cr) then res ++ T semi_nl else res in
  let ret_keyword :=
    if is_func_block && negb is_unit0 && negb is_lambda0 then T "return " else [] in
  let res :=
    if nonempty cr
    then res ++ T (spaces idt) ++ ret_keyword ++ last_seg cr ++ T semi_nl ++ T (spaces idt)
    else res ++ T (spaces idt) ++ ret_keyword ++ T semi_nl ++ T (spaces idt) in
  brace res.

Definition visit_block (rec : visitor) (is_func_block : bool) (cs : list pnode) (s : st) : st :=
  let is_unit0 := is_unit s in
  let is_lambda0 := is_lambda s in
  let s := set_is_unit false s in
  let s := set_is_lambda false s in
  let s := visit_children rec cs s in
  let (cr, s) := pop_res (List.length cs) s in
  let res := block_text is_func_block is_unit0 is_lambda0 (ident s) cr in
  let s := set_is_unit is_unit0 s in
  let s := set_is_lambda is_lambda0 s in
  push res s.

(* ---- visit_super_instantiation *)
Definition super_text (class_type : ptype) (args_none : bool) (cr : list segs) : segs :=
  if args_none
  then T (type_name class_type)
  else T (type_name class_type) ++ paren (joins (T ", ") cr).

Definition visit_super_instantiation (rec : visitor) (class_type : ptype) (args_none : bool)
    (cs : list pnode) (s : st) : st :=
  let s := set_ident 0 s in
  let s := visit_children rec cs s in
  let (cr, s) := pop_res (List.length cs) s in
  push (super_text class_type args_none cr) s.

(* ---- visit_class_decl *)
(* node.get_class_prefix().replace("interface", "trait") *)
Definition class_prefix (class_type : nat) : string :=
  match class_type with 0 => "class" | 1 => "trait" | _ => "abstract class" end.

Definition class_text (name : string) (class_type : nat) (is_final : bool)
    (nfields nsupers nfuncs : nat) (old_ident : nat) (cr : list segs) : segs :=
  let field_res := firstn nfields cr in
  let superclasses_res := firstn nsupers (skipn nfields cr) in
  let function_res := firstn nfuncs (skipn (nfields + nsupers) cr) in
  let type_parameters_res := joins (T ", ") (skipn (nfields + nsupers + nfuncs) cr) in
  let res := T (spaces old_ident) ++
             T (if negb is_final || Nat.eqb class_type 1 then "open " else "") ++
             T (class_prefix class_type) ++ T " " ++ [Decl DClass name] in
  let res := if negb (segs_empty type_parameters_res)
             then res ++ brack type_parameters_res else res in
  let res := if nonempty field_res
             then res ++ paren (joins (T ", ") field_res) else res in
  let res := if nonempty superclasses_res
             then res ++ T " extends " ++ joins (T ", ") superclasses_res else res in
  if nonempty function_res
  then res ++ T " " ++ brace (T nl ++ joins (T (nl ++ nl)%string) function_res ++ T nl ++
                              T (spaces old_ident))
  else res.

Definition visit_class_decl (rec : visitor) (name : string) (class_type : nat) (is_final : bool)
    (nfields nsupers nfuncs : nat) (cs : list pnode) (s : st) : st :=
  let old_ident := ident s in
  let s := set_ident (ident s + 2) s in
  let s := visit_children rec cs s in
  let (cr, s) := pop_res (List.length cs) s in
  let res := class_text name class_type is_final nfields nsupers nfuncs old_ident cr in
  let s := set_ident old_ident s in
  push res s.

(* ---- visit_type_param *)
Definition variance_str (v : nat) : string :=
  match v with 0 => "" | 1 => "+" | _ => "-" end.

Definition type_param_text (name : string) (variance : nat) (bound : option ptype) : segs :=
  T (variance_str variance) ++ [Decl DTypeParam name] ++ T " <: " ++
  T (match bound with Some b => type_name b | None => "Any" end).

Definition visit_type_param (name : string) (variance : nat) (bound : option ptype) (s : st) : st :=
  push (type_param_text name variance bound) s.

(* ---- visit_var_decl *)
Definition type_annotation (t : option ptype) : segs :=
  match t with Some t' => T ": " ++ T (type_name t') | None => [] end.

Definition var_decl_text (name : string) (is_final : bool) (var_type : option ptype)
    (old_ident : nat) (cr : list segs) : segs :=
  T (spaces old_ident) ++ T (if is_final then "val " else "var ") ++ [Decl DVar name] ++
  type_annotation var_type ++ T " = " ++ nth_seg 0 cr.

Definition visit_var_decl (rec : visitor) (name : string) (is_final : bool) (var_type : option ptype)
    (cs : list pnode) (s : st) : st :=
  let old_ident := ident s in
  let s := set_ident 0 s in
  let prev := cast_integers s in
  let s := match var_type with None => set_cast true s | Some _ => s end in
  let s := visit_children rec cs s in
  let (cr, s) := pop_res (List.length cs) s in
  let res := var_decl_text name is_final var_type old_ident cr in
  let s := set_ident old_ident s in
  let s := set_cast prev s in
  push res s.

(* ---- visit_call_argument *)
Definition name_truthy (name : option string) : bool :=
  match name with Some n => negb (str_empty n) | None => false end.

Definition call_argument_text (name : option string) (cr : list segs) : segs :=
  if name_truthy name
  then T (match name with Some n => n | None => "" end) ++ T " = " ++ nth_seg 0 cr
  else nth_seg 0 cr.

Definition visit_call_argument (rec : visitor) (name : option string) (cs : list pnode) (s : st) : st :=
  let old_ident := ident s in
  let s := set_ident 0 s in
  let s := visit_children rec cs s in
  let s := set_ident old_ident s in
  let (cr, s) := pop_res (List.length cs) s in
  push (call_argument_text name cr) s.

(* ---- visit_field_decl *)
Definition field_text (name : string) (ftype : ptype) (is_final can_override override : bool) : segs :=
  T (if can_override then "" else "final ") ++
  T (if override then "override " else "") ++
  T (if is_final then "val " else "var ") ++
  [Decl DField name] ++ T ": " ++ T (type_name ftype).

Definition visit_field_decl (name : string) (ftype : ptype) (is_final can_override override : bool)
    (s : st) : st :=
  push (field_text name ftype is_final can_override override) s.

(* ---- visit_param_decl *)
(* the printed type of a parameter: the element type for varargs *)
Definition param_print_type (param_type : ptype) (vararg : bool) : string :=
  if vararg
  then match param_type with
       | TApp _ _ (a :: _) => type_name a
       | _ => type_name param_type
       end
  else type_name param_type.

Definition param_text (name : string) (param_type : ptype) (vararg : bool) (has_children : bool)
    (cr : list segs) : segs :=
  let res := [Decl DParam name] ++ T ": " ++ T (param_print_type param_type vararg) ++
             T (if vararg then "*" else "") in
  if has_children then res ++ T " = " ++ nth_seg 0 cr else res.

Definition visit_param_decl (rec : visitor) (name : string) (param_type : ptype) (vararg : bool)
    (cs : list pnode) (s : st) : st :=
  let old_ident := ident s in
  let s := set_ident 0 s in
  let s := visit_children rec cs s in
  let s := set_ident old_ident s in
  (* `if len(children): children_res = self.pop_children_res(children)`; for no children
     nothing is popped, which is what pop_res 0 does *)
  let (cr, s) := pop_res (List.length cs) s in
  push (param_text name param_type vararg (nonempty cs) cr) s.

(* ---- visit_func_decl *)
Definition func_decl_text (name : string) (ret_type : option ptype)
    (is_final is_method override has_body : bool) (nparams ntparams : nat)
    (old_ident : nat) (cr : list segs) : segs :=
  let param_res := firstn nparams cr in
  let type_parameters_res := joins (T ", ") (firstn ntparams (skipn nparams cr)) in
  let body_res := if has_body then last_seg cr else [] in
  let prefix := T (spaces old_ident) ++
                T (if is_final && is_method then "final " else "") ++
                T (if override then "override " else "") in
  let type_params := if negb (segs_empty type_parameters_res)
                     then brack type_parameters_res else [] in
  let res := prefix ++ T "def " ++ [Decl DFunc name] ++ type_params ++
             paren (joins (T ", ") param_res) in
  let res := res ++ type_annotation ret_type in
  if negb (segs_empty body_res)
  then res ++ T " " ++ T "=" ++ T nl ++ body_res
  else res.

Definition visit_func_decl (rec : visitor) (name : string) (ret_type : option ptype) (inferred : ptype)
    (is_final is_method override has_body : bool) (nparams ntparams : nat) (cs : list pnode) (s : st) : st :=
  let old_ident := ident s in
  let s := set_ident (ident s + 2) s in
  let prev_is_unit := is_unit s in
  let s := set_is_unit (is_unit_ty inferred) s in
  let prev_c := cast_integers s in
  let is_expression := negb (has_body && last_is_block cs) in
  let s := if is_expression then set_cast true s else s in
  let s := visit_children rec cs s in
  let (cr, s) := pop_res (List.length cs) s in
  let res := func_decl_text name ret_type is_final is_method override has_body nparams ntparams
                            old_ident cr in
  let s := set_ident old_ident s in
  let s := set_is_unit prev_is_unit s in
  let s := set_cast prev_c s in
  push res s.

(* ---- visit_lambda: "(params) => body: ret" *)
Definition lambda_text (ret_type : option ptype) (nparams : nat) (has_body : bool)
    (cr : list segs) : segs :=
  let param_res := firstn nparams cr in
  let body_res := if has_body then last_seg cr else [] in
  paren (joins (T ", ") param_res) ++ T " => " ++ body_res ++ type_annotation ret_type.

Definition visit_lambda (rec : visitor) (ret_type : option ptype) (nparams : nat) (has_body : bool)
    (cs : list pnode) (s : st) : st :=
  let old_ident := ident s in
  let is_expression := negb (has_body && last_is_block cs) in
  let s := set_ident (if is_expression then 0 else ident s + 2) s in
  let prev_is_unit := is_unit s in
  let prev_is_lambda := is_lambda s in
  let s := set_is_unit (opt_is_unit ret_type) s in
  let s := set_is_lambda true s in
  let prev_c := cast_integers s in
  let s := if is_expression then set_cast true s else s in
  let s := visit_children rec cs s in
  let (cr, s) := pop_res (List.length cs) s in
  let s := set_ident old_ident s in
  let res := lambda_text ret_type nparams has_body cr in
  let s := set_is_unit prev_is_unit s in
  let s := set_is_lambda prev_is_lambda s in
  let s := set_cast prev_c s in
  push res s.

(* ---- constants *)
Definition bottom_text (t : option ptype) (idt : nat) : segs :=
  T (spaces idt) ++
  match t with
  | Some t' => T "???.asInstanceOf" ++ brack (T (type_name t'))
  | None => T "???"
  end.

Definition visit_bottom_constant (t : option ptype) (s : st) : st :=
  push (bottom_text t (ident s)) s.

Definition integer_suffix (t : option ptype) : string :=
  match t with
  | Some (TName CLong _) => ".toLong"
  | Some (TName CShort _) => ".toShort"
  | Some (TName CByte _) => ".toByte"
  | Some (TName CNumber _) => ".asInstanceOf[Number]"
  | _ => ""
  end.

Definition integer_text (lit : string) (integer_type : option ptype) (cast : bool) (idt : nat) : segs :=
  if negb cast
  then T (spaces idt) ++ [Lit lit]
  else T (spaces idt) ++ [Lit lit] ++ T (integer_suffix integer_type).

Definition visit_integer_constant (lit : string) (integer_type : option ptype) (s : st) : st :=
  push (integer_text lit integer_type (cast_integers s) (ident s)) s.

Definition real_suffix (t : option ptype) : string :=
  match t with Some (TName CFloat _) => "f" | _ => "" end.

Definition real_text (lit : string) (real_type : option ptype) (idt : nat) : segs :=
  T (spaces idt) ++ [Lit lit] ++ T (real_suffix real_type).

Definition visit_real_constant (lit : string) (real_type : option ptype) (s : st) : st :=
  push (real_text lit real_type (ident s)) s.

Definition char_text (lit : string) (idt : nat) : segs :=
  T (spaces idt) ++ T "'" ++ [Lit lit] ++ T "'".

Definition visit_char_constant (lit : string) (s : st) : st :=
  push (char_text lit (ident s)) s.

Definition dquote : string := String (ascii_of_nat 34) EmptyString.

Definition string_text (lit : string) (idt : nat) : segs :=
  T (spaces idt) ++ T dquote ++ [Lit lit] ++ T dquote.

Definition visit_string_constant (lit : string) (s : st) : st :=
  push (string_text lit (ident s)) s.

Definition boolean_text (lit : string) (idt : nat) : segs :=
  T (spaces idt) ++ [Lit lit].

Definition visit_boolean_constant (lit : string) (s : st) : st :=
  push (boolean_text lit (ident s)) s.

(* ---- visit_array_expr *)
Definition array_cast (array_type : ptype) : segs :=
  T ".asInstanceOf" ++ brack (T "Array" ++ brack (T (ty_arg0_name array_type))).

Definition array_empty_text (array_type : ptype) (idt : nat) : segs :=
  if ty_arg0_has_tvars array_type
  then T (spaces idt) ++ T "Array" ++ brack (T "Any") ++ paren [] ++ array_cast array_type
  else T (spaces idt) ++ T "Array" ++ brack (T (ty_arg0_name array_type)) ++ paren [].

Definition array_text (array_type : ptype) (idt : nat) (cr : list segs) : segs :=
  if ty_arg0_is_tvar array_type
  then T (spaces idt) ++ T "Array" ++ brack (T "Any") ++ paren (joins (T ", ") cr) ++
       array_cast array_type
  else T (spaces idt) ++ T "Array" ++ brack (T (ty_arg0_name array_type)) ++
       paren (joins (T ", ") cr).

Definition visit_array_expr (rec : visitor) (array_type : ptype) (length : nat)
    (cs : list pnode) (s : st) : st :=
  if Nat.eqb length 0
  then push (array_empty_text array_type (ident s)) s
  else
    let old_ident := ident s in
    let s := set_ident 0 s in
    let s := visit_children rec cs s in
    let (cr, s) := pop_res (List.length cs) s in
    let s := set_ident old_ident s in
    push (array_text array_type (ident s) cr) s.

(* ---- visit_variable *)
Definition variable_text (name : string) (idt : nat) : segs := T (spaces idt) ++ T name.

Definition visit_variable (name : string) (s : st) : st :=
  push (variable_text name (ident s)) s.

(* ---- visit_binary_op: an operand that is a function reference or a lambda is parenthesised *)
Definition operand (wrap : bool) (r : segs) : segs := if wrap then paren r else r.

Definition binary_op_text (op : string) (is_not : bool) (wrap0 wrap1 : bool) (old_ident : nat)
    (cr : list segs) : segs :=
  T (spaces old_ident) ++
  paren (operand wrap0 (nth_seg 0 cr) ++ T " " ++ [Op (op_str op is_not)] ++ T " " ++
         operand wrap1 (nth_seg 1 cr)).

Definition visit_binary_op (rec : visitor) (op : string) (is_not : bool) (cs : list pnode) (s : st) : st :=
  let old_ident := ident s in
  let s := set_ident 0 s in
  let s := visit_children rec cs s in
  let (cr, s) := pop_res (List.length cs) s in
  let res := binary_op_text op is_not (nth_is_ref_or_lambda 0 cs) (nth_is_ref_or_lambda 1 cs)
                            old_ident cr in
  let s := set_ident old_ident s in
  push res s.

(* ---- visit_conditional; idt is self.ident at the time of the slice children_res[0][self.ident:] *)
Definition conditional_text (old_ident idt : nat) (cr : list segs) : segs :=
  T (spaces old_ident) ++
  paren (T "if " ++ paren (drop_segs (nth_seg 0 cr) idt) ++ T " then" ++
         T nl ++ nth_seg 1 cr ++ T nl ++ T (spaces old_ident) ++ T "else" ++ T nl ++
         nth_seg 2 cr).

Definition visit_conditional (rec : visitor) (cs : list pnode) (s : st) : st :=
  let old_ident := ident s in
  let s := set_ident (ident s + 2) s in
  let s := visit_children rec cs s in
  let (cr, s) := pop_res (List.length cs) s in
  let res := conditional_text old_ident (ident s) cr in
  let s := set_ident old_ident s in
  push res s.

(* ---- visit_is: `e.isInstanceOf[T]`, the Scala spelling of `is`; the operator object (is / !is)
   is not an input of the text *)
Definition is_op : string := ".isInstanceOf".

Definition is_text (rexpr : ptype) (old_ident : nat) (cr : list segs) : segs :=
  T (spaces old_ident) ++ nth_seg 0 cr ++ [Op is_op] ++ brack (T (type_name rexpr)).

Definition visit_is (rec : visitor) (rexpr : ptype) (cs : list pnode) (s : st) : st :=
  let old_ident := ident s in
  let s := set_ident 0 s in
  let s := visit_children rec cs s in
  let (cr, s) := pop_res (List.length cs) s in
  let res := is_text rexpr old_ident cr in
  let s := set_ident old_ident s in
  push res s.

(* ---- visit_new: `1.asInstanceOf[Any]` for Any; otherwise "new" in FRONT of the indentation, the
   type arguments dropped iff can_infer_type_args is True *)
Definition new_type_text (class_type : ptype) : string :=
  if ty_can_infer class_type then ptype_dot_name class_type else type_name class_type.

Definition new_text (class_type : ptype) (idt : nat) (cr : list segs) : segs :=
  if is_any_ty class_type
  then T (spaces idt) ++ T "1.asInstanceOf" ++ brack (T "Any")
  else T "new " ++ T (spaces idt) ++ T (new_type_text class_type) ++ paren (joins (T ", ") cr).

Definition visit_new (rec : visitor) (class_type : ptype) (cs : list pnode) (s : st) : st :=
  let old_ident := ident s in
  let s := set_ident 0 s in
  let s := visit_children rec cs s in
  let (cr, s) := pop_res (List.length cs) s in
  let s := set_ident old_ident s in
  push (new_text class_type (ident s) cr) s.

(* '({})'.format(children_res[0]) if isinstance(receiver, BottomConstant) else children_res[0] *)
Definition receiver_expr (bottom : bool) (cr : list segs) : segs :=
  if bottom then paren (nth_seg 0 cr) else nth_seg 0 cr.

(* ---- visit_field_access *)
Definition field_access_text (field : string) (has_children bottom : bool) (idt : nat) (cr : list segs) : segs :=
  T (spaces idt) ++ (if has_children then receiver_expr bottom cr ++ T "." else []) ++ T field.

Definition visit_field_access (rec : visitor) (field : string) (cs : list pnode) (s : st) : st :=
  let old_ident := ident s in
  let s := set_ident 0 s in
  let s := visit_children rec cs s in
  let (cr, s) := pop_res (List.length cs) s in
  let s := set_ident old_ident s in
  push (field_access_text field (nonempty cs) (first_is_bottom cs) (ident s) cr) s.

(* ---- visit_func_ref *)
(* inside_block_unit_function(): _nodes_stack[-2] is a Block and _nodes_stack[-3] a Lambda or
   FunctionDeclaration whose ret_type == sc.Unit *)
Definition inside_block_unit_function (stack : list (option pkind)) : bool :=
  match nth 1 stack None with
  | Some (KBlock _) =>
      match nth 2 stack None with
      | Some (KLambda rt _ _) => opt_is_unit rt
      | Some (KFunc _ rt _ _ _ _ _ _ _) => opt_is_unit rt
      | _ => false
      end
  | _ => false
  end.

Definition func_ref_text (func : string) (in_unit_block : bool) (idt : nat) (cr : list segs) : segs :=
  T (spaces idt) ++ T (if in_unit_block then "val _y = " else "") ++
  (if nonempty cr then nth_seg 0 cr ++ T "." else []) ++ T func ++ T " _".

Definition visit_func_ref (rec : visitor) (func : string) (cs : list pnode) (s : st) : st :=
  let old_ident := ident s in
  let s := set_ident 0 s in
  let s := visit_children rec cs s in
  let s := set_ident old_ident s in
  let (cr, s) := pop_res (List.length cs) s in
  push (func_ref_text func (inside_block_unit_function (nodes_stack s)) (ident s) cr) s.

(* ---- visit_func_call: explicit type arguments iff not can_infer_type_args and there are some;
   the name between backquotes; without a receiver a dotted name is split at its last dot and
   the parts are printed without the dot *)
Definition type_args_str (type_args : list ptype) (can_infer : bool) : string :=
  if negb can_infer && nonempty type_args
  then ("[" ++ join "," (map type_name type_args) ++ "]")%string
  else "".

Definition bquote : string := "`".

Definition func_call_text (func : string) (type_args : list ptype) (can_infer has_receiver : bool)
    (bottom : bool) (idt : nat) (cr : list segs) : segs :=
  if has_receiver
  then T (spaces idt) ++ receiver_expr bottom cr ++ T "." ++ T bquote ++ T func ++ T bquote ++
       T (type_args_str type_args can_infer) ++ paren (joins (T ", ") (tl cr))
  else T (spaces idt) ++
       T (match rsplit_dot func with Some (a, _) => a | None => "" end) ++ T bquote ++
       T (match rsplit_dot func with Some (_, b) => b | None => func end) ++ T bquote ++
       T (type_args_str type_args can_infer) ++ paren (joins (T ", ") cr).

Definition visit_func_call (rec : visitor) (func : string) (type_args : list ptype)
    (can_infer has_receiver : bool) (cs : list pnode) (s : st) : st :=
  let old_ident := ident s in
  let s := set_ident 0 s in
  let s := visit_children rec cs s in
  let s := set_ident old_ident s in
  let (cr, s) := pop_res (List.length cs) s in
  push (func_call_text func type_args can_infer has_receiver (first_is_bottom cs) (ident s) cr) s.

(* ---- visit_assign *)
Definition assign_text (name : string) (has_receiver : bool) (bottom : bool) (old_ident : nat)
    (cr : list segs) : segs :=
  if has_receiver
  then T (spaces old_ident) ++ receiver_expr bottom cr ++ T "." ++ T name ++ T " = " ++ nth_seg 1 cr
  else T (spaces old_ident) ++ T name ++ T " = " ++ nth_seg 0 cr.

Definition visit_assign (rec : visitor) (name : string) (has_receiver : bool)
    (cs : list pnode) (s : st) : st :=
  let old_ident := ident s in
  let prev := cast_integers s in
  let s := set_cast true s in
  let s := set_ident 0 s in
  let s := visit_children rec cs s in
  let s := set_ident old_ident s in
  let (cr, s) := pop_res (List.length cs) s in
  let res := assign_text name has_receiver (first_is_bottom cs) old_ident cr in
  let s := set_ident old_ident s in
  let s := set_cast prev s in
  push res s.

(* the decorator @append_to *)
Definition append_to (k : pkind) (f : st -> st) (s : st) : st :=
  let s := set_stack (Some k :: nodes_stack s) s in
  let s := f s in
  set_stack (tl (nodes_stack s)) s.

(* ASTVisitor.visit: dispatch on the class of the node (visit_logical_expr, visit_equality_expr,
   visit_comparison_expr, visit_arith_expr all call visit_binary_op) *)
Definition visit_node (rec : visitor) (n : pnode) (s : st) : st :=
  match n with
  | PN k cs =>
      match k with
      | KBlock fb => append_to k (visit_block rec fb cs) s
      | KSuper ct an => append_to k (visit_super_instantiation rec ct an cs) s
      | KClass name ct fin nf ns nfn => append_to k (visit_class_decl rec name ct fin nf ns nfn cs) s
      | KTypeParam name v b => append_to k (visit_type_param name v b) s
      | KVarDecl name fin vt _ => append_to k (visit_var_decl rec name fin vt cs) s
      | KCallArg name => append_to k (visit_call_argument rec name cs) s
      | KField name ft fin co ov => append_to k (visit_field_decl name ft fin co ov) s
      | KParam name pt va => append_to k (visit_param_decl rec name pt va cs) s
      | KFunc name rt inf fin im ov hb np ntp =>
          append_to k (visit_func_decl rec name rt inf fin im ov hb np ntp cs) s
      | KLambda rt np hb => append_to k (visit_lambda rec rt np hb cs) s
      | KBottom t => append_to k (visit_bottom_constant t) s
      | KInt lit it => append_to k (visit_integer_constant lit it) s
      | KReal lit rt => append_to k (visit_real_constant lit rt) s
      | KChar lit => append_to k (visit_char_constant lit) s
      | KString lit => append_to k (visit_string_constant lit) s
      | KBool lit => append_to k (visit_boolean_constant lit) s
      | KArray at_ len => append_to k (visit_array_expr rec at_ len cs) s
      | KVariable name => append_to k (visit_variable name) s
      | KBinOp _ op nt => append_to k (visit_binary_op rec op nt cs) s
      | KCond => append_to k (visit_conditional rec cs) s
      | KIs _ _ rx => append_to k (visit_is rec rx cs) s
      | KNew ct => append_to k (visit_new rec ct cs) s
      | KFieldAccess f => append_to k (visit_field_access rec f cs) s
      | KFuncRef f => append_to k (visit_func_ref rec f cs) s
      | KFuncCall f ta ci hr => append_to k (visit_func_call rec f ta ci hr cs) s
      | KAssign name hr => append_to k (visit_assign rec name hr cs) s
      end
  end.

(* node.accept(self): structural recursion through the children lists *)
Fixpoint visit (n : pnode) (s : st) {struct n} : st := visit_node visit n s.

(* visit_program *)
Definition program_text (pkg : string) (cr : list segs) : segs :=
  (if negb (str_empty pkg) then T "package " ++ T pkg ++ T nl else []) ++
  joins (T (nl ++ nl)%string) cr.

Definition visit_program (pkg : string) (p : pprogram) (t : translator) : translator :=
  let s := set_context (Some p) (tst t) in
  let s := visit_children visit (decls p) s in
  let (cr, s) := pop_res (List.length (decls p)) s in
  mkTr s (Some (program_text pkg cr)).

(* BaseTranslator.result (the exception for program = None is a default here) *)
Definition result_segs (t : translator) : segs :=
  match program t with Some r => r | None => [] end.

Definition result (t : translator) : string := flatten (result_segs t).

(* utils.translate_program(translator, program) on a translator object t: the text and the
   state the object is left in *)
Definition translate_program (pkg : string) (t : translator) (p : pprogram) : string * translator :=
  let t' := visit_program pkg p t in (result t', t').

(* the text of a program from a fresh translator *)
Definition print_segs (pkg : string) (p : pprogram) : segs :=
  result_segs (visit_program pkg p init_tr).

Definition print_program (pkg : string) (p : pprogram) : string :=
  fst (translate_program pkg init_tr p).

(* a history: programs translated one after the other by the same translator object (the
   package can be reassigned in between, as hephaestus.py does) *)
Fixpoint run_history (t : translator) (h : list (string * pprogram)) : list string * translator :=
  match h with
  | [] => ([], t)
  | (pkg, p) :: r =>
      let (x, t') := translate_program pkg t p in
      let (xs, t'') := run_history t' r in
      (x :: xs, t'')
  end.

(* ------------------------------------------------------------------------------------ *)
(* correspondence drivers (evaluated by the case files of harness/printcorr_scala.py)      *)

(* indexes of the cases whose expected text (from the real ScalaTranslator) differs *)
Fixpoint mismatches (i : nat) (cases : list (string * pprogram * string)) : list nat :=
  match cases with
  | [] => []
  | (pkg, p, expected) :: r =>
      if String.eqb (print_program pkg p) expected then mismatches (S i) r
      else i :: mismatches (S i) r
  end.

(* the state a translation must leave behind: everything initial; the context is the one of
   the last program (it is reassigned at the start of every visit_program) *)
Definition clean_st (s : st) : bool :=
  Nat.eqb (ident s) 0 && negb (is_unit s) && negb (is_lambda s) && negb (cast_integers s) &&
  negb (nonempty (children_res s)) &&
  match nodes_stack s with [None] => true | _ => false end.

Fixpoint text_mismatches (i : nat) (got expected : list string) : list nat :=
  match got, expected with
  | g :: gr, e :: er => if String.eqb g e then text_mismatches (S i) gr er
                        else i :: text_mismatches (S i) gr er
  | [], [] => []
  | _, _ => [i]
  end.

(* a history run on the model with the translator state threaded through: the indexes of the
   texts that differ from the implementation's, and whether the final state is clean *)
Definition history_mismatches (h : list (string * pprogram)) (expected : list string) : list nat * bool :=
  let (ts, t) := run_history init_tr h in (text_mismatches 0 ts expected, clean_st (tst t)).

(* ------------------------------------------------------------------------------------ *)
(* specification vocabulary for C12 (evaluated by harness/printcorr_scala.py, proved in      *)
(* PrintScalaProofs.v)                                                                      *)

(* the marked pieces of a text, in text order; pieces with empty text are nothing visible *)
Inductive mark :=
| MDecl (k : dkind) (name : string)
| MLit (s : string)
| MOp (s : string).

Definition mk_mark (f : string -> mark) (s : string) : list mark :=
  if str_empty s then [] else [f s].

Definition seg_marks (sg : seg) : list mark :=
  match sg with
  | Txt _ => []
  | Decl k s => mk_mark (MDecl k) s
  | Lit s => mk_mark MLit s
  | Op s => mk_mark MOp s
  end.

Definition marks (l : segs) : list mark := flat_map seg_marks l.

(* what a node itself declares / carries.  An `Is` node carries the Scala spelling of the type
   test whether it is negated or not: ScalaTranslator prints no negation (see is_text) *)
Definition own_marks (k : pkind) : list mark :=
  match k with
  | KClass name _ _ _ _ _ => mk_mark (MDecl DClass) name
  | KTypeParam name _ _ => mk_mark (MDecl DTypeParam) name
  | KVarDecl name _ _ _ => mk_mark (MDecl DVar) name
  | KField name _ _ _ _ => mk_mark (MDecl DField) name
  | KParam name _ _ => mk_mark (MDecl DParam) name
  | KFunc name _ _ _ _ _ _ _ _ => mk_mark (MDecl DFunc) name
  | KInt lit _ => mk_mark MLit lit
  | KReal lit _ => mk_mark MLit lit
  | KChar lit => mk_mark MLit lit
  | KString lit => mk_mark MLit lit
  | KBool lit => mk_mark MLit lit
  | KBinOp _ op nt => mk_mark MOp (op_str op nt)
  | KIs _ _ _ => mk_mark MOp is_op
  | _ => []
  end.

(* the inventory of a tree: every declaration, literal and operator node, pre-order *)
Fixpoint inventory (n : pnode) : list mark :=
  match n with PN k cs => own_marks k ++ flat_map inventory cs end.

Definition program_inventory (p : pprogram) : list mark := flat_map inventory (decls p).

(* the inventory a faithful translation would have: a negated Is node (`!is`) also carries its
   negation *)
Definition own_marks_full (k : pkind) : list mark :=
  match k with
  | KIs _ nt _ => own_marks k ++ (if nt then [MOp "!"] else [])
  | _ => own_marks k
  end.

Fixpoint inventory_full (n : pnode) : list mark :=
  match n with PN k cs => own_marks_full k ++ flat_map inventory_full cs end.

Definition program_inventory_full (p : pprogram) : list mark := flat_map inventory_full (decls p).

(* no negated Is node *)
Fixpoint neg_free (n : pnode) : bool :=
  match n with
  | PN k cs => match k with KIs _ nt _ => negb nt | _ => true end && forallb neg_free cs
  end.

Definition neg_free_program (p : pprogram) : bool := forallb neg_free (decls p).

(* kinds whose text starts with the indentation " " * ident ("new" comes in front of it) *)
Definition prefixing (k : pkind) : bool :=
  match k with
  | KBlock _ | KSuper _ _ | KTypeParam _ _ _ | KCallArg _ | KField _ _ _ _ _ | KParam _ _ _
  | KLambda _ _ _ => false
  | KNew ct => is_any_ty ct
  | _ => true
  end.

(* the shape the implementation's children() gives every node: the arities by which the
   visit_* methods index children_res; an empty array has no elements; `new Any` has no
   arguments (visit_new prints `1.asInstanceOf[Any]` and drops them); the condition of a
   conditional is an expression printed with its indentation (children_res[0][self.ident:]
   removes exactly that) *)
Definition arity_ok (k : pkind) (cs : list pnode) : bool :=
  let n := List.length cs in
  match k with
  | KBlock _ => true
  | KNew ct => if is_any_ty ct then Nat.eqb n 0 else true
  | KSuper _ an => if an then Nat.eqb n 0 else true
  | KClass _ _ _ nf ns nfn => Nat.leb (nf + ns + nfn) n
  | KTypeParam _ _ _ | KField _ _ _ _ _ | KBottom _ | KInt _ _ | KReal _ _ | KChar _ | KString _
  | KBool _ | KVariable _ => Nat.eqb n 0
  | KVarDecl _ _ _ _ | KCallArg _ | KIs _ _ _ | KFieldAccess _ => Nat.eqb n 1
  | KParam _ _ _ | KFuncRef _ => Nat.leb n 1
  | KFunc _ _ _ _ _ _ hb np ntp => Nat.eqb n (np + ntp + (if hb then 1 else 0))
  | KLambda _ np hb => Nat.eqb n (np + (if hb then 1 else 0))
  | KArray _ len => if Nat.eqb len 0 then Nat.eqb n 0 else true
  | KBinOp _ _ _ => Nat.eqb n 2
  | KCond => Nat.eqb n 3 && match cs with c :: _ => prefixing (kind_of c) | [] => true end
  | KFuncCall _ _ _ hr => if hr then Nat.leb 1 n else true
  | KAssign _ hr => Nat.eqb n (if hr then 2 else 1)
  end.

Fixpoint wf (n : pnode) : bool :=
  match n with PN k cs => arity_ok k cs && forallb wf cs end.

Definition wf_program (p : pprogram) : bool := forallb wf (decls p).

(* bracket depth: scan o c s d = depth after s, starting at depth d; None when a closing
   bracket has no opening one *)
Fixpoint scan (o c : ascii) (s : string) (d : nat) : option nat :=
  match s with
  | EmptyString => Some d
  | String a r =>
      if Ascii.eqb a o then scan o c r (S d)
      else if Ascii.eqb a c then match d with 0 => None | S d' => scan o c r d' end
      else scan o c r d
  end.

Definition balanced (o c : ascii) (s : string) : bool :=
  match scan o c s 0 with Some 0 => true | _ => false end.

(* a string that is by itself balanced for (), {} and []: names, literals, operators without
   brackets are, and so are printed type names such as A[B[C], ? <: D] *)
Definition clean_str (s : string) : bool :=
  balanced "("%char ")"%char s && balanced "{"%char "}"%char s && balanced "["%char "]"%char s.

Definition opt_type_name (t : option ptype) : string :=
  match t with Some t' => type_name t' | None => EmptyString end.

(* every string of a node that ends up in the text *)
Definition kind_strings (k : pkind) : list string :=
  match k with
  | KBlock _ | KCond => []
  | KSuper ct _ => [type_name ct]
  | KClass name _ _ _ _ _ => [name]
  | KTypeParam name _ b => [name; opt_type_name b]
  | KVarDecl name _ vt _ => [name; opt_type_name vt]
  | KCallArg name => [match name with Some n => n | None => EmptyString end]
  | KField name ft _ _ _ => [name; type_name ft]
  | KParam name pt va => [name; param_print_type pt va]
  | KFunc name rt _ _ _ _ _ _ _ => [name; opt_type_name rt]
  | KLambda rt _ _ => [opt_type_name rt]
  | KBottom t => [opt_type_name t]
  | KInt lit _ | KReal lit _ | KChar lit | KString lit | KBool lit => [lit]
  | KArray at_ _ => [ty_arg0_name at_]
  | KVariable name => [name]
  | KBinOp _ op nt => [op_str op nt]
  | KIs _ _ rx => [type_name rx]
  | KNew ct => [new_type_text ct]
  | KFieldAccess f | KFuncRef f => [f]
  | KFuncCall f ta ci _ =>
      [f; match rsplit_dot f with Some (a, _) => a | None => EmptyString end;
       match rsplit_dot f with Some (_, b) => b | None => EmptyString end; type_args_str ta ci]
  | KAssign name _ => [name]
  end.

Definition clean_kind (k : pkind) : bool := forallb clean_str (kind_strings k).

Fixpoint clean (n : pnode) : bool :=
  match n with PN k cs => clean_kind k && forallb clean cs end.

Definition clean_program (pkg : string) (p : pprogram) : bool :=
  clean_str pkg && forallb clean (decls p).

(* what harness/printcorr_scala.py evaluates per program: whether the model's text is the real
   translator's (`expected`), whether the program has the shape / lexical hypotheses of the
   theorems, the three balance checks ON THE REAL TEXT, whether the marks of the model's text
   are a permutation of the inventory (decided by counting), and whether they are a permutation
   of the full inventory (they are iff the program has no negated Is node) *)
Definition mark_eqb (a b : mark) : bool :=
  match a, b with
  | MDecl k1 s1, MDecl k2 s2 =>
      String.eqb s1 s2 &&
      match k1, k2 with
      | DClass, DClass | DField, DField | DFunc, DFunc | DParam, DParam
      | DTypeParam, DTypeParam | DVar, DVar => true
      | _, _ => false
      end
  | MLit s1, MLit s2 => String.eqb s1 s2
  | MOp s1, MOp s2 => String.eqb s1 s2
  | _, _ => false
  end.

Fixpoint remove_one (m : mark) (l : list mark) : option (list mark) :=
  match l with
  | [] => None
  | x :: r => if mark_eqb m x then Some r
              else match remove_one m r with Some r' => Some (x :: r') | None => None end
  end.

Fixpoint same_marks (a b : list mark) : bool :=
  match a with
  | [] => match b with [] => true | _ => false end
  | m :: r => match remove_one m b with Some b' => same_marks r b' | None => false end
  end.

Definition c12_report (pkg : string) (p : pprogram) (expected : string)
  : bool * bool * bool * bool * bool * bool * bool * bool :=
  let r := print_segs pkg p in
  let t := flatten r in
  (String.eqb t expected, wf_program p, clean_program pkg p,
   balanced "("%char ")"%char expected, balanced "{"%char "}"%char expected,
   balanced "["%char "]"%char expected,
   same_marks (marks r) (program_inventory p),
   same_marks (marks r) (program_inventory_full p)).
