(* Properties_C11_java.v -- the property theorems for the JAVA translator, nothing else.
   `visit`, `translate_program`, `print_program`, `run_history` are the definitions of
   IR/PrintJava.v that the correspondence check (harness/printcorr_java.py) evaluates against
   the real JavaTranslator; `routed`, `is_wf` are the shape predicates defined there, `restored`
   is spelled out below.  Determinism is definitional (they are functions). *)
From Coq Require Import String Ascii List Arith Bool.
Import ListNotations.
From Heph Require Import IR.PrintKotlin IR.PrintJava IR.PrintJavaProofs.

(* the components a visit restores: ident, _cast_number, is_func_non_void_block,
   is_nested_func_block, _inside_is, _inside_is_function, _nodes_stack, _namespace, smart_casts,
   context, types; _x_counter only grows and _function_interfaces only gains members (both are
   reset at the end of visit_program, not by the visit) *)
Theorem restored_spelled_out : forall s s',
  restored s s' <->
  (ident s' = ident s /\ cast_number s' = cast_number s /\ fnv s' = fnv s /\ nfb s' = nfb s /\
   inside_is s' = inside_is s /\ inside_is_function s' = inside_is_function s /\
   nodes_stack s' = nodes_stack s /\ namespace s' = namespace s /\ smart_casts s' = smart_casts s /\
   context s' = context s /\ types_set s' = types_set s /\
   x_counter s <= x_counter s' /\ incl (fun_ifaces s) (fun_ifaces s')).
Proof. exact restored_spelled_out_lem. Qed.
Print Assumptions restored_spelled_out.

(* balanced push/pop: the visit of a node that append_to does not route to Main (no variable /
   function declaration is visited while _namespace is global: `routed`) pushes exactly one
   result on _children_res, leaves _main_children and _main_method alone and restores every
   other accumulator; _visit_is_stack is restored when every Is on a variable is the condition
   of a Conditional (`is_wf`).  For every tree, every state. *)
Theorem visit_restores : forall n s, routed false (namespace s) n = true ->
  exists r,
    children_res (visit n s) = r :: children_res s /\
    main_children (visit n s) = main_children s /\ main_method (visit n s) = main_method s /\
    restored s (visit n s) /\
    (is_wf n = true -> is_stack (visit n s) = is_stack s).
Proof. exact visit_restores_lem. Qed.
Print Assumptions visit_restores.

(* in particular everywhere below a class, function or lambda *)
Theorem visit_restores_inner : forall n s, 2 <= List.length (namespace s) ->
  exists r,
    children_res (visit n s) = r :: children_res s /\
    main_children (visit n s) = main_children s /\ main_method (visit n s) = main_method s /\
    restored s (visit n s) /\
    (is_wf n = true -> is_stack (visit n s) = is_stack s).
Proof. exact visit_restores_inner_lem. Qed.
Print Assumptions visit_restores_inner.

(* a declaration of the program: exactly one result, which goes to _main_method (a function
   named main), to _main_children (another function, a variable) or to _children_res (a class) *)
Theorem visit_top_level : forall n s, namespace s = ["global"%string] -> routed true ["global"%string] n = true ->
  exists r,
    restored s (visit n s) /\ (is_wf n = true -> is_stack (visit n s) = is_stack s) /\
    (if is_main_func (kind_of n)
     then children_res (visit n s) = children_res s /\ main_children (visit n s) = main_children s /\
          main_method (visit n s) = r
     else if is_var_or_func (kind_of n)
     then children_res (visit n s) = children_res s /\ main_children (visit n s) = r :: main_children s /\
          main_method (visit n s) = main_method s
     else children_res (visit n s) = r :: children_res s /\ main_children (visit n s) = main_children s /\
          main_method (visit n s) = main_method s).
Proof. exact visit_top_lem. Qed.
Print Assumptions visit_top_level.

(* visit_program ends with _reset_state(): whatever state the translator object was in, after a
   translation every one of its 17 accumulators has its initial value *)
Theorem translation_resets_state : forall pkg p t,
  tst (snd (translate_program pkg t p)) = init_st.
Proof. exact translation_resets_state_lem. Qed.
Print Assumptions translation_resets_state.

(* the text left behind by an earlier translation is never read *)
Theorem prior_output_irrelevant : forall pkg p s a b,
  visit_program pkg p (mkTr s a) = visit_program pkg p (mkTr s b).
Proof. exact prior_output_irrelevant_lem. Qed.
Print Assumptions prior_output_irrelevant.

(* history independence: after ANY sequence of earlier translations by the same object (other
   programs, the same program, other packages) the text of p is the text from a fresh object *)
Theorem history_independent : forall h pkg p,
  fst (translate_program pkg (snd (run_history init_tr h)) p) = print_program pkg p.
Proof. exact history_independent_lem. Qed.
Print Assumptions history_independent.

(* every text produced along a history is the fresh-translator text of its program *)
Theorem history_texts : forall h,
  fst (run_history init_tr h) = map (fun x => print_program (fst x) (snd x)) h.
Proof. exact history_texts_lem. Qed.
Print Assumptions history_texts.

(* and the object is in its initial state after every history *)
Theorem history_state : forall h, tst (snd (run_history init_tr h)) = init_st.
Proof. exact history_state_lem. Qed.
Print Assumptions history_state.

(* the reset is what history independence rests on: from a translator object that is NOT in its
   initial state (java.py resets only at the end of a successful visit_program; an exception in
   the middle of a translation leaves e.g. ident where it was) the text of a program is another
   one.  Witness evaluated in the kernel; observed on the real JavaTranslator, see the report of
   harness/printcorr_java.py (aborted translation, then the next program is indented). *)
Theorem text_depends_on_dirty_state_refuted :
  exists pkg p s, fst (translate_program pkg (mkTr s None) p) <> print_program pkg p.
Proof. exact text_depends_on_dirty_state_lem. Qed.
Print Assumptions text_depends_on_dirty_state_refuted.
