(* Properties_C11_java.v -- the property theorems for the JAVA translator, nothing else.
   `visit`, `translate_program`, `print_program`, `run_history` are the definitions of
   IR/PrintJava.v that the correspondence check (harness/printcorr_java.py) evaluates against
   the real JavaTranslator.  Determinism is definitional (they are functions). *)
From Coq Require Import String Ascii List Arith Bool.
Import ListNotations.
From Heph Require Import IR.PrintKotlin IR.PrintJava IR.PrintJavaProofs.

(* visit_program ends with _reset_state(): whatever state the translator object was in, after a
   translation every one of its 17 accumulators has its initial value *)
Theorem translation_resets_state : forall pkg p t,
  tst (snd (translate_program pkg t p)) = init_st.
Proof. exact translation_resets_state_lem. Qed.
Print Assumptions translation_resets_state.

(* the text left behind by an earlier translation is never read *)
Theorem prior_output_irrelevant : forall pkg p s a b,
  visit_program pkg p (mkTr s a) = visit_program pkg p (mkTr s b).
Proof. exact prior_output_irrelevant_lem. Qed.
Print Assumptions prior_output_irrelevant.

(* history independence: after ANY sequence of earlier translations by the same object (other
   programs, the same program, other packages) the text of p is the text from a fresh object *)
Theorem history_independent : forall h pkg p,
  fst (translate_program pkg (snd (run_history init_tr h)) p) = print_program pkg p.
Proof. exact history_independent_lem. Qed.
Print Assumptions history_independent.

(* every text produced along a history is the fresh-translator text of its program *)
Theorem history_texts : forall h,
  fst (run_history init_tr h) = map (fun x => print_program (fst x) (snd x)) h.
Proof. exact history_texts_lem. Qed.
Print Assumptions history_texts.

(* and the object is in its initial state after every history *)
Theorem history_state : forall h, tst (snd (run_history init_tr h)) = init_st.
Proof. exact history_state_lem. Qed.
Print Assumptions history_state.
