(* Properties_C13.v -- the property theorems, nothing else.  pickle is not modelled: these say
   what the per-pair certificates of harness/c13.py establish. *)
From Coq Require Import List Arith Bool.
Import ListNotations.
From Heph Require Import Types.Syntax IR.Syntax IR.Diff IR.DiffProofs.

(* the comparison the check evaluates is exact: it answers "no difference" iff the two
   serialised programs are the same tree (every node, name, number, flag and type) *)
Theorem reloaded_program_identical_iff : forall p q, type_changes [] p q = Some [] <-> p = q.
Proof. exact (type_changes_nil_iff []). Qed.
Print Assumptions reloaded_program_identical_iff.

(* hence two lineages that pass it at one stage are the same input for every function of the tree *)
Theorem identical_programs_indistinguishable : forall (A : Type) (f : node -> A) p q,
  type_changes [] p q = Some [] -> f p = f q.
Proof. intros A f p q H. apply (type_changes_nil_iff []) in H. rewrite H. reflexivity. Qed.
Print Assumptions identical_programs_indistinguishable.
