(* IR/PrintGroovy.v -- a Gallina model of src/translators/groovy.py (GroovyTranslator).
   Definitions only.  Self-contained (nothing is shared with the Kotlin / Scala / Java models).

   INPUT.  A printing-oriented tree `pnode` = PN kind children, one node per AST object that
   the translator visits, where `children` is exactly `node.children()` (in that order) and
   `kind` carries the attributes groovy.py reads (names, literals, operators, flags, the numbers
   of params / fields / ... by which the implementation splits `children_res`, and the types as
   `ptype`).  harness/ir2print_groovy.py produces these terms from ast.Program.

   STATE.  The translator object is modelled explicitly: record `st` has one component per
   attribute that __init__ / _reset_state assign (ident, is_unit, _cast_number, _inside_is,
   _inside_is_function, _children_res, _main_children, _main_method, _nodes_stack, _namespace,
   _function_interfaces, context, types) plus the construction-time option always_cast_numbers;
   record `translator` adds `program`, which only visit_program assigns.  Every visit_* method is
   a state-passing function transcribed statement by statement that returns the string the
   method returns; the decorators append_to and change_namespace are functions of the same name;
   _reset_state is `reset_state`.  Lists that Python appends to are stored REVERSED (head = last
   element): _children_res, _main_children, _nodes_stack and _namespace (head = innermost name).
   construct_constructor's `translator = GroovyTranslator()` is a second state (nested_init).

   OUTPUT.  Texts are lists of segments (`segs`); the text is `flatten`.  A segment is plain
   text or a marked piece: the name of a declaration in declaration position, a literal, an
   operator.  The marks do not influence the text; they are what the C12 theorems talk about.
   Where the format strings contain brackets the text functions use `paren` / `brace`.

   NOT MODELLED, supplied by the serialiser which evaluates the real code:
     - the three context queries: _get_main_prefix('vars' | 'funcs', name) (it does not depend on
       the namespace: get_namespaces_decls starts from the global namespace) as two tables of
       names, and the class_type of context.get_classes(.., glob=True)[name] as the table of
       interface names (record `gctx`);
     - type computations on nodes: Lambda / FunctionDeclaration.get_signature (the type printed
       after " as "), box_type of a primitive return type, t.get_name(), t.is_primitive() and the
       class of a builtin as far as the translator compares with it (gt.Void, the dict keys of
       visit_integer_constant / visit_real_constant).
   self.types (node.get_types()) is assigned and reset but read by no method that is ever
   called (_get_function_reference_signature is dead code): it is the flag `types_set`.
   Exceptions (IndexError / KeyError / AttributeError on malformed trees) are not modelled: the
   model is total and uses defaults.  Strings are byte strings (UTF-8); lstrip and \s act on
   ASCII white space (the serialiser rejects other white space).  The Python set
   _function_interfaces is the list [0; 1; 2; 3] (CPython iterates this set in increasing order;
   groovy.py never adds to it). *)
From Coq Require Import String Ascii List Arith Bool.
Import ListNotations.
Open Scope string_scope.
Open Scope list_scope.

(* ------------------------------------------------------------------------------------ *)
(* strings                                                                                *)

Definition nl : string := String (ascii_of_nat 10) EmptyString.
Definition dquote : string := String (ascii_of_nat 34) EmptyString.

Fixpoint spaces (n : nat) : string :=
  match n with 0 => EmptyString | S k => String " "%char (spaces k) end.

Definition str_empty (s : string) : bool :=
  match s with EmptyString => true | _ => false end.

Fixpoint join (sep : string) (l : list string) : string :=
  match l with
  | [] => EmptyString
  | x :: r => match r with [] => x | _ => (x ++ sep ++ join sep r)%string end
  end.

Fixpoint mem_str (x : string) (l : list string) : bool :=
  match l with [] => false | y :: r => String.eqb x y || mem_str x r end.

(* str.isspace() on ASCII: \t \n \v \f \r, \x1c-\x1f, space *)
Definition is_ws (a : ascii) : bool :=
  let n := nat_of_ascii a in
  (Nat.leb 9 n && Nat.leb n 13) || (Nat.leb 28 n && Nat.leb n 32).

Fixpoint has_ws (s : string) : bool :=
  match s with EmptyString => false | String a r => is_ws a || has_ws r end.

(* s.lstrip() *)
Fixpoint lstrip_str (s : string) : string :=
  match s with
  | EmptyString => EmptyString
  | String a r => if is_ws a then lstrip_str r else s
  end.

(* re.sub(r'\s+', ' ', s), with the flag "the previous character was white space" *)
Fixpoint collapse_str (prev : bool) (s : string) : string * bool :=
  match s with
  | EmptyString => (EmptyString, prev)
  | String a r =>
      if is_ws a
      then if prev then collapse_str true r
           else let (x, f) := collapse_str true r in (String " "%char x, f)
      else let (x, f) := collapse_str false r in (String a x, f)
  end.

(* str(n) *)
Definition digit (n : nat) : string := String (ascii_of_nat (48 + n)) EmptyString.

Fixpoint nat_str_fuel (fuel n : nat) (acc : string) : string :=
  match fuel with
  | 0 => acc
  | S f => let acc' := (digit (Nat.modulo n 10) ++ acc)%string in
           if Nat.ltb n 10 then acc' else nat_str_fuel f (Nat.div n 10) acc'
  end.

Definition nat_str (n : nat) : string := nat_str_fuel (S n) n EmptyString.

(* ------------------------------------------------------------------------------------ *)
(* segments                                                                               *)

Inductive dkind := DClass | DField | DFunc | DParam | DTypeParam | DVar.

Inductive seg :=
| Txt (s : string)
| Decl (k : dkind) (name : string)     (* a declared name, in declaration position *)
| Lit (s : string)                      (* the text of a literal *)
| Op (s : string).                      (* the text of an operator *)

Definition segs := list seg.

Definition seg_text (sg : seg) : string :=
  match sg with Txt s => s | Decl _ s => s | Lit s => s | Op s => s end.

Definition set_text (sg : seg) (s : string) : seg :=
  match sg with Txt _ => Txt s | Decl k _ => Decl k s | Lit _ => Lit s | Op _ => Op s end.

Fixpoint flatten (l : segs) : string :=
  match l with [] => EmptyString | sg :: r => (seg_text sg ++ flatten r)%string end.

Definition T (s : string) : segs := [Txt s].

(* Python `if some_str:` *)
Definition segs_empty (l : segs) : bool := forallb (fun sg => str_empty (seg_text sg)) l.

Fixpoint joins (sep : segs) (l : list segs) : segs :=
  match l with
  | [] => []
  | x :: r => match r with [] => x | _ => x ++ sep ++ joins sep r end
  end.

(* s.lstrip() on the flattened text *)
Fixpoint lstrip_segs (l : segs) : segs :=
  match l with
  | [] => []
  | sg :: r => let s' := lstrip_str (seg_text sg) in
               if str_empty s' then lstrip_segs r else set_text sg s' :: r
  end.

(* re.sub(r'\s+', ' ', s) on the flattened text *)
Fixpoint collapse_segs (prev : bool) (l : segs) : segs :=
  match l with
  | [] => []
  | sg :: r => let (s', f) := collapse_str prev (seg_text sg) in
               set_text sg s' :: collapse_segs f r
  end.

Definition nth_seg (i : nat) (l : list segs) : segs := nth i l [].
Definition last_seg (l : list segs) : segs := last l [].
Definition nonempty {A} (l : list A) : bool := match l with [] => false | _ => true end.

Definition paren (r : segs) : segs := T "(" ++ r ++ T ")".
Definition brace (r : segs) : segs := T "{" ++ r ++ T "}".

(* ------------------------------------------------------------------------------------ *)
(* types as the translator sees them                                                      *)

(* the class of a non-parameterized, non-wildcard type object, as far as groovy.py compares
   with it: `== gt.Void`, the keys gt.Long / Short / Byte / Number / BigInteger of
   visit_integer_constant and gt.Double / Float / Number of visit_real_constant
   (Builtin.__eq__ / __hash__ compare classes) *)
Inductive gcls := GVoid | GLong | GShort | GByte | GNumber | GBigInteger | GDouble | GFloat | GOther.

Inductive ptype :=
| TName (c : gcls) (prim : bool) (name : string)    (* name = t.get_name(), prim = t.is_primitive() *)
| TWild (variance : nat) (bound : option ptype)                 (* types.WildCardType *)
| TApp (name : string) (is_array : bool) (can_infer : bool) (args : list ptype).
    (* types.ParameterizedType; is_array = isinstance(t_constructor, gt.ArrayType) *)

(* GroovyTranslator.get_type_name together with type_arg2str *)
Fixpoint type_name (t : ptype) : string :=
  match t with
  | TName _ _ n => n
  | TWild _ b => match b with Some t' => type_name t' | None => EmptyString end
  | TApp n arr _ args =>
      if arr
      then match args with a :: _ => (type_name a ++ "[]")%string | [] => "[]" end
      else (n ++ "<" ++
           join ", " (map (fun a =>
                             match a with
                             | TWild v b =>
                                 match v with
                                 | 0 => "?"
                                 | 1 => "? extends " ++ match b with Some t' => type_name t' | None => EmptyString end
                                 | _ => "? super " ++ match b with Some t' => type_name t' | None => EmptyString end
                                 end
                             | _ => type_name a
                             end) args) ++ ">")%string
  end.

Definition opt_type_name (t : option ptype) : string :=
  match t with Some t' => type_name t' | None => EmptyString end.

(* the attribute `.name` *)
Definition ptype_dot_name (t : ptype) : string :=
  match t with TName _ _ n => n | TWild _ _ => "*" | TApp n _ _ _ => n end.

(* `t == gt.Void` *)
Definition is_void_ty (t : ptype) : bool :=
  match t with TName GVoid _ _ => true | _ => false end.

Definition opt_is_void (t : option ptype) : bool :=
  match t with Some t' => is_void_ty t' | None => false end.

Definition ty_is_primitive (t : ptype) : bool := match t with TName _ p _ => p | _ => false end.
Definition ty_can_infer (t : ptype) : bool := match t with TApp _ _ ci _ => ci | _ => false end.
Definition ty_arg0 (t : ptype) : option ptype := match t with TApp _ _ _ (a :: _) => Some a | _ => None end.

(* ------------------------------------------------------------------------------------ *)
(* the tree                                                                               *)

Inductive pkind :=
| KBlock (is_func_block : bool)
| KSuper (class_type : ptype) (is_builtin : bool)      (* isinstance(class_type, tp.Builtin) *)
| KClass (name : string) (class_type : nat) (is_final : bool) (nfields nsupers nfuncs : nat)
| KTypeParam (name : string) (bound : option ptype)
| KVarDecl (name : string) (is_final : bool) (var_type : option ptype) (inferred : ptype)
| KCallArg
| KField (name : string) (ftype : ptype) (is_final : bool)
| KParam (name : string) (param_type : ptype) (vararg : bool)
| KFunc (name : string) (ret_type : option ptype) (inferred : ptype) (boxed : ptype)
        (is_final has_body : bool) (nparams ntparams : nat)
        (* inferred = node.get_type() = node.inferred_type; boxed = that type, box_type() applied when
           it is primitive *)
| KLambda (name : string) (ret_type : option ptype) (sig : ptype) (nparams : nat) (has_body : bool)
        (* sig = node.get_signature(FunctionType(len(params))) *)
| KBottom (t : option ptype)
| KInt (lit : string) (integer_type : ptype)
| KReal (lit : string) (real_type : ptype)
| KChar (lit : string)
| KString (lit : string)
| KBool (lit : string)
| KArray (array_type : ptype) (length : nat)
| KVariable (name : string)
| KBinOp (op : string) (is_not : bool)
| KCond
| KIs (is_not : bool) (rexpr : ptype)
| KNew (class_type : ptype)
| KFieldAccess (field : string)
| KFuncRef (func : string) (sig : ptype)               (* sig = node.get_signature() *)
| KFuncCall (func : string) (type_args : list ptype) (can_infer is_ref_call has_receiver : bool)
| KAssign (name : string) (has_receiver : bool).

Inductive pnode := PN (k : pkind) (children : list pnode).

Definition kind_of (n : pnode) : pkind := match n with PN k _ => k end.
Definition children_of (n : pnode) : list pnode := match n with PN _ cs => cs end.

(* what the translator asks the context *)
Record gctx := mkCtx {
  main_vars : list string;     (* names with exactly one 'vars' declaration in the context, a global one *)
  main_funcs : list string;    (* the same for 'funcs' *)
  ifaces : list string         (* classes of the context whose class_type is INTERFACE *)
}.

Record pprogram := mkProgram {
  pctx : gctx;
  decls : list pnode        (* Program.children() *)
}.

Definition empty_ctx : gctx := mkCtx [] [] [].

Definition is_block_kind (k : pkind) : bool := match k with KBlock _ => true | _ => false end.
Definition is_bottom_kind (k : pkind) : bool := match k with KBottom _ => true | _ => false end.
Definition is_class_kind (k : pkind) : bool := match k with KClass _ _ _ _ _ _ => true | _ => false end.
Definition is_funcref_kind (k : pkind) : bool := match k with KFuncRef _ _ => true | _ => false end.

Definition opt_kind (f : pkind -> bool) (k : option pkind) : bool :=
  match k with Some k' => f k' | None => false end.

(* isinstance(children[-1], ast.Block) *)
Definition last_is_block (cs : list pnode) : bool :=
  match rev cs with c :: _ => is_block_kind (kind_of c) | [] => false end.

(* isinstance(children[0], ast.BottomConstant) *)
Definition first_is_bottom (cs : list pnode) : bool :=
  match cs with c :: _ => is_bottom_kind (kind_of c) | [] => false end.

(* str(Operator) *)
Definition op_str (op : string) (is_not : bool) : string :=
  if is_not then ("!" ++ op)%string else op.

(* ------------------------------------------------------------------------------------ *)
(* the translator object                                                                  *)

Record st := mkSt {
  ident : nat;
  is_unit : bool;
  cast_number : bool;
  inside_is : bool;
  inside_is_function : bool;
  children_res : list segs;            (* _children_res, reversed *)
  main_children : list segs;           (* _main_children, reversed *)
  main_method : segs;                  (* _main_method *)
  nodes_stack : list (option pkind);   (* _nodes_stack, reversed *)
  namespace : list string;             (* _namespace, reversed *)
  fun_ifaces : list nat;               (* _function_interfaces *)
  context : option gctx;               (* self.context *)
  types_set : bool;                    (* self.types is the list of visit_program, not [] *)
  acn : bool                           (* always_cast_numbers = options.get('cast_numbers', False) *)
}.

Definition set_ident (v : nat) (s : st) : st :=
  mkSt v (is_unit s) (cast_number s) (inside_is s) (inside_is_function s) (children_res s) (main_children s) (main_method s) (nodes_stack s) (namespace s) (fun_ifaces s) (context s) (types_set s) (acn s).
Definition set_is_unit (v : bool) (s : st) : st :=
  mkSt (ident s) v (cast_number s) (inside_is s) (inside_is_function s) (children_res s) (main_children s) (main_method s) (nodes_stack s) (namespace s) (fun_ifaces s) (context s) (types_set s) (acn s).
Definition set_cast_number (v : bool) (s : st) : st :=
  mkSt (ident s) (is_unit s) v (inside_is s) (inside_is_function s) (children_res s) (main_children s) (main_method s) (nodes_stack s) (namespace s) (fun_ifaces s) (context s) (types_set s) (acn s).
Definition set_inside_is (v : bool) (s : st) : st :=
  mkSt (ident s) (is_unit s) (cast_number s) v (inside_is_function s) (children_res s) (main_children s) (main_method s) (nodes_stack s) (namespace s) (fun_ifaces s) (context s) (types_set s) (acn s).
Definition set_inside_is_function (v : bool) (s : st) : st :=
  mkSt (ident s) (is_unit s) (cast_number s) (inside_is s) v (children_res s) (main_children s) (main_method s) (nodes_stack s) (namespace s) (fun_ifaces s) (context s) (types_set s) (acn s).
Definition set_children_res (v : list segs) (s : st) : st :=
  mkSt (ident s) (is_unit s) (cast_number s) (inside_is s) (inside_is_function s) v (main_children s) (main_method s) (nodes_stack s) (namespace s) (fun_ifaces s) (context s) (types_set s) (acn s).
Definition set_main_children (v : list segs) (s : st) : st :=
  mkSt (ident s) (is_unit s) (cast_number s) (inside_is s) (inside_is_function s) (children_res s) v (main_method s) (nodes_stack s) (namespace s) (fun_ifaces s) (context s) (types_set s) (acn s).
Definition set_main_method (v : segs) (s : st) : st :=
  mkSt (ident s) (is_unit s) (cast_number s) (inside_is s) (inside_is_function s) (children_res s) (main_children s) v (nodes_stack s) (namespace s) (fun_ifaces s) (context s) (types_set s) (acn s).
Definition set_nodes_stack (v : list (option pkind)) (s : st) : st :=
  mkSt (ident s) (is_unit s) (cast_number s) (inside_is s) (inside_is_function s) (children_res s) (main_children s) (main_method s) v (namespace s) (fun_ifaces s) (context s) (types_set s) (acn s).
Definition set_namespace (v : list string) (s : st) : st :=
  mkSt (ident s) (is_unit s) (cast_number s) (inside_is s) (inside_is_function s) (children_res s) (main_children s) (main_method s) (nodes_stack s) v (fun_ifaces s) (context s) (types_set s) (acn s).
Definition set_fun_ifaces (v : list nat) (s : st) : st :=
  mkSt (ident s) (is_unit s) (cast_number s) (inside_is s) (inside_is_function s) (children_res s) (main_children s) (main_method s) (nodes_stack s) (namespace s) v (context s) (types_set s) (acn s).
Definition set_context (v : option gctx) (s : st) : st :=
  mkSt (ident s) (is_unit s) (cast_number s) (inside_is s) (inside_is_function s) (children_res s) (main_children s) (main_method s) (nodes_stack s) (namespace s) (fun_ifaces s) v (types_set s) (acn s).
Definition set_types_set (v : bool) (s : st) : st :=
  mkSt (ident s) (is_unit s) (cast_number s) (inside_is s) (inside_is_function s) (children_res s) (main_children s) (main_method s) (nodes_stack s) (namespace s) (fun_ifaces s) (context s) v (acn s).

Record translator := mkTr {
  tst : st;
  program : option segs                (* self.program *)
}.

(* GroovyTranslator.__init__(package, options) with options.get('cast_numbers', False) = o *)
Definition init_st (o : bool) : st :=
  mkSt 0 false false false false [] [] [] [None] ["global"] [0; 1; 2; 3] None false o.
Definition init_tr (o : bool) : translator := mkTr (init_st o) None.

(* GroovyTranslator._reset_state, assignment by assignment (always_cast_numbers is not touched) *)
Definition reset_state (s : st) : st :=
  let s := set_types_set false s in
  let s := set_main_method [] s in
  let s := set_main_children [] s in
  let s := set_inside_is false s in
  let s := set_inside_is_function false s in
  let s := set_context None s in
  let s := set_cast_number false s in
  let s := set_ident 0 s in
  let s := set_is_unit false s in
  let s := set_namespace ["global"] s in
  let s := set_children_res [] s in
  let s := set_fun_ifaces [0; 1; 2; 3] s in
  set_nodes_stack [None] s.

(* self._children_res.append(r) *)
Definition push (r : segs) (s : st) : st := set_children_res (r :: children_res s) s.

(* pop_children_res(children), n = len(children): the last n results in order (all of them when
   there are fewer), and the state without them *)
Definition pop_res (n : nat) (s : st) : list segs * st :=
  (rev (firstn n (children_res s)), set_children_res (skipn n (children_res s)) s).

Definition ctx_of (s : st) : gctx := match context s with Some c => c | None => empty_ctx end.

Fixpoint list_str_eqb (a b : list string) : bool :=
  match a, b with
  | [], [] => true
  | x :: a', y :: b' => String.eqb x y && list_str_eqb a' b'
  | _, _ => false
  end.

(* self._namespace == ast.GLOBAL_NAMESPACE *)
Definition ns_is_global (ns : list string) : bool := list_str_eqb ns ["global"].

(* (self._namespace[-2],) == ast.GLOBAL_NAMESPACE *)
Definition ns_parent_global (ns : list string) : bool :=
  match ns with _ :: p :: _ => String.eqb p "global" | _ => false end.

(* _get_main_prefix('vars' | 'funcs', name) *)
Definition main_prefix (tab : list string) (name : string) : string :=
  if mem_str name tab then "Main." else "".

(* get_ident() / get_ident(extra=+-k) / get_ident(old_ident=..) *)
Definition gi (s : st) : string := spaces (ident s).
Definition gi_old (old : nat) (s : st) : string := spaces (if Nat.eqb old 0 then ident s else old).

(* self._nodes_stack[-2] *)
Definition parent_kind (s : st) : option pkind := nth 1 (nodes_stack s) None.

Definition parent_is_func_ref (s : st) : bool := opt_kind is_funcref_kind (parent_kind s).

(* is_closure() of visit_func_decl: the parent is neither None nor a class declaration *)
Definition is_closure (s : st) : bool :=
  match parent_kind s with None => false | Some k => negb (is_class_kind k) end.

(* ------------------------------------------------------------------------------------ *)
(* the visit_* methods; each returns the string the method returns and the state            *)

Definition visitor := pnode -> st -> st.

(* for c in children: c.accept(self) *)
Definition visit_children (rec : visitor) (cs : list pnode) (s : st) : st :=
  fold_left (fun s c => rec c s) cs s.

(* ---- visit_block *)
(* the loop: the last child of a function block of a non-void function is visited with
   _cast_number = False *)
Definition visit_block_children (rec : visitor) (fb : bool) : list pnode -> st -> st :=
  fix go (cs : list pnode) (s : st) {struct cs} : st :=
    match cs with
    | [] => s
    | c :: r =>
        match r with
        | [] => if fb && negb (is_unit s)
                then let prev := cast_number s in
                     let s := set_cast_number false s in
                     let s := rec c s in
                     set_cast_number prev s
                else rec c s
        | _ => go r (rec c s)
        end
    end.

Definition semi_nl : string := (";" ++ nl)%string.

(* `call`: the block is the branch of a conditional and not inside a function declared there:
   Groovy reads { ... } as a closure, "()" calls it *)
Definition block_text (idt : nat) (call : bool) (cr : list segs) : segs :=
  match cr with
  | [] => brace (T " ")
  | [c0] => brace (T nl ++ T (spaces idt) ++ c0 ++ T nl ++ T (spaces (idt - 2)))
  | _ => brace (T nl ++ joins (T semi_nl) cr ++ T nl ++ T (spaces (idt - 2)))
  end ++ (if call then paren [] else []).

Definition visit_block (rec : visitor) (fb : bool) (cs : list pnode) (s : st) : segs * st :=
  let s := visit_block_children rec fb cs s in
  let (cr, s) := pop_res (List.length cs) s in
  (block_text (ident s) (inside_is s && negb (inside_is_function s)) cr, s).

(* ---- visit_super_instantiation: the arguments are NOT visited *)
Definition visit_super_instantiation (class_type : ptype) (s : st) : segs * st :=
  (T (type_name class_type), s).

(* ---- visit_class_decl *)
Definition class_prefix (class_type : nat) : string :=
  match class_type with 0 => "class" | 1 => "interface" | _ => "abstract class" end.

(* get_superclasses_interfaces: the printed types of node.superclasses, split by the class_type
   of the class the context has under that name *)
Definition supers_of (nf ns : nat) (cs : list pnode) : list ptype :=
  flat_map (fun c => match kind_of c with KSuper ct _ => [ct] | _ => [] end) (firstn ns (skipn nf cs)).

Definition split_supers (ifs : list string) (sup : list ptype) : list string * list string :=
  (map type_name (filter (fun ct => negb (mem_str (ptype_dot_name ct) ifs)) sup),
   map type_name (filter (fun ct => mem_str (ptype_dot_name ct) ifs) sup)).

(* get_constructor_params: an OrderedDict name -> type name *)
Fixpoint dict_set (k v : string) (d : list (string * string)) : list (string * string) :=
  match d with
  | [] => [(k, v)]
  | (k', v') :: r => if String.eqb k k' then (k, v) :: r else (k', v') :: dict_set k v r
  end.

Definition fields_of (nf : nat) (cs : list pnode) : list (string * string) :=
  flat_map (fun c => match kind_of c with KField n ft _ => [(n, type_name ft)] | _ => [] end) (firstn nf cs).

Definition constructor_params (fl : list (string * string)) : list (string * string) :=
  fold_left (fun d f => dict_set (fst f) (snd f) d) fl [].

(* construct_constructor's `translator = GroovyTranslator()` (no options: always_cast_numbers is
   False) with context, _cast_number = True and _namespace taken over *)
Definition nested_init (s : st) : st :=
  mkSt 0 false true false false [] [] [] [None] (namespace s) [0; 1; 2; 3] (context s) false false.

(* node.superclasses[0] = children[i] and what the nested translator returns for its arguments:
   (is_builtin, bool(args), translator._children_res); None when that child is not a super
   instantiation *)
Definition super_args_at (rec : visitor) (s : st) : nat -> list pnode -> option (bool * bool * list segs) :=
  fix go (i : nat) (cs : list pnode) {struct cs} : option (bool * bool * list segs) :=
    match cs with
    | [] => None
    | c :: r =>
        match i with
        | 0 => match c with
               | PN (KSuper _ bi) args =>
                   Some (bi, nonempty args, rev (children_res (visit_children rec args (nested_init s))))
               | _ => None
               end
        | S i' => go i' r
        end
    end.

Definition super_call_text (sup : option (bool * bool * list segs)) (idt : nat) : segs :=
  match sup with
  | Some (false, has_args, res) =>
      T nl ++ T (spaces (idt + 2)) ++ T "super" ++
      paren (if has_args then collapse_segs false (joins (T ", ") res) else []) ++ T ";"
  | _ => []
  end.

Definition constructor_text (name : string) (fl : list (string * string))
    (sup : option (bool * bool * list segs)) (idt : nat) : segs :=
  let params := map (fun p => (snd p ++ " " ++ fst p)%string) (constructor_params fl) in
  let fields := map (fun f => ("this." ++ fst f ++ " = " ++ fst f)%string) fl in
  let sep := (nl ++ spaces (idt + 2))%string in
  let constructor_fields := ((if nonempty fields then sep else "") ++ join sep fields)%string in
  T (spaces idt) ++ T "public " ++ T name ++ paren (T (join "," params)) ++ T " " ++
  brace (super_call_text sup idt ++ T constructor_fields ++ T nl ++
         T (if nonempty fields then spaces idt else "")).

Definition class_text (name : string) (class_type : nat) (is_final : bool) (nf ns nfn : nat)
    (cs : list pnode) (ifs : list string) (sup : option (bool * bool * list segs))
    (old_ident : nat) (cr : list segs) : segs :=
  let idt := old_ident + 2 in
  let field_res := firstn nf cr in
  let function_res := firstn nfn (skipn (nf + ns) cr) in
  let type_parameters_res := joins (T ", ") (skipn (nf + ns + nfn) cr) in
  let res := T (spaces old_ident) ++ T (if is_final then "final " else "") ++
             T (class_prefix class_type) ++ T " " ++ [Decl DClass name] in
  let res := if negb (segs_empty type_parameters_res)
             then res ++ T "<" ++ type_parameters_res ++ T ">" else res in
  let superclasses := fst (split_supers ifs (supers_of nf ns cs)) in
  let interfaces := snd (split_supers ifs (supers_of nf ns cs)) in
  let res := if nonempty superclasses then res ++ T " extends " ++ T (join ", " superclasses) else res in
  let res := if nonempty interfaces
             then res ++ T (if Nat.eqb class_type 1 then " extends " else " implements ") ++
                  T (join ", " interfaces)
             else res in
  let inner :=
    if nonempty function_res || nonempty field_res || nonempty superclasses then
      T nl ++
      (if nonempty field_res
       then T (spaces idt) ++ joins (T (nl ++ spaces idt)%string) field_res ++ T (nl ++ nl)%string
       else []) ++
      (if nonempty superclasses || nonempty field_res
       then constructor_text name (fields_of nf cs) sup idt ++
            (if nonempty function_res then T (nl ++ nl)%string else [])
       else []) ++
      (if nonempty function_res then joins (T (nl ++ nl)%string) function_res else []) ++
      T nl ++ T (spaces (idt - 4))
    else [] in
  res ++ T " " ++ brace inner.

Definition visit_class_decl (rec : visitor) (name : string) (class_type : nat)
    (is_final : bool) (nf ns nfn : nat) (cs : list pnode) (s : st) : segs * st :=
  let old_ident := ident s in
  let s := set_ident (ident s + 2) s in
  let s := visit_children rec cs s in
  let (cr, s) := pop_res (List.length cs) s in
  let sup := if Nat.eqb ns 0 then None else super_args_at rec s nf cs in
  let res := class_text name class_type is_final nf ns nfn cs (ifaces (ctx_of s)) sup old_ident cr in
  (res, set_ident old_ident s).

(* ---- visit_type_param *)
Definition type_param_text (name : string) (bound : option ptype) : segs :=
  [Decl DTypeParam name] ++
  match bound with Some b => T " extends " ++ T (type_name b) | None => [] end.

Definition visit_type_param (name : string) (bound : option ptype) (s : st) : segs * st :=
  (type_param_text name bound, s).

(* ---- visit_var_decl: the printed type is the INFERRED type, printed iff var_type is present or
   the declaration is visited in the global namespace (a static field of Main); otherwise "def" *)
Definition var_type_text (var_type : option ptype) (inferred : ptype) (glob : bool) : segs :=
  match var_type with
  | Some _ => T (type_name inferred) ++ T " "
  | None => if glob then T (type_name inferred) ++ T " " else T "def "
  end.

Definition var_decl_text (name : string) (is_final : bool) (var_type : option ptype) (inferred : ptype)
    (glob : bool) (mp : string) (idt : string) (cr : list segs) : segs :=
  T idt ++ T (if is_final then "final " else "") ++ var_type_text var_type inferred glob ++ T mp ++
  [Decl DVar name] ++ T " = " ++ lstrip_segs (nth_seg 0 cr).

Definition visit_var_decl (rec : visitor) (name : string) (is_final : bool) (var_type : option ptype)
    (inferred : ptype) (cs : list pnode) (s : st) : segs * st :=
  let prev := cast_number s in
  let s := set_cast_number (match var_type with Some _ => false | None => true end) s in
  let s := visit_children rec cs s in
  let (cr, s) := pop_res (List.length cs) s in
  let glob := ns_is_global (namespace s) in
  let mp := if negb glob then main_prefix (main_vars (ctx_of s)) name else "" in
  let res := var_decl_text name is_final var_type inferred glob mp (gi s) cr in
  (res, set_cast_number prev s).

(* ---- visit_call_argument *)
Definition visit_call_argument (rec : visitor) (cs : list pnode) (s : st) : segs * st :=
  let old_ident := ident s in
  let s := set_ident 0 s in
  let s := visit_children rec cs s in
  let s := set_ident old_ident s in
  let (cr, s) := pop_res (List.length cs) s in
  (nth_seg 0 cr, s).

(* ---- visit_field_decl *)
Definition field_text (name : string) (ftype : ptype) (is_final : bool) : segs :=
  T "public " ++ T (if is_final then "final " else "") ++ T (type_name ftype) ++ T " " ++
  [Decl DField name].

Definition visit_field_decl (name : string) (ftype : ptype) (is_final : bool) (s : st) : segs * st :=
  (field_text name ftype is_final, s).

(* ---- visit_param_decl *)
(* the printed type of a parameter: the element type for varargs *)
Definition param_print_type (param_type : ptype) (vararg : bool) : string :=
  if vararg
  then match param_type with
       | TApp _ _ _ (a :: _) => type_name a
       | _ => type_name param_type
       end
  else type_name param_type.

Definition param_text (name : string) (param_type : ptype) (vararg : bool) (has_children : bool)
    (cr : list segs) : segs :=
  let res := T (param_print_type param_type vararg) ++ T (if vararg then "..." else "") ++ T " " ++
             [Decl DParam name] in
  if has_children then res ++ T " = " ++ nth_seg 0 cr else res.

Definition visit_param_decl (rec : visitor) (name : string) (param_type : ptype) (vararg : bool)
    (cs : list pnode) (s : st) : segs * st :=
  let old_ident := ident s in
  let s := set_ident 0 s in
  let s := visit_children rec cs s in
  let s := set_ident old_ident s in
  (* `if len(children): children_res = self.pop_children_res(children)`; for no children
     nothing is popped, which is what pop_res 0 does *)
  let (cr, s) := pop_res (List.length cs) s in
  (param_text name param_type vararg (nonempty cs) cr, s).

(* ---- visit_func_decl *)
(* the prefix of a function declared as a closure: "def" iff there is no declared return type or
   it is void, otherwise Closure<T> for the (boxed) INFERRED type T *)
Definition closure_prefix (ret_type : option ptype) (boxed : ptype) : segs :=
  match ret_type with
  | None => T "def"
  | Some rt => if is_void_ty rt then T "def" else T "Closure<" ++ T (type_name boxed) ++ T ">"
  end.

Definition func_decl_text (name : string) (ret_type : option ptype) (inferred boxed : ptype)
    (is_final has_body : bool) (nparams ntparams : nat) (is_expression closure : bool) (close : string)
    (cr : list segs) : segs :=
  let param_res := firstn nparams cr in
  let type_parameters_res := joins (T ", ") (firstn ntparams (skipn nparams cr)) in
  let body_res := if has_body then last_seg cr else [] in
  let body :=
    if negb (segs_empty body_res) then
      if is_expression then brace (T nl ++ body_res ++ T nl ++ T close) else body_res
    else [] in
  if closure then
    T close ++ closure_prefix ret_type boxed ++ T " " ++ [Decl DFunc name] ++ T " = " ++
    brace (T " " ++ joins (T ", ") param_res ++ T " -> " ++ body_res)
  else
    T close ++ T (if is_final then "final " else "") ++
    T (if segs_empty body then "abstract " else "") ++
    (if negb (segs_empty type_parameters_res) then T "<" ++ type_parameters_res ++ T ">" else []) ++
    T (type_name inferred) ++ T " " ++ [Decl DFunc name] ++ paren (joins (T ", ") param_res) ++ T " " ++
    body.

Definition visit_func_decl (rec : visitor) (name : string) (ret_type : option ptype) (inferred boxed : ptype)
    (is_final has_body : bool) (nparams ntparams : nat) (cs : list pnode) (s : st) : segs * st :=
  let prev_iif := inside_is_function s in
  let s := if inside_is s then set_inside_is_function true s else s in
  let glob := ns_parent_global (namespace s) in
  let old_ident := ident s + (if glob then 2 else 0) in
  let s := set_ident (old_ident + 2) s in
  let prev_cast := cast_number s in
  let prev := is_unit s in
  let s := set_is_unit (is_void_ty inferred) s in
  let is_expression := negb (has_body && last_is_block cs) in
  let s := if is_expression then set_cast_number false s else s in
  let s := visit_children rec cs s in
  let (cr, s) := pop_res (List.length cs) s in
  let res := func_decl_text name ret_type inferred boxed is_final has_body nparams ntparams is_expression
                            (is_closure s) (gi_old old_ident s) cr in
  let s := set_ident (old_ident - (if ns_parent_global (namespace s) then 2 else 0)) s in
  let s := set_is_unit prev s in
  let s := set_cast_number prev_cast s in
  let s := if inside_is s then set_inside_is_function prev_iif s else s in
  (res, s).

(* ---- visit_lambda: "{ params -> body}  as FunctionN<..>" (always_cast_ftypes is True) *)
Definition lambda_text (sig : ptype) (nparams : nat) (has_body : bool) (cr : list segs) : segs :=
  let param_res := firstn nparams cr in
  let body_res := if has_body then last_seg cr else [] in
  brace (T " " ++ joins (T ", ") param_res ++ T " -> " ++ body_res) ++ T " " ++ T " as " ++ T (type_name sig).

Definition visit_lambda (rec : visitor) (ret_type : option ptype) (sig : ptype) (nparams : nat)
    (has_body : bool) (cs : list pnode) (s : st) : segs * st :=
  let glob := ns_parent_global (namespace s) in
  let old_ident := ident s + (if glob then 2 else 0) in
  let s := set_ident (old_ident + 2) s in
  let prev_cast := cast_number s in
  let prev := is_unit s in
  let s := set_is_unit (opt_is_void ret_type) s in
  let is_expression := negb (has_body && last_is_block cs) in
  let s := if is_expression then set_cast_number false s else s in
  let s := visit_children rec cs s in
  let (cr, s) := pop_res (List.length cs) s in
  let res := lambda_text sig nparams has_body cr in
  let s := set_ident (old_ident - (if ns_parent_global (namespace s) then 2 else 0)) s in
  let s := set_is_unit prev s in
  let s := set_cast_number prev_cast s in
  (res, s).

(* ---- constants *)
Definition bottom_text (t : option ptype) (pfr : bool) (idt : string) : segs :=
  let inner := match t with Some t' => paren (T (type_name t')) ++ T " " | None => [] end ++ T "null" in
  T idt ++ (if pfr then paren inner else inner).

Definition visit_bottom_constant (t : option ptype) (s : st) : segs * st :=
  (bottom_text t (parent_is_func_ref s) (gi s), s).

Definition integer_cast (t : ptype) : segs :=
  match t with
  | TName GLong _ _ => paren (T "Long") ++ T " "
  | TName GShort _ _ => paren (T "Short") ++ T " "
  | TName GByte _ _ => paren (T "Byte") ++ T " "
  | TName GNumber _ _ => paren (T "Number") ++ T " "
  | TName GBigInteger _ _ => paren (T "BigInteger") ++ T " "
  | _ => []
  end.

(* not self._cast_number and (not self.always_cast_numbers and t.is_primitive()) *)
Definition plain_number (t : ptype) (s : st) : bool :=
  negb (cast_number s) && (negb (acn s) && ty_is_primitive t).

Definition integer_text (lit : string) (t : ptype) (plain : bool) (idt : string) : segs :=
  T idt ++ (if plain then [] else integer_cast t) ++ [Lit lit].

Definition visit_integer_constant (lit : string) (t : ptype) (s : st) : segs * st :=
  (integer_text lit t (plain_number t s) (gi s), s).

Definition real_cast (t : ptype) : segs :=
  match t with
  | TName GDouble _ _ => paren (T "Double") ++ T " "
  | TName GFloat _ _ => paren (T "Float") ++ T " "
  | TName GNumber _ _ => paren (T "Number") ++ T " "
  | _ => []
  end.

Definition real_text (lit : string) (t : ptype) (plain : bool) (idt : string) : segs :=
  T idt ++ (if plain then [] else real_cast t) ++ [Lit lit].

Definition visit_real_constant (lit : string) (t : ptype) (s : st) : segs * st :=
  (real_text lit t (plain_number t s) (gi s), s).

Definition char_text (lit : string) (idt : string) : segs :=
  T idt ++ paren (T "Character") ++ T " '" ++ [Lit lit] ++ T "'".

Definition visit_char_constant (lit : string) (s : st) : segs * st := (char_text lit (gi s), s).

Definition string_text (lit : string) (idt : string) : segs :=
  T idt ++ T dquote ++ [Lit lit] ++ T dquote.

Definition visit_string_constant (lit : string) (s : st) : segs * st := (string_text lit (gi s), s).

Definition boolean_text (lit : string) (idt : string) : segs := T idt ++ [Lit lit].

Definition visit_boolean_constant (lit : string) (s : st) : segs * st := (boolean_text lit (gi s), s).

(* ---- visit_array_expr *)
Definition array_empty_text (array_type : ptype) (idt : string) : segs :=
  T idt ++ T "new " ++ T (opt_type_name (ty_arg0 array_type)) ++ T "[0]".

Definition array_text (array_type : ptype) (idt : string) (cr : list segs) : segs :=
  T idt ++ T "new " ++ T (type_name array_type) ++ brace (joins (T ", ") cr).

Definition visit_array_expr (rec : visitor) (array_type : ptype) (length : nat)
    (cs : list pnode) (s : st) : segs * st :=
  if Nat.eqb length 0
  then (array_empty_text array_type (gi s), s)
  else
    let old_ident := ident s in
    let s := set_ident 0 s in
    let s := visit_children rec cs s in
    let (cr, s) := pop_res (List.length cs) s in
    let s := set_ident old_ident s in
    (array_text array_type (gi s) cr, s).

(* ---- visit_variable *)
Definition variable_text (name mp : string) (idt : string) : segs := T idt ++ T mp ++ T name.

Definition visit_variable (name : string) (s : st) : segs * st :=
  (variable_text name (main_prefix (main_vars (ctx_of s)) name) (gi s), s).

(* ---- visit_binary_op (visit_logical_expr, visit_equality_expr, visit_comparison_expr and
   visit_arith_expr call it) *)
Definition binary_op_text (op : string) (is_not : bool) (idt : string) (cr : list segs) : segs :=
  T idt ++ paren (nth_seg 0 cr ++ T " " ++ [Op (op_str op is_not)] ++ T " " ++ nth_seg 1 cr).

Definition visit_binary_op (rec : visitor) (op : string) (is_not : bool) (cs : list pnode) (s : st) : segs * st :=
  let old_ident := ident s in
  let s := set_ident 0 s in
  let s := visit_children rec cs s in
  let (cr, s) := pop_res (List.length cs) s in
  let res := binary_op_text op is_not (gi_old old_ident s) cr in
  (res, set_ident old_ident s).

(* ---- visit_conditional *)
Definition conditional_text (idt : string) (cr : list segs) : segs :=
  T idt ++ paren (paren (lstrip_segs (nth_seg 0 cr)) ++ T " ?" ++ T nl ++ nth_seg 1 cr ++ T " : " ++ T nl ++
                  T " " ++ nth_seg 2 cr).

(* children[0] in the namespace, children[1] in namespace + ('true_block',), children[2] in
   namespace + ('false_block',) *)
Definition visit_cond_children (rec : visitor) (cs : list pnode) (s : st) : st :=
  match cs with
  | c0 :: c1 :: c2 :: _ =>
      let prev_namespace := namespace s in
      let s := rec c0 s in
      let s := set_namespace ("true_block" :: prev_namespace) s in
      let s := rec c1 s in
      let s := set_namespace ("false_block" :: prev_namespace) s in
      let s := rec c2 s in
      set_namespace prev_namespace s
  | _ => visit_children rec cs s          (* not a Conditional the implementation survives *)
  end.

Definition visit_conditional (rec : visitor) (cs : list pnode) (s : st) : segs * st :=
  let prev_inside_is := inside_is s in
  let s := set_inside_is true s in
  let old_ident := ident s in
  let s := set_ident (ident s + 2) s in
  let s := visit_cond_children rec cs s in
  let (cr, s) := pop_res (List.length cs) s in
  let res := conditional_text (gi_old old_ident s) cr in
  let s := set_ident old_ident s in
  let s := set_inside_is prev_inside_is s in
  (res, s).

(* ---- visit_is: the operator is printed as instanceof / !instanceof *)
Definition is_op (is_not : bool) : string := if is_not then "!instanceof" else "instanceof".

Definition is_text (is_not : bool) (rexpr : ptype) (idt : string) (cr : list segs) : segs :=
  T idt ++ nth_seg 0 cr ++ T " " ++ [Op (is_op is_not)] ++ T " " ++ T (type_name rexpr).

Definition visit_is (rec : visitor) (is_not : bool) (rexpr : ptype) (cs : list pnode) (s : st) : segs * st :=
  let old_ident := ident s in
  let s := set_ident 0 s in
  let s := visit_children rec cs s in
  let (cr, s) := pop_res (List.length cs) s in
  let res := is_text is_not rexpr (gi_old old_ident s) cr in
  (res, set_ident old_ident s).

(* ---- visit_new: the diamond iff can_infer_type_args is True *)
Definition new_type_text (class_type : ptype) : string :=
  if ty_can_infer class_type then (ptype_dot_name class_type ++ "<>")%string else type_name class_type.

Definition new_text (class_type : ptype) (idt : string) (cr : list segs) : segs :=
  T idt ++ T "new " ++ T (new_type_text class_type) ++ paren (joins (T ", ") cr).

Definition visit_new (rec : visitor) (class_type : ptype) (cs : list pnode) (s : st) : segs * st :=
  let old_ident := ident s in
  let s := set_ident 0 s in
  let prev := cast_number s in
  let s := set_cast_number true s in
  let s := visit_children rec cs s in
  let (cr, s) := pop_res (List.length cs) s in
  let s := set_ident old_ident s in
  let res := new_text class_type (gi s) cr in
  (res, set_cast_number prev s).

(* '({})'.format(children_res[0]) if isinstance(receiver, BottomConstant) else children_res[0] *)
Definition receiver_text (bottom : bool) (cr : list segs) : segs :=
  if bottom then paren (nth_seg 0 cr) else nth_seg 0 cr.

(* ---- visit_field_access *)
Definition field_access_text (field : string) (bottom : bool) (idt : string) (cr : list segs) : segs :=
  T idt ++ receiver_text bottom cr ++ T "." ++ T field.

Definition visit_field_access (rec : visitor) (field : string) (cs : list pnode) (s : st) : segs * st :=
  let old_ident := ident s in
  let s := set_ident 0 s in
  let s := visit_children rec cs s in
  let (cr, s) := pop_res (List.length cs) s in
  let s := set_ident old_ident s in
  (field_access_text field (first_is_bottom cs) (gi s) cr, s).

(* ---- visit_func_ref: receiver::name as Signature (always_cast_ftypes is True) *)
Definition func_ref_text (func : string) (sig : ptype) (idt : string) (cr : list segs) : segs :=
  T idt ++ (if nonempty cr then nth_seg 0 cr else T "Main") ++ T "::" ++ T func ++ T " as " ++ T (type_name sig).

Definition visit_func_ref (rec : visitor) (func : string) (sig : ptype) (cs : list pnode) (s : st) : segs * st :=
  let old_ident := ident s in
  let s := set_ident 0 s in
  let s := visit_children rec cs s in
  let s := set_ident old_ident s in
  let (cr, s) := pop_res (List.length cs) s in
  (func_ref_text func sig (gi s) cr, s).

(* ---- visit_func_call: type arguments are never printed *)
Definition func_call_text (func : string) (is_ref_call has_receiver bottom : bool) (mp : string)
    (idt : string) (cr : list segs) : segs :=
  let receiver := if has_receiver then nth_seg 0 cr else [] in
  let args := if has_receiver then tl cr else cr in
  let receiver_expr := if negb (segs_empty receiver) then receiver_text bottom cr ++ T "." else [] in
  T idt ++ receiver_expr ++ T mp ++ T func ++ T (if is_ref_call then ".apply" else "") ++
  paren (joins (T ", ") args).

Definition visit_func_call (rec : visitor) (func : string) (is_ref_call has_receiver : bool)
    (cs : list pnode) (s : st) : segs * st :=
  let old_ident := ident s in
  let s := set_ident 0 s in
  let prev := cast_number s in
  let s := set_cast_number true s in
  let s := visit_children rec cs s in
  let s := set_ident old_ident s in
  let (cr, s) := pop_res (List.length cs) s in
  let mp := main_prefix (main_funcs (ctx_of s)) func in
  let mp := if str_empty mp then main_prefix (main_vars (ctx_of s)) func else mp in
  let res := func_call_text func is_ref_call has_receiver (first_is_bottom cs) mp (gi s) cr in
  (res, set_cast_number prev s).

(* ---- visit_assign *)
Definition assign_text (name mp : string) (has_receiver bottom : bool) (idt : string) (cr : list segs) : segs :=
  let receiver := if has_receiver then nth_seg 0 cr else [] in
  let expr := if has_receiver then nth_seg 1 cr else nth_seg 0 cr in
  let receiver_expr := if negb (segs_empty receiver) then receiver_text bottom cr ++ T "." else [] in
  T idt ++ receiver_expr ++ T mp ++ T name ++ T " = " ++ expr.

Definition visit_assign (rec : visitor) (name : string) (has_receiver : bool)
    (cs : list pnode) (s : st) : segs * st :=
  let old_ident := ident s in
  let s := set_ident 0 s in
  let prev := cast_number s in
  let s := set_cast_number false s in
  let s := visit_children rec cs s in
  let s := set_ident old_ident s in
  let (cr, s) := pop_res (List.length cs) s in
  let res := assign_text name (main_prefix (main_vars (ctx_of s)) name) has_receiver (first_is_bottom cs)
                         (gi_old old_ident s) cr in
  let s := set_ident old_ident s in
  (res, set_cast_number prev s).

(* ---- the decorators *)
Definition is_main_func (k : pkind) : bool :=
  match k with KFunc name _ _ _ _ _ _ _ => String.eqb name "main" | _ => false end.

Definition is_var_or_func (k : pkind) : bool :=
  match k with KFunc _ _ _ _ _ _ _ _ | KVarDecl _ _ _ _ => true | _ => false end.

(* where @append_to sends the returned string *)
Definition route (k : pkind) (res : segs) (s : st) : st :=
  if ns_is_global (namespace s) && is_main_func k then set_main_method res s
  else if ns_is_global (namespace s) && is_var_or_func k then set_main_children (res :: main_children s) s
  else push res s.

(* @append_to *)
Definition append_to (k : pkind) (f : st -> segs * st) (s : st) : st :=
  let s := set_nodes_stack (Some k :: nodes_stack s) s in
  let (res, s) := f s in
  let s := set_nodes_stack (tl (nodes_stack s)) s in
  route k res s.

(* @change_namespace *)
Definition change_namespace (name : string) (f : st -> segs * st) (s : st) : segs * st :=
  let initial := namespace s in
  let s := set_namespace (name :: initial) s in
  let (res, s) := f s in
  (res, set_namespace initial s).

(* ASTVisitor.visit: dispatch on the class of the node *)
Definition visit_node (rec : visitor) (n : pnode) (s : st) : st :=
  match n with
  | PN k cs =>
      match k with
      | KBlock fb => append_to k (visit_block rec fb cs) s
      | KSuper ct _ => append_to k (visit_super_instantiation ct) s
      | KClass name ct fin nf ns nfn =>
          append_to k (change_namespace name (visit_class_decl rec name ct fin nf ns nfn cs)) s
      | KTypeParam name b => append_to k (visit_type_param name b) s
      | KVarDecl name fin vt inf => append_to k (visit_var_decl rec name fin vt inf cs) s
      | KCallArg => append_to k (visit_call_argument rec cs) s
      | KField name ft fin => append_to k (visit_field_decl name ft fin) s
      | KParam name pt va => append_to k (visit_param_decl rec name pt va cs) s
      | KFunc name rt inf bx fin hb np ntp =>
          append_to k (change_namespace name (visit_func_decl rec name rt inf bx fin hb np ntp cs)) s
      | KLambda name rt sg np hb => append_to k (change_namespace name (visit_lambda rec rt sg np hb cs)) s
      | KBottom t => append_to k (visit_bottom_constant t) s
      | KInt lit it => append_to k (visit_integer_constant lit it) s
      | KReal lit rt => append_to k (visit_real_constant lit rt) s
      | KChar lit => append_to k (visit_char_constant lit) s
      | KString lit => append_to k (visit_string_constant lit) s
      | KBool lit => append_to k (visit_boolean_constant lit) s
      | KArray at_ len => append_to k (visit_array_expr rec at_ len cs) s
      | KVariable name => append_to k (visit_variable name) s
      | KBinOp op nt => append_to k (visit_binary_op rec op nt cs) s
      | KCond => append_to k (visit_conditional rec cs) s
      | KIs nt rx => append_to k (visit_is rec nt rx cs) s
      | KNew ct => append_to k (visit_new rec ct cs) s
      | KFieldAccess f => append_to k (visit_field_access rec f cs) s
      | KFuncRef f sg => append_to k (visit_func_ref rec f sg cs) s
      | KFuncCall f _ _ rc hr => append_to k (visit_func_call rec f rc hr cs) s
      | KAssign name hr => append_to k (visit_assign rec name hr cs) s
      end
  end.

(* node.accept(self): structural recursion through the children lists *)
Fixpoint visit (n : pnode) (s : st) {struct n} : st := visit_node visit n s.

(* ---- _get_functional_interfaces *)
Definition functional_interface (number : nat) : segs :=
  let type_params := join ", " (map (fun i => if Nat.ltb i number then ("A" ++ nat_str (i + 1))%string else "R")
                                    (seq 0 (number + 1))) in
  let params := join ", " (map (fun i => ("A" ++ nat_str (i + 1) ++ " a" ++ nat_str (i + 1))%string)
                               (seq 0 number)) in
  T "interface Function" ++ T (nat_str number) ++ T "<" ++ T type_params ++ T "> " ++
  brace (T nl ++ T (spaces 2) ++ T "public R apply" ++ paren (T params) ++ T ";" ++ T nl) ++ T (nl ++ nl)%string.

Definition functional_interfaces (l : list nat) : segs :=
  let res := flat_map functional_interface l in
  if nonempty l then T (nl ++ nl)%string ++ res else [].

(* ---- visit_program *)
Definition main_decl (d : segs) : segs := T (spaces 2) ++ T "static " ++ lstrip_segs d.
Definition main_method_decl (d : segs) : segs := T (spaces 2) ++ T "public static " ++ lstrip_segs d.

Definition program_text (pkg : string) (main_children0 : list segs) (main_method0 : segs)
    (ifs : list nat) (cr : list segs) : segs :=
  let package_str := if negb (str_empty pkg) then T "package " ++ T pkg ++ T (nl ++ nl)%string else [] in
  let main_decls := map main_decl (rev main_children0) in
  let main_cls :=
    T "class Main " ++
    brace (T nl ++ joins (T (nl ++ nl)%string) main_decls ++
           (if negb (segs_empty main_method0) then T (nl ++ nl)%string ++ main_method_decl main_method0 else []) ++
           T nl) in
  let other_classes := joins (T (nl ++ nl)%string) cr in
  package_str ++ main_cls ++ functional_interfaces ifs ++
  (if negb (segs_empty other_classes) then T (nl ++ nl)%string ++ other_classes else []).

(* visit_program up to (not including) the final self._reset_state(): the text and the state *)
Definition visit_program_st (pkg : string) (p : pprogram) (s : st) : segs * st :=
  let s := set_types_set true s in
  let s := set_context (Some (pctx p)) s in
  let s := visit_children visit (decls p) s in
  let s := set_ident 2 s in
  let mc := main_children s in
  let mm := main_method s in
  let (cr, s) := pop_res (List.length (decls p)) s in
  (program_text pkg mc mm (fun_ifaces s) cr, s).

Definition visit_program (pkg : string) (p : pprogram) (t : translator) : translator :=
  let (r, s) := visit_program_st pkg p (tst t) in
  mkTr (reset_state s) (Some r).

(* BaseTranslator.result (the exception for program = None is a default here) *)
Definition result_segs (t : translator) : segs :=
  match program t with Some r => r | None => [] end.

Definition result (t : translator) : string := flatten (result_segs t).

(* utils.translate_program(translator, program) on a translator object t: the text and the
   state the object is left in *)
Definition translate_program (pkg : string) (t : translator) (p : pprogram) : string * translator :=
  let t' := visit_program pkg p t in (result t', t').

(* the text of a program from a fresh translator constructed with cast_numbers = o *)
Definition print_segs (o : bool) (pkg : string) (p : pprogram) : segs :=
  result_segs (visit_program pkg p (init_tr o)).

Definition print_program (o : bool) (pkg : string) (p : pprogram) : string :=
  fst (translate_program pkg (init_tr o) p).

(* a history: programs translated one after the other by the same translator object (the
   package can be reassigned in between, as hephaestus.py does) *)
Fixpoint run_history (t : translator) (h : list (string * pprogram)) : list string * translator :=
  match h with
  | [] => ([], t)
  | (pkg, p) :: r =>
      let (x, t') := translate_program pkg t p in
      let (xs, t'') := run_history t' r in
      (x :: xs, t'')
  end.

(* ------------------------------------------------------------------------------------ *)
(* correspondence drivers (evaluated by the case files of harness/printcorr_groovy.py)      *)

(* indexes of the cases (cast_numbers option, package, program, text of the real GroovyTranslator)
   whose text differs from the model's *)
Fixpoint mismatches (i : nat) (cases : list (bool * string * pprogram * string)) : list nat :=
  match cases with
  | [] => []
  | (o, pkg, p, expected) :: r =>
      if String.eqb (print_program o pkg p) expected then mismatches (S i) r
      else i :: mismatches (S i) r
  end.

(* first byte offset where two strings differ (debugging aid of the harness) *)
Fixpoint first_diff (i : nat) (a b : string) : option nat :=
  match a, b with
  | EmptyString, EmptyString => None
  | String x a', String y b' => if Ascii.eqb x y then first_diff (S i) a' b' else Some i
  | _, _ => Some i
  end.

Fixpoint text_mismatches (i : nat) (got expected : list string) : list nat :=
  match got, expected with
  | g :: gr, e :: er => if String.eqb g e then text_mismatches (S i) gr er
                        else i :: text_mismatches (S i) gr er
  | [], [] => []
  | _, _ => [i]
  end.

(* the state is the initial one of an object constructed with cast_numbers = o *)
Definition st_eqb_init (o : bool) (s : st) : bool :=
  Nat.eqb (ident s) 0 && negb (is_unit s) && negb (cast_number s) && negb (inside_is s) &&
  negb (inside_is_function s) && negb (nonempty (children_res s)) && negb (nonempty (main_children s)) &&
  negb (nonempty (main_method s)) &&
  match nodes_stack s with [None] => true | _ => false end &&
  ns_is_global (namespace s) &&
  match fun_ifaces s with [0; 1; 2; 3] => true | _ => false end &&
  match context s with None => true | _ => false end && negb (types_set s) && Bool.eqb (acn s) o.

(* a history run on the model with the translator state threaded through: the indexes of the
   texts that differ from the implementation's, and whether the final state is initial *)
Definition history_mismatches (o : bool) (h : list (string * pprogram)) (expected : list string) : list nat * bool :=
  let (ts, t) := run_history (init_tr o) h in (text_mismatches 0 ts expected, st_eqb_init o (tst t)).

(* ------------------------------------------------------------------------------------ *)
(* specification vocabulary for C11 / C12 (evaluated by harness/printcorr_groovy.py, proved *)
(* in PrintGroovyProofs.v)                                                                 *)

(* the marked pieces of a text, in text order; pieces with empty text are nothing visible *)
Inductive mark :=
| MDecl (k : dkind) (name : string)
| MLit (s : string)
| MOp (s : string).

Definition mk_mark (f : string -> mark) (s : string) : list mark :=
  if str_empty s then [] else [f s].

Definition seg_marks (sg : seg) : list mark :=
  match sg with
  | Txt _ => []
  | Decl k s => mk_mark (MDecl k) s
  | Lit s => mk_mark MLit s
  | Op s => mk_mark MOp s
  end.

Definition marks (l : segs) : list mark := flat_map seg_marks l.

(* what a node itself declares / carries; a type test carries instanceof or !instanceof *)
Definition own_marks (k : pkind) : list mark :=
  match k with
  | KClass name _ _ _ _ _ => mk_mark (MDecl DClass) name
  | KTypeParam name _ => mk_mark (MDecl DTypeParam) name
  | KVarDecl name _ _ _ => mk_mark (MDecl DVar) name
  | KField name _ _ => mk_mark (MDecl DField) name
  | KParam name _ _ => mk_mark (MDecl DParam) name
  | KFunc name _ _ _ _ _ _ _ => mk_mark (MDecl DFunc) name
  | KInt lit _ => mk_mark MLit lit
  | KReal lit _ => mk_mark MLit lit
  | KChar lit => mk_mark MLit lit
  | KString lit => mk_mark MLit lit
  | KBool lit => mk_mark MLit lit
  | KBinOp op nt => mk_mark MOp (op_str op nt)
  | KIs nt _ => mk_mark MOp (is_op nt)
  | _ => []
  end.

(* the inventory of a tree: every declaration, literal and operator node, pre-order *)
Fixpoint inventory (n : pnode) : list mark :=
  match n with PN k cs => own_marks k ++ flat_map inventory cs end.

Definition program_inventory (p : pprogram) : list mark := flat_map inventory (decls p).

(* the namespace the children are visited in (change_namespace) *)
Definition enters (k : pkind) : option string :=
  match k with
  | KClass name _ _ _ _ _ => Some name
  | KFunc name _ _ _ _ _ _ _ => Some name
  | KLambda name _ _ _ _ => Some name
  | _ => None
  end.

(* routing: no variable / function declaration is visited while _namespace is the global one,
   except the node itself when `top` (a declaration of the program): those are the nodes whose
   result append_to sends to _main_children / _main_method instead of _children_res (and a
   conditional has its three children: visit_conditional visits children[0..2] and pops
   len(children) results) *)
Fixpoint routed (top : bool) (ns : list string) (n : pnode) : bool :=
  match n with
  | PN k cs =>
      (top || negb (ns_is_global ns && is_var_or_func k)) &&
      match enters k with
      | Some name => forallb (routed false (name :: ns)) cs
      | None =>
          match k, cs with
          | KCond, c0 :: c1 :: c2 :: rest =>
              routed false ns c0 && routed false ("true_block" :: ns) c1 &&
              routed false ("false_block" :: ns) c2 && negb (nonempty rest)
          | _, _ => forallb (routed false ns) cs
          end
      end
  end.

Definition is_field_kind (k : pkind) : bool := match k with KField _ _ _ => true | _ => false end.
Definition is_super_kind (k : pkind) : bool := match k with KSuper _ _ => true | _ => false end.

(* self._nodes_stack[-2] while a child of a node of kind k is visited: the arguments of a super
   instantiation are visited by the second translator, whose stack starts with None *)
Definition kid_parent (k : pkind) : option pkind :=
  match k with KSuper _ _ => None | _ => Some k end.

(* is_closure() for a function whose parent node is `parent` *)
Definition closure_of (parent : option pkind) : bool :=
  match parent with None => false | Some k => negb (is_class_kind k) end.

(* the superclass arguments are printed (inside the generated constructor) only for the first
   superclass, when it is not a Builtin and the constructor is generated: some superclass is not
   an interface of the context, or there are fields *)
Definition super_args_ok (ifs : list string) (nf ns : nat) (cs : list pnode) : bool :=
  match firstn ns (skipn nf cs) with
  | [] => true
  | first :: others =>
      forallb (fun c => negb (nonempty (children_of c))) others &&
      (negb (nonempty (children_of first)) ||
       (match kind_of first with KSuper _ bi => negb bi | _ => false end &&
        (Nat.ltb 0 nf || nonempty (fst (split_supers ifs (supers_of nf ns cs))))))
  end.

(* the shape children() gives every node, as far as the visit_* methods index children_res, and
   the positions in which the translator prints everything it is given: super instantiations
   only as superclasses of a class, their arguments as above, closures without type parameters
   (visit_func_decl does not print them), an empty array without elements *)
Definition arity_ok (ifs : list string) (parent : option pkind) (k : pkind) (cs : list pnode) : bool :=
  let n := List.length cs in
  match k with
  | KBlock _ | KNew _ => true
  | KSuper _ _ => opt_kind is_class_kind parent
  | KClass _ _ _ nf nsup nfn =>
      Nat.leb (nf + nsup + nfn) n &&
      forallb (fun c => negb (is_super_kind (kind_of c))) (firstn nf cs) &&
      forallb (fun c => is_super_kind (kind_of c)) (firstn nsup (skipn nf cs)) &&
      forallb (fun c => negb (is_super_kind (kind_of c))) (skipn (nf + nsup) cs) &&
      super_args_ok ifs nf nsup cs
  | KTypeParam _ _ | KField _ _ _ | KBottom _ | KInt _ _ | KReal _ _ | KChar _ | KString _
  | KBool _ | KVariable _ => Nat.eqb n 0
  | KVarDecl _ _ _ _ | KCallArg | KFieldAccess _ | KIs _ _ => Nat.eqb n 1
  | KParam _ _ _ | KFuncRef _ _ => Nat.leb n 1
  | KFunc _ _ _ _ _ hb np ntp =>
      Nat.eqb n (np + ntp + (if hb then 1 else 0)) && (if closure_of parent then Nat.eqb ntp 0 else true)
  | KLambda _ _ _ np hb => Nat.eqb n (np + (if hb then 1 else 0))
  | KArray _ len => if Nat.eqb len 0 then Nat.eqb n 0 else true
  | KBinOp _ _ => Nat.eqb n 2
  | KCond => Nat.eqb n 3
  | KFuncCall _ _ _ _ hr => if hr then Nat.leb 1 n else true
  | KAssign _ hr => Nat.eqb n (if hr then 2 else 1)
  end.

Fixpoint wfg (ifs : list string) (parent : option pkind) (n : pnode) : bool :=
  match n with PN k cs => arity_ok ifs parent k cs && forallb (wfg ifs (kid_parent k)) cs end.

Definition count_mains (l : list pnode) : nat :=
  List.length (filter (fun d => is_main_func (kind_of d)) l).

(* a program: at most one top-level `main` (a second one overwrites _main_method), no super
   instantiation at top level, routed and shaped as above *)
Definition wf_program (p : pprogram) : bool :=
  forallb (fun d => routed true ["global"] d && wfg (ifaces (pctx p)) None d) (decls p) &&
  Nat.leb (count_mains (decls p)) 1.

(* lexical hypotheses: names, literals and operators contain no white space (the translator
   lstrips and, inside super(...), collapses white space of texts it has already built) *)
Definition ws_free (s : string) : bool := negb (has_ws s).

Definition lex_kind (k : pkind) : bool :=
  match k with
  | KClass name _ _ _ _ _ | KTypeParam name _ | KVarDecl name _ _ _ | KField name _ _
  | KParam name _ _ | KFunc name _ _ _ _ _ _ _ => ws_free name
  | KInt lit _ | KReal lit _ | KChar lit | KString lit | KBool lit => ws_free lit
  | KBinOp op nt => ws_free (op_str op nt)
  | _ => true
  end.

Fixpoint lex (n : pnode) : bool :=
  match n with PN k cs => lex_kind k && forallb lex cs end.

Definition lex_program (p : pprogram) : bool := forallb lex (decls p).

(* bracket depth: scan o c s d = depth after s, starting at depth d; None when a closing
   bracket has no opening one *)
Fixpoint scan (o c : ascii) (s : string) (d : nat) : option nat :=
  match s with
  | EmptyString => Some d
  | String a r =>
      if Ascii.eqb a o then scan o c r (S d)
      else if Ascii.eqb a c then match d with 0 => None | S d' => scan o c r d' end
      else scan o c r d
  end.

Definition balanced (o c : ascii) (s : string) : bool :=
  match scan o c s 0 with Some 0 => true | _ => false end.

(* a string that is by itself balanced for (), {} and []: names, literals, operators without
   brackets are, and so are printed type names such as A<B<C>, ? extends D> or E[] *)
Definition clean_str (s : string) : bool :=
  balanced "("%char ")"%char s && balanced "{"%char "}"%char s && balanced "["%char "]"%char s.

(* every string of a node that ends up in the text *)
Definition kind_strings (k : pkind) : list string :=
  match k with
  | KBlock _ | KCond | KCallArg => []
  | KSuper ct _ => [type_name ct]
  | KClass name _ _ _ _ _ => [name]
  | KTypeParam name b => [name; opt_type_name b]
  | KVarDecl name _ _ inf => [name; type_name inf]
  | KField name ft _ => [name; type_name ft]
  | KParam name pt va => [name; param_print_type pt va]
  | KFunc name _ inf bx _ _ _ _ => [name; type_name inf; type_name bx]
  | KLambda _ _ sg _ _ => [type_name sg]
  | KBottom t => [opt_type_name t]
  | KInt lit _ | KReal lit _ | KChar lit | KString lit | KBool lit => [lit]
  | KArray at_ _ => [type_name at_; opt_type_name (ty_arg0 at_)]
  | KVariable name => [name]
  | KBinOp op nt => [op_str op nt]
  | KIs _ rx => [type_name rx]
  | KNew ct => [new_type_text ct]
  | KFieldAccess f => [f]
  | KFuncRef f sg => [f; type_name sg]
  | KFuncCall f _ _ _ _ => [f]
  | KAssign name _ => [name]
  end.

Definition clean_kind (k : pkind) : bool := forallb clean_str (kind_strings k).

Fixpoint clean (n : pnode) : bool :=
  match n with PN k cs => clean_kind k && forallb clean cs end.

Definition clean_program (pkg : string) (p : pprogram) : bool :=
  clean_str pkg && forallb clean (decls p).

(* the boolean decision of "same multiset of marks" *)
Definition mark_eqb (a b : mark) : bool :=
  match a, b with
  | MDecl k1 s1, MDecl k2 s2 =>
      String.eqb s1 s2 &&
      match k1, k2 with
      | DClass, DClass | DField, DField | DFunc, DFunc | DParam, DParam
      | DTypeParam, DTypeParam | DVar, DVar => true
      | _, _ => false
      end
  | MLit s1, MLit s2 => String.eqb s1 s2
  | MOp s1, MOp s2 => String.eqb s1 s2
  | _, _ => false
  end.

Fixpoint remove_one (m : mark) (l : list mark) : option (list mark) :=
  match l with
  | [] => None
  | x :: r => if mark_eqb m x then Some r
              else match remove_one m r with Some r' => Some (x :: r') | None => None end
  end.

Fixpoint same_marks (a b : list mark) : bool :=
  match a with
  | [] => match b with [] => true | _ => false end
  | m :: r => match remove_one m b with Some b' => same_marks r b' | None => false end
  end.

(* declared types the program does NOT carry and the text prints nevertheless, and explicit type
   arguments the program carries and the text does not print (the refuted `printed iff present`
   equations of Properties_C12_groovy.v), counted per program:
     - functions that are not closures and have no declared return type (visit_func_decl prints
       the inferred type in front of every method and top-level function);
     - top-level variables without declared type (printed as typed static fields of Main);
     - calls with explicit, non-inferable type arguments (visit_func_call never prints them) *)
Fixpoint sum_nat (l : list nat) : nat := match l with [] => 0 | x :: r => x + sum_nat r end.

Fixpoint erased_ret_printed (parent : option pkind) (n : pnode) : nat :=
  match n with
  | PN k cs =>
      (match k with
       | KFunc _ None _ _ _ _ _ _ => if closure_of parent then 0 else 1
       | _ => 0
       end) + sum_nat (map (erased_ret_printed (kid_parent k)) cs)
  end.

Definition erased_global_vars (p : pprogram) : nat :=
  List.length (filter (fun d => match kind_of d with KVarDecl _ _ None _ => true | _ => false end) (decls p)).

Fixpoint dropped_call_type_args (n : pnode) : nat :=
  match n with
  | PN k cs =>
      (match k with
       | KFuncCall _ (_ :: _) false _ _ => 1
       | _ => 0
       end) + sum_nat (map dropped_call_type_args cs)
  end.

(* type parameters of functions that are printed as closures: visit_func_decl does not print them *)
Fixpoint dropped_closure_tparams (parent : option pkind) (n : pnode) : nat :=
  match n with
  | PN k cs =>
      (match k with
       | KFunc _ _ _ _ _ _ _ ntp => if closure_of parent then ntp else 0
       | _ => 0
       end) + sum_nat (map (dropped_closure_tparams (kid_parent k)) cs)
  end.

(* what harness/printcorr_groovy.py evaluates per program: whether the model's text is the real
   translator's (`expected`), the hypotheses of the theorems (wf, lex, clean), the three balance
   checks ON THE REAL TEXT, whether the marks of the model's text are a permutation of the
   inventory (decided by counting), and the four counts above *)
Definition c12_report (o : bool) (pkg : string) (p : pprogram) (expected : string)
  : bool * bool * bool * bool * bool * bool * bool * bool * nat * nat * nat * nat :=
  let r := print_segs o pkg p in
  let t := flatten r in
  (String.eqb t expected, wf_program p, lex_program p, clean_program pkg p,
   balanced "("%char ")"%char expected, balanced "{"%char "}"%char expected,
   balanced "["%char "]"%char expected,
   same_marks (marks r) (program_inventory p),
   sum_nat (map (erased_ret_printed None) (decls p)), erased_global_vars p,
   sum_nat (map dropped_call_type_args (decls p)),
   sum_nat (map (dropped_closure_tparams None) (decls p))).
