(* Properties_C12_scala.v -- the property theorems for the SCALA translator, nothing else.
   All statements are about the definitions of IR/PrintScala.v that harness/printcorr_scala.py
   evaluates against the real ScalaTranslator: `visit`, `visit_program`, `print_segs`,
   `print_program` (= flatten of print_segs, the byte-compared text), and the vocabulary `marks`
   (the marked pieces of a text: declared names in declaration position, literals, operators),
   `inventory` (the declaration / literal / operator nodes of a tree, pre-order; an Is node
   counts as the operator ".isInstanceOf" whether it is negated or not), `inventory_full` (the
   same plus a "!" for every negated Is node), `wf` (the arities children()
   gives every node), `clean` (every name, literal, operator and printed type name is by itself
   balanced for (), {} and []), `balanced`. *)
From Coq Require Import String Ascii List Arith Bool Permutation.
Import ListNotations.
From Heph Require Import IR.PrintScala IR.PrintScalaProofs.
Open Scope string_scope.
Open Scope list_scope.

(* (c)+(d) inventory, PARTIAL: the text declares exactly the classes, fields, functions,
   parameters, type parameters and variables of the program and carries exactly its literals and
   operators: the marked pieces of the text are, as a multiset, the inventory of the tree.  For
   every program of the expected shape, from any translator state.
   MISSING with respect to the Kotlin theorem: the negation of `!is`; `inventory` gives an Is node
   the operator ".isInstanceOf" whether it is negated or not, because ScalaTranslator prints
   exactly that (scala_is_negation_not_an_input below). *)
Theorem scala_declares_exactly_partial : forall pkg p t,
  wf_program p = true ->
  Permutation (marks (result_segs (visit_program pkg p t))) (program_inventory p).
Proof. exact declares_exactly_lem. Qed.
Print Assumptions scala_declares_exactly_partial.

(* on programs without negated Is nodes nothing is missing: the marks are the full inventory *)
Theorem scala_declares_exactly_neg_free : forall pkg p t,
  wf_program p = true -> neg_free_program p = true ->
  Permutation (marks (result_segs (visit_program pkg p t))) (program_inventory_full p).
Proof. exact declares_exactly_neg_free_lem. Qed.
Print Assumptions scala_declares_exactly_neg_free.

(* REFUTED for the full inventory: there is a well-formed, clean program (val x = y !is Int) whose
   text does not carry the negation *)
Theorem scala_declares_exactly_full_refuted :
  exists pkg p, wf_program p = true /\ clean_program pkg p = true /\
    ~ Permutation (marks (print_segs pkg p)) (program_inventory_full p).
Proof. exact full_inventory_refuted_lem. Qed.
Print Assumptions scala_declares_exactly_full_refuted.

(* the text of an Is node is  indentation, the operand, ".isInstanceOf[T]": the operator object
   and its negation are not inputs *)
Theorem scala_is_negation_not_an_input : forall op nt rx cs s,
  exists cr,
    children_res (visit (PN (KIs op nt rx) cs) s) =
    (T (spaces (ident s)) ++ nth_seg 0 cr ++ [Op ".isInstanceOf"] ++ brack (T (type_name rx))) :: children_res s.
Proof. exact is_shape_lem. Qed.
Print Assumptions scala_is_negation_not_an_input.

(* REFUTED faithfulness on negation: two different well-formed programs, `val x = y !is Int` and
   `val x = y is Int`, have the same text *)
Theorem scala_is_negation_not_printed_refuted :
  wf_program (is_witness true) = true /\ wf_program (is_witness false) = true /\
  is_witness true <> is_witness false /\
  print_program "" (is_witness true) = print_program "" (is_witness false).
Proof. exact is_negation_not_printed_lem. Qed.
Print Assumptions scala_is_negation_not_printed_refuted.

(* the boolean the harness evaluates for the inventory is exact *)
Theorem scala_same_marks_exact : forall a b, same_marks a b = true <-> Permutation a b.
Proof. exact same_marks_spec. Qed.
Print Assumptions scala_same_marks_exact.

(* (b) balance: round brackets, braces AND square brackets of the whole text are balanced (never
   negative, zero at the end) whenever every name, literal, operator and printed type name is by
   itself balanced (in particular when none of them contains a bracket) *)
Theorem scala_brackets_balanced : forall pkg p,
  wf_program p = true -> clean_program pkg p = true ->
  balanced "("%char ")"%char (print_program pkg p) = true /\
  balanced "{"%char "}"%char (print_program pkg p) = true /\
  balanced "["%char "]"%char (print_program pkg p) = true.
Proof. exact brackets_balanced_lem. Qed.
Print Assumptions scala_brackets_balanced.

(* (a) a declared variable type is printed iff the program carries it: the text of a variable
   declaration is  indentation, val/var, the name, ": T" exactly when var_type is Some T,
   " = ", the text of the initializer *)
Theorem scala_var_type_printed_iff_present : forall name fin vt inf cs s,
  exists cr,
    children_res (visit (PN (KVarDecl name fin vt inf) cs) s) =
    (T (spaces (ident s)) ++ T (if fin then "val " else "var ") ++ [Decl DVar name] ++
     match vt with Some t => [Txt ": "; Txt (type_name t)] | None => [] end ++
     T " = " ++ nth_seg 0 cr) :: children_res s.
Proof. exact var_decl_shape_lem. Qed.
Print Assumptions scala_var_type_printed_iff_present.

(* a declared return type likewise: the text of a function declaration is func_decl_text of its
   children's texts, and func_decl_text is  head ++ (": T" iff ret_type is Some T) ++ body
   with head and body independent of ret_type *)
Theorem scala_func_decl_shape : forall name rt inf fin im ov hb np ntp cs s,
  exists cr,
    children_res (visit (PN (KFunc name rt inf fin im ov hb np ntp) cs) s) =
    func_decl_text name rt fin im ov hb np ntp (ident s) cr :: children_res s.
Proof. exact func_decl_shape_lem. Qed.
Print Assumptions scala_func_decl_shape.

Theorem scala_ret_type_printed_iff_present : forall name fin im ov hb np ntp old cr,
  exists head body, forall rt,
    func_decl_text name rt fin im ov hb np ntp old cr =
    head ++ match rt with Some t => [Txt ": "; Txt (type_name t)] | None => [] end ++ body.
Proof. exact func_decl_text_split. Qed.
Print Assumptions scala_ret_type_printed_iff_present.

(* lambdas: "(params) => body" and then ": T" iff ret_type is Some T *)
Theorem scala_lambda_shape : forall rt np hb cs s,
  exists cr,
    children_res (visit (PN (KLambda rt np hb) cs) s) = lambda_text rt np hb cr :: children_res s.
Proof. exact lambda_shape_lem. Qed.
Print Assumptions scala_lambda_shape.

Theorem scala_lambda_ret_type_printed_iff_present : forall rt np hb cr,
  lambda_text rt np hb cr =
  paren (joins (T ", ") (firstn np cr)) ++ T " => " ++ (if hb then last_seg cr else []) ++
  match rt with Some t => [Txt ": "; Txt (type_name t)] | None => [] end.
Proof. exact lambda_text_spec. Qed.
Print Assumptions scala_lambda_ret_type_printed_iff_present.

(* constructor calls: `1.asInstanceOf[Any]` for Any (the arguments are dropped: wf demands there
   are none); otherwise "new", the indentation, the type -- its explicit type arguments dropped
   iff can_infer_type_args -- and the arguments *)
Theorem scala_new_shape : forall ct cs s,
  exists cr,
    children_res (visit (PN (KNew ct) cs) s) = new_text ct (ident s) cr :: children_res s.
Proof. exact new_shape_lem. Qed.
Print Assumptions scala_new_shape.

Theorem scala_new_text : forall ct i cr,
  new_text ct i cr =
  if is_any_ty ct then T (spaces i) ++ T "1.asInstanceOf" ++ brack (T "Any")
  else T "new " ++ T (spaces i) ++ T (new_type_text ct) ++ paren (joins (T ", ") cr).
Proof. exact new_text_spec. Qed.
Print Assumptions scala_new_text.

Theorem scala_new_type_args_printed_iff_not_inferable : forall n ci args,
  new_type_text (TApp n ci args) = if ci then n else type_name (TApp n ci args).
Proof. exact new_type_text_spec. Qed.
Print Assumptions scala_new_type_args_printed_iff_not_inferable.

(* explicit type arguments of a call are printed iff not can_infer_type_args (and there are some);
   the name is printed between backquotes; without a receiver a dotted name is split at its last
   dot and the two parts are printed without the dot *)
Theorem scala_func_call_shape : forall f ta ci hr cs s,
  exists cr,
    children_res (visit (PN (KFuncCall f ta ci hr) cs) s) =
    func_call_text f ta ci hr (first_is_bottom cs) (ident s) cr :: children_res s.
Proof. exact func_call_shape_lem. Qed.
Print Assumptions scala_func_call_shape.

Theorem scala_call_type_args_printed_iff_not_inferable : forall f ta ci hr b i cr,
  func_call_text f ta ci hr b i cr =
  T (spaces i) ++
  (if hr then receiver_expr b cr ++ T "." ++ T bquote ++ T f ++ T bquote
   else T (match rsplit_dot f with Some (a, _) => a | None => "" end) ++ T bquote ++
        T (match rsplit_dot f with Some (_, b) => b | None => f end) ++ T bquote) ++
  T (if ci then "" else match ta with [] => "" | _ => ("[" ++ join "," (map type_name ta) ++ "]")%string end) ++
  paren (joins (T ", ") (if hr then tl cr else cr)).
Proof. exact func_call_text_spec. Qed.
Print Assumptions scala_call_type_args_printed_iff_not_inferable.

(* modifiers, bounds, inheritance clauses: the headers the declarations are printed with *)
Theorem scala_field_modifiers : forall name ft fin co ov cs s,
  children_res (visit (PN (KField name ft fin co ov) cs) s) =
  (T (if co then "" else "final ") ++ T (if ov then "override " else "") ++
   T (if fin then "val " else "var ") ++ [Decl DField name] ++ T ": " ++ T (type_name ft))
  :: children_res s.
Proof. exact visit_field_lem. Qed.
Print Assumptions scala_field_modifiers.

Theorem scala_type_parameter_variance_and_bound : forall name v b cs s,
  children_res (visit (PN (KTypeParam name v b) cs) s) =
  (T (match v with 0 => "" | 1 => "+" | _ => "-" end) ++ [Decl DTypeParam name] ++ T " <: " ++
   T (match b with Some t => type_name t | None => "Any" end))
  :: children_res s.
Proof. exact visit_type_param_lem. Qed.
Print Assumptions scala_type_parameter_variance_and_bound.

Theorem scala_class_decl_shape : forall name ct fin nf ns nfn cs s,
  exists cr,
    children_res (visit (PN (KClass name ct fin nf ns nfn) cs) s) =
    class_text name ct fin nf ns nfn (ident s) cr :: children_res s.
Proof. exact visit_class_lem. Qed.
Print Assumptions scala_class_decl_shape.

(* "open" iff not final or an interface; class / trait / abstract class; then the name, the type
   parameters in [], the constructor fields, " extends " and the supertypes iff there are
   superclasses, the members *)
Theorem scala_class_header : forall name ct fin nf ns nfn old cr,
  class_text name ct fin nf ns nfn old cr =
  let fields := firstn nf cr in
  let supers := firstn ns (skipn nf cr) in
  let funcs := firstn nfn (skipn (nf + ns) cr) in
  let tparams := joins (T ", ") (skipn (nf + ns + nfn) cr) in
  (T (spaces old) ++ T (if negb fin || Nat.eqb ct 1 then "open " else "") ++
   T (match ct with 0 => "class" | 1 => "trait" | _ => "abstract class" end) ++ T " " ++ [Decl DClass name]) ++
  (if negb (segs_empty tparams) then brack tparams else []) ++
  (if nonempty fields then paren (joins (T ", ") fields) else []) ++
  (if nonempty supers then T " extends " ++ joins (T ", ") supers else []) ++
  (if nonempty funcs
   then T " " ++ brace (T nl ++ joins (T (nl ++ nl)%string) funcs ++ T nl ++ T (spaces old))
   else []).
Proof. exact class_text_spec. Qed.
Print Assumptions scala_class_header.

(* "final" iff a final class method, "override" iff override, then "def" and the name *)
Theorem scala_func_modifiers : forall name rt fin im ov hb np ntp old cr,
  exists rest,
    func_decl_text name rt fin im ov hb np ntp old cr =
    T (spaces old) ++ T (if fin && im then "final " else "") ++ T (if ov then "override " else "") ++
    T "def " ++ [Decl DFunc name] ++ rest.
Proof. exact func_decl_head_lem. Qed.
Print Assumptions scala_func_modifiers.
