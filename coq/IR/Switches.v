(* IR/Switches.v -- the generation switches (C17): the decision fragments of the code that
   read them, as functions of an arbitrary random draw, and the absence predicates on
   programs with boolean checkers.  Definitions only. *)
From Coq Require Import List Arith Bool.
Import ListNotations.
From Heph Require Import Types.Syntax IR.Syntax.

(* ---------- decision fragments ---------- *)

(* utils.random.bool(prob): r.random() < prob, with the draw r in [0,1) and the probability
   given in thousandths; prob = 0 never succeeds *)
Definition rbool (prob_permille draw_permille : nat) : bool := draw_permille <? prob_permille.

(* type_utils._get_type_arg_variance(t_param, variance_choices, other_type_params):
   dis_usv / dis_contra are cfg.dis.use_site_variance / use_site_contravariance; choices is
   variance_choices.get(t_param) (None when variance_choices is None, the default (True, True)
   is resolved by the caller); in_bound = any(tpa.has_bound_of(t_param)); pick = the random
   choice (any natural number: index modulo the length) *)
Definition get_type_arg_variance (dis_usv dis_contra : bool) (pv : variance)
           (choices : option (bool * bool)) (in_bound : bool) (pick : nat) : variance :=
  match choices with
  | None => Inv
  | Some (cv, cc) =>
      if in_bound then Inv
      else
        let '(cv, cc) := if dis_usv then (false, false) else (cv, cc) in
        let cov := if cv then [Cov] else [] in
        let con := if cc && negb dis_contra then [Contra] else [] in
        let vs := match pv with
                  | Inv => Inv :: cov ++ con
                  | Cov => Inv :: cov
                  | Contra => Inv :: con
                  end in
        nth (pick mod length vs) vs Inv
  end.

(* Generator.gen_type_params, per parameter: the variance draw and the bound draw *)
Definition gen_param_variance (with_variance coin : bool) (pick : nat) : variance :=
  if with_variance && coin then nth (pick mod 3) [Inv; Cov; Contra] Inv else Inv.
Definition gen_param_has_bound (prob_bounded draw : nat) : bool := rbool prob_bounded draw.

(* Generator.gen_func_decl: type parameters only when bool(prob=parameterized_functions),
   and then with with_variance=False *)
Definition func_gets_type_params (prob_paramfunc draw : nat) : bool := rbool prob_paramfunc draw.
Definition func_param_variance (coin : bool) (pick : nat) : variance := gen_param_variance false coin pick.

(* ---------- predicates on programs ---------- *)

Definition NoUseSite (p : node) : Prop := forall t, TypeOccurs t p -> is_wild t = false.
Definition NoContraUseSite (p : node) : Prop :=
  forall t, TypeOccurs t p -> match t with TWild Contra _ => False | _ => True end.
Definition NoBounds (p : node) : Prop :=
  forall t, TypeOccurs t p -> match t with TVar _ _ (Some _) => False | _ => True end.
Definition NoParamFuncs (p : node) : Prop :=
  forall n, In n (nodes p) -> kind_of n = kFuncDecl -> length (tys_of n) <= 2.
Definition NoDeclVariance (p : node) : Prop :=
  forall t, In t (class_type_params p) -> tvar_variance t = Inv.
Definition FuncParamsInvariant (p : node) : Prop :=
  forall t, In t (func_type_params p) -> tvar_variance t = Inv.

(* ---------- checkers ---------- *)
Definition chk_no_use_site (p : node) : bool := forallb (fun t => negb (is_wild t)) (type_occurrences p).
Definition chk_no_contra (p : node) : bool :=
  forallb (fun t => match t with TWild Contra _ => false | _ => true end) (type_occurrences p).
Definition chk_no_bounds (p : node) : bool :=
  forallb (fun t => match t with TVar _ _ (Some _) => false | _ => true end) (type_occurrences p).
Definition chk_no_param_funcs (p : node) : bool :=
  forallb (fun n => negb (Nat.eqb (kind_of n) kFuncDecl) || (length (tys_of n) <=? 2)) (nodes p).
Definition chk_no_decl_variance (p : node) : bool :=
  forallb (fun t => var_eqb (tvar_variance t) Inv) (class_type_params p).
Definition chk_func_params_invariant (p : node) : bool :=
  forallb (fun t => var_eqb (tvar_variance t) Inv) (func_type_params p).

(* what a configuration demands of a program *)
Record switches := { sw_no_use_site : bool; sw_no_contra : bool; sw_no_bounds : bool;
                     sw_no_param_funcs : bool; sw_decl_variance_lang : bool (* kotlin/scala *) }.

Definition Honoured (s : switches) (p : node) : Prop :=
  (sw_no_use_site s = true -> NoUseSite p) /\
  (sw_no_contra s = true -> NoContraUseSite p) /\
  (sw_no_bounds s = true -> NoBounds p) /\
  (sw_no_param_funcs s = true -> NoParamFuncs p) /\
  (sw_decl_variance_lang s = false -> NoDeclVariance p) /\
  FuncParamsInvariant p.

Definition chk_honoured (s : switches) (p : node) : bool :=
  (negb (sw_no_use_site s) || chk_no_use_site p) &&
  (negb (sw_no_contra s) || chk_no_contra p) &&
  (negb (sw_no_bounds s) || chk_no_bounds p) &&
  (negb (sw_no_param_funcs s) || chk_no_param_funcs p) &&
  (sw_decl_variance_lang s || chk_no_decl_variance p) &&
  chk_func_params_invariant p.
