(* Properties_C03.v -- the property theorems, nothing else. *)
From Coq Require Import List Arith Bool.
Import ListNotations.
From Heph Require Import Types.Syntax Types.Corr IR.Syntax IR.Diff.
From Heph Require IR.DiffProofs.

(* the decision procedure used on every before/after pair is exact *)
Theorem erased_from_iff : forall p p', erased_from p p' = true <-> ErasedFrom p p'.
Proof. exact DiffProofs.erased_from_iff. Qed.
Print Assumptions erased_from_iff.

Theorem erased_from_refl : forall p, erased_from p p = true.
Proof. exact DiffProofs.erased_from_refl. Qed.
Print Assumptions erased_from_refl.

(* erasure only removes type information: no type occurrence is introduced *)
Theorem erasure_only_removes_types :
  forall p p', ErasedFrom p p' -> forall t, TypeOccurs t p' -> TypeOccurs t p.
Proof. exact DiffProofs.erasure_only_removes_types. Qed.
Print Assumptions erasure_only_removes_types.

(* every node, name and number stays identical *)
Theorem erasure_keeps_shape :
  forall p p', ErasedFrom p p' ->
  map (fun n => (kind_of n, name_of_node n, num_of n)) (nodes p) =
  map (fun n => (kind_of n, name_of_node n, num_of n)) (nodes p').
Proof. exact DiffProofs.erasure_keeps_shape. Qed.
Print Assumptions erasure_keeps_shape.

(* every recorded type other than a removed declared type, and every modifier other than the
   can-infer flag of constructor / generic calls, stays identical *)
Theorem erasure_is_local :
  forall p p', ErasedFrom p p' ->
  Forall2 (fun n n' =>
    (kind_of n <> kVarDecl /\ kind_of n <> kFuncDecl -> tys_of n' = tys_of n) /\
    (kind_of n <> kNew /\ kind_of n <> kFunctionCall -> flags_of n' = flags_of n) /\
    (forall i, 1 <= i -> nth_error (tys_of n') i = nth_error (tys_of n) i))
    (nodes p) (nodes p').
Proof. exact DiffProofs.erasure_is_local. Qed.
Print Assumptions erasure_is_local.
