(* Properties_C01_spec.v -- the property theorems, nothing else: the bound checks of type occurrences (codes 28, 27)
   decide the DECLARATIVE specifications of IR/CheckSpec.v, for all types and all trees. *)
From Coq Require Import List Arith Bool.
Import ListNotations.
From Heph Require Import Types.Syntax Types.Subst Types.Subtype Types.Decl IR.Syntax IR.Check IR.CheckProofs IR.CheckSpec IR.CheckSpecProofs.

Theorem assignable_decides_Justified : forall strict L w a b,
  assignable strict L w (TOk a) (Some b) = true <-> Justified strict L w a b.
Proof. exact assignable_iff. Qed.
Print Assumptions assignable_decides_Justified.

Theorem Justified_means : forall strict L w a b, Justified strict L w a b ->
  match norm_expected (Some b) with
  | None => strict = false
  | Some b' => SubA w [] (lhs L a) (rhs L b') \/ is_assignable w 40 (lhs L a) (rhs L b') = Rt \/
               (sub_ref w 40 [] (lhs L a) (rhs L b') = Unk /\ strict = false)
  end.
Proof. exact justified_sound_lem. Qed.
Print Assumptions Justified_means.

Theorem type_bounds_ok_decides_BoundsRespected : forall strict L w cs t,
  type_bounds_ok strict L w cs t = true <-> BoundsRespected strict L w cs t.
Proof. exact type_bounds_ok_iff_lem. Qed.
Print Assumptions type_bounds_ok_decides_BoundsRespected.

Theorem dep_proj_ok_decides_DepProjOk : forall cs t, dep_proj_ok cs t = true <-> DepProjOk cs t.
Proof. exact dep_proj_ok_iff_lem. Qed.
Print Assumptions dep_proj_ok_decides_DepProjOk.

Theorem targs_ok_decides_TargsWithin : forall strict L w tparams targs m0,
  targs_ok strict L w tparams targs m0 = true <-> TargsWithin strict L w tparams targs m0.
Proof. exact targs_ok_iff_lem. Qed.
Print Assumptions targs_ok_decides_TargsWithin.

Theorem wf_types_decides_DepProjOk_everywhere : forall cs p,
  wf_types cs p = [] <-> forall t, TypeOccurs t p -> DepProjOk cs t.
Proof. exact wf_types_nil_iff_lem. Qed.
Print Assumptions wf_types_decides_DepProjOk_everywhere.

Theorem bound_errors_decide_BoundsRespected_everywhere : forall strict L w cs p,
  bound_errs strict L w cs p = [] <-> forall t, TypeOccurs t p -> BoundsRespected strict L w cs t.
Proof. exact bound_errs_nil_iff_lem. Qed.
Print Assumptions bound_errors_decide_BoundsRespected_everywhere.

Theorem accepted_program_respects_bounds_everywhere : forall infer strict L cn bclasses bt arr kw p,
  only_codes typing_codes (check_program infer strict L cn bclasses bt arr kw p) = [] ->
  forall t, TypeOccurs t p ->
    BoundsRespected strict L (world_of (classes_of cn p) bclasses bt arr) (classes_of cn p) t /\
    DepProjOk (classes_of cn p) t.
Proof. exact accepted_bounds_lem. Qed.
Print Assumptions accepted_program_respects_bounds_everywhere.

Theorem bounds_not_vacuous :
  BoundsRespected true exL ex_w ex_cs (TApp 101 [TClass 100]) /\
  BoundsRespected true exL ex_w ex_cs (TApp 101 [TWild Cov (Some (TClass 102))]) /\
  BoundsRespected true exL ex_w ex_cs (TApp 103 [TClass 100; TClass 100]) /\
  ~ BoundsRespected false exL ex_w ex_cs (TApp 101 [TClass 102]) /\
  ~ BoundsRespected false exL ex_w ex_cs (TApp 101 [TWild Contra (Some (TClass 102))]) /\
  ~ BoundsRespected false exL ex_w ex_cs (TApp 103 [TClass 100; TClass 102]) /\
  DepProjOk ex_cs (TApp 103 [TWild Cov (Some (TClass 100)); TWild Cov (Some (TClass 100))]) /\
  ~ DepProjOk ex_cs (TApp 103 [TWild Cov (Some (TClass 100)); TClass 100]).
Proof. exact bound_examples_lem. Qed.
Print Assumptions bounds_not_vacuous.
