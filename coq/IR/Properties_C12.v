(* Properties_C12.v -- the property theorems, nothing else.
   All statements are about the definitions of IR/PrintKotlin.v that harness/c12.py evaluates
   against the real KotlinTranslator: `visit`, `visit_program`, `print_segs`, `print_program`
   (= flatten of print_segs, the byte-compared text), and the vocabulary `marks` (the marked
   pieces of a text: declared names in declaration position, literals, operators),
   `inventory` (the declaration / literal / operator nodes of a tree, pre-order), `wf` (the
   arities children() gives every node), `clean` (no round bracket or brace inside names,
   literals, operators, printed type names), `balanced`.  Kotlin only. *)
From Coq Require Import String Ascii List Arith Bool Permutation.
Import ListNotations.
From Heph Require Import IR.PrintKotlin IR.PrintProofs.
Open Scope string_scope.
Open Scope list_scope.

(* (c)+(d) inventory: the text declares exactly the classes, fields, functions, parameters,
   type parameters and variables of the program and carries exactly its literals and operators:
   the marked pieces of the text are, as a multiset, the inventory of the tree -- every node
   contributes its name / literal / operator exactly once, nothing else is declared.  For every
   program of the expected shape, from any translator state. *)
Theorem declares_exactly : forall pkg p t,
  wf_program p = true ->
  Permutation (marks (result_segs (visit_program pkg p t))) (program_inventory p).
Proof. exact declares_exactly_lem. Qed.
Print Assumptions declares_exactly.

(* the boolean the harness evaluates for this is exact *)
Theorem same_marks_exact : forall a b, same_marks a b = true <-> Permutation a b.
Proof. exact same_marks_spec. Qed.
Print Assumptions same_marks_exact.

(* (b) balance: round brackets and braces of the whole text are balanced (never negative, zero
   at the end) whenever no name, literal, operator or printed type name contains one *)
Theorem brackets_balanced : forall pkg p,
  wf_program p = true -> clean_program pkg p = true ->
  balanced "("%char ")"%char (print_program pkg p) = true /\
  balanced "{"%char "}"%char (print_program pkg p) = true.
Proof. exact brackets_balanced_lem. Qed.
Print Assumptions brackets_balanced.

(* (a) a declared variable type is printed iff the program carries it: the text of a variable
   declaration is  indentation, val/var, the name, ": T" exactly when var_type is Some T,
   " = ", the text of the initializer *)
Theorem var_type_printed_iff_present : forall name fin vt inf cs s,
  exists cr,
    children_res (visit (PN (KVarDecl name fin vt inf) cs) s) =
    (T (spaces (ident s)) ++ T (if fin then "val " else "var ") ++ [Decl DVar name] ++
     match vt with Some t => [Txt ": "; Txt (type_name t)] | None => [] end ++
     T " = " ++ nth_seg 0 cr) :: children_res s.
Proof. exact var_decl_shape_lem. Qed.
Print Assumptions var_type_printed_iff_present.

(* a declared return type likewise: the text of a function declaration is func_decl_text of its
   children's texts, and func_decl_text is  head ++ (": T" iff ret_type is Some T) ++ body
   with head and body independent of ret_type *)
Theorem func_decl_shape : forall name rt inf fin ov hb np ntp cs s,
  exists cr,
    children_res (visit (PN (KFunc name rt inf fin ov hb np ntp) cs) s) =
    func_decl_text name rt inf fin ov hb np ntp (negb (hb && last_is_block cs)) (ident s) cr
    :: children_res s.
Proof. exact func_decl_shape_lem. Qed.
Print Assumptions func_decl_shape.

Theorem ret_type_printed_iff_present : forall name inf fin ov hb np ntp ie old cr,
  exists head body, forall rt,
    func_decl_text name rt inf fin ov hb np ntp ie old cr =
    head ++ match rt with Some t => [Txt ": "; Txt (type_name t)] | None => [] end ++ body.
Proof. exact func_decl_text_split. Qed.
Print Assumptions ret_type_printed_iff_present.

(* lambdas in fun syntax *)
Theorem lambda_ret_type_printed_iff_present : forall rt np hb sam iu i cr,
  lambda_text rt np hb false false iu sam i cr =
  T (spaces i) ++ T "fun " ++ paren (joins (T ", ") (firstn np cr)) ++
  match rt with Some t => [Txt ": "; Txt (type_name t)] | None => [] end ++
  T " " ++ (if hb then last_seg cr else []).
Proof. exact lambda_fun_syntax_lem. Qed.
Print Assumptions lambda_ret_type_printed_iff_present.

(* explicit type arguments of a constructor call are dropped iff can_infer_type_args *)
Theorem new_shape : forall ct cs s,
  exists cr,
    children_res (visit (PN (KNew ct) cs) s) =
    (T (spaces (ident s)) ++ T (new_type_text ct) ++ paren (joins (T ", ") cr)) :: children_res s.
Proof. exact new_shape_lem. Qed.
Print Assumptions new_shape.

Theorem new_type_args_printed_iff_not_inferable : forall n spec ci args,
  new_type_text (TApp n spec ci args) = if ci then n else type_name (TApp n spec ci args).
Proof. exact new_type_text_spec. Qed.
Print Assumptions new_type_args_printed_iff_not_inferable.

(* explicit type arguments of a call are printed iff not can_infer_type_args (and there are some) *)
Theorem func_call_shape : forall f ta ci hr cs s,
  exists cr,
    children_res (visit (PN (KFuncCall f ta ci hr) cs) s) =
    func_call_text f ta ci hr (first_is_bottom cs) (ident s) cr :: children_res s.
Proof. exact func_call_shape_lem. Qed.
Print Assumptions func_call_shape.

Theorem call_type_args_printed_iff_not_inferable : forall f ta ci hr b i cr,
  func_call_text f ta ci hr b i cr =
  T (spaces i) ++ (if hr then receiver_expr b cr ++ T "." else []) ++ T f ++
  T (if ci then "" else match ta with [] => "" | _ => ("<" ++ join "," (map type_name ta) ++ ">")%string end) ++
  paren (joins (T ", ") (if hr then tl cr else cr)).
Proof. exact func_call_text_spec. Qed.
Print Assumptions call_type_args_printed_iff_not_inferable.

(* modifiers, bounds, inheritance clauses: the headers the declarations are printed with *)
Theorem field_modifiers : forall name ft fin co ov cs s,
  children_res (visit (PN (KField name ft fin co ov) cs) s) =
  (T (if co then "open " else "") ++ T (if ov then "override " else "") ++
   T (if fin then "val " else "var ") ++ [Decl DField name] ++ T ": " ++ T (type_name ft))
  :: children_res s.
Proof. exact visit_field_lem. Qed.
Print Assumptions field_modifiers.

Theorem type_parameter_variance_and_bound : forall name v b cs s,
  children_res (visit (PN (KTypeParam name v b) cs) s) =
  (T (variance_str v) ++ T (if Nat.eqb v 0 then "" else " ") ++ [Decl DTypeParam name] ++ T ": " ++
   T (match b with Some t => type_name t | None => "Any" end))
  :: children_res s.
Proof. exact visit_type_param_lem. Qed.
Print Assumptions type_parameter_variance_and_bound.

Theorem class_decl_shape : forall name ct fin nf ns nfn cs s,
  exists cr,
    children_res (visit (PN (KClass name ct fin nf ns nfn) cs) s) =
    class_text name ct fin nf ns nfn (sam_decl (context s) name) (ident s) cr :: children_res s.
Proof. exact visit_class_lem. Qed.
Print Assumptions class_decl_shape.

(* "open" iff not final, not an interface (and not a SAM); then the name, the type parameters,
   the constructor fields, ": " and the supertypes iff there are superclasses, the members *)
Theorem class_header : forall name ct fin nf ns nfn sam old cr,
  class_text name ct fin nf ns nfn sam old cr =
  let fields := firstn nf cr in
  let supers := firstn ns (skipn nf cr) in
  let funcs := firstn nfn (skipn (nf + ns) cr) in
  let tparams := joins (T ", ") (skipn (nf + ns + nfn) cr) in
  (T (spaces old) ++ T (if sam then "fun " else "") ++
   T (if negb fin && negb (Nat.eqb ct 1) && negb sam then "open " else "") ++
   T (if sam then "interface" else class_prefix ct) ++ T " " ++ [Decl DClass name]) ++
  (if negb (segs_empty tparams) then T "<" ++ tparams ++ T ">" else []) ++
  (if nonempty fields then paren (joins (T ", ") fields) else []) ++
  (if nonempty supers then T ": " ++ joins (T ", ") supers else []) ++
  (if nonempty funcs
   then T " " ++ brace (T nl ++ joins (T (nl ++ nl)%string) funcs ++ T nl ++ T (spaces old))
   else []).
Proof. exact class_text_spec. Qed.
Print Assumptions class_header.

(* "open" iff not final, "override" iff override, "abstract" iff there is no body *)
Theorem func_modifiers : forall name rt inf fin ov hb np ntp ie old cr,
  exists rest,
    func_decl_text name rt inf fin ov hb np ntp ie old cr =
    T (spaces old) ++ T (if fin then "" else "open ") ++ T (if ov then "override " else "") ++
    T (if hb then "" else "abstract ") ++ T "fun " ++ rest.
Proof. exact func_decl_head_lem. Qed.
Print Assumptions func_modifiers.
