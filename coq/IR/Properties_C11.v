(* Properties_C11.v -- the property theorems, nothing else. *)
From Coq Require Import String Ascii List Arith Bool.
Import ListNotations.
From Heph Require Import IR.PrintKotlin IR.PrintProofs.

(* the text and the context left behind by earlier translations never influence a translation *)
Theorem prior_output_irrelevant : forall pkg p s c a b,
  visit_program pkg p (mkTr (set_context c s) a) = visit_program pkg p (mkTr s b).
Proof. exact prior_output_irrelevant_lem. Qed.
Print Assumptions prior_output_irrelevant.
