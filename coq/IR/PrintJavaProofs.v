(* IR/PrintJavaProofs.v -- proofs about the model IR/PrintJava.v of JavaTranslator. *)
From Coq Require Import String Ascii List Arith Bool Lia Permutation.
Import ListNotations.
From Heph Require Import IR.PrintKotlin IR.PrintProofs IR.PrintJava.
Open Scope string_scope.
Open Scope list_scope.

(* ------------------------------------------------------------------------------------ *)
(* C11: _reset_state                                                                      *)

Lemma visit_program_tst : forall pkg p t, tst (visit_program pkg p t) = init_st.
Proof. intros. unfold visit_program. destruct (visit_program_st pkg p (tst t)). reflexivity. Qed.

Lemma translation_resets_state_lem : forall pkg p t, tst (snd (translate_program pkg t p)) = init_st.
Proof. intros. exact (visit_program_tst pkg p t). Qed.

Lemma prior_output_irrelevant_lem : forall pkg p s a b,
  visit_program pkg p (mkTr s a) = visit_program pkg p (mkTr s b).
Proof. reflexivity. Qed.

Definition pristine (t : translator) : Prop := tst t = init_st.

Lemma pristine_text : forall pkg p t, pristine t ->
  fst (translate_program pkg t p) = print_program pkg p.
Proof.
  intros pkg p [s a] H. unfold pristine in H. simpl in H. subst s.
  unfold print_program, translate_program, init_tr. simpl. reflexivity.
Qed.

Lemma run_history_cons : forall t pkg p r,
  run_history t ((pkg, p) :: r) =
  (fst (translate_program pkg t p) :: fst (run_history (snd (translate_program pkg t p)) r),
   snd (run_history (snd (translate_program pkg t p)) r)).
Proof.
  intros. cbn [run_history]. destruct (translate_program pkg t p) as [x t'].
  cbn [fst snd]. destruct (run_history t' r). reflexivity.
Qed.

Lemma run_history_pristine : forall h t, pristine t -> pristine (snd (run_history t h)).
Proof.
  induction h as [|[pkg p] r IH]; intros t Ht; [exact Ht|].
  rewrite run_history_cons. cbn [snd]. apply IH. apply translation_resets_state_lem.
Qed.

Lemma init_pristine : pristine init_tr.
Proof. reflexivity. Qed.

Lemma history_independent_lem : forall h pkg p,
  fst (translate_program pkg (snd (run_history init_tr h)) p) = print_program pkg p.
Proof. intros. apply pristine_text. apply run_history_pristine. apply init_pristine. Qed.

Lemma history_texts_gen : forall h t, pristine t ->
  fst (run_history t h) = map (fun x => print_program (fst x) (snd x)) h.
Proof.
  induction h as [|[pkg p] r IH]; intros t Ht; [reflexivity|].
  rewrite run_history_cons. cbn [fst map snd]. f_equal.
  - apply pristine_text. exact Ht.
  - apply IH. apply translation_resets_state_lem.
Qed.

Lemma history_texts_lem : forall h,
  fst (run_history init_tr h) = map (fun x => print_program (fst x) (snd x)) h.
Proof. intros. apply history_texts_gen. apply init_pristine. Qed.

Lemma history_state_lem : forall h, tst (snd (run_history init_tr h)) = init_st.
Proof. intros. apply (run_history_pristine h init_tr init_pristine). Qed.
