(* IR/PrintJavaProofs.v -- proofs about the model IR/PrintJava.v of JavaTranslator. *)
From Coq Require Import String Ascii List Arith Bool Lia Permutation.
Import ListNotations.
From Heph Require Import IR.PrintKotlin IR.PrintProofs IR.PrintJava.
Open Scope string_scope.
Open Scope list_scope.

(* ------------------------------------------------------------------------------------ *)
(* C11: _reset_state                                                                      *)

Lemma visit_program_tst : forall pkg p t, tst (visit_program pkg p t) = init_st.
Proof. intros. unfold visit_program. destruct (visit_program_st pkg p (tst t)). reflexivity. Qed.

Lemma translation_resets_state_lem : forall pkg p t, tst (snd (translate_program pkg t p)) = init_st.
Proof. intros. exact (visit_program_tst pkg p t). Qed.

Lemma prior_output_irrelevant_lem : forall pkg p s a b,
  visit_program pkg p (mkTr s a) = visit_program pkg p (mkTr s b).
Proof. reflexivity. Qed.

Definition pristine (t : translator) : Prop := tst t = init_st.

Lemma pristine_text : forall pkg p t, pristine t ->
  fst (translate_program pkg t p) = print_program pkg p.
Proof.
  intros pkg p [s a] H. unfold pristine in H. simpl in H. subst s.
  unfold print_program, translate_program, init_tr. simpl. reflexivity.
Qed.

Lemma run_history_cons : forall t pkg p r,
  run_history t ((pkg, p) :: r) =
  (fst (translate_program pkg t p) :: fst (run_history (snd (translate_program pkg t p)) r),
   snd (run_history (snd (translate_program pkg t p)) r)).
Proof.
  intros. cbn [run_history]. destruct (translate_program pkg t p) as [x t'].
  cbn [fst snd]. destruct (run_history t' r). reflexivity.
Qed.

Lemma run_history_pristine : forall h t, pristine t -> pristine (snd (run_history t h)).
Proof.
  induction h as [|[pkg p] r IH]; intros t Ht; [exact Ht|].
  rewrite run_history_cons. cbn [snd]. apply IH. apply translation_resets_state_lem.
Qed.

Lemma init_pristine : pristine init_tr.
Proof. reflexivity. Qed.

Lemma history_independent_lem : forall h pkg p,
  fst (translate_program pkg (snd (run_history init_tr h)) p) = print_program pkg p.
Proof. intros. apply pristine_text. apply run_history_pristine. apply init_pristine. Qed.

Lemma history_texts_gen : forall h t, pristine t ->
  fst (run_history t h) = map (fun x => print_program (fst x) (snd x)) h.
Proof.
  induction h as [|[pkg p] r IH]; intros t Ht; [reflexivity|].
  rewrite run_history_cons. cbn [fst map snd]. f_equal.
  - apply pristine_text. exact Ht.
  - apply IH. apply translation_resets_state_lem.
Qed.

Lemma history_texts_lem : forall h,
  fst (run_history init_tr h) = map (fun x => print_program (fst x) (snd x)) h.
Proof. intros. apply history_texts_gen. apply init_pristine. Qed.

Lemma history_state_lem : forall h, tst (snd (run_history init_tr h)) = init_st.
Proof. intros. apply (run_history_pristine h init_tr init_pristine). Qed.

(* ------------------------------------------------------------------------------------ *)
(* induction over the tree                                                                *)

Fixpoint jnode_ind (P : pnode -> Prop)
    (H : forall k cs, Forall P cs -> P (PN k cs)) (n : pnode) {struct n} : P n :=
  match n with
  | PN k cs =>
      H k cs ((fix go (l : list pnode) : Forall P l :=
                 match l with
                 | [] => Forall_nil P
                 | c :: r => Forall_cons c (jnode_ind P H c) (go r)
                 end) cs)
  end.

Lemma visit_unfold : forall k cs s,
  visit (PN k cs) s =
  visit_kind k cs (map (fun c => fun s' => visit c s') cs)
             (map (fun c => map (fun g => fun s' => visit g s') (children_of c)) cs) s.
Proof. reflexivity. Qed.

(* ------------------------------------------------------------------------------------ *)
(* C11: what a visit leaves unchanged                                                     *)

(* every component of the translator object except _children_res and _visit_is_stack (treated
   separately): restored; _x_counter only grows, _function_interfaces only gains members *)
Record frame (s s' : st) : Prop := mkFrame {
  f_ident : ident s' = ident s;
  f_cast : cast_number s' = cast_number s;
  f_fnv : fnv s' = fnv s;
  f_nfb : nfb s' = nfb s;
  f_ii : inside_is s' = inside_is s;
  f_iif : inside_is_function s' = inside_is_function s;
  f_mc : main_children s' = main_children s;
  f_mm : main_method s' = main_method s;
  f_stack : nodes_stack s' = nodes_stack s;
  f_ns : namespace s' = namespace s;
  f_sc : smart_casts s' = smart_casts s;
  f_ctx : context s' = context s;
  f_ty : types_set s' = types_set s;
  f_x : x_counter s <= x_counter s';
  f_if : incl (fun_ifaces s) (fun_ifaces s')
}.

Ltac stc :=
  cbn [ident cast_number fnv nfb inside_is inside_is_function children_res main_children main_method
       nodes_stack is_stack namespace fun_ifaces x_counter smart_casts context types_set
       set_ident set_cast_number set_fnv set_nfb set_inside_is set_inside_is_function set_children_res
       set_main_children set_main_method set_nodes_stack set_is_stack set_namespace set_fun_ifaces
       set_x_counter set_smart_casts set_context set_types_set push fst snd] in *.

Lemma incl_add_iface : forall n l, incl l (add_iface n l).
Proof.
  intros n l. induction l as [|x r IH]; cbn [add_iface].
  - intros y [].
  - destruct (Nat.eqb n x); [apply incl_refl|]. destruct (Nat.ltb n x).
    + apply incl_tl, incl_refl.
    + intros y [<- | Hy]; [now left | right; now apply IH].
Qed.

Ltac fr_destruct := repeat match goal with H : frame _ _ |- _ => destruct H end.

Ltac fr :=
  fr_destruct; constructor; stc;
  try congruence; try lia;
  try (eauto using incl_refl, incl_tran, incl_add_iface; fail).

Lemma frame_refl : forall s, frame s s.
Proof. intros. constructor; auto using incl_refl. Qed.

Lemma frame_trans : forall a b c, frame a b -> frame b c -> frame a c.
Proof. intros a b c H1 H2. fr. Qed.

Lemma frame_push : forall s s1 r, frame s s1 -> frame s (push r s1).
Proof. intros. fr. Qed.

Definition ctx_of_frame : forall s s1, frame s s1 -> ctx_of s1 = ctx_of s.
Proof. intros s s1 H. unfold ctx_of. now rewrite (f_ctx _ _ H). Qed.

(* ------------------------------------------------------------------------------------ *)
(* C12 vocabulary of the proofs                                                           *)

(* marked pieces contain no white space *)
Definition tidy_seg (sg : seg) : Prop :=
  match sg with Txt _ => True | _ => ws_free (seg_text sg) = true end.

Definition tidy (r : segs) : Prop := Forall tidy_seg r.

(* the result of a node is the text function of its kind (for the kinds the structural theorems
   of C12 talk about); for a parameter declaration exactly param_text *)
Definition shape (n : pnode) (r : segs) : Prop :=
  match n with
  | PN (KParam name pt va) _ => r = param_text name pt va
  | PN (KField name ft fin) _ => r = field_text name ft fin
  | PN (KTypeParam name b) _ => r = type_param_text name b
  | PN (KVarDecl name fin _ inf) _ => exists mp idt cr, r = var_decl_text name fin inf mp idt cr
  | PN (KNew ct) _ => exists idt sm cr, r = new_text ct idt sm cr
  | PN (KFuncCall f _ _ rc hr) cs =>
      exists info mpf mpv idt sm cr, r = func_call_text f rc hr (first_is_bottom cs) info mpf mpv idt sm cr
  | PN (KFunc name _ inf fin hb np ntp) cs =>
      exists nested close cr, r = func_decl_text name inf fin hb np ntp (negb (hb && last_is_block cs)) nested close cr
  | PN (KLambda _ rt np hb) cs =>
      exists sm cr, r = lambda_text rt np hb (negb (hb && last_is_block cs)) sm cr
  | PN (KClass name ct fin nf ns nfn) cs =>
      exists ifs sup old cr, r = class_text name ct fin nf ns nfn cs ifs sup old cr
  | _ => True
  end.

(* what the visit of a node itself prints: a SuperClassInstantiation prints its type only (its
   arguments are printed by the class, through construct_constructor) *)
Definition pinv (n : pnode) : list mark :=
  match kind_of n with KSuper _ _ => [] | _ => inventory n end.

Definition post (ctx : jctx) (ns : list string) (n : pnode) (r : segs) : Prop :=
  shape n r /\
  (wfj ctx ns n = true ->
   (lex n = true -> tidy r /\ Permutation (marks r) (pinv n)) /\
   (clean n = true -> clean_ctx ctx = true -> Bal r)).

(* the instanceof stack after the visit of a node *)
Definition istack (n : pnode) (s s1 : st) : Prop :=
  match n with
  | PN (KIs _ _ _) ccs =>
      forallb is_wf ccs = true ->
      is_stack s1 = (match var_name_of ccs with Some x => [Some x] | None => [] end) ++ is_stack s
  | _ => is_wf n = true -> is_stack s1 = is_stack s
  end.

Lemma istack_wf : forall n s s1, istack n s s1 -> is_wf n = true -> is_stack s1 = is_stack s.
Proof.
  intros [k cs] s s1 H W. destruct k; try (exact (H W)).
  cbn [istack] in H. cbn [is_wf] in W. destruct (var_name_of cs); [discriminate|].
  exact (H W).
Qed.

(* a visit: one result, routed by append_to, everything else as described by frame *)
Definition good (n : pnode) : Prop := forall s,
  routed true (namespace s) n = true ->
  exists r s1,
    visit n s = route (kind_of n) r s1 /\ children_res s1 = children_res s /\ frame s s1 /\
    istack n s s1 /\ post (ctx_of s) (namespace s) n r.

(* the visit of a child that is not routed to Main pushes its result *)
Definition kid_ok (c : pnode) (k : kid) : Prop := forall s,
  routed false (namespace s) c = true ->
  exists r s1,
    k s = push r s1 /\ children_res s1 = children_res s /\ frame s s1 /\
    istack c s s1 /\ post (ctx_of s) (namespace s) c r.

Lemma routed_false : forall ns n, routed false ns n = true ->
  routed true ns n = true /\ (ns_is_global ns && is_var_or_func (kind_of n)) = false.
Proof.
  intros ns [k cs] H. cbn [routed kind_of] in *. apply andb_true_iff in H. destruct H as [H1 H2].
  cbn [orb] in H1. apply negb_true_iff in H1. rewrite H2. cbn [orb andb]. auto.
Qed.

Lemma route_push : forall k r s, (ns_is_global (namespace s) && is_var_or_func k) = false ->
  route k r s = push r s.
Proof.
  intros k r s H. unfold route.
  destruct (ns_is_global (namespace s)); cbn [andb] in *; [|reflexivity].
  destruct k; cbn [is_var_or_func is_main_func] in *; try discriminate; reflexivity.
Qed.

Lemma good_kid : forall c, good c -> kid_ok c (fun s' => visit c s').
Proof.
  intros c G s R. destruct (routed_false _ _ R) as [R1 R2].
  destruct (G s R1) as (r & s1 & E & C & F & I & P).
  exists r, s1. refine (conj _ (conj C (conj F (conj I P)))). cbv beta. rewrite E. apply route_push.
  now rewrite (f_ns _ _ F).
Qed.

Lemma kids_ok_map : forall cs, Forall good cs ->
  Forall2 kid_ok cs (map (fun c => fun s' => visit c s') cs).
Proof. induction 1; cbn [map]; constructor; auto using good_kid. Qed.

(* for c in children: c.accept(self), all children in the namespace of the state *)
Lemma kids_run : forall cs kids, Forall2 kid_ok cs kids -> forall s,
  forallb (routed false (namespace s)) cs = true ->
  exists rs,
    List.length rs = List.length cs /\
    children_res (visit_children kids s) = rev rs ++ children_res s /\
    frame s (visit_children kids s) /\
    (forallb is_wf cs = true -> is_stack (visit_children kids s) = is_stack s) /\
    Forall2 (post (ctx_of s) (namespace s)) cs rs.
Proof.
  induction 1 as [|c k cs kids Hk Hks IH]; intros s R.
  - exists []. cbn. refine (conj eq_refl (conj eq_refl (conj (frame_refl s) (conj (fun _ => eq_refl) _)))). constructor.
  - cbn [forallb] in R. apply andb_true_iff in R. destruct R as [Rc Rcs].
    destruct (Hk s Rc) as (r & s1 & E & C & F & I & P).
    unfold visit_children. cbn [fold_left]. fold (visit_children kids (k s)). rewrite E.
    assert (Fp : frame s (push r s1)) by now apply frame_push.
    assert (Rcs' : forallb (routed false (namespace (push r s1))) cs = true).
    { rewrite (f_ns _ _ Fp). exact Rcs. }
    destruct (IH (push r s1) Rcs') as (rs & L & C2 & F2 & I2 & P2).
    exists (r :: rs). refine (conj _ (conj _ (conj _ (conj _ _)))).
    + cbn. now rewrite L.
    + rewrite C2. stc. rewrite C. cbn [rev]. now rewrite <- app_assoc.
    + eapply frame_trans; eauto.
    + intros W. cbn [forallb] in W. apply andb_true_iff in W. destruct W as [Wc Wcs].
      rewrite (I2 Wcs). stc. now apply (istack_wf c).
    + constructor; [exact P|].
      rewrite (ctx_of_frame _ _ Fp), (f_ns _ _ Fp) in P2. exact P2.
Qed.

Lemma pop_exact : forall (rs res : list segs) n s,
  List.length rs = n -> children_res s = rev rs ++ res ->
  pop_res n s = (rs, set_children_res res s).
Proof.
  intros rs res n s H E. unfold pop_res. rewrite E.
  assert (Hl : List.length (rev rs) = n) by (rewrite rev_length; exact H).
  rewrite firstn_app, skipn_app, Hl, Nat.sub_diag.
  rewrite <- Hl at 1. rewrite firstn_all. rewrite <- Hl at 1. rewrite skipn_all.
  cbn [firstn skipn]. rewrite app_nil_r, rev_involutive. reflexivity.
Qed.

(* ------------------------------------------------------------------------------------ *)
(* strings: white space                                                                   *)

Lemma is_space_ws : forall a, is_space a = true -> is_ws a = true.
Proof. intros a H. unfold is_space in H. apply Ascii.eqb_eq in H. subst a. reflexivity. Qed.

Lemma ws_free_cons : forall a s, ws_free (String a s) = true -> is_ws a = false /\ ws_free s = true.
Proof.
  intros a s H. unfold ws_free in *. cbn [has_ws] in H. apply negb_true_iff in H.
  apply orb_false_iff in H. destruct H as [H1 H2]. split; [exact H1 | now rewrite H2].
Qed.

Lemma lstrip_ws_free : forall s, ws_free s = true -> lstrip_str s = s.
Proof. intros [|a s] H; [reflexivity|]. destruct (ws_free_cons _ _ H) as [H1 _]. cbn. now rewrite H1. Qed.

Lemma rstrip_ws_free : forall s, ws_free s = true -> rstrip_str s = s.
Proof.
  induction s as [|a s IH]; intros H; [reflexivity|].
  destruct (ws_free_cons _ _ H) as [H1 H2]. cbn [rstrip_str]. rewrite (IH H2), H1, andb_false_r. reflexivity.
Qed.

Lemma lspaces_ws_free : forall s, ws_free s = true -> lspaces_str s = (0, s).
Proof.
  intros [|a s] H; [reflexivity|]. destruct (ws_free_cons _ _ H) as [H1 _]. cbn [lspaces_str].
  destruct (is_space a) eqn:E; [|reflexivity]. apply is_space_ws in E. congruence.
Qed.

Lemma collapse_ws_free : forall s b, ws_free s = true ->
  collapse_str b s = (s, if str_empty s then b else false).
Proof.
  induction s as [|a s IH]; intros b H; [reflexivity|].
  destruct (ws_free_cons _ _ H) as [H1 H2]. cbn [collapse_str str_empty]. rewrite H1, (IH false H2).
  destruct s; reflexivity.
Qed.

(* ------------------------------------------------------------------------------------ *)
(* strings: brackets                                                                      *)

Definition is_br (a : ascii) : bool := negb (clean_char a).

Fixpoint brs (s : string) : string :=
  match s with
  | EmptyString => EmptyString
  | String a r => if is_br a then String a (brs r) else brs r
  end.

Lemma brs_app : forall a b, brs (a ++ b) = (brs a ++ brs b)%string.
Proof. induction a as [|x a IH]; intros b; cbn; [reflexivity|]. destruct (is_br x); cbn; now rewrite IH. Qed.

Lemma scan_brs : forall o c, (o = "("%char /\ c = ")"%char) \/ (o = "{"%char /\ c = "}"%char) ->
  forall s d, scan o c s d = scan o c (brs s) d.
Proof.
  intros o c Hoc. induction s as [|a s IH]; intros d; [reflexivity|].
  cbn [scan brs]. destruct (is_br a) eqn:E.
  - cbn [scan]. destruct (Ascii.eqb a o); [apply IH|]. destruct (Ascii.eqb a c); [destruct d; auto|]. apply IH.
  - unfold is_br in E. apply negb_false_iff in E. destruct (clean_char_spec a E) as (H1 & H2 & H3 & H4).
    destruct Hoc as [[-> ->] | [-> ->]]; rewrite ?H1, ?H2, ?H3, ?H4; apply IH.
Qed.

Lemma Bal_brs : forall a b, brs (flatten a) = brs (flatten b) -> Bal a -> Bal b.
Proof.
  intros a b E [H1 H2]. split; intros d.
  - rewrite scan_brs by auto. rewrite <- E. rewrite <- scan_brs by auto. apply H1.
  - rewrite scan_brs by auto. rewrite <- E. rewrite <- scan_brs by auto. apply H2.
Qed.

Lemma clean_brs : forall s, clean_str s = true -> brs s = EmptyString.
Proof.
  induction s as [|a s IH]; intros H; [reflexivity|]. cbn [clean_str] in H.
  apply andb_true_iff in H. destruct H as [H1 H2]. cbn [brs]. unfold is_br. rewrite H1. cbn. auto.
Qed.

Lemma brs_clean : forall s, brs s = EmptyString -> clean_str s = true.
Proof.
  induction s as [|a s IH]; intros H; [reflexivity|]. cbn [brs] in H. unfold is_br in H.
  destruct (clean_char a) eqn:E; cbn [negb] in H; [|discriminate]. cbn [clean_str]. rewrite E. cbn. auto.
Qed.

Lemma ws_not_br : forall a, is_ws a = true -> is_br a = false.
Proof. intros [[] [] [] [] [] [] [] []]; vm_compute; intros; congruence. Qed.

Lemma space_not_br : forall a, is_space a = true -> is_br a = false.
Proof. intros a H. apply ws_not_br, is_space_ws, H. Qed.

Lemma brs_lstrip : forall s, brs (lstrip_str s) = brs s.
Proof.
  induction s as [|a s IH]; [reflexivity|]. cbn [lstrip_str]. destruct (is_ws a) eqn:E; [|reflexivity].
  cbn [brs]. now rewrite (ws_not_br a E).
Qed.

Lemma brs_rstrip : forall s, brs (rstrip_str s) = brs s.
Proof.
  induction s as [|a s IH]; [reflexivity|]. cbn [rstrip_str].
  destruct (str_empty (rstrip_str s)) eqn:E1; cbn [andb].
  - destruct (is_ws a) eqn:E2.
    + cbn [brs]. rewrite (ws_not_br a E2). rewrite <- IH. destruct (rstrip_str s); [reflexivity | discriminate].
    + cbn [brs]. now rewrite IH.
  - cbn [brs]. now rewrite IH.
Qed.

Lemma brs_lspaces : forall s, brs (snd (lspaces_str s)) = brs s.
Proof.
  induction s as [|a s IH]; [reflexivity|]. cbn [lspaces_str]. destruct (is_space a) eqn:E; [|reflexivity].
  destruct (lspaces_str s) as [n x]. cbn [snd brs] in *. now rewrite (space_not_br a E).
Qed.

Lemma brs_collapse : forall s b, brs (fst (collapse_str b s)) = brs s.
Proof.
  induction s as [|a s IH]; intros b; [reflexivity|]. cbn [collapse_str]. destruct (is_ws a) eqn:E.
  - cbn [brs]. rewrite (ws_not_br a E). destruct b; [apply IH|].
    specialize (IH true). destruct (collapse_str true s) as [x f]. cbn [fst brs] in *. exact IH.
  - specialize (IH false). destruct (collapse_str false s) as [x f]. cbn [fst brs] in *. now rewrite IH.
Qed.

Lemma clean_app : forall a b, clean_str (a ++ b) = clean_str a && clean_str b.
Proof. induction a as [|x a IH]; intros b; cbn; [reflexivity|]. now rewrite IH, andb_assoc. Qed.

Lemma clean_before_last_space : forall s, clean_str s = true -> clean_str (before_last_space s) = true.
Proof.
  induction s as [|a s IH]; intros H; [reflexivity|]. cbn [clean_str] in H.
  apply andb_true_iff in H. destruct H as [H1 H2]. cbn [before_last_space].
  destruct (is_space a && negb (has_space s)); [reflexivity|]. cbn [clean_str]. now rewrite H1, IH.
Qed.

Lemma clean_rstrip : forall s, clean_str s = true -> clean_str (rstrip_str s) = true.
Proof. intros s H. apply brs_clean. rewrite brs_rstrip. now apply clean_brs. Qed.

Lemma clean_after_last_ws : forall s, clean_str s = true -> clean_str (after_last_ws s) = true.
Proof.
  induction s as [|a s IH]; intros H; [reflexivity|]. cbn [clean_str] in H.
  apply andb_true_iff in H. destruct H as [H1 H2]. cbn [after_last_ws].
  destruct (has_ws s); [now apply IH|]. destruct (is_ws a); [exact H2|]. cbn [clean_str]. now rewrite H1, H2.
Qed.

Lemma clean_last_token : forall s, clean_str s = true -> clean_str (last_token s) = true.
Proof. intros. unfold last_token. now apply clean_after_last_ws, clean_rstrip. Qed.

Lemma replace_dots_cases : forall s,
  (exists r, s = String "." (String "." (String "." r)) /\
             replace_dots s = String "["%char (String "]"%char (replace_dots r))) \/
  (exists a r, s = String a r /\ replace_dots s = String a (replace_dots r)) \/ s = EmptyString.
Proof.
  intros [|a s]; [right; right; reflexivity|].
  destruct (Ascii.eqb a "."%char) eqn:Ea.
  - apply Ascii.eqb_eq in Ea. subst a. destruct s as [|b s]; [right; left; eexists _, _; split; reflexivity|].
    destruct (Ascii.eqb b "."%char) eqn:Eb.
    + apply Ascii.eqb_eq in Eb. subst b. destruct s as [|c s]; [right; left; eexists _, _; split; reflexivity|].
      destruct (Ascii.eqb c "."%char) eqn:Ec.
      * apply Ascii.eqb_eq in Ec. subst c. left. eexists; split; reflexivity.
      * right; left. eexists _, _; split; [reflexivity|].
        destruct c as [[] [] [] [] [] [] [] []]; try reflexivity; discriminate.
    + right; left. eexists _, _; split; [reflexivity|].
      destruct b as [[] [] [] [] [] [] [] []]; try reflexivity; discriminate.
  - right; left. eexists _, _; split; [reflexivity|].
    destruct a as [[] [] [] [] [] [] [] []]; try reflexivity; discriminate.
Qed.

Lemma brs_replace_dots : forall n s, String.length s <= n -> brs (replace_dots s) = brs s.
Proof.
  induction n as [|n IH]; intros s L.
  - destruct s; [reflexivity | cbn in L; lia].
  - destruct (replace_dots_cases s) as [(r & -> & E) | [(a & r & -> & E) | ->]]; [| |reflexivity].
    + rewrite E. cbn [brs is_br clean_char]. cbn. apply IH. cbn in L. lia.
    + rewrite E. cbn [brs]. rewrite IH; [reflexivity | cbn in L; lia].
Qed.

Lemma clean_replace_dots : forall s, clean_str s = true -> clean_str (replace_dots s) = true.
Proof. intros s H. apply brs_clean. rewrite (brs_replace_dots (String.length s)) by lia. now apply clean_brs. Qed.

Lemma clean_boxed : forall s, clean_str s = true -> clean_str (boxed s) = true.
Proof.
  intros s H. unfold boxed.
  repeat match goal with |- context [if ?b then _ else _] => destruct b; [reflexivity|] end. exact H.
Qed.

Lemma clean_nat_str : forall n, clean_str (nat_str n) = true.
Proof.
  intros n. unfold nat_str. generalize (S n) as fuel. intros fuel.
  assert (G : forall fuel n acc, clean_str acc = true -> clean_str (nat_str_fuel fuel n acc) = true).
  { induction fuel0 as [|f IH]; intros m acc Ha; [exact Ha|]. cbn [nat_str_fuel].
    assert (Hd : clean_str (digit (m mod 10) ++ acc) = true).
    { rewrite clean_app, Ha, andb_true_r. unfold digit.
      assert (m mod 10 < 10) by (apply Nat.mod_upper_bound; lia).
      destruct (m mod 10) as [|[|[|[|[|[|[|[|[|[|k]]]]]]]]]]; try reflexivity. lia. }
    destruct (Nat.ltb m 10); [exact Hd | now apply IH]. }
  now apply G.
Qed.

Lemma clean_repeat_is : forall k, clean_str (repeat_str "_is" k) = true.
Proof. induction k; [reflexivity|]. cbn [repeat_str]. now rewrite clean_app, IHk. Qed.

Lemma clean_join : forall sep l, clean_str sep = true -> forallb clean_str l = true -> clean_str (join sep l) = true.
Proof.
  intros sep l Hs. induction l as [|x r IH]; intros H; [reflexivity|].
  cbn [forallb] in H. apply andb_true_iff in H. destruct H as [H1 H2]. cbn [join].
  destruct r; [exact H1|]. rewrite !clean_app, H1, Hs. cbn. now apply IH.
Qed.

(* ------------------------------------------------------------------------------------ *)
(* segments: tidy, marks and balance under strip / sugar / collapse                        *)

#[local] Hint Rewrite marks_app marks_nil marks_T marks_paren marks_brace marks_decl marks_lit marks_op
  app_nil_r app_nil_l : jmarks.

Ltac mk := autorewrite with jmarks.

Lemma tidy_nil : tidy [].
Proof. constructor. Qed.

Lemma tidy_app : forall a b, tidy a -> tidy b -> tidy (a ++ b).
Proof. intros. apply Forall_app; auto. Qed.

Lemma tidy_T : forall s, tidy (T s).
Proof. intros. constructor; [exact I | constructor]. Qed.

Lemma tidy_single : forall sg, tidy_seg sg -> tidy [sg].
Proof. intros. constructor; [assumption | constructor]. Qed.

Lemma tidy_paren : forall r, tidy r -> tidy (paren r).
Proof. intros. unfold paren. auto using tidy_app, tidy_T. Qed.

Lemma tidy_brace : forall r, tidy r -> tidy (brace r).
Proof. intros. unfold brace. auto using tidy_app, tidy_T. Qed.

Lemma tidy_bracket : forall r, tidy r -> tidy (bracket r).
Proof. intros. unfold bracket. auto using tidy_app, tidy_T. Qed.

Lemma marks_bracket : forall r, marks (bracket r) = marks r.
Proof. intros. unfold bracket. mk. reflexivity. Qed.

#[local] Hint Rewrite marks_bracket : jmarks.

Lemma tidy_joins : forall sep l, tidy sep -> Forall tidy l -> tidy (joins sep l).
Proof.
  intros sep l Hs Hl. induction Hl as [|x r Hx Hr IH]; [apply tidy_nil|].
  cbn [joins]. destruct r as [|y r']; [exact Hx|]. auto using tidy_app.
Qed.

Lemma tidy_nth : forall l i, Forall tidy l -> tidy (nth_seg i l).
Proof.
  intros l i H. unfold nth_seg. revert i. induction H as [|x r Hx Hr IH]; intros [|i]; cbn;
    try apply tidy_nil; auto.
Qed.

Lemma tidy_last : forall l, Forall tidy l -> tidy (last_seg l).
Proof.
  intros l H. unfold last_seg. induction H as [|x r Hx Hr IH]; [apply tidy_nil|].
  cbn [last]. destruct r; [exact Hx | exact IH].
Qed.

Lemma seg_text_set : forall sg s, seg_text (set_text sg s) = s.
Proof. intros sg s; destruct sg; reflexivity. Qed.

Lemma set_text_same : forall sg, set_text sg (seg_text sg) = sg.
Proof. intros []; reflexivity. Qed.

Lemma marks_cons : forall sg r, marks (sg :: r) = seg_marks sg ++ marks r.
Proof. reflexivity. Qed.

Lemma seg_marks_empty : forall sg, seg_text sg = EmptyString -> seg_marks sg = [].
Proof. intros [] H; cbn in *; subst; reflexivity. Qed.

Lemma tidy_seg_txt : forall sg s, (match sg with Txt _ => True | _ => False end) -> tidy_seg (set_text sg s).
Proof. intros sg s H; destruct sg; cbn in *; tauto. Qed.

(* a segment whose text is stripped: either a plain one (no marks before or after) or a marked
   one without white space (unchanged) *)
Lemma strip_seg_cases : forall sg (f : string -> string),
  tidy_seg sg -> (forall s, ws_free s = true -> f s = s) ->
  (seg_marks sg = [] /\ seg_marks (set_text sg (f (seg_text sg))) = [] /\ tidy_seg (set_text sg (f (seg_text sg)))) \/
  set_text sg (f (seg_text sg)) = sg.
Proof.
  intros sg f Ht Hf. destruct sg as [s|k s|s|s]; cbn [tidy_seg seg_text] in Ht.
  - left. cbn. auto.
  - right. cbn [seg_text set_text]. now rewrite (Hf s Ht).
  - right. cbn [seg_text set_text]. now rewrite (Hf s Ht).
  - right. cbn [seg_text set_text]. now rewrite (Hf s Ht).
Qed.

Lemma lstrip_segs_tm : forall r, tidy r -> tidy (lstrip_segs r) /\ marks (lstrip_segs r) = marks r.
Proof.
  induction 1 as [|sg r Hsg Hr IH]; [split; [constructor | reflexivity]|].
  cbn [lstrip_segs]. destruct IH as [IH1 IH2].
  destruct (str_empty (lstrip_str (seg_text sg))) eqn:E.
  - split; [exact IH1|]. rewrite IH2, marks_cons.
    destruct (strip_seg_cases sg lstrip_str Hsg lstrip_ws_free) as [(M1 & _) | Hs].
    + now rewrite M1.
    + rewrite seg_marks_empty; [reflexivity|].
      rewrite <- Hs, seg_text_set. destruct (lstrip_str (seg_text sg)); [reflexivity | discriminate].
  - destruct (strip_seg_cases sg lstrip_str Hsg lstrip_ws_free) as [(M1 & M2 & T2) | Hs].
    + split; [constructor; assumption|]. now rewrite !marks_cons, M1, M2.
    + rewrite Hs. split; [constructor; assumption | reflexivity].
Qed.

Lemma rstrip_segs_tm : forall r, tidy r -> tidy (rstrip_segs r) /\ marks (rstrip_segs r) = marks r.
Proof.
  induction 1 as [|sg r Hsg Hr IH]; [split; [constructor | reflexivity]|].
  cbn [rstrip_segs]. destruct IH as [IH1 IH2]. rewrite (marks_cons sg r), <- IH2.
  destruct (rstrip_segs r) as [|y r'].
  - cbn [marks flat_map]. rewrite app_nil_r.
    destruct (str_empty (rstrip_str (seg_text sg))) eqn:E.
    + split; [constructor|].
      destruct (strip_seg_cases sg rstrip_str Hsg rstrip_ws_free) as [(M1 & _) | Hs].
      * now rewrite M1.
      * rewrite seg_marks_empty; [reflexivity|].
        rewrite <- Hs, seg_text_set. destruct (rstrip_str (seg_text sg)); [reflexivity | discriminate].
    + destruct (strip_seg_cases sg rstrip_str Hsg rstrip_ws_free) as [(M1 & M2 & T2) | Hs].
      * split; [apply tidy_single; assumption|]. rewrite marks_cons, M1, M2. reflexivity.
      * rewrite Hs. split; [apply tidy_single; assumption|]. rewrite marks_cons. cbn. now rewrite app_nil_r.
  - split; [constructor; assumption | reflexivity].
Qed.

Lemma strip_segs_tm : forall r, tidy r -> tidy (strip_segs r) /\ marks (strip_segs r) = marks r.
Proof.
  intros r H. unfold strip_segs. destruct (lstrip_segs_tm r H) as [H1 H2].
  destruct (rstrip_segs_tm _ H1) as [H3 H4]. split; [exact H3 | congruence].
Qed.

Lemma lspaces_fn : forall s, ws_free s = true -> snd (lspaces_str s) = s.
Proof. intros s H. now rewrite lspaces_ws_free. Qed.

Lemma split_spaces_tm : forall r, tidy r ->
  tidy (snd (split_spaces r)) /\ marks (snd (split_spaces r)) = marks r.
Proof.
  induction 1 as [|sg r Hsg Hr IH]; [split; [constructor | reflexivity]|].
  cbn [split_spaces]. destruct IH as [IH1 IH2].
  destruct (lspaces_str (seg_text sg)) as [n s'] eqn:E.
  assert (Es : s' = snd (lspaces_str (seg_text sg))) by now rewrite E.
  destruct (str_empty s') eqn:E2.
  - destruct (split_spaces r) as [m r']. cbn [snd] in *. split; [exact IH1|]. rewrite IH2, marks_cons.
    destruct (strip_seg_cases sg (fun s => snd (lspaces_str s)) Hsg lspaces_fn) as [(M1 & _) | Hs].
    + now rewrite M1.
    + rewrite seg_marks_empty; [reflexivity|]. rewrite <- Hs, seg_text_set, <- Es. destruct s'; [reflexivity | discriminate].
  - cbn [snd]. rewrite Es.
    destruct (strip_seg_cases sg (fun s => snd (lspaces_str s)) Hsg lspaces_fn) as [(M1 & M2 & T2) | Hs].
    + split; [constructor; assumption|]. now rewrite !marks_cons, M1, M2.
    + cbv beta in Hs. rewrite Hs. split; [constructor; assumption | reflexivity].
Qed.

Lemma add_sugar_tm : forall sugar r, tidy sugar -> tidy r ->
  tidy (add_sugar sugar r) /\ marks (add_sugar sugar r) = marks sugar ++ marks r.
Proof.
  intros sugar r Hs Hr. unfold add_sugar. destruct (split_spaces_tm r Hr) as [H1 H2].
  destruct (split_spaces r) as [n rest]. cbn [snd] in *. split.
  - auto using tidy_app, tidy_T.
  - mk. now rewrite H2.
Qed.

Lemma collapse_segs_tm : forall r b, tidy r ->
  tidy (collapse_segs b r) /\ marks (collapse_segs b r) = marks r.
Proof.
  intros r b H. revert b. induction H as [|sg r Hsg Hr IH]; intros b; [split; [constructor | reflexivity]|].
  cbn [collapse_segs]. destruct (collapse_str b (seg_text sg)) as [s' f] eqn:E.
  destruct (IH f) as [IH1 IH2]. rewrite !marks_cons, IH2.
  destruct sg as [s|k s|s|s]; cbn [tidy_seg seg_text set_text] in *.
  - split; [constructor; [exact I | exact IH1] | reflexivity].
  - rewrite (collapse_ws_free s b Hsg) in E. injection E as <- _. split; [constructor; assumption | reflexivity].
  - rewrite (collapse_ws_free s b Hsg) in E. injection E as <- _. split; [constructor; assumption | reflexivity].
  - rewrite (collapse_ws_free s b Hsg) in E. injection E as <- _. split; [constructor; assumption | reflexivity].
Qed.

(* --- balance: these operations only remove or replace white space *)
Lemma flatten_cons : forall sg r, flatten (sg :: r) = (seg_text sg ++ flatten r)%string.
Proof. reflexivity. Qed.

Lemma brs_lstrip_segs : forall r, brs (flatten (lstrip_segs r)) = brs (flatten r).
Proof.
  induction r as [|sg r IH]; [reflexivity|]. cbn [lstrip_segs].
  destruct (str_empty (lstrip_str (seg_text sg))) eqn:E.
  - rewrite IH, flatten_cons, brs_app, <- (brs_lstrip (seg_text sg)).
    destruct (lstrip_str (seg_text sg)); [reflexivity | discriminate].
  - now rewrite !flatten_cons, !brs_app, seg_text_set, brs_lstrip.
Qed.

Lemma brs_rstrip_segs : forall r, brs (flatten (rstrip_segs r)) = brs (flatten r).
Proof.
  induction r as [|sg r IH]; [reflexivity|]. cbn [rstrip_segs]. rewrite (flatten_cons sg r), brs_app, <- IH.
  destruct (rstrip_segs r) as [|y r'].
  - cbn [flatten brs]. rewrite sapp_nil_r. destruct (str_empty (rstrip_str (seg_text sg))) eqn:E.
    + rewrite <- (brs_rstrip (seg_text sg)). destruct (rstrip_str (seg_text sg)); [reflexivity | discriminate].
    + cbn [flatten]. now rewrite seg_text_set, sapp_nil_r, brs_rstrip.
  - now rewrite flatten_cons, brs_app.
Qed.

Lemma brs_split_spaces : forall r, brs (flatten (snd (split_spaces r))) = brs (flatten r).
Proof.
  induction r as [|sg r IH]; [reflexivity|]. cbn [split_spaces].
  pose proof (brs_lspaces (seg_text sg)) as B.
  destruct (lspaces_str (seg_text sg)) as [n s']. cbn [snd] in B.
  destruct (str_empty s') eqn:E.
  - destruct (split_spaces r) as [m r']. cbn [snd] in *. rewrite IH, flatten_cons, brs_app, <- B.
    destruct s'; [reflexivity | discriminate].
  - cbn [snd]. now rewrite !flatten_cons, !brs_app, seg_text_set, B.
Qed.

Lemma brs_collapse_segs : forall r b, brs (flatten (collapse_segs b r)) = brs (flatten r).
Proof.
  induction r as [|sg r IH]; intros b; [reflexivity|]. cbn [collapse_segs].
  pose proof (brs_collapse (seg_text sg) b) as B.
  destruct (collapse_str b (seg_text sg)) as [s' f]. cbn [fst] in B.
  now rewrite !flatten_cons, !brs_app, seg_text_set, B, IH.
Qed.

Lemma Bal_lstrip : forall r, Bal r -> Bal (lstrip_segs r).
Proof. intros r. apply Bal_brs. now rewrite brs_lstrip_segs. Qed.

Lemma Bal_strip : forall r, Bal r -> Bal (strip_segs r).
Proof. intros r. apply Bal_brs. unfold strip_segs. now rewrite brs_rstrip_segs, brs_lstrip_segs. Qed.

Lemma Bal_collapse : forall r b, Bal r -> Bal (collapse_segs b r).
Proof. intros r b. apply Bal_brs. now rewrite brs_collapse_segs. Qed.

Lemma brs_spaces : forall n, brs (spaces n) = EmptyString.
Proof. intros. apply clean_brs, clean_spaces. Qed.

Lemma Bal_add_sugar : forall sugar r, Bal sugar -> Bal r -> Bal (add_sugar sugar r).
Proof.
  intros sugar r Hs Hr. unfold add_sugar. pose proof (brs_split_spaces r) as B.
  destruct (split_spaces r) as [n rest]. cbn [snd] in B.
  apply Bal_app; [apply Bal_spaces|]. apply Bal_app; [exact Hs|].
  revert Hr. apply Bal_brs. now rewrite B.
Qed.

Lemma Bal_bracket : forall r, Bal r -> Bal (bracket r).
Proof. intros. unfold bracket. apply Bal_app; [apply Bal_T; reflexivity|]. apply Bal_app; [assumption | apply Bal_T; reflexivity]. Qed.

(* ------------------------------------------------------------------------------------ *)
(* the texts: tidy, marks, balance                                                        *)

Ltac tdy :=
  cbv zeta;
  repeat match goal with
         | H : tidy ?x |- tidy ?x => exact H
         | |- tidy (if ?b then _ else _) => destruct b
         | |- tidy (match ?o with Some _ => _ | None => _ end) => destruct o
         | |- tidy (_ ++ _) => apply tidy_app
         | |- tidy [] => apply tidy_nil
         | |- tidy (paren _) => apply tidy_paren
         | |- tidy (brace _) => apply tidy_brace
         | |- tidy (bracket _) => apply tidy_bracket
         | |- tidy (joins _ _) => apply tidy_joins
         | |- tidy (T _) => apply tidy_T
         | |- tidy [_] => apply tidy_single; cbn [tidy_seg seg_text]
         | |- tidy (nth_seg _ _) => apply tidy_nth
         | |- tidy (last_seg _) => apply tidy_last
         | |- tidy (lstrip_segs _) => apply lstrip_segs_tm
         | |- tidy (strip_segs _) => apply strip_segs_tm
         | |- tidy (collapse_segs _ _) => apply collapse_segs_tm
         | |- tidy (add_sugar _ _) => apply add_sugar_tm
         | |- Forall tidy (firstn _ _) => apply Forall_firstn
         | |- Forall tidy (skipn _ _) => apply Forall_skipn
         | |- Forall tidy (removelast _) => apply Forall_removelast
         | |- Forall tidy (tl _) => apply Forall_tl
         | |- Forall tidy (_ ++ _) => apply Forall_app; split
         | |- Forall tidy [_] => constructor; [|constructor]
         end; try assumption; try exact I; try reflexivity.

Ltac jbal :=
  cbv zeta;
  repeat match goal with
         | H : Bal ?x |- Bal ?x => exact H
         | |- Bal (if ?b then _ else _) => destruct b
         | |- Bal (match ?o with Some _ => _ | None => _ end) => destruct o
         | |- Bal (_ ++ _) => apply Bal_app
         | |- Bal [] => apply Bal_nil
         | |- Bal (paren _) => apply Bal_paren
         | |- Bal (brace _) => apply Bal_brace
         | |- Bal (bracket _) => apply Bal_bracket
         | |- Bal (joins _ _) => apply Bal_joins
         | |- Bal (T (spaces _)) => apply Bal_spaces
         | |- Bal (T _) => apply Bal_T
         | |- Bal [_] => apply Bal_single; cbn [seg_text]
         | |- Bal (nth_seg _ _) => apply Bal_nth
         | |- Bal (last_seg _) => apply Bal_last
         | |- Bal (lstrip_segs _) => apply Bal_lstrip
         | |- Bal (strip_segs _) => apply Bal_strip
         | |- Bal (collapse_segs _ _) => apply Bal_collapse
         | |- Bal (add_sugar _ _) => apply Bal_add_sugar
         | |- Forall Bal (firstn _ _) => apply Forall_firstn
         | |- Forall Bal (skipn _ _) => apply Forall_skipn
         | |- Forall Bal (removelast _) => apply Forall_removelast
         | |- Forall Bal (tl _) => apply Forall_tl
         | |- Forall Bal (_ ++ _) => apply Forall_app; split
         | |- Forall Bal [_] => constructor; [|constructor]
         | |- clean_str (if ?b then _ else _) = true => destruct b
         | |- clean_str (_ ++ _) = true => rewrite clean_app; apply andb_true_iff; split
         end; try assumption; try reflexivity.

Lemma marks_joins_T : forall s l, marks (joins (T s) l) = flat_map marks l.
Proof. intros. now apply marks_joins. Qed.

#[local] Hint Rewrite marks_joins_T : jmarks.

Lemma tm_lstrip : forall r, tidy r -> marks (lstrip_segs r) = marks r.
Proof. intros. now apply lstrip_segs_tm. Qed.
Lemma tm_strip : forall r, tidy r -> marks (strip_segs r) = marks r.
Proof. intros. now apply strip_segs_tm. Qed.
Lemma tm_collapse : forall r b, tidy r -> marks (collapse_segs b r) = marks r.
Proof. intros. now apply collapse_segs_tm. Qed.
Lemma tm_sugar : forall x r, tidy r -> marks (add_sugar (T x) r) = marks r.
Proof. intros. rewrite (proj2 (add_sugar_tm (T x) r (tidy_T x) H)). reflexivity. Qed.

Lemma fm_nth1 : forall (cr : list segs), List.length cr = 1 -> flat_map marks cr = marks (nth_seg 0 cr).
Proof. intros [|a [|b l]] H; try discriminate. cbn. now rewrite app_nil_r. Qed.

Lemma fm_nth2 : forall (cr : list segs), List.length cr = 2 ->
  flat_map marks cr = marks (nth_seg 0 cr) ++ marks (nth_seg 1 cr).
Proof. intros [|a [|b [|c l]]] H; try discriminate. cbn. now rewrite app_nil_r. Qed.

Lemma fm_nth3 : forall (cr : list segs), List.length cr = 3 ->
  flat_map marks cr = marks (nth_seg 0 cr) ++ marks (nth_seg 1 cr) ++ marks (nth_seg 2 cr).
Proof. intros [|a [|b [|c [|d l]]]] H; try discriminate. cbn. now rewrite app_nil_r. Qed.

Lemma clean_semi : forall s, clean_str (semi s) = true.
Proof. intros. unfold semi. destruct (parent_is_block s); reflexivity. Qed.

Lemma clean_gi : forall s, clean_str (gi s) = true.
Proof. intros. apply clean_spaces. Qed.

Lemma clean_gi_old : forall o s, clean_str (gi_old o s) = true.
Proof. intros. apply clean_spaces. Qed.

Lemma clean_main_prefix : forall tab name s, clean_str (main_prefix tab name s) = true.
Proof. intros. unfold main_prefix. destruct (_ && _); reflexivity. Qed.

(* ---- constants, variable *)
Lemma bottom_tm : forall t c pfr idt sm, tidy (bottom_text t c pfr idt sm) /\ marks (bottom_text t c pfr idt sm) = [].
Proof. intros. unfold bottom_text. split; [tdy | destruct c, pfr; mk; reflexivity]. Qed.

Lemma bottom_bal : forall t c pfr idt sm, clean_str (opt_name type_name t) = true -> clean_str idt = true ->
  clean_str sm = true -> Bal (bottom_text t c pfr idt sm).
Proof. intros. unfold bottom_text. jbal. Qed.

Lemma integer_tm : forall lit t c idt sm, ws_free lit = true ->
  tidy (integer_text lit t c idt sm) /\ marks (integer_text lit t c idt sm) = mk_mark MLit lit.
Proof.
  intros. unfold integer_text, integer_cast. split.
  - destruct c; [|tdy]. destruct t as [[[] p n| |]|]; tdy.
  - destruct c; [|mk; reflexivity]. destruct t as [[[] p n| |]|]; mk; reflexivity.
Qed.

Lemma integer_bal : forall lit t c idt sm, clean_str lit = true -> clean_str idt = true -> clean_str sm = true ->
  Bal (integer_text lit t c idt sm).
Proof. intros. unfold integer_text, integer_cast. destruct c; [|jbal]. destruct t as [[[] p n| |]|]; jbal. Qed.

Lemma real_tm : forall lit t c idt sm, ws_free lit = true ->
  tidy (real_text lit t c idt sm) /\ marks (real_text lit t c idt sm) = mk_mark MLit lit.
Proof.
  intros. unfold real_text, real_cast. split.
  - destruct c; [|tdy]. destruct t as [[[] p n| |]|]; tdy.
  - destruct c; [|mk; reflexivity]. destruct t as [[[] p n| |]|]; mk; reflexivity.
Qed.

Lemma real_bal : forall lit t c idt sm, clean_str lit = true -> clean_str idt = true -> clean_str sm = true ->
  Bal (real_text lit t c idt sm).
Proof. intros. unfold real_text, real_cast. destruct c; [|jbal]. destruct t as [[[] p n| |]|]; jbal. Qed.

Lemma char_tm : forall lit idt sm, ws_free lit = true ->
  tidy (char_text lit idt sm) /\ marks (char_text lit idt sm) = mk_mark MLit lit.
Proof. intros. unfold char_text. split; [tdy | mk; reflexivity]. Qed.

Lemma char_bal : forall lit idt sm, clean_str lit = true -> clean_str idt = true -> clean_str sm = true ->
  Bal (char_text lit idt sm).
Proof. intros. unfold char_text. jbal. Qed.

Lemma string_tm : forall lit idt sm, ws_free lit = true ->
  tidy (string_text lit idt sm) /\ marks (string_text lit idt sm) = mk_mark MLit lit.
Proof. intros. unfold string_text. split; [tdy | mk; reflexivity]. Qed.

Lemma string_bal : forall lit idt sm, clean_str lit = true -> clean_str idt = true -> clean_str sm = true ->
  Bal (string_text lit idt sm).
Proof. intros. unfold string_text. jbal. Qed.

Lemma boolean_tm : forall lit idt sm, ws_free lit = true ->
  tidy (boolean_text lit idt sm) /\ marks (boolean_text lit idt sm) = mk_mark MLit lit.
Proof. intros. unfold boolean_text. split; [tdy | mk; reflexivity]. Qed.

Lemma boolean_bal : forall lit idt sm, clean_str lit = true -> clean_str idt = true -> clean_str sm = true ->
  Bal (boolean_text lit idt sm).
Proof. intros. unfold boolean_text. jbal. Qed.

Lemma variable_tm : forall name mp k idt sm,
  tidy (variable_text name mp k idt sm) /\ marks (variable_text name mp k idt sm) = [].
Proof. intros. unfold variable_text. split; [tdy | reflexivity]. Qed.

Lemma variable_bal : forall name mp k idt sm, clean_str name = true -> clean_str mp = true ->
  clean_str idt = true -> clean_str sm = true -> Bal (variable_text name mp k idt sm).
Proof. intros. unfold variable_text. jbal. apply clean_repeat_is. Qed.

(* ---- declarations without children *)
Lemma type_param_tm : forall name b, ws_free name = true ->
  tidy (type_param_text name b) /\ marks (type_param_text name b) = mk_mark (MDecl DTypeParam) name.
Proof. intros. unfold type_param_text. split; [tdy | destruct b; mk; reflexivity]. Qed.

Lemma type_param_bal : forall name b, clean_str name = true -> clean_str (opt_name type_name b) = true ->
  Bal (type_param_text name b).
Proof. intros. unfold type_param_text. destruct b; jbal. now apply clean_boxed. Qed.

Lemma field_tm : forall name ft fin, ws_free name = true ->
  tidy (field_text name ft fin) /\ marks (field_text name ft fin) = mk_mark (MDecl DField) name.
Proof. intros. unfold field_text. split; [tdy | mk; reflexivity]. Qed.

Lemma field_bal : forall name ft fin, clean_str name = true -> clean_str (type_name ft) = true ->
  Bal (field_text name ft fin).
Proof. intros. unfold field_text. jbal. Qed.

Lemma param_tm : forall name pt va, ws_free name = true ->
  tidy (param_text name pt va) /\ marks (param_text name pt va) = mk_mark (MDecl DParam) name.
Proof. intros. unfold param_text. split; [tdy | mk; reflexivity]. Qed.

Lemma param_bal : forall name pt va, clean_str name = true -> clean_str (param_print_type pt va) = true ->
  Bal (param_text name pt va).
Proof. intros. unfold param_text. jbal. Qed.

(* ---- expressions *)
Lemma call_argument_tm : forall (cr : list segs), Forall tidy cr -> List.length cr = 1 ->
  tidy (nth_seg 0 cr) /\ marks (nth_seg 0 cr) = flat_map marks cr.
Proof. intros. split; [tdy | now rewrite fm_nth1]. Qed.

Lemma var_decl_tm : forall name fin inf mp idt (cr : list segs), ws_free name = true -> Forall tidy cr ->
  List.length cr = 1 ->
  tidy (var_decl_text name fin inf mp idt cr) /\
  marks (var_decl_text name fin inf mp idt cr) = mk_mark (MDecl DVar) name ++ flat_map marks cr.
Proof.
  intros. unfold var_decl_text. split; [tdy|]. mk. rewrite tm_lstrip by tdy. now rewrite fm_nth1.
Qed.

Lemma var_decl_bal : forall name fin inf mp idt cr, clean_str name = true -> clean_str (type_name inf) = true ->
  clean_str mp = true -> clean_str idt = true -> Forall Bal cr -> Bal (var_decl_text name fin inf mp idt cr).
Proof. intros. unfold var_decl_text. jbal. Qed.

Lemma array_empty_tm : forall at_ idt sm, tidy (array_empty_text at_ idt sm) /\ marks (array_empty_text at_ idt sm) = [].
Proof. intros. unfold array_empty_text. split; [tdy | destruct (opt_kind_ty _ _); mk; reflexivity]. Qed.

Lemma array_empty_bal : forall at_ idt sm, clean_str (opt_name type_name (ty_arg0 at_)) = true ->
  clean_str idt = true -> clean_str sm = true -> Bal (array_empty_text at_ idt sm).
Proof. intros. unfold array_empty_text. jbal. Qed.

Lemma array_tm : forall at_ idt sm cr, Forall tidy cr ->
  tidy (array_text at_ idt sm cr) /\ marks (array_text at_ idt sm cr) = flat_map marks cr.
Proof.
  intros. unfold array_text, array_new_stmt. split; [tdy|]. destruct (_ && _); mk; reflexivity.
Qed.

Lemma array_bal : forall at_ idt sm cr, clean_str (type_name at_) = true -> clean_str idt = true ->
  clean_str sm = true -> Forall Bal cr -> Bal (array_text at_ idt sm cr).
Proof. intros. unfold array_text, array_new_stmt. jbal. Qed.

Lemma binary_op_tm : forall op nt idt sm (cr : list segs), ws_free (op_str op nt) = true -> Forall tidy cr ->
  List.length cr = 2 ->
  tidy (binary_op_text op nt idt sm cr) /\
  marks (binary_op_text op nt idt sm cr) = marks (nth_seg 0 cr) ++ mk_mark MOp (op_str op nt) ++ marks (nth_seg 1 cr).
Proof. intros. unfold binary_op_text. split; [tdy | mk; reflexivity]. Qed.

Lemma binary_op_bal : forall op nt idt sm cr, clean_str (op_str op nt) = true -> clean_str idt = true ->
  clean_str sm = true -> Forall Bal cr -> Bal (binary_op_text op nt idt sm cr).
Proof. intros. unfold binary_op_text. jbal. Qed.

Lemma conditional_tm : forall idt sm (cr : list segs), Forall tidy cr -> List.length cr = 3 ->
  tidy (conditional_text idt sm cr) /\ marks (conditional_text idt sm cr) = flat_map marks cr.
Proof.
  intros. unfold conditional_text. split; [tdy|]. mk. rewrite tm_lstrip by tdy. rewrite (fm_nth3 cr) by assumption.
  reflexivity.
Qed.

Lemma conditional_bal : forall idt sm cr, clean_str idt = true -> clean_str sm = true -> Forall Bal cr ->
  Bal (conditional_text idt sm cr).
Proof. intros. unfold conditional_text. jbal. Qed.

Lemma is_tm : forall nt rn nv idt (cr : list segs), Forall tidy cr -> List.length cr = 1 ->
  tidy (is_text nt rn nv idt cr) /\
  marks (is_text nt rn nv idt cr) = flat_map marks cr ++ mk_mark MOp "instanceof".
Proof.
  intros. unfold is_text. split; [tdy|]. rewrite (fm_nth1 cr) by assumption. destruct nt; mk; reflexivity.
Qed.

Lemma is_bal : forall nt rn nv idt cr, clean_str rn = true -> clean_str nv = true -> clean_str idt = true ->
  Forall Bal cr -> Bal (is_text nt rn nv idt cr).
Proof. intros. unfold is_text. jbal. Qed.

Lemma new_tm : forall ct idt sm cr, Forall tidy cr ->
  tidy (new_text ct idt sm cr) /\ marks (new_text ct idt sm cr) = flat_map marks cr.
Proof. intros. unfold new_text. split; [tdy | mk; reflexivity]. Qed.

Lemma new_bal : forall ct idt sm cr, clean_str (new_type_text ct) = true -> clean_str idt = true ->
  clean_str sm = true -> Forall Bal cr -> Bal (new_text ct idt sm cr).
Proof. intros. unfold new_text. jbal. Qed.

Lemma field_access_tm : forall f b idt sm (cr : list segs), Forall tidy cr -> List.length cr = 1 ->
  tidy (field_access_text f b idt sm cr) /\ marks (field_access_text f b idt sm cr) = flat_map marks cr.
Proof.
  intros. unfold field_access_text. split; [tdy|]. rewrite (fm_nth1 cr) by assumption. destruct b; mk; reflexivity.
Qed.

Lemma field_access_bal : forall f b idt sm cr, clean_str f = true -> clean_str idt = true ->
  clean_str sm = true -> Forall Bal cr -> Bal (field_access_text f b idt sm cr).
Proof. intros. unfold field_access_text. jbal. Qed.

Lemma func_ref_tm : forall f trv idt sm (cr : list segs), Forall tidy cr -> List.length cr <= 1 ->
  tidy (func_ref_text f trv idt sm cr) /\ marks (func_ref_text f trv idt sm cr) = flat_map marks cr.
Proof.
  intros f trv idt sm cr Ht L. unfold func_ref_text. split; [tdy|].
  destruct cr as [|a [|b l]]; [| |cbn in L; lia]; cbn [nonempty nth_seg nth flat_map]; mk; reflexivity.
Qed.

Lemma func_ref_bal : forall f trv idt sm cr, clean_str f = true -> clean_str trv = true -> clean_str idt = true ->
  clean_str sm = true -> Forall Bal cr -> Bal (func_ref_text f trv idt sm cr).
Proof. intros. unfold func_ref_text. jbal. Qed.

Lemma assign_tm : forall name mp (hr : bool) b idt (cr : list segs), Forall tidy cr ->
  List.length cr = (if hr then 2 else 1) ->
  tidy (assign_text name mp hr b idt cr) /\ marks (assign_text name mp hr b idt cr) = flat_map marks cr.
Proof.
  intros name mp hr b idt cr Ht L. unfold assign_text. split; [tdy|]. destruct hr.
  - rewrite (fm_nth2 cr L). destruct (segs_empty (nth_seg 0 cr)) eqn:E; cbn [negb].
    + mk. now rewrite (segs_empty_marks _ E).
    + destruct b; mk; reflexivity.
  - rewrite (fm_nth1 cr L). cbn [segs_empty forallb negb]. mk. reflexivity.
Qed.

Lemma assign_bal : forall name mp hr b idt cr, clean_str name = true -> clean_str mp = true ->
  clean_str idt = true -> Forall Bal cr -> Bal (assign_text name mp hr b idt cr).
Proof. intros. unfold assign_text. jbal. Qed.

(* ---- block *)
Lemma sugared_last_tm : forall pl c, tidy c -> tidy (sugared_last pl c) /\ marks (sugared_last pl c) = marks c.
Proof.
  intros. unfold sugared_last. split; [tdy|]. mk. now rewrite tm_sugar.
Qed.

Lemma block_body_tm : forall pl idt cr, Forall tidy cr ->
  tidy (block_body_text pl idt cr) /\ marks (block_body_text pl idt cr) = flat_map marks cr.
Proof.
  intros pl idt cr H. unfold block_body_text. destruct cr as [|c0 [|c1 l]].
  - split; [tdy | reflexivity].
  - inversion H; subst. destruct (sugared_last_tm pl c0 H2) as [S1 S2]. split; [tdy|].
    mk. rewrite tm_strip by exact S1. rewrite S2. cbn. now rewrite app_nil_r.
  - set (cr := c0 :: c1 :: l) in *.
    assert (Hl : tidy (last_seg cr)) by (apply tidy_last; exact H).
    destruct (sugared_last_tm pl _ Hl) as [S1 S2]. split; [tdy|].
    mk. rewrite flat_map_app. cbn [flat_map]. rewrite S2, app_nil_r.
    symmetry. apply removelast_last_fm. discriminate.
Qed.

Lemma block_wrap_tm : forall h cs res, tidy res -> tidy (block_wrap h cs res) /\ marks (block_wrap h cs res) = marks res.
Proof. intros. unfold block_wrap. split; [tdy | mk; reflexivity]. Qed.

Lemma clean_x_name : forall x, clean_str (x_name x) = true.
Proof. intros. unfold x_name. rewrite clean_app. cbn. apply clean_nat_str. Qed.

Lemma block_plan_clean : forall h cs pif fnv0 nfb0 x,
  forallb clean_str (hint_strings h) = true ->
  clean_str (bp_ret (block_plan_of h cs pif fnv0 nfb0 x)) = true /\
  clean_str (bp_sugar (block_plan_of h cs pif fnv0 nfb0 x)) = true /\
  clean_str (bp_sugar_semi (block_plan_of h cs pif fnv0 nfb0 x)) = true.
Proof.
  intros h cs pif fnv0 nfb0 x H. unfold hint_strings in H. cbn [forallb] in H.
  apply andb_true_iff in H. destruct H as [H1 H]. apply andb_true_iff in H. destruct H as [H2 H].
  apply andb_true_iff in H. destruct H as [H3 _].
  unfold block_plan_of.
  repeat match goal with
         | |- context [if ?b then _ else _] => destruct b
         end; cbn [bp_ret bp_sugar bp_sugar_semi]; repeat split;
    rewrite ?clean_app, ?clean_x_name, ?H1, ?H3; try reflexivity.
Qed.

Lemma sugared_last_bal : forall pl c, clean_str (bp_sugar pl) = true -> clean_str (bp_sugar_semi pl) = true ->
  Bal c -> Bal (sugared_last pl c).
Proof. intros. unfold sugared_last. jbal. Qed.

Lemma block_body_bal : forall pl idt cr,
  clean_str (bp_ret pl) = true -> clean_str (bp_sugar pl) = true -> clean_str (bp_sugar_semi pl) = true ->
  Forall Bal cr -> Bal (block_body_text pl idt cr).
Proof.
  intros pl idt cr H1 H2 H3 H. unfold block_body_text. destruct cr as [|c0 [|c1 l]].
  - jbal.
  - inversion H; subst. jbal. now apply sugared_last_bal.
  - set (cr := c0 :: c1 :: l) in *. jbal. apply sugared_last_bal; auto. now apply Bal_last.
Qed.

Lemma block_wrap_bal : forall h cs res, forallb clean_str (hint_strings h) = true -> Bal res -> Bal (block_wrap h cs res).
Proof.
  intros h cs res H Hr. unfold hint_strings in H. cbn [forallb] in H.
  apply andb_true_iff in H. destruct H as [H1 H]. apply andb_true_iff in H. destruct H as [H2 _].
  unfold block_wrap. jbal. apply clean_boxed. destruct (nonempty cs); [exact H2 | reflexivity].
Qed.

(* ---- lambda *)
Lemma expr_body_tm : forall nv b, tidy b -> tidy (expr_body nv b) /\ marks (expr_body nv b) = marks b.
Proof. intros. unfold expr_body. destruct nv; [split; [tdy | now apply tm_sugar] | auto]. Qed.

Lemma expr_body_bal : forall nv b, Bal b -> Bal (expr_body nv b).
Proof. intros. unfold expr_body. jbal. Qed.

Lemma fm_split_last : forall (cr : list segs) n, List.length cr = n + 1 ->
  flat_map marks cr = flat_map marks (firstn n cr) ++ marks (last_seg cr).
Proof.
  intros cr n L. rewrite (flat_map_firstn_skipn _ _ marks n cr) at 1.
  rewrite (skipn_last _ n cr [] L). cbn. now rewrite app_nil_r.
Qed.

Lemma lambda_tm : forall rt np (hb : bool) ie sm (cr : list segs), Forall tidy cr ->
  List.length cr = np + (if hb then 1 else 0) ->
  tidy (lambda_text rt np hb ie sm cr) /\ marks (lambda_text rt np hb ie sm cr) = flat_map marks cr.
Proof.
  intros rt np hb ie sm cr Ht L. unfold lambda_text. split.
  - tdy; apply expr_body_tm; tdy.
  - destruct hb.
    + rewrite (fm_split_last cr np L). destruct (segs_empty (last_seg cr)) eqn:E; cbn [negb].
      * mk. now rewrite (segs_empty_marks _ E), app_nil_r.
      * destruct ie; mk; [|reflexivity]. now rewrite (proj2 (expr_body_tm _ _ (tidy_last cr Ht))).
    + rewrite Nat.add_0_r in L. rewrite <- L, firstn_all. cbn [segs_empty forallb negb]. mk. reflexivity.
Qed.

Lemma lambda_bal : forall rt np hb ie sm cr, clean_str sm = true -> Forall Bal cr ->
  Bal (lambda_text rt np hb ie sm cr).
Proof. intros. unfold lambda_text. jbal; apply expr_body_bal; jbal. Qed.

(* ---- function call *)
Lemma vararg_array_tm : forall vt l, Forall tidy l ->
  tidy (vararg_array vt l) /\ marks (vararg_array vt l) = flat_map marks l.
Proof.
  intros. unfold vararg_array. split; [tdy|]. destruct vt as [t|]; [destruct (negb _)|]; mk; reflexivity.
Qed.

Lemma vararg_array_bal : forall vt l, clean_str (opt_name type_name vt) = true -> Forall Bal l -> Bal (vararg_array vt l).
Proof. intros. unfold vararg_array. destruct vt; cbn [opt_name] in *; jbal. Qed.

Lemma func_call_tm : forall f rc (hr : bool) b info mpf mpv idt sm (cr : list segs), Forall tidy cr ->
  (if hr then 1 <= List.length cr else True) ->
  tidy (func_call_text f rc hr b info mpf mpv idt sm cr) /\
  marks (func_call_text f rc hr b info mpf mpv idt sm cr) = flat_map marks cr.
Proof.
  intros f rc hr b info mpf mpv idt sm cr Ht L. unfold func_call_text.
  set (args0 := if hr then tl cr else cr).
  assert (Ha0 : Forall tidy args0) by (unfold args0; destruct hr; tdy).
  set (args := match info with
               | Some i => if ci_nested i && Nat.ltb 0 (ci_nparams i) && ci_vararg i
                           then firstn (ci_nparams i - 1) args0 ++ [vararg_array (ci_vtype i) (skipn (ci_nparams i - 1) args0)]
                           else args0
               | None => args0 end).
  assert (Ha : Forall tidy args /\ flat_map marks args = flat_map marks args0).
  { unfold args. destruct info as [i|]; [|auto]. destruct (_ && _); [|auto].
    destruct (vararg_array_tm (ci_vtype i) (skipn (ci_nparams i - 1) args0)) as [V1 V2]; [tdy|].
    split; [tdy|]. rewrite flat_map_app. cbn [flat_map]. rewrite V2, app_nil_r.
    symmetry. apply flat_map_firstn_skipn. }
  destruct Ha as [Ha1 Ha2]. split; [tdy|]. mk. rewrite Ha2. unfold args0. destruct hr.
  - destruct cr as [|c0 l]; [cbn in L; lia|]. cbn [nth_seg nth tl flat_map].
    destruct (segs_empty c0) eqn:E; cbn [negb].
    + mk. now rewrite (segs_empty_marks _ E).
    + destruct b; mk; reflexivity.
  - cbn [segs_empty forallb negb]. mk. reflexivity.
Qed.

Lemma func_call_bal : forall f rc hr b info mpf mpv idt sm cr,
  clean_str f = true -> clean_str mpf = true -> clean_str mpv = true -> clean_str idt = true -> clean_str sm = true ->
  (forall i, info = Some i -> clean_str (opt_name type_name (ci_vtype i)) = true) ->
  Forall Bal cr -> Bal (func_call_text f rc hr b info mpf mpv idt sm cr).
Proof.
  intros f rc hr b info mpf mpv idt sm cr H1 H2 H3 H4 H5 Hi Hc. unfold func_call_text.
  set (args0 := if hr then tl cr else cr).
  assert (Ha0 : Forall Bal args0) by (unfold args0; destruct hr; jbal).
  jbal; destruct info as [i|]; try assumption; destruct (_ && _); jbal; apply vararg_array_bal; auto; jbal.
Qed.

(* ---- function declaration *)
Definition is_pres (p : segs) : Prop :=
  exists name pt va, p = param_text name pt va /\ ws_free name = true /\ str_empty name = false.

Definition is_pres_clean (p : segs) : Prop :=
  exists name pt va, p = param_text name pt va /\ clean_str name = true /\ clean_str (param_print_type pt va) = true.

Lemma has_ws_app_space : forall x y, has_ws (x ++ String " " y) = true.
Proof. induction x as [|a x IH]; intros y; cbn; [reflexivity|]. rewrite IH. apply orb_true_r. Qed.

Lemma after_last_ws_app : forall x name, ws_free name = true ->
  after_last_ws (x ++ String " " name) = name.
Proof.
  induction x as [|a x IH]; intros name H.
  - cbn [append after_last_ws]. unfold ws_free in H. apply negb_true_iff in H. now rewrite H.
  - cbn [append after_last_ws]. rewrite has_ws_app_space. now apply IH.
Qed.

Lemma rstrip_app_ws_free : forall x name, ws_free name = true -> str_empty name = false ->
  rstrip_str (x ++ name) = (x ++ name)%string.
Proof.
  induction x as [|a x IH]; intros name H1 H2; [now apply rstrip_ws_free|].
  cbn [append rstrip_str]. rewrite (IH name H1 H2).
  assert (E : str_empty (x ++ name) = false) by (destruct x; [exact H2 | reflexivity]).
  now rewrite E.
Qed.

Lemma last_token_param : forall name pt va, ws_free name = true -> str_empty name = false ->
  last_token (flatten (param_text name pt va)) = name.
Proof.
  intros name pt va H1 H2. unfold param_text. rewrite !flatten_app, !flatten_T, flatten_single. cbn [seg_text].
  unfold last_token.
  set (a := param_print_type pt va). set (b := if va then "..." else "").
  assert (E0 : (a ++ (b ++ (" " ++ name)))%string = ((a ++ b) ++ String " " name)%string)
    by (rewrite sapp_assoc; reflexivity).
  rewrite E0.
  assert (E : forall x, (x ++ String " " name = (x ++ " ") ++ name)%string).
  { intros x. rewrite sapp_assoc. reflexivity. }
  rewrite E, rstrip_app_ws_free by assumption. rewrite <- E. now apply after_last_ws_app.
Qed.

Lemma pres_marks : forall p, is_pres p ->
  tidy [Decl DParam (last_token (flatten p))] /\ marks [Decl DParam (last_token (flatten p))] = marks p.
Proof.
  intros p (name & pt & va & -> & H1 & H2). rewrite last_token_param by assumption.
  split; [tdy|]. now rewrite (proj2 (param_tm name pt va H1)), marks_decl.
Qed.

Lemma nested_params_tm : forall l, Forall is_pres l ->
  Forall tidy (map (fun p => [Decl DParam (last_token (flatten p))]) l) /\
  flat_map marks (map (fun p => [Decl DParam (last_token (flatten p))]) l) = flat_map marks l.
Proof.
  induction 1 as [|p l Hp Hl IH]; [split; [constructor | reflexivity]|].
  destruct IH as [IH1 IH2]. destruct (pres_marks p Hp) as [P1 P2]. cbn [map flat_map]. split.
  - constructor; assumption.
  - now rewrite P2, IH2.
Qed.

Definition func_body (inferred : ptype) (has_body is_expression : bool) (close : string) (cr : list segs) : segs :=
  let body_res := if has_body then last_seg cr else [] in
  if negb (segs_empty body_res) then
    if is_expression
    then brace (T nl ++ expr_body (negb (is_void_ty inferred)) body_res ++ T ";" ++ T nl ++ T close)
    else body_res
  else [].

Lemma func_body_tm : forall inf hb ie close cr, Forall tidy cr ->
  tidy (func_body inf hb ie close cr) /\
  marks (func_body inf hb ie close cr) = if hb then marks (last_seg cr) else [].
Proof.
  intros inf hb ie close cr Ht. unfold func_body.
  assert (Hb : tidy (if hb then last_seg cr else [])) by (destruct hb; tdy).
  split.
  - tdy. now apply expr_body_tm.
  - destruct hb; [|reflexivity]. destruct (segs_empty (last_seg cr)) eqn:E; cbn [negb].
    + now rewrite (segs_empty_marks _ E).
    + destruct ie; [|reflexivity]. mk. now rewrite (proj2 (expr_body_tm _ _ Hb)).
Qed.

Lemma func_body_bal : forall inf hb ie close cr, clean_str close = true -> Forall Bal cr ->
  Bal (func_body inf hb ie close cr).
Proof. intros. unfold func_body. jbal; apply expr_body_bal; jbal. Qed.

Lemma func_decl_text_eq : forall name inf fin hb np ntp ie nested close cr,
  func_decl_text name inf fin hb np ntp ie nested close cr =
  let param_res := firstn np cr in
  let type_parameters_res := joins (T ", ") (firstn ntp (skipn np cr)) in
  let body := func_body inf hb ie close cr in
  if nested then
    let types := map (fun p => boxed (replace_dots (before_last_space (flatten p)))) param_res ++
                 [boxed (type_name_gen true false inf)] in
    let params := map (fun p => [Decl DParam (last_token (flatten p))]) param_res in
    T close ++ T "Function" ++ T (nat_str (List.length param_res)) ++ T "<" ++ T (join ", " types) ++
    T "> " ++ [Decl DFunc name] ++ T " = " ++ paren (joins (T ", ") params) ++ T " -> " ++ body ++ T ";"
  else
    T close ++ T "public " ++ T (if fin then "final " else "") ++
    T (if segs_empty body then "abstract " else "") ++
    (if negb (segs_empty type_parameters_res) then T "<" ++ type_parameters_res ++ T "> " else []) ++
    T (type_name inf) ++ T " " ++ [Decl DFunc name] ++ paren (joins (T ", ") param_res) ++ T " " ++
    body ++ T (if segs_empty body then ";" else "").
Proof. reflexivity. Qed.

Lemma func_decl_tm : forall name inf fin (hb : bool) np ntp ie (nested : bool) close (cr : list segs),
  ws_free name = true -> Forall tidy cr ->
  List.length cr = np + ntp + (if hb then 1 else 0) ->
  (nested = true -> ntp = 0 /\ Forall is_pres (firstn np cr)) ->
  tidy (func_decl_text name inf fin hb np ntp ie nested close cr) /\
  Permutation (marks (func_decl_text name inf fin hb np ntp ie nested close cr))
              (mk_mark (MDecl DFunc) name ++ flat_map marks cr).
Proof.
  intros name inf fin hb np ntp ie nested close cr Hn Ht L Hnest.
  rewrite func_decl_text_eq. cbv zeta.
  destruct (func_body_tm inf hb ie close cr Ht) as [B1 B2].
  assert (Hcr : flat_map marks cr = flat_map marks (firstn np cr) ++ flat_map marks (firstn ntp (skipn np cr)) ++
                                    (if hb then marks (last_seg cr) else [])).
  { rewrite (flat_map_firstn_skipn _ _ marks np cr) at 1. f_equal.
    rewrite (flat_map_firstn_skipn _ _ marks ntp (skipn np cr)) at 1. f_equal.
    rewrite skipn_skipn. destruct hb.
    - rewrite (skipn_last _ (ntp + np) cr []) by lia. cbn. now rewrite app_nil_r.
    - rewrite skipn_all2 by lia. reflexivity. }
  destruct nested.
  - destruct (Hnest eq_refl) as [-> Hp]. destruct (nested_params_tm _ Hp) as [N1 N2]. split; [tdy|].
    mk. rewrite N2, B2, Hcr. cbn [firstn flat_map]. apply Permutation_refl.
  - split; [tdy|]. mk. rewrite B2, Hcr.
    match goal with |- Permutation (marks ?X ++ _) _ =>
      assert (Etp : marks X = flat_map marks (firstn ntp (skipn np cr))) end.
    { destruct (segs_empty _) eqn:E; cbn [negb]; [|mk; reflexivity].
      rewrite <- (marks_joins_T ", "). now rewrite (segs_empty_marks _ E). }
    rewrite Etp.
    set (A := flat_map marks (firstn ntp (skipn np cr))). set (P := flat_map marks (firstn np cr)).
    set (B := if hb then marks (last_seg cr) else []). set (D := mk_mark (MDecl DFunc) name).
    rewrite (app_assoc D P B), (app_assoc D P (A ++ B)). apply Permutation_app_swap_app.
Qed.

Lemma clean_param_flat : forall p, is_pres_clean p -> clean_str (flatten p) = true.
Proof.
  intros p (name & pt & va & -> & H1 & H2). unfold param_text.
  rewrite !flatten_app, !flatten_T, flatten_single. cbn [seg_text]. rewrite !clean_app, H1, H2.
  destruct va; reflexivity.
Qed.

Lemma func_decl_bal : forall name inf fin hb np ntp ie (nested : bool) close cr,
  clean_str name = true -> clean_str (type_name inf) = true -> clean_str (type_name_gen true false inf) = true ->
  clean_str close = true -> Forall Bal cr ->
  (nested = true -> Forall is_pres_clean (firstn np cr)) ->
  Bal (func_decl_text name inf fin hb np ntp ie nested close cr).
Proof.
  intros name inf fin hb np ntp ie nested close cr H1 H2 H3 H4 Hc Hn.
  rewrite func_decl_text_eq. cbv zeta.
  pose proof (func_body_bal inf hb ie close cr H4 Hc) as Hb.
  destruct nested.
  - specialize (Hn eq_refl). jbal.
    + apply clean_nat_str.
    + apply clean_join; [reflexivity|]. rewrite forallb_app. apply andb_true_iff. split.
      * apply forallb_forall. intros x Hx. apply in_map_iff in Hx. destruct Hx as (p & <- & Hp).
        apply clean_boxed, clean_replace_dots, clean_before_last_space, clean_param_flat.
        rewrite Forall_forall in Hn. now apply Hn.
      * cbn. rewrite andb_true_r. now apply clean_boxed.
    + clear Hb. induction Hn as [|p l Hp Hl IH]; cbn [map]; constructor; [|exact IH].
      apply Bal_single. cbn [seg_text]. now apply clean_last_token, clean_param_flat.
  - jbal.
Qed.

(* ---- class declaration *)
Definition sup_marks (sup : option (bool * bool * list segs)) : list mark :=
  match sup with
  | Some (false, true, res) => flat_map marks res
  | _ => []
  end.

Lemma super_call_tm : forall sup idt,
  (forall bi ha res, sup = Some (bi, ha, res) -> Forall tidy res) ->
  tidy (super_call_text sup idt) /\ marks (super_call_text sup idt) = sup_marks sup.
Proof.
  intros sup idt H. unfold super_call_text, sup_marks. destruct sup as [[[bi ha] res]|]; [|split; [tdy | reflexivity]].
  specialize (H bi ha res eq_refl). destruct bi; [split; [tdy | reflexivity]|]. split; [tdy|].
  destruct ha; mk; [|reflexivity]. rewrite tm_collapse by tdy. mk. reflexivity.
Qed.

Lemma super_call_bal : forall sup idt,
  (forall bi ha res, sup = Some (bi, ha, res) -> Forall Bal res) -> Bal (super_call_text sup idt).
Proof.
  intros sup idt H. unfold super_call_text. destruct sup as [[[bi ha] res]|]; [|jbal].
  specialize (H bi ha res eq_refl). destruct bi; jbal.
Qed.

Lemma constructor_tm : forall name fl sup idt,
  (forall bi ha res, sup = Some (bi, ha, res) -> Forall tidy res) ->
  tidy (constructor_text name fl sup idt) /\ marks (constructor_text name fl sup idt) = sup_marks sup.
Proof.
  intros name fl sup idt H. destruct (super_call_tm sup idt H) as [S1 S2].
  unfold constructor_text. split; [tdy|]. mk. now rewrite S2.
Qed.

Lemma clean_nl : clean_str nl = true.
Proof. reflexivity. Qed.

Lemma forallb_map_clean : forall (A : Type) (f : A -> string) l,
  (forall x, In x l -> clean_str (f x) = true) -> forallb clean_str (map f l) = true.
Proof.
  intros A f l H. apply forallb_forall. intros y Hy. apply in_map_iff in Hy. destruct Hy as (x & <- & Hx). auto.
Qed.

Definition pairs_clean (l : list (string * string)) : Prop :=
  forall p, In p l -> clean_str (fst p) = true /\ clean_str (snd p) = true.

Lemma dict_set_clean : forall k v d, clean_str k = true -> clean_str v = true -> pairs_clean d ->
  pairs_clean (dict_set k v d).
Proof.
  intros k v d Hk Hv. induction d as [|[k' v'] r IH]; intros Hd p Hp.
  - cbn in Hp. destruct Hp as [<- | []]. auto.
  - cbn [dict_set] in Hp. destruct (String.eqb k k').
    + destruct Hp as [<- | Hp]; [auto|]. apply Hd. now right.
    + destruct Hp as [<- | Hp]; [apply Hd; now left|]. apply IH; [|exact Hp]. intros q Hq. apply Hd. now right.
Qed.

Lemma constructor_params_clean : forall fl, pairs_clean fl -> pairs_clean (constructor_params fl).
Proof.
  intros fl H. unfold constructor_params.
  assert (G : forall l d, pairs_clean l -> pairs_clean d ->
              pairs_clean (fold_left (fun d f => dict_set (fst f) (snd f) d) l d)).
  { induction l as [|f l IH]; intros d Hl Hd; [exact Hd|]. cbn [fold_left]. apply IH.
    - intros p Hp. apply Hl. now right.
    - apply dict_set_clean; auto; apply Hl; now left. }
  apply G; [exact H | intros p []].
Qed.

Lemma constructor_bal : forall name fl sup idt, clean_str name = true -> pairs_clean fl ->
  (forall bi ha res, sup = Some (bi, ha, res) -> Forall Bal res) ->
  Bal (constructor_text name fl sup idt).
Proof.
  intros name fl sup idt Hn Hf Hs. unfold constructor_text. pose proof (super_call_bal sup idt Hs) as B.
  assert (Cs : clean_str (nl ++ spaces (idt + 2)) = true) by (rewrite clean_app, clean_spaces; reflexivity).
  jbal.
  - apply clean_join; [reflexivity|]. apply forallb_map_clean. intros p Hp.
    destruct (constructor_params_clean fl Hf p Hp) as [P1 P2]. now rewrite !clean_app, P1, P2.
  - apply clean_join; [exact Cs|]. apply forallb_map_clean. intros p Hp.
    destruct (Hf p Hp) as [P1 P2]. now rewrite !clean_app, P1.
  - apply clean_spaces.
Qed.

Lemma class_tm : forall name ct fin nf ns nfn cs ifs sup old (cr : list segs),
  ws_free name = true -> Forall tidy cr ->
  (forall bi ha res, sup = Some (bi, ha, res) -> Forall tidy res) ->
  tidy (class_text name ct fin nf ns nfn cs ifs sup old cr) /\
  Permutation (marks (class_text name ct fin nf ns nfn cs ifs sup old cr))
    (mk_mark (MDecl DClass) name ++ flat_map marks (skipn (nf + ns + nfn) cr) ++
     flat_map marks (firstn nf cr) ++ flat_map marks (firstn nfn (skipn (nf + ns) cr)) ++
     (if nonempty (fst (split_supers ifs (supers_of nf ns cs))) || nonempty (firstn nf cr)
      then sup_marks sup else [])).
Proof.
  intros name ct fin nf ns nfn cs ifs sup old cr Hn Ht Hs.
  unfold class_text. destruct (split_supers ifs (supers_of nf ns cs)) as [superclasses interfaces].
  cbn [fst]. destruct (constructor_tm name (fields_of nf cs) sup (old + 2) Hs) as [C1 C2].
  split; [tdy|].
  set (TP := skipn (nf + ns + nfn) cr). set (F := firstn nf cr). set (FN := firstn nfn (skipn (nf + ns) cr)).
  assert (Etp : forall X, marks (if negb (segs_empty (joins (T ", ") TP)) then X ++ T "<" ++ joins (T ", ") TP ++ T ">" else X)
                          = marks X ++ flat_map marks TP).
  { intros X. destruct (segs_empty _) eqn:E; cbn [negb]; [|mk; reflexivity].
    rewrite <- (marks_joins_T ", "), (segs_empty_marks _ E). now rewrite app_nil_r. }
  mk.
  match goal with |- Permutation (marks ?Y ++ _) _ =>
    assert (Ehead : marks Y = mk_mark (MDecl DClass) name ++ flat_map marks TP) end.
  { destruct (nonempty interfaces); destruct (nonempty superclasses); mk; rewrite Etp; mk; reflexivity. }
  rewrite Ehead. rewrite <- !app_assoc. apply Permutation_app_head. apply Permutation_app_head.
  assert (EF : forall l : list segs, nonempty l = false -> flat_map marks l = []).
  { intros [|x l] H; [reflexivity | discriminate]. }
  destruct (nonempty FN) eqn:E1; destruct (nonempty F) eqn:E2; destruct (nonempty superclasses) eqn:E3;
    cbn [orb]; mk; rewrite ?C2, ?(EF _ E1), ?(EF _ E2); mk;
    try apply Permutation_refl;
    try (apply Permutation_app_head; apply Permutation_app_comm);
    try apply Permutation_app_comm.
Qed.

Lemma class_prefix_clean : forall ct, clean_str (class_prefix ct) = true.
Proof. intros [|[|n]]; reflexivity. Qed.

Lemma class_bal : forall name ct fin nf ns nfn cs ifs sup old cr,
  clean_str name = true -> Forall Bal cr -> pairs_clean (fields_of nf cs) ->
  forallb clean_str (map type_name (supers_of nf ns cs)) = true ->
  (forall bi ha res, sup = Some (bi, ha, res) -> Forall Bal res) ->
  Bal (class_text name ct fin nf ns nfn cs ifs sup old cr).
Proof.
  intros name ct fin nf ns nfn cs ifs sup old cr Hn Hc Hf Hsn Hs.
  unfold class_text.
  assert (Hsplit : forallb clean_str (fst (split_supers ifs (supers_of nf ns cs))) = true /\
                   forallb clean_str (snd (split_supers ifs (supers_of nf ns cs))) = true).
  { unfold split_supers. cbn [fst snd]. rewrite forallb_forall in Hsn.
    split; apply forallb_forall; intros x Hx; apply Hsn; apply in_map_iff in Hx; destruct Hx as (t & <- & Ht);
      apply filter_In in Ht; apply in_map; tauto. }
  destruct (split_supers ifs (supers_of nf ns cs)) as [superclasses interfaces]. cbn [fst snd] in Hsplit.
  destruct Hsplit as [S1 S2].
  pose proof (constructor_bal name (fields_of nf cs) sup (old + 2) Hn Hf Hs) as B.
  assert (Cs : clean_str (nl ++ spaces (old + 2)) = true) by (rewrite clean_app, clean_spaces; reflexivity).
  jbal; try apply class_prefix_clean; try (apply clean_join; [reflexivity | assumption]); try apply clean_spaces.
Qed.

(* ---- the program *)
Lemma functional_interface_bal : forall n, Bal (functional_interface n).
Proof.
  intros n. unfold functional_interface. jbal; try apply clean_nat_str.
  - apply clean_join; [reflexivity|]. apply forallb_map_clean. intros i _.
    destruct (Nat.ltb i n); [|reflexivity]. rewrite clean_app. cbn. apply clean_nat_str.
  - apply clean_join; [reflexivity|]. apply forallb_map_clean. intros i _.
    rewrite !clean_app, !clean_nat_str. reflexivity.
Qed.

Lemma functional_interface_marks : forall n, marks (functional_interface n) = [].
Proof. intros. unfold functional_interface. mk. reflexivity. Qed.

Lemma functional_interfaces_tm : forall l, marks (functional_interfaces l) = [] /\ Bal (functional_interfaces l).
Proof.
  intros l. unfold functional_interfaces. split.
  - destruct (nonempty l); [|reflexivity]. mk. induction l as [|x r IH]; [reflexivity|].
    cbn [flat_map]. mk. rewrite ?functional_interface_marks. exact IH.
  - destruct (nonempty l); [|apply Bal_nil]. apply Bal_app; [apply Bal_T; reflexivity|].
    induction l as [|x r IH]; [apply Bal_nil|]. cbn [flat_map]. apply Bal_app; [apply functional_interface_bal | exact IH].
Qed.

Lemma main_decl_tm : forall d, tidy d -> tidy (main_decl d) /\ marks (main_decl d) = marks d.
Proof. intros. unfold main_decl. split; [tdy|]. mk. now apply tm_lstrip. Qed.

Lemma main_decl_bal : forall d, Bal d -> Bal (main_decl d).
Proof. intros. unfold main_decl. jbal. Qed.

Definition package_str (pkg : string) : segs :=
  if negb (str_empty pkg) then T "package " ++ T pkg ++ T ";" ++ T (nl ++ nl)%string else [].

Definition main_method_part (mm : segs) : segs :=
  if negb (segs_empty mm) then T (nl ++ nl)%string ++ main_decl mm else [].

Definition main_cls (mc : list segs) (mm : segs) : segs :=
  T "class Main " ++
  brace (T nl ++ joins (T (nl ++ nl)%string) (map main_decl (rev mc)) ++ main_method_part mm ++ T nl).

Definition other_part (cr : list segs) : segs :=
  if negb (segs_empty (joins (T (nl ++ nl)%string) cr)) then T (nl ++ nl)%string ++ joins (T (nl ++ nl)%string) cr else [].

Lemma program_text_eq : forall pkg mc mm ifs cr,
  program_text pkg mc mm ifs cr = package_str pkg ++ main_cls mc mm ++ functional_interfaces ifs ++ other_part cr.
Proof. reflexivity. Qed.

Lemma package_str_marks : forall pkg, marks (package_str pkg) = [].
Proof. intros. unfold package_str. destruct (negb _); reflexivity. Qed.

Lemma main_method_part_marks : forall mm, tidy mm -> marks (main_method_part mm) = marks mm.
Proof.
  intros mm H. unfold main_method_part. destruct (segs_empty mm) eqn:E; cbn [negb].
  - now rewrite (segs_empty_marks _ E).
  - mk. now apply main_decl_tm.
Qed.

Lemma main_decls_marks : forall l, Forall tidy l -> flat_map marks (map main_decl l) = flat_map marks l.
Proof.
  induction 1 as [|d l Hd Hl IH]; [reflexivity|]. cbn [map flat_map].
  now rewrite (proj2 (main_decl_tm d Hd)), IH.
Qed.

Lemma flat_map_rev_perm : forall (A B : Type) (f : A -> list B) l, Permutation (flat_map f (rev l)) (flat_map f l).
Proof.
  intros A B f l. induction l as [|x l IH]; [apply Permutation_refl|].
  cbn [rev flat_map]. rewrite flat_map_app. cbn [flat_map]. rewrite app_nil_r.
  eapply Permutation_trans; [apply Permutation_app_comm|]. now apply Permutation_app_head.
Qed.

Lemma main_cls_marks : forall mc mm, Forall tidy mc -> tidy mm ->
  Permutation (marks (main_cls mc mm)) (flat_map marks mc ++ marks mm).
Proof.
  intros mc mm Hmc Hmm. unfold main_cls. mk. rewrite main_method_part_marks by assumption.
  rewrite main_decls_marks by (apply Forall_rev; exact Hmc).
  apply Permutation_app_tail. apply flat_map_rev_perm.
Qed.

Lemma other_part_marks : forall cr, marks (other_part cr) = flat_map marks cr.
Proof.
  intros. unfold other_part. destruct (segs_empty _) eqn:E; cbn [negb]; [|mk; reflexivity].
  rewrite <- (marks_joins_T (nl ++ nl)). now rewrite (segs_empty_marks _ E).
Qed.

Lemma program_marks : forall pkg mc mm ifs cr, Forall tidy mc -> tidy mm ->
  Permutation (marks (program_text pkg mc mm ifs cr)) (flat_map marks mc ++ marks mm ++ flat_map marks cr).
Proof.
  intros pkg mc mm ifs cr Hmc Hmm. rewrite program_text_eq, !marks_app.
  rewrite package_str_marks, (proj1 (functional_interfaces_tm ifs)), other_part_marks. cbn [app].
  rewrite app_assoc. apply Permutation_app_tail. now apply main_cls_marks.
Qed.

Lemma program_bal : forall pkg mc mm ifs cr, clean_str pkg = true -> Forall Bal mc -> Bal mm -> Forall Bal cr ->
  Bal (program_text pkg mc mm ifs cr).
Proof.
  intros pkg mc mm ifs cr Hp Hmc Hmm Hcr. rewrite program_text_eq.
  unfold package_str, main_cls, main_method_part, other_part.
  assert (Hd : Forall Bal (map main_decl (rev mc))).
  { apply Forall_rev in Hmc. induction Hmc; cbn [map]; constructor; auto using main_decl_bal. }
  pose proof (proj2 (functional_interfaces_tm ifs)) as Bi. pose proof (main_decl_bal mm Hmm) as Bm.
  jbal.
Qed.

(* ------------------------------------------------------------------------------------ *)
(* from the children's results to the node's                                              *)

Lemma pinv_plain : forall c, is_super_kind (kind_of c) = false -> pinv c = inventory c.
Proof. intros [k cs] H. unfold pinv. cbn [kind_of] in *. destruct k; try reflexivity; discriminate. Qed.

Lemma flat_pinv_plain : forall cs, forallb (fun c => negb (is_super_kind (kind_of c))) cs = true ->
  flat_map pinv cs = flat_map inventory cs.
Proof.
  induction cs as [|c cs IH]; intros H; [reflexivity|]. cbn [forallb] in H.
  apply andb_true_iff in H. destruct H as [H1 H2]. apply negb_true_iff in H1.
  cbn [flat_map]. now rewrite (pinv_plain c H1), IH.
Qed.

Lemma posts_lex : forall ctx ns cs rs, Forall2 (post ctx ns) cs rs ->
  forallb (wfj ctx ns) cs = true -> forallb lex cs = true ->
  Forall tidy rs /\ Permutation (flat_map marks rs) (flat_map pinv cs).
Proof.
  induction 1 as [|c r cs rs Hp Hps IH]; intros W L; [split; [constructor | apply Permutation_refl]|].
  cbn [forallb] in W, L. apply andb_true_iff in W. destruct W as [W1 W2].
  apply andb_true_iff in L. destruct L as [L1 L2]. destruct (IH W2 L2) as [I1 I2].
  destruct Hp as [_ Hp]. destruct (Hp W1) as (Hl & _). destruct (Hl L1) as [T1 P1]. split; [constructor; assumption|].
  cbn [flat_map]. now apply Permutation_app.
Qed.

Lemma posts_clean : forall ctx ns cs rs, Forall2 (post ctx ns) cs rs ->
  forallb (wfj ctx ns) cs = true -> forallb clean cs = true -> clean_ctx ctx = true -> Forall Bal rs.
Proof.
  induction 1 as [|c r cs rs Hp Hps IH]; intros W L Hc; [constructor|].
  cbn [forallb] in W, L. apply andb_true_iff in W. destruct W as [W1 W2].
  apply andb_true_iff in L. destruct L as [L1 L2]. destruct Hp as [_ Hp]. destruct (Hp W1) as (_ & Hb).
  constructor; [now apply Hb | now apply IH].
Qed.

Lemma posts_shape : forall ctx ns cs rs, Forall2 (post ctx ns) cs rs ->
  forallb (wfj ctx ns) cs = true -> Forall2 shape cs rs.
Proof.
  induction 1 as [|c r cs rs Hp Hps IH]; intros W; [constructor|].
  cbn [forallb] in W. apply andb_true_iff in W. destruct W as [W1 W2]. destruct Hp as (Hs & _).
  constructor; [exact Hs | now apply IH].
Qed.

Lemma Forall2_length : forall (A B : Type) (R : A -> B -> Prop) l1 l2, Forall2 R l1 l2 -> List.length l1 = List.length l2.
Proof. induction 1; cbn; congruence. Qed.

Lemma post_assemble : forall ctx ns k cs (rs : list segs) text,
  is_super_kind k = false ->
  (wfj ctx ns (PN k cs) = true -> forallb lex cs = true ->
     Forall tidy rs /\ Permutation (flat_map marks rs) (flat_map inventory cs)) ->
  (wfj ctx ns (PN k cs) = true -> forallb clean cs = true -> clean_ctx ctx = true -> Forall Bal rs) ->
  shape (PN k cs) text ->
  (wfj ctx ns (PN k cs) = true -> lex_kind k = true -> forallb lex cs = true -> Forall tidy rs ->
     tidy text /\ Permutation (marks text) (own_marks k ++ flat_map marks rs)) ->
  (wfj ctx ns (PN k cs) = true -> clean_kind k = true -> forallb clean cs = true -> clean_ctx ctx = true ->
     Forall Bal rs -> Bal text) ->
  post ctx ns (PN k cs) text.
Proof.
  intros ctx ns k cs rs text Hk Hl Hc Hs Hm Hb. split; [exact Hs|]. intros W. split.
  - intros L. cbn [lex] in L. apply andb_true_iff in L. destruct L as [L1 L2].
    destruct (Hl W L2) as [T1 P1]. destruct (Hm W L1 L2 T1) as [T2 P2]. split; [exact T2|].
    unfold pinv. cbn [kind_of]. replace (match k with KSuper _ _ => [] | _ => inventory (PN k cs) end) with (inventory (PN k cs))
      by (destruct k; try reflexivity; discriminate).
    cbn [inventory]. eapply Permutation_trans; [exact P2|]. now apply Permutation_app_head.
  - intros C Cc. cbn [clean] in C. apply andb_true_iff in C. destruct C as [C1 C2]. apply Hb; auto.
Qed.

(* the common case: the children are visited in the namespace of the node *)
Lemma plain_kids : forall ctx ns k cs rs,
  Forall2 (post ctx ns) cs rs ->
  (wfj ctx ns (PN k cs) = true ->
     forallb (wfj ctx ns) cs = true /\ forallb (fun c => negb (is_super_kind (kind_of c))) cs = true) ->
  (wfj ctx ns (PN k cs) = true -> forallb lex cs = true ->
     Forall tidy rs /\ Permutation (flat_map marks rs) (flat_map inventory cs)) /\
  (wfj ctx ns (PN k cs) = true -> forallb clean cs = true -> clean_ctx ctx = true -> Forall Bal rs).
Proof.
  intros ctx ns k cs rs P H. split.
  - intros W L. destruct (H W) as [W1 W2]. destruct (posts_lex _ _ _ _ P W1 L) as [T1 P1]. split; [exact T1|].
    now rewrite <- (flat_pinv_plain cs W2).
  - intros W C Cc. destruct (H W) as [W1 W2]. now apply (posts_clean _ _ _ _ P W1 C Cc).
Qed.

(* wfj of a node whose children are visited in its own namespace *)
Lemma wfj_plain : forall ctx ns k cs,
  enters k = None -> is_class_kind k = false ->
  (match k with KCond => match cs with c :: _ => is_is_kind (kind_of c) = false | [] => True end | _ => True end) ->
  wfj ctx ns (PN k cs) = true ->
  arity_ok ctx ns k cs = true /\ forallb (wfj ctx ns) cs = true /\
  forallb (fun c => negb (is_super_kind (kind_of c))) cs = true.
Proof.
  intros ctx ns k cs He Hc Hk W. cbn [wfj] in W. rewrite He, Hc in W. cbn [orb] in W.
  apply andb_true_iff in W. destruct W as [W W3]. apply andb_true_iff in W. destruct W as [W1 W2].
  split; [exact W1|]. split; [|exact W2].
  destruct k; try exact W3. destruct cs as [|c [|tb [|fb [|x rest]]]]; try exact W3.
  rewrite Hk in W3. exact W3.
Qed.

(* the decorators *)
Lemma append_to_ok : forall k f s (I : list (option string) -> Prop) (Q : segs -> Prop),
  (let s0 := set_nodes_stack (Some k :: nodes_stack s) s in
   children_res (snd (f s0)) = children_res s0 /\ frame s0 (snd (f s0)) /\
   I (is_stack (snd (f s0))) /\ Q (fst (f s0))) ->
  exists r s1, append_to k f s = route k r s1 /\ children_res s1 = children_res s /\ frame s s1 /\
               I (is_stack s1) /\ Q r.
Proof.
  intros k f s I Q H. cbv zeta in H. unfold append_to.
  destruct (f (set_nodes_stack (Some k :: nodes_stack s) s)) as [res s1]. cbn [fst snd] in H.
  destruct H as (C & F & Hi & Hq).
  exists res, (set_nodes_stack (tl (nodes_stack s1)) s1).
  refine (conj eq_refl (conj _ (conj _ (conj _ Hq)))).
  - stc. exact C.
  - pose proof (f_stack _ _ F) as E. stc. rewrite E. cbn [tl]. fr.
  - stc. exact Hi.
Qed.

Lemma change_namespace_ok : forall name f s (I : list (option string) -> Prop) (Q : segs -> Prop),
  (let s0 := set_namespace (name :: namespace s) s in
   children_res (snd (f s0)) = children_res s0 /\ frame s0 (snd (f s0)) /\
   I (is_stack (snd (f s0))) /\ Q (fst (f s0))) ->
  children_res (snd (change_namespace name f s)) = children_res s /\ frame s (snd (change_namespace name f s)) /\
  I (is_stack (snd (change_namespace name f s))) /\ Q (fst (change_namespace name f s)).
Proof.
  intros name f s I Q H. cbv zeta in H. unfold change_namespace.
  destruct (f (set_namespace (name :: namespace s) s)) as [res s1]. cbn [fst snd] in *.
  destruct H as (C & F & Hi & Hq). refine (conj _ (conj _ (conj _ Hq))).
  - stc. exact C.
  - fr.
  - stc. exact Hi.
Qed.

(* ------------------------------------------------------------------------------------ *)
(* the visit_* methods                                                                    *)

Ltac jsplit H :=
  unfold clean_kind in H; cbn [kind_strings hint_strings forallb] in H;
  repeat match type of H with
         | (_ && _ = true) => let H1 := fresh "Hc" in apply andb_true_iff in H; destruct H as [H1 H]
         end.

Definition vok (s : st) (p : segs * st) (W : Prop) (Q : segs -> Prop) : Prop :=
  children_res (snd p) = children_res s /\ frame s (snd p) /\
  (W -> is_stack (snd p) = is_stack s) /\ Q (fst p).

Lemma visit_binary_op_ok : forall cs kids op nt s, Forall2 kid_ok cs kids ->
  forallb (routed false (namespace s)) cs = true ->
  vok s (visit_binary_op kids op nt cs s) (forallb is_wf cs = true)
      (post (ctx_of s) (namespace s) (PN (KBinOp op nt) cs)).
Proof.
  intros cs kids op nt s Hk R. unfold visit_binary_op.
  set (s0 := set_ident 0 s).
  assert (R0 : forallb (routed false (namespace s0)) cs = true) by exact R.
  destruct (kids_run _ _ Hk s0 R0) as (rs & L & C & F & Iw & P).
  rewrite (pop_exact rs (children_res s) (List.length cs) _ L C).
  unfold vok. cbn [fst snd]. refine (conj _ (conj _ (conj _ _))).
  - reflexivity.
  - subst s0. fr.
  - intros W. stc. now rewrite (Iw W).
  - change (ctx_of s0) with (ctx_of s) in P. change (namespace s0) with (namespace s) in P.
    destruct (plain_kids _ _ (KBinOp op nt) _ _ P) as [Kl Kc].
    { intros W. apply wfj_plain in W; auto. tauto. }
    apply (post_assemble _ _ _ _ rs); auto.
    + first [exact I | cbn [shape]; repeat eexists].
    + intros W Lk Lcs Ht. apply wfj_plain in W; auto. destruct W as (A & _).
      cbn [arity_ok] in A. apply Nat.eqb_eq in A. rewrite <- L in A.
      destruct (binary_op_tm op nt (gi_old (ident s) (set_children_res (children_res s) (visit_children kids s0)))
                             (semi (set_children_res (children_res s) (visit_children kids s0))) rs Lk Ht A) as [T1 M1].
      split; [exact T1|]. rewrite M1, (fm_nth2 rs A). cbn [own_marks].
      rewrite app_assoc. eapply Permutation_trans; [apply Permutation_app_tail, Permutation_app_comm|].
      rewrite <- app_assoc. apply Permutation_refl.
    + intros W Ck Ccs Cc Hb. jsplit Ck. apply binary_op_bal; auto using clean_gi_old, clean_semi.
Qed.

Lemma wfj_arity : forall ctx ns k cs, wfj ctx ns (PN k cs) = true -> arity_ok ctx ns k cs = true.
Proof.
  intros ctx ns k cs W. cbn [wfj] in W. apply andb_true_iff in W. destruct W as [W _].
  apply andb_true_iff in W. tauto.
Qed.

Lemma length_0 : forall (A : Type) (l : list A), Nat.eqb (List.length l) 0 = true -> l = [].
Proof. intros A [|x l] H; [reflexivity | discriminate]. Qed.

Lemma leaf_post : forall ctx ns k cs text,
  is_super_kind k = false ->
  (arity_ok ctx ns k cs = true -> cs = []) ->
  shape (PN k cs) text ->
  (lex_kind k = true -> tidy text /\ marks text = own_marks k) ->
  (clean_kind k = true -> Bal text) ->
  post ctx ns (PN k cs) text.
Proof.
  intros ctx ns k cs text Hk Ha Hs Hm Hb.
  apply (post_assemble ctx ns k cs []); auto.
  - intros W _. rewrite (Ha (wfj_arity _ _ _ _ W)). split; [constructor | apply Permutation_refl].
  - intros W Lk _ _. destruct (Hm Lk) as [T1 M1]. split; [exact T1|]. rewrite M1. cbn [flat_map]. rewrite app_nil_r.
    apply Permutation_refl.
Qed.

Lemma leaf_vok : forall s text (Q : segs -> Prop), Q text -> vok s (text, s) True Q.
Proof. intros. unfold vok. cbn [fst snd]. auto using frame_refl. Qed.

Ltac leaf_tac :=
  apply leaf_vok; apply leaf_post;
  [ reflexivity
  | cbn [arity_ok]; apply length_0
  | first [exact I | reflexivity]
  | intros Lk; cbn [lex_kind own_marks] in *
  | intros Ck; jsplit Ck ].

Lemma visit_bottom_ok : forall t c cs s,
  vok s (visit_bottom_constant t c s) True (post (ctx_of s) (namespace s) (PN (KBottom t c) cs)).
Proof.
  intros. unfold visit_bottom_constant. leaf_tac.
  - apply bottom_tm.
  - apply bottom_bal; auto using clean_gi, clean_semi.
Qed.

Lemma visit_integer_ok : forall lit t cs s,
  vok s (visit_integer_constant lit t s) True (post (ctx_of s) (namespace s) (PN (KInt lit t) cs)).
Proof.
  intros. unfold visit_integer_constant. leaf_tac.
  - now apply integer_tm.
  - apply integer_bal; auto using clean_gi, clean_semi.
Qed.

Lemma visit_real_ok : forall lit t cs s,
  vok s (visit_real_constant lit t s) True (post (ctx_of s) (namespace s) (PN (KReal lit t) cs)).
Proof.
  intros. unfold visit_real_constant. leaf_tac.
  - now apply real_tm.
  - apply real_bal; auto using clean_gi, clean_semi.
Qed.

Lemma visit_char_ok : forall lit cs s,
  vok s (visit_char_constant lit s) True (post (ctx_of s) (namespace s) (PN (KChar lit) cs)).
Proof.
  intros. unfold visit_char_constant. leaf_tac.
  - now apply char_tm.
  - apply char_bal; auto using clean_gi, clean_semi.
Qed.

Lemma visit_string_ok : forall lit cs s,
  vok s (visit_string_constant lit s) True (post (ctx_of s) (namespace s) (PN (KString lit) cs)).
Proof.
  intros. unfold visit_string_constant. leaf_tac.
  - now apply string_tm.
  - apply string_bal; auto using clean_gi, clean_semi.
Qed.

Lemma visit_boolean_ok : forall lit cs s,
  vok s (visit_boolean_constant lit s) True (post (ctx_of s) (namespace s) (PN (KBool lit) cs)).
Proof.
  intros. unfold visit_boolean_constant. leaf_tac.
  - now apply boolean_tm.
  - apply boolean_bal; auto using clean_gi, clean_semi.
Qed.

Lemma visit_variable_ok : forall name cs s,
  vok s (visit_variable name s) True (post (ctx_of s) (namespace s) (PN (KVariable name) cs)).
Proof.
  intros. unfold visit_variable. leaf_tac.
  - apply variable_tm.
  - apply variable_bal; auto using clean_gi, clean_semi, clean_main_prefix.
Qed.

Lemma visit_type_param_ok : forall name b cs s,
  vok s (visit_type_param name b s) True (post (ctx_of s) (namespace s) (PN (KTypeParam name b) cs)).
Proof.
  intros. unfold visit_type_param. leaf_tac.
  - now apply type_param_tm.
  - now apply type_param_bal.
Qed.

Lemma visit_field_ok : forall name ft fin cs s,
  vok s (visit_field_decl name ft fin s) True (post (ctx_of s) (namespace s) (PN (KField name ft fin) cs)).
Proof.
  intros. unfold visit_field_decl. leaf_tac.
  - now apply field_tm.
  - now apply field_bal.
Qed.

Lemma visit_param_ok : forall name pt va cs s,
  vok s (visit_param_decl name pt va s) True (post (ctx_of s) (namespace s) (PN (KParam name pt va) cs)).
Proof.
  intros. unfold visit_param_decl. apply leaf_vok. apply leaf_post.
  - reflexivity.
  - cbn [arity_ok]. apply length_0.
  - reflexivity.
  - intros Lk. cbn [lex_kind own_marks] in *. apply andb_true_iff in Lk. destruct Lk as [L1 L2]. now apply param_tm.
  - intros Ck. jsplit Ck. now apply param_bal.
Qed.

Lemma visit_super_ok : forall ct bi cs s,
  vok s (visit_super_instantiation ct s) True (post (ctx_of s) (namespace s) (PN (KSuper ct bi) cs)).
Proof.
  intros. unfold visit_super_instantiation. apply leaf_vok. split; [exact I|]. intros W. split.
  - intros _. split; [apply tidy_T | apply Permutation_refl].
  - intros C _. cbn [clean] in C. apply andb_true_iff in C. destruct C as [C _]. jsplit C. now apply Bal_T.
Qed.

Ltac plain_setup Hk R s s0 :=
  let R0 := fresh "R0" in
  assert (R0 : forallb (routed false (namespace s0)) _ = true) by exact R;
  destruct (kids_run _ _ Hk s0 R0) as (rs & L & C & F & Iw & P);
  erewrite (pop_exact rs (children_res s)); [| exact L | stc; exact C];
  change (ctx_of s0) with (ctx_of s) in P; change (namespace s0) with (namespace s) in P;
  unfold vok; cbn [fst snd].

Ltac plain_post k P rs :=
  let Kl := fresh "Kl" in let Kc := fresh "Kc" in
  destruct (plain_kids _ _ k _ _ P) as [Kl Kc];
  [ let W := fresh "W" in intros W; apply wfj_plain in W; auto; tauto
  | apply (post_assemble _ _ _ _ rs); auto; [ first [exact I | cbn [shape]; repeat eexists] | | ] ].

Ltac get_arity W A := apply wfj_plain in W; auto; destruct W as (A & _); cbn [arity_ok] in A.

Lemma visit_var_decl_ok : forall cs kids name fin vt inf s, Forall2 kid_ok cs kids ->
  forallb (routed false (namespace s)) cs = true ->
  vok s (visit_var_decl kids name fin inf cs s) (forallb is_wf cs = true)
      (post (ctx_of s) (namespace s) (PN (KVarDecl name fin vt inf) cs)).
Proof.
  intros cs kids name fin vt inf s Hk R. unfold visit_var_decl.
  set (s0 := set_cast_number true s). plain_setup Hk R s s0.
  refine (conj eq_refl (conj _ (conj _ _))).
  - subst s0. fr.
  - intros W. stc. now rewrite (Iw W).
  - plain_post (KVarDecl name fin vt inf) P rs.
    + intros W Lk Lcs Ht. get_arity W A. apply Nat.eqb_eq in A. rewrite <- L in A. cbn [lex_kind own_marks] in *.
      match goal with |- tidy (var_decl_text ?a ?b ?c ?d ?e ?f) /\ _ =>
        destruct (var_decl_tm a b c d e f Lk Ht A) as [T1 M1] end.
      split; [exact T1|]. rewrite M1. apply Permutation_refl.
    + intros W Ck Ccs Cc Hb. jsplit Ck. apply var_decl_bal; auto using clean_gi.
      destruct (negb _); [apply clean_main_prefix | reflexivity].
Qed.

Lemma visit_call_argument_ok : forall cs kids s, Forall2 kid_ok cs kids ->
  forallb (routed false (namespace s)) cs = true ->
  vok s (visit_call_argument kids cs s) (forallb is_wf cs = true)
      (post (ctx_of s) (namespace s) (PN KCallArg cs)).
Proof.
  intros cs kids s Hk R. unfold visit_call_argument.
  set (s0 := set_ident 0 s). plain_setup Hk R s s0.
  refine (conj eq_refl (conj _ (conj _ _))).
  - subst s0. fr.
  - intros W. stc. now rewrite (Iw W).
  - plain_post KCallArg P rs.
    + intros W Lk Lcs Ht. get_arity W A. apply Nat.eqb_eq in A. rewrite <- L in A.
      destruct (call_argument_tm rs Ht A) as [T1 M1]. split; [exact T1|]. rewrite M1. apply Permutation_refl.
    + intros W Ck Ccs Cc Hb. now apply Bal_nth.
Qed.

Lemma visit_array_ok : forall cs kids at_ len s, Forall2 kid_ok cs kids ->
  forallb (routed false (namespace s)) cs = true ->
  vok s (visit_array_expr kids at_ len cs s) (forallb is_wf cs = true)
      (post (ctx_of s) (namespace s) (PN (KArray at_ len) cs)).
Proof.
  intros cs kids at_ len s Hk R. unfold visit_array_expr. destruct (Nat.eqb len 0) eqn:El.
  - unfold vok. cbn [fst snd]. refine (conj eq_refl (conj (frame_refl s) (conj (fun _ => eq_refl) _))).
    apply leaf_post.
    + reflexivity.
    + cbn [arity_ok]. rewrite El. apply length_0.
    + exact I.
    + intros _. apply array_empty_tm.
    + intros Ck. jsplit Ck. apply array_empty_bal; auto using clean_gi, clean_semi.
  - set (s0 := set_ident 0 (set_cast_number true s)). plain_setup Hk R s s0.
    refine (conj eq_refl (conj _ (conj _ _))).
    + subst s0. fr.
    + intros W. stc. now rewrite (Iw W).
    + plain_post (KArray at_ len) P rs.
      * intros W Lk Lcs Ht.
        match goal with |- tidy (array_text ?a ?b ?c ?d) /\ _ => destruct (array_tm a b c d Ht) as [T1 M1] end.
        split; [exact T1|]. rewrite M1. apply Permutation_refl.
      * intros W Ck Ccs Cc Hb. jsplit Ck. apply array_bal; auto using clean_gi, clean_semi.
Qed.

Lemma visit_new_ok : forall cs kids ct s, Forall2 kid_ok cs kids ->
  forallb (routed false (namespace s)) cs = true ->
  vok s (visit_new kids ct cs s) (forallb is_wf cs = true)
      (post (ctx_of s) (namespace s) (PN (KNew ct) cs)).
Proof.
  intros cs kids ct s Hk R. unfold visit_new.
  set (s0 := set_cast_number true (set_ident 0 s)). plain_setup Hk R s s0.
  refine (conj eq_refl (conj _ (conj _ _))).
  - subst s0. fr.
  - intros W. stc. now rewrite (Iw W).
  - plain_post (KNew ct) P rs.
    + intros W Lk Lcs Ht.
      match goal with |- tidy (new_text ?a ?b ?c ?d) /\ _ => destruct (new_tm a b c d Ht) as [T1 M1] end.
      split; [exact T1|]. rewrite M1. apply Permutation_refl.
    + intros W Ck Ccs Cc Hb. jsplit Ck. apply new_bal; auto using clean_gi, clean_semi.
Qed.

Lemma visit_field_access_ok : forall cs kids f s, Forall2 kid_ok cs kids ->
  forallb (routed false (namespace s)) cs = true ->
  vok s (visit_field_access kids f cs s) (forallb is_wf cs = true)
      (post (ctx_of s) (namespace s) (PN (KFieldAccess f) cs)).
Proof.
  intros cs kids f s Hk R. unfold visit_field_access.
  set (s0 := set_ident 0 s). plain_setup Hk R s s0.
  refine (conj eq_refl (conj _ (conj _ _))).
  - subst s0. fr.
  - intros W. stc. now rewrite (Iw W).
  - plain_post (KFieldAccess f) P rs.
    + intros W Lk Lcs Ht. get_arity W A. apply Nat.eqb_eq in A. rewrite <- L in A.
      match goal with |- tidy (field_access_text ?a ?b ?c ?d ?e) /\ _ =>
        destruct (field_access_tm a b c d e Ht A) as [T1 M1] end.
      split; [exact T1|]. rewrite M1. apply Permutation_refl.
    + intros W Ck Ccs Cc Hb. jsplit Ck. apply field_access_bal; auto using clean_gi, clean_semi.
Qed.

Lemma lookup2_in : forall (A : Type) ns name (l : list (list string * string * A)) v,
  lookup2 ns name l = Some v -> exists ns' name', In (ns', name', v) l.
Proof.
  intros A ns name l v. induction l as [|[[ns' name'] v'] r IH]; cbn [lookup2]; [discriminate|].
  destruct (_ && _).
  - intros H. injection H as ->. exists ns', name'. now left.
  - intros H. destruct (IH H) as (a & b & Hi). exists a, b. now right.
Qed.

Lemma visit_func_ref_ok : forall cs kids f s, Forall2 kid_ok cs kids ->
  forallb (routed false (namespace s)) cs = true ->
  vok s (visit_func_ref kids f cs s) (forallb is_wf cs = true)
      (post (ctx_of s) (namespace s) (PN (KFuncRef f) cs)).
Proof.
  intros cs kids f s Hk R. unfold visit_func_ref.
  set (s0 := set_ident 0 s). plain_setup Hk R s s0.
  refine (conj eq_refl (conj _ (conj _ _))).
  - subst s0. fr.
  - intros W. stc. now rewrite (Iw W).
  - plain_post (KFuncRef f) P rs.
    + intros W Lk Lcs Ht. get_arity W A. apply Nat.leb_le in A. rewrite <- L in A.
      match goal with |- tidy (func_ref_text ?a ?b ?c ?d ?e) /\ _ =>
        destruct (func_ref_tm a b c d e Ht A) as [T1 M1] end.
      split; [exact T1|]. rewrite M1. apply Permutation_refl.
    + intros W Ck Ccs Cc Hb. jsplit Ck. apply func_ref_bal; auto using clean_gi, clean_semi.
      match goal with |- clean_str (match ?x with _ => _ end) = true => destruct x as [v|] eqn:E end; [|reflexivity].
      destruct (lookup2_in _ _ _ _ _ E) as (a & b & Hi).
      assert (Ectx : forall a b, ctx_of (set_children_res a (set_ident b (visit_children kids s0))) = ctx_of s)
        by (intros; apply (ctx_of_frame _ _ F)).
      rewrite Ectx in Hi.
      unfold clean_ctx in Cc. apply andb_true_iff in Cc. destruct Cc as [Cc1 _].
      rewrite forallb_forall in Cc1. exact (Cc1 _ Hi).
Qed.

Lemma visit_func_call_ok : forall cs kids f ta ci rc hr s, Forall2 kid_ok cs kids ->
  forallb (routed false (namespace s)) cs = true ->
  vok s (visit_func_call kids f rc hr cs s) (forallb is_wf cs = true)
      (post (ctx_of s) (namespace s) (PN (KFuncCall f ta ci rc hr) cs)).
Proof.
  intros cs kids f ta ci rc hr s Hk R. unfold visit_func_call.
  set (s0 := set_cast_number true (set_ident 0 s)). plain_setup Hk R s s0.
  refine (conj eq_refl (conj _ (conj _ _))).
  - subst s0. fr.
  - intros W. stc. now rewrite (Iw W).
  - plain_post (KFuncCall f ta ci rc hr) P rs.
    + intros W Lk Lcs Ht. get_arity W A.
      assert (A' : if hr then 1 <= List.length rs else True).
      { destruct hr; [|exact I]. apply Nat.leb_le in A. now rewrite L. }
      match goal with |- tidy (func_call_text ?a ?b ?c ?d ?e ?f0 ?g ?h ?i ?j) /\ _ =>
        destruct (func_call_tm a b c d e f0 g h i j Ht A') as [T1 M1] end.
      split; [exact T1|]. rewrite M1. apply Permutation_refl.
    + intros W Ck Ccs Cc Hb. jsplit Ck. apply func_call_bal; auto using clean_gi, clean_semi, clean_main_prefix.
      intros i E. destruct (lookup2_in _ _ _ _ _ E) as (a & b & Hi).
      assert (Ectx : forall b, ctx_of (set_ident b (visit_children kids s0)) = ctx_of s)
        by (intros; apply (ctx_of_frame _ _ F)).
      rewrite Ectx in Hi.
      unfold clean_ctx in Cc. apply andb_true_iff in Cc. destruct Cc as [_ Cc2].
      rewrite forallb_forall in Cc2. exact (Cc2 _ Hi).
Qed.

Lemma visit_assign_ok : forall cs kids name hr s, Forall2 kid_ok cs kids ->
  forallb (routed false (namespace s)) cs = true ->
  vok s (visit_assign kids name hr cs s) (forallb is_wf cs = true)
      (post (ctx_of s) (namespace s) (PN (KAssign name hr) cs)).
Proof.
  intros cs kids name hr s Hk R. unfold visit_assign.
  set (s0 := set_cast_number true (set_ident 0 s)). plain_setup Hk R s s0.
  refine (conj eq_refl (conj _ (conj _ _))).
  - subst s0. fr.
  - intros W. stc. now rewrite (Iw W).
  - plain_post (KAssign name hr) P rs.
    + intros W Lk Lcs Ht. get_arity W A. apply Nat.eqb_eq in A. rewrite <- L in A.
      match goal with |- tidy (assign_text ?a ?b ?c ?d ?e ?f0) /\ _ =>
        destruct (assign_tm a b c d e f0 Ht A) as [T1 M1] end.
      split; [exact T1|]. rewrite M1. apply Permutation_refl.
    + intros W Ck Ccs Cc Hb. jsplit Ck. apply assign_bal; auto using clean_gi_old, clean_main_prefix.
Qed.

Lemma enter_kids : forall ctx ns ns' k cs rs,
  Forall2 (post ctx ns') cs rs ->
  (wfj ctx ns (PN k cs) = true ->
     forallb (wfj ctx ns') cs = true /\ forallb (fun c => negb (is_super_kind (kind_of c))) cs = true) ->
  (wfj ctx ns (PN k cs) = true -> forallb lex cs = true ->
     Forall tidy rs /\ Permutation (flat_map marks rs) (flat_map inventory cs)) /\
  (wfj ctx ns (PN k cs) = true -> forallb clean cs = true -> clean_ctx ctx = true -> Forall Bal rs).
Proof.
  intros ctx ns ns' k cs rs P H. split.
  - intros W L. destruct (H W) as [W1 W2]. destruct (posts_lex _ _ _ _ P W1 L) as [T1 P1]. split; [exact T1|].
    now rewrite <- (flat_pinv_plain cs W2).
  - intros W C Cc. destruct (H W) as [W1 W2]. now apply (posts_clean _ _ _ _ P W1 C Cc).
Qed.

Lemma wfj_enter : forall ctx ns k name cs,
  enters k = Some name -> is_class_kind k = false -> wfj ctx ns (PN k cs) = true ->
  arity_ok ctx ns k cs = true /\ forallb (wfj ctx (name :: ns)) cs = true /\
  forallb (fun c => negb (is_super_kind (kind_of c))) cs = true.
Proof.
  intros ctx ns k name cs He Hc W. cbn [wfj] in W. rewrite He, Hc in W. cbn [orb] in W.
  apply andb_true_iff in W. destruct W as [W W3]. apply andb_true_iff in W. destruct W as [W1 W2]. auto.
Qed.

(* ---- visit_is *)
Lemma visit_is_ok : forall cs kids nt rn rx s, Forall2 kid_ok cs kids ->
  forallb (routed false (namespace s)) cs = true ->
  children_res (snd (visit_is kids nt rn cs s)) = children_res s /\
  frame s (snd (visit_is kids nt rn cs s)) /\
  (forallb is_wf cs = true ->
   is_stack (snd (visit_is kids nt rn cs s)) =
   (match var_name_of cs with Some x => [Some x] | None => [] end) ++ is_stack s) /\
  post (ctx_of s) (namespace s) (PN (KIs nt rn rx) cs) (fst (visit_is kids nt rn cs s)).
Proof.
  intros cs kids nt rn rx s Hk R. unfold visit_is. set (s0 := set_ident 0 s).
  assert (G : exists rs, List.length rs = List.length cs /\
    let s' := match kids with
              | c :: r => visit_children r (match var_name_of cs with
                                            | Some name => set_is_stack (Some name :: is_stack (c s0)) (c s0)
                                            | None => c s0 end)
              | [] => s0 end in
    children_res s' = rev rs ++ children_res s /\ frame s0 s' /\
    (forallb is_wf cs = true -> is_stack s' = (match var_name_of cs with Some x => [Some x] | None => [] end) ++ is_stack s) /\
    Forall2 (post (ctx_of s) (namespace s)) cs rs).
  { destruct Hk as [|c k cs' kids' Hc Hks].
    - exists []. cbn. refine (conj eq_refl (conj eq_refl (conj (frame_refl _) (conj (fun _ => eq_refl) _)))). constructor.
    - cbn [forallb] in R. apply andb_true_iff in R. destruct R as [Rc Rcs].
      destruct (Hc s0 Rc) as (r & s1 & E & C1 & F1 & I1 & P1).
      set (s2 := match var_name_of (c :: cs') with
                 | Some name => set_is_stack (Some name :: is_stack (k s0)) (k s0)
                 | None => k s0 end).
      assert (F2 : frame s0 s2 /\ children_res s2 = r :: children_res s /\
                   (is_wf c = true -> is_stack s2 = (match var_name_of (c :: cs') with Some x => [Some x] | None => [] end) ++ is_stack s)).
      { unfold s2. rewrite E. destruct (var_name_of (c :: cs')); (split; [fr|]); stc; rewrite C1; (split; [reflexivity|]);
          intros Wc; rewrite (istack_wf c _ _ I1 Wc); reflexivity. }
      destruct F2 as (F2 & C2 & I2).
      assert (R2 : forallb (routed false (namespace s2)) cs' = true) by (rewrite (f_ns _ _ F2); exact Rcs).
      destruct (kids_run _ _ Hks s2 R2) as (rs & L & C & F & Iw & P).
      exists (r :: rs). refine (conj _ (conj _ (conj _ (conj _ _)))).
      + cbn. now rewrite L.
      + cbv zeta. fold s2. rewrite C, C2. cbn [rev]. now rewrite <- app_assoc.
      + cbv zeta. fold s2. eapply frame_trans; eauto.
      + cbv zeta. fold s2. intros W. cbn [forallb] in W. apply andb_true_iff in W. destruct W as [W1 W2].
        rewrite (Iw W2). now apply I2.
      + constructor; [exact P1|]. rewrite (ctx_of_frame _ _ F2), (f_ns _ _ F2) in P. exact P. }
  destruct G as (rs & L & G). cbv zeta in G.
  match type of G with children_res ?X = _ /\ _ => set (s' := X) in * end.
  destruct G as (C & F & Iw & P).
  erewrite (pop_exact rs (children_res s)); [| exact L | exact C].
  cbn [fst snd]. refine (conj eq_refl (conj _ (conj _ _))).
  - subst s0. fr.
  - intros W. stc. now apply Iw.
  - destruct (plain_kids _ _ (KIs nt rn rx) _ _ P) as [Kl Kc].
    { intros W. apply wfj_plain in W; auto. tauto. }
    apply (post_assemble _ _ _ _ rs); auto.
    + first [exact I | cbn [shape]; repeat eexists].
    + intros W Lk Lcs Ht. get_arity W A. apply Nat.eqb_eq in A. rewrite <- L in A.
      match goal with |- tidy (is_text ?a ?b ?c ?d ?e) /\ _ => destruct (is_tm a b c d e Ht A) as [T1 M1] end.
      split; [exact T1|]. rewrite M1. cbn [own_marks]. apply Permutation_app_comm.
    + intros W Ck Ccs Cc Hb. jsplit Ck. apply is_bal; auto using clean_gi_old.
      destruct (var_name_of cs) as [x|] eqn:Ev; [|reflexivity].
      rewrite !clean_app, clean_repeat_is, andb_true_r. cbn [clean_str clean_char]. cbn.
      (* the name of the variable: the kind of the first child *)
      destruct cs as [|[k0 cs0] cs']; [discriminate|]. cbn [var_name_of] in Ev. destruct k0; try discriminate.
      injection Ev as <-. assert (Cl : clean (PN (KVariable name) cs0) = true).
      { cbn [forallb] in Ccs; apply andb_true_iff in Ccs; tauto. }
      cbn [clean] in Cl. apply andb_true_iff in Cl. destruct Cl as [Cl _]. jsplit Cl. exact Hc0.
Qed.

(* ---- visit_block *)
Lemma block_kids_run : forall cs kids, Forall2 kid_ok cs kids -> forall s,
  forallb (routed false (namespace s)) cs = true ->
  exists rs,
    List.length rs = List.length cs /\
    children_res (visit_block_children kids s) = rev rs ++ children_res s /\
    frame s (visit_block_children kids s) /\
    (forallb is_wf cs = true -> is_stack (visit_block_children kids s) = is_stack s) /\
    Forall2 (post (ctx_of s) (namespace s)) cs rs.
Proof.
  induction 1 as [|c k cs kids Hk Hks IH]; intros s R.
  - exists []. cbn. refine (conj eq_refl (conj eq_refl (conj (frame_refl s) (conj (fun _ => eq_refl) _)))). constructor.
  - cbn [forallb] in R. apply andb_true_iff in R. destruct R as [Rc Rcs].
    destruct Hks as [|c' k' cs' kids' Hk' Hks'].
    + (* the last child: visited with _cast_number = True *)
      cbn [visit_block_children]. set (s0 := set_cast_number true s).
      assert (R0 : routed false (namespace s0) c = true) by exact Rc.
      destruct (Hk s0 R0) as (r & s1 & E & C & F & I & P). rewrite E.
      exists [r]. refine (conj eq_refl (conj _ (conj _ (conj _ _)))).
      * stc. rewrite C. reflexivity.
      * subst s0. fr.
      * intros W. cbn [forallb] in W. apply andb_true_iff in W. destruct W as [Wc _]. stc.
        now rewrite (istack_wf c _ _ I Wc).
      * constructor; [exact P | constructor].
    + assert (E0 : visit_block_children (k :: k' :: kids') s = visit_block_children (k' :: kids') (k s)) by reflexivity.
      rewrite E0. destruct (Hk s Rc) as (r & s1 & E & C & F & I & P). rewrite E.
      assert (Fp : frame s (push r s1)) by now apply frame_push.
      assert (Rcs' : forallb (routed false (namespace (push r s1))) (c' :: cs') = true).
      { rewrite (f_ns _ _ Fp). exact Rcs. }
      destruct (IH (push r s1) Rcs') as (rs & L & C2 & F2 & I2 & P2).
      exists (r :: rs). refine (conj _ (conj _ (conj _ (conj _ _)))).
      * cbn [List.length] in *. now rewrite L.
      * rewrite C2. stc. rewrite C. cbn [rev]. now rewrite <- app_assoc.
      * eapply frame_trans; eauto.
      * intros W. cbn [forallb] in W. apply andb_true_iff in W. destruct W as [Wc Wcs].
        rewrite (I2 Wcs). stc. now apply (istack_wf c).
      * constructor; [exact P|]. rewrite (ctx_of_frame _ _ Fp), (f_ns _ _ Fp) in P2. exact P2.
Qed.

Lemma plan_x_ge : forall h cs pif f n x, x <= bp_x (block_plan_of h cs pif f n x).
Proof.
  intros. unfold block_plan_of.
  repeat match goal with |- context [if ?b then _ else _] => destruct b end; cbn [bp_x]; lia.
Qed.

Lemma visit_block_ok : forall cs kids h s, Forall2 kid_ok cs kids ->
  forallb (routed false (namespace s)) cs = true ->
  vok s (visit_block kids h cs s) (forallb is_wf cs = true)
      (post (ctx_of s) (namespace s) (PN (KBlock h) cs)).
Proof.
  intros cs kids h s Hk R. unfold visit_block.
  set (s0 := set_nfb false (set_fnv false s)).
  assert (R0 : forallb (routed false (namespace s0)) cs = true) by exact R.
  destruct (block_kids_run _ _ Hk s0 R0) as (rs & L & C & F & Iw & P).
  erewrite (pop_exact rs (children_res s)); [| exact L | exact C].
  change (ctx_of s0) with (ctx_of s) in P. change (namespace s0) with (namespace s) in P.
  set (s1 := set_nfb (nfb s) (set_fnv (fnv s) (set_children_res (children_res s) (visit_block_children kids s0)))).
  set (pl := block_plan_of h cs (parent_is_function s1) (fnv s) (nfb s) (x_counter s1)).
  assert (Hx : x_counter s1 <= bp_x pl) by apply plan_x_ge.
  unfold vok. cbn [fst snd]. refine (conj eq_refl (conj _ (conj _ _))).
  - subst s1 s0. stc. fr.
  - intros W. subst pl s1. stc. now rewrite (Iw W).
  - plain_post (KBlock h) P rs.
    + intros W Lk Lcs Ht. destruct (block_body_tm pl (ident (set_x_counter (bp_x pl) s1)) rs Ht) as [T1 M1].
      destruct (parent_is_function s1).
      * split; [exact T1|]. rewrite M1. apply Permutation_refl.
      * destruct (block_wrap_tm h cs _ T1) as [T2 M2]. split; [exact T2|]. rewrite M2, M1. apply Permutation_refl.
    + intros W Ck Ccs Cc Hb. unfold clean_kind in Ck. cbn [kind_strings] in Ck.
      destruct (block_plan_clean h cs (parent_is_function s1) (fnv s) (nfb s) (x_counter s1) Ck) as (P1 & P2 & P3).
      fold pl in P1, P2, P3.
      pose proof (block_body_bal pl (ident (set_x_counter (bp_x pl) s1)) rs P1 P2 P3 Hb) as B.
      destruct (parent_is_function s1); [exact B|]. now apply block_wrap_bal.
Qed.

(* ---- visit_lambda *)
Lemma visit_lambda_ok : forall cs kids name rt np hb ns s, namespace s = name :: ns ->
  Forall2 kid_ok cs kids -> forallb (routed false (namespace s)) cs = true ->
  vok s (visit_lambda kids rt np hb cs s) (forallb is_wf cs = true)
      (post (ctx_of s) ns (PN (KLambda name rt np hb) cs)).
Proof.
  intros cs kids name rt np hb ns s Ens Hk R. unfold visit_lambda.
  destruct (inside_is s) eqn:Eii; destruct (ns_parent_global (namespace s)) eqn:Eg;
    destruct (negb (hb && last_is_block cs)) eqn:Eie;
    (match goal with |- context [visit_children kids ?X] => set (s0 := X) end;
     assert (R0 : forallb (routed false (namespace s0)) cs = true) by exact R;
     destruct (kids_run _ _ Hk s0 R0) as (rs & L & C & F & Iw & P);
     (erewrite (pop_exact rs (children_res s)); [| exact L | exact C]);
     change (ctx_of s0) with (ctx_of s) in P; change (namespace s0) with (namespace s) in P; rewrite Ens in P;
     pose proof (f_ii _ _ F) as Ei; change (inside_is s0) with (inside_is s) in Ei; rewrite Eii in Ei;
     unfold vok; stc; rewrite Ei; stc;
     refine (conj eq_refl (conj _ (conj _ _)));
     [ subst s0; fr
     | intros W; now rewrite (Iw W)
     | destruct (enter_kids _ ns (name :: ns) (KLambda name rt np hb) _ _ P) as [Kl Kc];
       [ intros W; apply (wfj_enter _ _ _ name) in W; auto; tauto
       | apply (post_assemble _ _ _ _ rs); auto;
         [ cbn [shape]; rewrite Eie; repeat eexists
         | intros W Lk Lcs Ht; apply (wfj_enter _ _ _ name) in W; auto; destruct W as (A & _); cbn [arity_ok] in A;
           apply Nat.eqb_eq in A; rewrite <- L in A;
           match goal with |- tidy (lambda_text ?a ?b ?c ?d ?e ?f) /\ _ =>
             destruct (lambda_tm a b c d e f Ht A) as [T1 M1] end;
           split; [exact T1|]; rewrite M1; apply Permutation_refl
         | intros W Ck Ccs Cc Hb; apply lambda_bal; auto using clean_semi ] ] ]).
Qed.

(* ---- visit_func_decl *)
Lemma pres_of_shape : forall cs rs, Forall2 shape cs rs -> forall np,
  forallb (fun c => is_param_kind (kind_of c)) (firstn np cs) = true -> forallb lex cs = true ->
  Forall is_pres (firstn np rs).
Proof.
  induction 1 as [|c r cs rs Hs Hss IH]; intros np Hp Hl; [rewrite firstn_nil; constructor|].
  destruct np as [|np]; [constructor|]. cbn [firstn forallb] in *.
  apply andb_true_iff in Hp. destruct Hp as [Hp1 Hp2]. apply andb_true_iff in Hl. destruct Hl as [Hl1 Hl2].
  constructor; [|now apply IH].
  destruct c as [k cs0]. unfold shape in Hs. cbn [kind_of] in *. destruct k; try discriminate.
  cbn [lex lex_kind] in Hl1. apply andb_true_iff in Hl1. destruct Hl1 as [Hl1 _].
  apply andb_true_iff in Hl1. destruct Hl1 as [H1 H2]. apply negb_true_iff in H2.
  exists name, param_type, vararg. auto.
Qed.

Lemma pres_clean_of_shape : forall cs rs, Forall2 shape cs rs -> forall np,
  forallb (fun c => is_param_kind (kind_of c)) (firstn np cs) = true -> forallb clean cs = true ->
  Forall is_pres_clean (firstn np rs).
Proof.
  induction 1 as [|c r cs rs Hs Hss IH]; intros np Hp Hl; [rewrite firstn_nil; constructor|].
  destruct np as [|np]; [constructor|]. cbn [firstn forallb] in *.
  apply andb_true_iff in Hp. destruct Hp as [Hp1 Hp2]. apply andb_true_iff in Hl. destruct Hl as [Hl1 Hl2].
  constructor; [|now apply IH].
  destruct c as [k cs0]. unfold shape in Hs. cbn [kind_of] in *. destruct k; try discriminate.
  cbn [clean] in Hl1. apply andb_true_iff in Hl1. destruct Hl1 as [Hl1 _]. jsplit Hl1.
  exists name, param_type, vararg. auto.
Qed.

Lemma func_post : forall ctx ns name rt inf fin hb np ntp cs rs close,
  Forall2 (post ctx (name :: ns)) cs rs -> List.length rs = List.length cs -> clean_str close = true ->
  post ctx ns (PN (KFunc name rt inf fin hb np ntp) cs)
    (func_decl_text name inf fin hb np ntp (negb (hb && last_is_block cs)) (nested_at ctx (name :: ns)) close rs).
Proof.
  intros ctx ns name rt inf fin hb np ntp cs rs close P L Hcl.
  destruct (enter_kids _ ns (name :: ns) (KFunc name rt inf fin hb np ntp) _ _ P) as [Kl Kc].
  { intros W. apply (wfj_enter _ _ _ name) in W; auto. tauto. }
  apply (post_assemble _ _ _ _ rs); auto.
  - first [exact I | cbn [shape]; repeat eexists].
  - intros W Lk Lcs Ht. apply (wfj_enter _ _ _ name) in W; auto. destruct W as (A & Wk & _).
    cbn [arity_ok] in A. apply andb_true_iff in A. destruct A as [A A3]. apply andb_true_iff in A. destruct A as [A1 A2].
    apply Nat.eqb_eq in A1. rewrite <- L in A1. cbn [lex_kind own_marks] in *.
    apply (func_decl_tm name inf fin hb np ntp _ _ close rs Lk Ht A1).
    intros Hn. rewrite Hn in A3. split; [now apply Nat.eqb_eq|].
    apply (pres_of_shape cs); auto. apply (posts_shape _ _ _ _ P Wk).
  - intros W Ck Ccs Cc Hb. apply (wfj_enter _ _ _ name) in W; auto. destruct W as (A & Wk & _).
    cbn [arity_ok] in A. apply andb_true_iff in A. destruct A as [A A3]. apply andb_true_iff in A. destruct A as [A1 A2].
    jsplit Ck. apply func_decl_bal; auto.
    intros _. apply (pres_clean_of_shape cs); auto. apply (posts_shape _ _ _ _ P Wk).
Qed.

Lemma visit_func_decl_ok : forall cs kids name rt inf fin hb np ntp ns s, namespace s = name :: ns ->
  Forall2 kid_ok cs kids -> forallb (routed false (namespace s)) cs = true ->
  vok s (visit_func_decl kids name inf fin hb np ntp cs s) (forallb is_wf cs = true)
      (post (ctx_of s) ns (PN (KFunc name rt inf fin hb np ntp) cs)).
Proof.
  intros cs kids name rt inf fin hb np ntp ns s Ens Hk R. unfold visit_func_decl.
  destruct (inside_is s) eqn:Eii; destruct (ns_parent_global (namespace s)) eqn:Eg;
    destruct (negb (hb && last_is_block cs)) eqn:Eie;
    (match goal with |- context [visit_children kids ?X] => set (s0 := X) end;
     assert (R0 : forallb (routed false (namespace s0)) cs = true) by exact R;
     destruct (kids_run _ _ Hk s0 R0) as (rs & L & C & F & Iw & P);
     (erewrite (pop_exact rs (children_res s)); [| exact L | exact C]);
     change (ctx_of s0) with (ctx_of s) in P; change (namespace s0) with (namespace s) in P; rewrite Ens in P;
     pose proof (f_ii _ _ F) as Ei; change (inside_is s0) with (inside_is s) in Ei; rewrite Eii in Ei;
     assert (En : forall a, is_nested_func (set_children_res a (visit_children kids s0)) = nested_at (ctx_of s) (name :: ns))
       by (intros a; unfold is_nested_func, nested_at, ctx_of; stc; rewrite (f_ns _ _ F), (f_ctx _ _ F);
           change (namespace s0) with (namespace s); change (context s0) with (context s); rewrite Ens; reflexivity);
     rewrite En; pose proof (func_post (ctx_of s) ns name rt inf fin hb np ntp cs rs) as FP; rewrite Eie in FP;
     destruct (nested_at (ctx_of s) (name :: ns)) eqn:Enest;
     unfold vok; stc; rewrite Ei; stc;
     (refine (conj eq_refl (conj _ (conj _ _)));
      [ subst s0; fr
      | intros W; now rewrite (Iw W)
      | apply FP; auto using clean_gi_old ])).
Qed.

(* ---- visit_conditional *)
Lemma cond_post : forall ctx ns cs rs idt sm,
  List.length rs = List.length cs -> clean_str idt = true -> clean_str sm = true ->
  (wfj ctx ns (PN KCond cs) = true -> forallb lex cs = true ->
     Forall tidy rs /\ Permutation (flat_map marks rs) (flat_map inventory cs)) ->
  (wfj ctx ns (PN KCond cs) = true -> forallb clean cs = true -> clean_ctx ctx = true -> Forall Bal rs) ->
  post ctx ns (PN KCond cs) (conditional_text idt sm rs).
Proof.
  intros ctx ns cs rs idt sm L Hi Hs Kl Kc.
  apply (post_assemble _ _ _ _ rs); auto.
  - first [exact I | cbn [shape]; repeat eexists].
  - intros W Lk Lcs Ht. apply wfj_arity in W. cbn [arity_ok] in W. apply Nat.eqb_eq in W. rewrite <- L in W.
    destruct (conditional_tm idt sm rs Ht W) as [T1 M1]. split; [exact T1|]. rewrite M1. apply Permutation_refl.
  - intros W Ck Ccs Cc Hb. now apply conditional_bal.
Qed.

Ltac stc2 := stc; cbn [tl] in *.

Lemma visit_conditional_ok : forall cs kids s, Forall2 kid_ok cs kids ->
  routed true (namespace s) (PN KCond cs) = true ->
  vok s (visit_conditional kids cs s) (is_wf (PN KCond cs) = true)
      (post (ctx_of s) (namespace s) (PN KCond cs)).
Proof.
  intros cs kids s Hk R. unfold visit_conditional. cbv zeta.
  set (s0 := set_ident (ident (set_inside_is true s) + 2) (set_inside_is true s)).
  cbn [routed orb andb enters] in R.
  (* the plain shape: every child in the namespace of the node *)
  assert (Plain : forallb (routed false (namespace s)) cs = true ->
                  (is_wf (PN KCond cs) = true -> forallb is_wf cs = true) ->
                  (wfj (ctx_of s) (namespace s) (PN KCond cs) = true ->
                   forallb (wfj (ctx_of s) (namespace s)) cs = true /\
                   forallb (fun c => negb (is_super_kind (kind_of c))) cs = true) ->
                  let s' := visit_children kids s0 in
                  vok s (let (cr, s2) := pop_res (List.length cs) s' in
                         (conditional_text (gi_old (ident s) s2) (semi s2) cr,
                          set_namespace (namespace s) (set_inside_is (inside_is s) (set_ident (ident s) s2))))
                      (is_wf (PN KCond cs) = true) (post (ctx_of s) (namespace s) (PN KCond cs))).
  { intros R1 Hw Hwf. cbv zeta.
    assert (R0 : forallb (routed false (namespace s0)) cs = true) by exact R1.
    destruct (kids_run _ _ Hk s0 R0) as (rs & L & C & F & Iw & P).
    erewrite (pop_exact rs (children_res s)); [| exact L | exact C].
    change (ctx_of s0) with (ctx_of s) in P. change (namespace s0) with (namespace s) in P.
    unfold vok. cbn [fst snd]. refine (conj eq_refl (conj _ (conj _ _))).
    - subst s0. fr.
    - intros W. stc. now rewrite (Iw (Hw W)).
    - apply cond_post; auto using clean_gi_old, clean_semi.
      + intros W Lc. destruct (Hwf W) as [W1 W2]. destruct (posts_lex _ _ _ _ P W1 Lc) as [T1 P1].
        split; [exact T1|]. now rewrite <- (flat_pinv_plain cs W2).
      + intros W Cl Cc. destruct (Hwf W) as [W1 W2]. now apply (posts_clean _ _ _ _ P W1 Cl Cc). }
  destruct Hk as [|cond vcond cs1 kids1 Hc Hk1].
  { apply Plain; auto; intros W; cbn [wfj arity_ok List.length] in W; discriminate. }
  destruct Hk1 as [|tb vtb cs2 kids2 Ht Hk2].
  { apply Plain; auto; intros W; cbn [wfj arity_ok List.length] in W; discriminate. }
  destruct Hk2 as [|fb vfb cs3 kids3 Hf Hk3].
  { apply Plain; auto; intros W; cbn [wfj arity_ok List.length] in W; discriminate. }
  destruct Hk3 as [|x vx cs4 kids4 Hx Hk4].
  2:{ apply Plain; auto; intros W; cbn [wfj arity_ok List.length] in W; discriminate. }
  cbn [nth]. destruct cond as [ck ccs]. cbn [kind_of] in *.
  destruct (is_is_kind ck) eqn:Eis.
  2:{ (* the condition is not an Is *)
    destruct ck; try discriminate;
      (change (vfb (vtb (vcond s0))) with (visit_children [vcond; vtb; vfb] s0);
       apply Plain; auto;
       [ intros W; cbn [is_wf] in W; cbn [forallb]; rewrite andb_true_r; rewrite <- andb_assoc in W; exact W
       | intros W; cbn [wfj enters is_class_kind orb kind_of is_is_kind] in W;
         apply andb_true_iff in W; destruct W as [W W3]; apply andb_true_iff in W; tauto ]). }
  destruct ck; try discriminate. rename is_not into nt.
  apply andb_true_iff in R. destruct R as [R Rf]. apply andb_true_iff in R. destruct R as [Rc Rt].
  (* the condition *)
  assert (Rc0 : routed false (namespace s0) (PN (KIs nt rexpr_name rexpr) ccs) = true) by exact Rc.
  destruct (Hc s0 Rc0) as (r0 & s1 & E1 & C1 & F1 & I1 & P1). rewrite E1.
  change (ctx_of s0) with (ctx_of s) in P1. change (namespace s0) with (namespace s) in P1.
  cbn [istack] in I1.
  destruct nt; cbn [negb].
  - (* !is: the name is popped before the true branch; the smart cast holds in the false branch *)
    match goal with |- context [vtb ?X] => set (s2 := X) end.
    assert (Rt2 : routed false (namespace s2) tb = true) by exact Rt.
    destruct (Ht s2 Rt2) as (r1 & s3 & E3 & C3 & F3 & I3 & P3). rewrite E3.
    match goal with |- context [vfb ?X] => set (s4 := X) end.
    assert (Rf4 : routed false (namespace s4) fb = true) by exact Rf.
    destruct (Hf s4 Rf4) as (r2 & s5 & E5 & C5 & F5 & I5 & P5). rewrite E5.
    erewrite (pop_exact [r0; r1; r2] (children_res s)); [| reflexivity |].
    2:{ stc2. rewrite C5. subst s4. stc2. rewrite C3. subst s2. stc2. rewrite C1. reflexivity. }
    assert (Ec : ctx_of s2 = ctx_of s /\ ctx_of s4 = ctx_of s).
    { split.
      - unfold s2, ctx_of. stc2. now rewrite (f_ctx _ _ F1).
      - unfold s4, ctx_of. stc2. rewrite (f_ctx _ _ F3). unfold s2. stc2. now rewrite (f_ctx _ _ F1). }
    destruct Ec as [Ec2 Ec4]. rewrite Ec2 in P3. rewrite Ec4 in P5.
    change (namespace s2) with ("true_block" :: namespace s) in P3.
    change (namespace s4) with ("false_block" :: namespace s) in P5.
    unfold vok. cbn [fst snd]. refine (conj eq_refl (conj _ (conj _ _))).
    + match goal with |- frame s ?X => assert (Esc : smart_casts X = smart_casts s) end.
      { stc2. rewrite ?(f_sc _ _ F5). unfold s4. stc2. rewrite ?(f_sc _ _ F3). unfold s2. stc2.
        rewrite ?(f_sc _ _ F1). reflexivity. }
      match goal with |- frame s ?X => assert (Eif : incl (fun_ifaces s) (fun_ifaces X)) end.
      { stc2. eapply incl_tran; [|exact (f_if _ _ F5)]. unfold s4. stc2.
        eapply incl_tran; [|exact (f_if _ _ F3)]. unfold s2. stc2. exact (f_if _ _ F1). }
      subst s4 s2 s0. fr_destruct. constructor; try exact Esc; try exact Eif; stc2; try congruence; try lia.
    + intros W. cbn [is_wf] in W. apply andb_true_iff in W. destruct W as [W Wf]. apply andb_true_iff in W.
      destruct W as [Wc Wt]. destruct (var_name_of ccs) as [x|] eqn:Ev; [|discriminate].
      stc2. rewrite (istack_wf fb _ _ I5 Wf). subst s4. stc2. rewrite (istack_wf tb _ _ I3 Wt). subst s2. stc2.
      rewrite (I1 Wc). reflexivity.
    + apply cond_post; auto using clean_gi_old, clean_semi.
      * intros W Lc. cbn [wfj enters is_class_kind orb kind_of is_is_kind] in W.
        apply andb_true_iff in W. destruct W as [W W3]. apply andb_true_iff in W. destruct W as [W1 W2].
        apply andb_true_iff in W3. destruct W3 as [W3 Wf]. apply andb_true_iff in W3. destruct W3 as [Wc Wt].
        cbn [forallb] in Lc. apply andb_true_iff in Lc. destruct Lc as [Lc0 Lc]. apply andb_true_iff in Lc.
        destruct Lc as [Lc1 Lc]. apply andb_true_iff in Lc. destruct Lc as [Lc2 _].
        destruct P1 as [_ P1]; destruct P3 as [_ P3]; destruct P5 as [_ P5]. destruct (P1 Wc) as (Q1 & _). destruct (P3 Wt) as (Q3 & _). destruct (P5 Wf) as (Q5 & _).
        destruct (Q1 Lc0) as [T1 M1]. destruct (Q3 Lc1) as [T3 M3]. destruct (Q5 Lc2) as [T5 M5].
        split; [constructor; [assumption | constructor; [assumption | constructor; [assumption | constructor]]]|].
        rewrite <- (flat_pinv_plain _ W2). cbn [flat_map]. repeat apply Permutation_app; auto.
      * intros W Cl Cc. cbn [wfj enters is_class_kind orb kind_of is_is_kind] in W.
        apply andb_true_iff in W. destruct W as [W W3]. apply andb_true_iff in W. destruct W as [W1 W2].
        apply andb_true_iff in W3. destruct W3 as [W3 Wf]. apply andb_true_iff in W3. destruct W3 as [Wc Wt].
        cbn [forallb] in Cl. apply andb_true_iff in Cl. destruct Cl as [Cl0 Cl]. apply andb_true_iff in Cl.
        destruct Cl as [Cl1 Cl]. apply andb_true_iff in Cl. destruct Cl as [Cl2 _].
        destruct P1 as [_ P1]; destruct P3 as [_ P3]; destruct P5 as [_ P5]. destruct (P1 Wc) as (_ & Q1). destruct (P3 Wt) as (_ & Q3). destruct (P5 Wf) as (_ & Q5).
        constructor; [now apply Q1 | constructor; [now apply Q3 | constructor; [now apply Q5 | constructor]]].
  - (* is: the smart cast holds in the true branch; the name is popped after it *)
    match goal with |- context [vtb ?X] => set (s2 := X) end.
    assert (Rt2 : routed false (namespace s2) tb = true) by exact Rt.
    destruct (Ht s2 Rt2) as (r1 & s3 & E3 & C3 & F3 & I3 & P3). rewrite E3.
    match goal with |- context [vfb ?X] => set (s4 := X) end.
    assert (Rf4 : routed false (namespace s4) fb = true) by exact Rf.
    destruct (Hf s4 Rf4) as (r2 & s5 & E5 & C5 & F5 & I5 & P5). rewrite E5.
    erewrite (pop_exact [r0; r1; r2] (children_res s)); [| reflexivity |].
    2:{ stc2. rewrite C5. subst s4. stc2. rewrite C3. subst s2. stc2. rewrite C1. reflexivity. }
    assert (Ec : ctx_of s2 = ctx_of s /\ ctx_of s4 = ctx_of s).
    { split.
      - unfold s2, ctx_of. stc2. now rewrite (f_ctx _ _ F1).
      - unfold s4, ctx_of. stc2. rewrite (f_ctx _ _ F3). unfold s2. stc2. now rewrite (f_ctx _ _ F1). }
    destruct Ec as [Ec2 Ec4]. rewrite Ec2 in P3. rewrite Ec4 in P5.
    change (namespace s2) with ("true_block" :: namespace s) in P3.
    change (namespace s4) with ("false_block" :: namespace s) in P5.
    unfold vok. cbn [fst snd]. refine (conj eq_refl (conj _ (conj _ _))).
    + match goal with |- frame s ?X => assert (Esc : smart_casts X = smart_casts s) end.
      { stc2. rewrite ?(f_sc _ _ F5). unfold s4. stc2. rewrite ?(f_sc _ _ F3). unfold s2. stc2.
        rewrite ?(f_sc _ _ F1). reflexivity. }
      match goal with |- frame s ?X => assert (Eif : incl (fun_ifaces s) (fun_ifaces X)) end.
      { stc2. eapply incl_tran; [|exact (f_if _ _ F5)]. unfold s4. stc2.
        eapply incl_tran; [|exact (f_if _ _ F3)]. unfold s2. stc2. exact (f_if _ _ F1). }
      subst s4 s2 s0. fr_destruct. constructor; try exact Esc; try exact Eif; stc2; try congruence; try lia.
    + intros W. cbn [is_wf] in W. apply andb_true_iff in W. destruct W as [W Wf]. apply andb_true_iff in W.
      destruct W as [Wc Wt]. destruct (var_name_of ccs) as [x|] eqn:Ev; [|discriminate].
      stc2. rewrite (istack_wf fb _ _ I5 Wf). subst s4. stc2. rewrite (istack_wf tb _ _ I3 Wt). subst s2. stc2.
      rewrite (I1 Wc). reflexivity.
    + apply cond_post; auto using clean_gi_old, clean_semi.
      * intros W Lc. cbn [wfj enters is_class_kind orb kind_of is_is_kind] in W.
        apply andb_true_iff in W. destruct W as [W W3]. apply andb_true_iff in W. destruct W as [W1 W2].
        apply andb_true_iff in W3. destruct W3 as [W3 Wf]. apply andb_true_iff in W3. destruct W3 as [Wc Wt].
        cbn [forallb] in Lc. apply andb_true_iff in Lc. destruct Lc as [Lc0 Lc]. apply andb_true_iff in Lc.
        destruct Lc as [Lc1 Lc]. apply andb_true_iff in Lc. destruct Lc as [Lc2 _].
        destruct P1 as [_ P1]; destruct P3 as [_ P3]; destruct P5 as [_ P5]. destruct (P1 Wc) as (Q1 & _). destruct (P3 Wt) as (Q3 & _). destruct (P5 Wf) as (Q5 & _).
        destruct (Q1 Lc0) as [T1 M1]. destruct (Q3 Lc1) as [T3 M3]. destruct (Q5 Lc2) as [T5 M5].
        split; [constructor; [assumption | constructor; [assumption | constructor; [assumption | constructor]]]|].
        rewrite <- (flat_pinv_plain _ W2). cbn [flat_map]. repeat apply Permutation_app; auto.
      * intros W Cl Cc. cbn [wfj enters is_class_kind orb kind_of is_is_kind] in W.
        apply andb_true_iff in W. destruct W as [W W3]. apply andb_true_iff in W. destruct W as [W1 W2].
        apply andb_true_iff in W3. destruct W3 as [W3 Wf]. apply andb_true_iff in W3. destruct W3 as [Wc Wt].
        cbn [forallb] in Cl. apply andb_true_iff in Cl. destruct Cl as [Cl0 Cl]. apply andb_true_iff in Cl.
        destruct Cl as [Cl1 Cl]. apply andb_true_iff in Cl. destruct Cl as [Cl2 _].
        destruct P1 as [_ P1]; destruct P3 as [_ P3]; destruct P5 as [_ P5]. destruct (P1 Wc) as (_ & Q1). destruct (P3 Wt) as (_ & Q3). destruct (P5 Wf) as (_ & Q5).
        constructor; [now apply Q1 | constructor; [now apply Q3 | constructor; [now apply Q5 | constructor]]].
Qed.

(* ---- visit_class_decl *)
Lemma Forall2_firstn : forall (A B : Type) (R : A -> B -> Prop) n l1 l2,
  Forall2 R l1 l2 -> Forall2 R (firstn n l1) (firstn n l2).
Proof. intros A B R n l1 l2 H. revert n. induction H; intros [|n]; cbn; constructor; auto. Qed.

Lemma Forall2_skipn : forall (A B : Type) (R : A -> B -> Prop) n l1 l2,
  Forall2 R l1 l2 -> Forall2 R (skipn n l1) (skipn n l2).
Proof. intros A B R n l1 l2 H. revert n. induction H; intros [|n]; cbn; auto. Qed.

Lemma forallb_firstn : forall (A : Type) (f : A -> bool) n l, forallb f l = true -> forallb f (firstn n l) = true.
Proof.
  intros A f n l. revert n. induction l as [|x l IH]; intros [|n] H; cbn in *; auto.
  apply andb_true_iff in H. destruct H as [H1 H2]. now rewrite H1, IH.
Qed.

Lemma forallb_skipn : forall (A : Type) (f : A -> bool) n l, forallb f l = true -> forallb f (skipn n l) = true.
Proof.
  intros A f n l. revert n. induction l as [|x l IH]; intros [|n] H; cbn in *; auto.
  apply andb_true_iff in H. destruct H as [H1 H2]. now apply IH.
Qed.

Lemma first_super_absorb : forall s l x,
  fold_left (fun acc (cg : pnode * list kid) =>
               match acc with
               | Some _ => acc
               | None =>
                   match cg with
                   | (PN (KSuper _ bi) args, g) =>
                       Some (bi, nonempty args, rev (children_res (visit_children g (nested_init s))))
                   | _ => None
                   end
               end) l (Some x) = Some x.
Proof. intros s l x. induction l as [|cg l IH]; [reflexivity | exact IH]. Qed.

Lemma first_super_spec : forall cs gkids s,
  Forall2 (fun c g => Forall2 kid_ok (children_of c) g) cs gkids ->
  (forall c, In c cs -> is_super_kind (kind_of c) = true ->
             forallb (routed false (namespace s)) (children_of c) = true) ->
  match find (fun c => is_super_kind (kind_of c)) cs with
  | None => first_super cs gkids s = None
  | Some c =>
      exists ct bi res,
        kind_of c = KSuper ct bi /\
        first_super cs gkids s = Some (bi, nonempty (children_of c), res) /\
        List.length res = List.length (children_of c) /\
        Forall2 (post (ctx_of s) (namespace s)) (children_of c) res
  end.
Proof.
  intros cs gkids s H. unfold first_super. induction H as [|c g cs gkids Hc Hcs IH]; intros R; [reflexivity|].
  cbn [find combine fold_left]. destruct c as [k args]. cbn [kind_of children_of] in *.
  destruct (is_super_kind k) eqn:Ek.
  - destruct k; try discriminate. rewrite first_super_absorb.
    assert (Ra : forallb (routed false (namespace (nested_init s))) args = true).
    { apply (R (PN (KSuper class_type is_builtin) args)); [now left | reflexivity]. }
    destruct (kids_run _ _ Hc (nested_init s) Ra) as (rs & L & C & F & Iw & P).
    exists class_type, is_builtin, rs. refine (conj eq_refl (conj _ (conj L P))).
    rewrite C. cbn [nested_init children_res set_namespace set_cast_number set_context init_st].
    now rewrite app_nil_r, rev_involutive.
  - assert (E : (match k with KSuper _ bi => Some (bi, nonempty args, rev (children_res (visit_children g (nested_init s)))) | _ => None end) = None)
      by (destruct k; try reflexivity; discriminate).
    match goal with |- match _ with Some _ => _ | None => fold_left ?f ?l ?a = None end =>
      replace a with (@None (bool * bool * list segs)) by (destruct k; try reflexivity; discriminate) end.
    apply IH. intros c Hi. apply R. now right.
Qed.

Lemma find_skip_fields : forall nf cs,
  forallb (fun c => is_field_kind (kind_of c)) (firstn nf cs) = true ->
  find (fun c => is_super_kind (kind_of c)) cs = find (fun c => is_super_kind (kind_of c)) (skipn nf cs).
Proof.
  induction nf as [|nf IH]; intros cs H; [reflexivity|]. destruct cs as [|c cs]; [reflexivity|].
  cbn [firstn forallb] in H. apply andb_true_iff in H. destruct H as [H1 H2]. cbn [find skipn].
  destruct c as [k a]. cbn [kind_of] in *. destruct k; try discriminate. cbn [is_super_kind]. now apply IH.
Qed.

Lemma inventory_childless_super : forall c, is_super_kind (kind_of c) = true -> nonempty (children_of c) = false ->
  inventory c = [].
Proof.
  intros [k a] H1 H2. cbn [kind_of children_of] in *. destruct k; try discriminate. destruct a; [reflexivity | discriminate].
Qed.

Lemma flat_inventory_childless : forall l,
  forallb (fun c => is_super_kind (kind_of c)) l = true ->
  forallb (fun c => negb (nonempty (children_of c))) l = true -> flat_map inventory l = [].
Proof.
  induction l as [|c l IH]; intros H1 H2; [reflexivity|]. cbn [forallb] in *.
  apply andb_true_iff in H1. destruct H1 as [A1 A2]. apply andb_true_iff in H2. destruct H2 as [B1 B2].
  apply negb_true_iff in B1. cbn [flat_map]. now rewrite (inventory_childless_super c A1 B1), IH.
Qed.

Lemma length_firstn_le : forall (A : Type) n (l : list A), n <= List.length l -> List.length (firstn n l) = n.
Proof. intros. rewrite firstn_length. lia. Qed.

Lemma nonempty_length : forall (A : Type) (l : list A), 0 < List.length l -> nonempty l = true.
Proof. intros A [|x l] H; [cbn in H; lia | reflexivity]. Qed.

Lemma sup_cases : forall nf nsup (cs : list pnode),
  nf + nsup <= List.length cs ->
  forallb (fun c => is_field_kind (kind_of c)) (firstn nf cs) = true ->
  forallb (fun c => is_super_kind (kind_of c)) (firstn nsup (skipn nf cs)) = true ->
  nsup = 0 \/
  exists first others,
    firstn nsup (skipn nf cs) = first :: others /\
    find (fun c => is_super_kind (kind_of c)) cs = Some first /\ is_super_kind (kind_of first) = true /\ In first cs.
Proof.
  intros nf nsup cs Hl Hf Hs. destruct nsup as [|k]; [now left|]. right.
  assert (Hl2 : 1 <= List.length (skipn nf cs)) by (rewrite skipn_length; lia).
  destruct (skipn nf cs) as [|first rest] eqn:E; [cbn in Hl2; lia|].
  cbn [firstn forallb] in *. apply andb_true_iff in Hs. destruct Hs as [Hs1 Hs2].
  exists first, (firstn k rest). refine (conj eq_refl (conj _ (conj Hs1 _))).
  - rewrite (find_skip_fields nf cs Hf), E. cbn [find]. now rewrite Hs1.
  - rewrite <- (firstn_skipn nf cs). apply in_or_app. right. rewrite E. now left.
Qed.

Lemma wfj_super : forall ctx ns c, is_super_kind (kind_of c) = true -> wfj ctx ns c = true ->
  forallb (wfj ctx ns) (children_of c) = true /\
  forallb (fun a => negb (is_super_kind (kind_of a))) (children_of c) = true.
Proof.
  intros ctx ns [k a] Hk W. cbn [kind_of children_of] in *. destruct k; try discriminate.
  cbn [wfj enters is_class_kind orb arity_ok andb] in W. apply andb_true_iff in W. tauto.
Qed.

Lemma class_post : forall ctx ns name ct fin nf nsup nfn cs rs sup old,
  Forall2 (post ctx (name :: ns)) cs rs -> List.length rs = List.length cs ->
  (nsup = 0 -> sup = None) ->
  (nsup <> 0 ->
   match find (fun c => is_super_kind (kind_of c)) cs with
   | None => sup = None
   | Some c => exists ct0 bi res, kind_of c = KSuper ct0 bi /\ sup = Some (bi, nonempty (children_of c), res) /\
                                  List.length res = List.length (children_of c) /\
                                  Forall2 (post ctx (name :: ns)) (children_of c) res
   end) ->
  post ctx ns (PN (KClass name ct fin nf nsup nfn) cs)
       (class_text name ct fin nf nsup nfn cs (ifaces ctx) sup old rs).
Proof.
  intros ctx ns name ct fin nf nsup nfn cs rs sup old P L Hs0 Hs1.
  split; [cbn [shape]; repeat eexists|]. intros W.
  cbn [wfj enters is_class_kind orb] in W. apply andb_true_iff in W. destruct W as [W Wk].
  apply andb_true_iff in W. destruct W as [A _]. cbn [arity_ok] in A.
  apply andb_true_iff in A. destruct A as [A A5]. apply andb_true_iff in A. destruct A as [A A4].
  apply andb_true_iff in A. destruct A as [A A3]. apply andb_true_iff in A. destruct A as [A1 A2].
  apply Nat.leb_le in A1.
  split.
  - (* marks *)
    intros Lx. cbn [lex lex_kind] in Lx. apply andb_true_iff in Lx. destruct Lx as [Ln Lcs].
    destruct (posts_lex _ _ _ _ P Wk Lcs) as [Trs _].
    (* the superclass arguments *)
    assert (Hsup : (forall bi ha res, sup = Some (bi, ha, res) -> Forall tidy res) /\
                   Permutation (if nonempty (fst (split_supers (ifaces ctx) (supers_of nf nsup cs))) || nonempty (firstn nf rs)
                                then sup_marks sup else [])
                               (flat_map inventory (firstn nsup (skipn nf cs)))).
    { destruct (sup_cases nf nsup cs ltac:(lia) A2 A3) as [-> | (first & others & E1 & E2 & E3 & E4)].
      - rewrite (Hs0 eq_refl). split; [discriminate|]. cbn [sup_marks firstn flat_map].
        match goal with |- context [if ?b then _ else _] => destruct b end; apply Permutation_refl.
      - assert (Hn : nsup <> 0) by (intros ->; discriminate).
        specialize (Hs1 Hn). rewrite E2 in Hs1. destruct Hs1 as (ct0 & bi & res & K1 & -> & Lr & Pr).
        rewrite forallb_forall in Wk. pose proof (Wk _ E4) as Wf.
        destruct (wfj_super _ _ _ E3 Wf) as [Wa Na].
        rewrite forallb_forall in Lcs. pose proof (Lcs _ E4) as Lf.
        assert (La : forallb lex (children_of first) = true).
        { destruct first as [k a]. cbn [lex children_of] in *. apply andb_true_iff in Lf. tauto. }
        destruct (posts_lex _ _ _ _ Pr Wa La) as [Tr Pm]. rewrite (flat_pinv_plain _ Na) in Pm.
        split; [intros bi' ha' res' Eq; injection Eq as <- <- <-; exact Tr|].
        unfold super_args_ok in A5. rewrite E1 in A5. apply andb_true_iff in A5. destruct A5 as [A5 A6].
        rewrite E1. cbn [flat_map].
        assert (Eo : flat_map inventory others = []).
        { apply flat_inventory_childless; [|exact A5]. rewrite E1 in A3. cbn [forallb] in A3. apply andb_true_iff in A3. tauto. }
        rewrite Eo, app_nil_r.
        assert (Ei : inventory first = flat_map inventory (children_of first)).
        { destruct first as [k a]. cbn [kind_of children_of] in *. subst k. reflexivity. }
        rewrite Ei. destruct (nonempty (children_of first)) eqn:En.
        + cbn [negb orb] in A6. rewrite K1 in A6. apply andb_true_iff in A6. destruct A6 as [B1 B2].
          apply negb_true_iff in B1. subst bi.
          assert (Ec : nonempty (fst (split_supers (ifaces ctx) (supers_of nf nsup cs))) || nonempty (firstn nf rs) = true).
          { apply orb_true_iff in B2. destruct B2 as [B2 | B2].
            - apply orb_true_iff. right. apply Nat.ltb_lt in B2. apply nonempty_length. rewrite firstn_length. lia.
            - apply orb_true_iff. now left. }
          rewrite Ec. cbn [sup_marks]. exact Pm.
        + assert (Ea : children_of first = []) by (destruct (children_of first); [reflexivity | discriminate]).
          rewrite Ea. cbn [flat_map].
          assert (Es : sup_marks (Some (bi, false, res)) = []) by (destruct bi; reflexivity).
          rewrite Es. match goal with |- context [if ?b then _ else _] => destruct b end; apply Permutation_refl. }
    destruct Hsup as [Hst Hsp].
    destruct (class_tm name ct fin nf nsup nfn cs (ifaces ctx) sup old rs Ln Trs Hst) as [T1 M1].
    split; [exact T1|]. eapply Permutation_trans; [exact M1|].
    unfold pinv. cbn [kind_of inventory own_marks]. apply Permutation_app_head.
    (* the children: fields ++ supers ++ (functions ++ type parameters) *)
    assert (Pf : Permutation (flat_map marks (firstn nf rs)) (flat_map inventory (firstn nf cs))).
    { destruct (posts_lex _ _ _ _ (Forall2_firstn _ _ _ nf _ _ P) (forallb_firstn _ _ nf _ Wk) (forallb_firstn _ _ nf _ Lcs)) as [_ Q].
      rewrite flat_pinv_plain in Q; [exact Q|].
      clear - A2. induction (firstn nf cs) as [|c l IH]; [reflexivity|]. cbn [forallb] in *.
      apply andb_true_iff in A2. destruct A2 as [B1 B2]. rewrite (IH B2), andb_true_r.
      destruct c as [k a]. cbn [kind_of] in *. destruct k; try discriminate; reflexivity. }
    assert (Pr : Permutation (flat_map marks (skipn (nf + nsup) rs)) (flat_map inventory (skipn (nf + nsup) cs))).
    { destruct (posts_lex _ _ _ _ (Forall2_skipn _ _ _ (nf + nsup) _ _ P) (forallb_skipn _ _ (nf + nsup) _ Wk)
                          (forallb_skipn _ _ (nf + nsup) _ Lcs)) as [_ Q].
      rewrite flat_pinv_plain in Q; [exact Q | exact A4]. }
    rewrite (flat_map_firstn_skipn _ _ inventory nf cs).
    rewrite (flat_map_firstn_skipn _ _ inventory nsup (skipn nf cs)). rewrite skipn_skipn.
    rewrite (Nat.add_comm nsup nf).
    rewrite (flat_map_firstn_skipn _ _ marks nfn (skipn (nf + nsup) rs)) in Pr. rewrite skipn_skipn in Pr.
    rewrite (Nat.add_comm nfn (nf + nsup)) in Pr.
    set (TP := flat_map marks (skipn (nf + nsup + nfn) rs)) in *.
    set (F := flat_map marks (firstn nf rs)) in *.
    set (FN := flat_map marks (firstn nfn (skipn (nf + nsup) rs))) in *.
    match goal with |- Permutation (TP ++ F ++ FN ++ ?S) _ => set (SM := S) in * end.
    apply Permutation_trans with (l' := F ++ SM ++ (FN ++ TP)).
    + eapply Permutation_trans; [apply Permutation_app_comm|]. rewrite <- !app_assoc.
      apply Permutation_app_head. rewrite !app_assoc. apply Permutation_app_tail. apply Permutation_app_comm.
    + apply Permutation_app; [exact Pf|]. apply Permutation_app; [exact Hsp | exact Pr].
  - (* balance *)
    intros Cl Cc. cbn [clean] in Cl. apply andb_true_iff in Cl. destruct Cl as [Ck Ccs]. jsplit Ck.
    pose proof (posts_clean _ _ _ _ P Wk Ccs Cc) as Hb.
    apply class_bal; auto.
    + (* fields *)
      unfold fields_of. intros p Hp. apply in_flat_map in Hp. destruct Hp as (c & Hc1 & Hc2).
      assert (Hin : In c cs) by (rewrite <- (firstn_skipn nf cs); apply in_or_app; now left).
      rewrite forallb_forall in Ccs. pose proof (Ccs _ Hin) as Cf. destruct c as [k a]. cbn [kind_of] in Hc2.
      destruct k; try (destruct Hc2; fail). destruct Hc2 as [<- | []]. cbn [clean] in Cf.
      apply andb_true_iff in Cf. destruct Cf as [Cf _]. jsplit Cf. cbn [fst snd]. auto.
    + (* superclass types *)
      apply forallb_forall. intros x Hx. apply in_map_iff in Hx. destruct Hx as (t & <- & Ht).
      unfold supers_of in Ht. apply in_flat_map in Ht. destruct Ht as (c & Hc1 & Hc2).
      assert (Hin : In c cs).
      { rewrite <- (firstn_skipn nf cs). apply in_or_app. right. rewrite <- (firstn_skipn nsup (skipn nf cs)).
        apply in_or_app. now left. }
      rewrite forallb_forall in Ccs. pose proof (Ccs _ Hin) as Cf. destruct c as [k a]. cbn [kind_of] in Hc2.
      destruct k; try (destruct Hc2; fail). destruct Hc2 as [<- | []]. cbn [clean] in Cf.
      apply andb_true_iff in Cf. destruct Cf as [Cf _]. jsplit Cf. exact Hc0.
    + (* superclass arguments *)
      intros bi ha res Eq.
      destruct (sup_cases nf nsup cs ltac:(lia) A2 A3) as [-> | (first & others & E1 & E2 & E3 & E4)].
      * rewrite (Hs0 eq_refl) in Eq. discriminate.
      * assert (Hn : nsup <> 0) by (intros ->; discriminate).
        specialize (Hs1 Hn). rewrite E2 in Hs1. destruct Hs1 as (ct0 & bi' & res' & K1 & -> & Lr & Pr).
        injection Eq as <- <- <-.
        rewrite forallb_forall in Wk. pose proof (Wk _ E4) as Wf. destruct (wfj_super _ _ _ E3 Wf) as [Wa Na].
        rewrite forallb_forall in Ccs. pose proof (Ccs _ E4) as Cf.
        assert (Ca : forallb clean (children_of first) = true).
        { destruct first as [k a]. cbn [clean children_of] in *. apply andb_true_iff in Cf. tauto. }
        exact (posts_clean _ _ _ _ Pr Wa Ca Cc).
Qed.

Lemma routed_super_args : forall ns c, routed false ns c = true -> is_super_kind (kind_of c) = true ->
  forallb (routed false ns) (children_of c) = true.
Proof.
  intros ns [k a] R Hk. cbn [kind_of children_of] in *. destruct k; try discriminate.
  cbn [routed enters] in R. apply andb_true_iff in R. tauto.
Qed.

Lemma visit_class_ok : forall cs kids gkids name ct fin nf nsup nfn ns s, namespace s = name :: ns ->
  Forall2 kid_ok cs kids ->
  Forall2 (fun c g => Forall2 kid_ok (children_of c) g) cs gkids ->
  forallb (routed false (namespace s)) cs = true ->
  vok s (visit_class_decl kids gkids name ct fin nf nsup nfn cs s) (forallb is_wf cs = true)
      (post (ctx_of s) ns (PN (KClass name ct fin nf nsup nfn) cs)).
Proof.
  intros cs kids gkids name ct fin nf nsup nfn ns s Ens Hk Hg R. unfold visit_class_decl.
  set (s0 := set_ident (ident s + 2) s).
  assert (R0 : forallb (routed false (namespace s0)) cs = true) by exact R.
  destruct (kids_run _ _ Hk s0 R0) as (rs & L & C & F & Iw & P).
  erewrite (pop_exact rs (children_res s)); [| exact L | exact C].
  change (ctx_of s0) with (ctx_of s) in P. change (namespace s0) with (namespace s) in P. rewrite Ens in P.
  set (s' := set_children_res (children_res s) (visit_children kids s0)).
  assert (En : namespace s' = namespace s) by (unfold s'; stc; exact (f_ns _ _ F)).
  assert (Ec : ctx_of s' = ctx_of s) by (unfold s', ctx_of; stc; now rewrite (f_ctx _ _ F)).
  unfold vok. cbn [fst snd]. refine (conj eq_refl (conj _ (conj _ _))).
  - subst s' s0. fr.
  - intros W. subst s'. stc. now rewrite (Iw W).
  - rewrite Ec. apply class_post; auto.
    + intros ->. reflexivity.
    + intros Hn. replace (Nat.eqb nsup 0) with false by (symmetry; now apply Nat.eqb_neq).
      assert (Rs : forall c, In c cs -> is_super_kind (kind_of c) = true ->
                             forallb (routed false (namespace s')) (children_of c) = true).
      { intros c Hi Hsk. rewrite En. apply routed_super_args; [|exact Hsk].
        rewrite forallb_forall in R. now apply R. }
      pose proof (first_super_spec cs gkids s' Hg Rs) as Sp.
      destruct (find (fun c => is_super_kind (kind_of c)) cs) as [c|]; [|exact Sp].
      destruct Sp as (ct0 & bi & res & K1 & E1 & Lr & Pr). exists ct0, bi, res.
      rewrite Ec, En, Ens in Pr. auto.
Qed.

(* ------------------------------------------------------------------------------------ *)
(* every visit                                                                            *)

Definition goodg (n : pnode) : Prop := good n /\ Forall good (children_of n).

Lemma routed_kids_plain : forall ns k cs, enters k = None ->
  (match k with KCond => False | _ => True end) ->
  routed true ns (PN k cs) = true -> forallb (routed false ns) cs = true.
Proof.
  intros ns k cs He Hk R. cbn [routed orb andb] in R. rewrite He in R.
  destruct k; try exact R; contradiction.
Qed.

Lemma routed_kids_enter : forall ns k name cs, enters k = Some name ->
  routed true ns (PN k cs) = true -> forallb (routed false (name :: ns)) cs = true.
Proof. intros ns k name cs He R. cbn [routed orb andb] in R. now rewrite He in R. Qed.

Lemma good_of_vok : forall k cs s f (W : Prop),
  (is_wf (PN k cs) = true -> W) ->
  (match k with KIs _ _ _ => False | _ => True end) ->
  (forall s0, namespace s0 = namespace s -> ctx_of s0 = ctx_of s -> is_stack s0 = is_stack s ->
              vok s0 (f s0) W (post (ctx_of s) (namespace s) (PN k cs))) ->
  exists r s1, append_to k f s = route k r s1 /\ children_res s1 = children_res s /\ frame s s1 /\
               istack (PN k cs) s s1 /\ post (ctx_of s) (namespace s) (PN k cs) r.
Proof.
  intros k cs s f W HW Hk H.
  destruct (append_to_ok k f s (fun l => W -> l = is_stack s) (post (ctx_of s) (namespace s) (PN k cs))) as (r & s1 & E & C & F & I & P).
  - cbv zeta. destruct (H (set_nodes_stack (Some k :: nodes_stack s) s) eq_refl eq_refl eq_refl) as (C & F & I & P).
    auto.
  - exists r, s1. refine (conj E (conj C (conj F (conj _ P)))).
    destruct k; try contradiction; cbn [istack]; intros Wf; apply I, HW, Wf.
Qed.

Lemma vok_weaken : forall s p (W W' : Prop) Q, (W' -> W) -> vok s p W Q -> vok s p W' Q.
Proof. intros s p W W' Q H (C & F & I & P). unfold vok. refine (conj C (conj F (conj _ P))). intros w. apply I, H, w. Qed.

Lemma vok_true : forall s p (W : Prop) Q, vok s p True Q -> vok s p W Q.
Proof. intros. eapply vok_weaken; [|eassumption]. auto. Qed.

Lemma is_wf_kids : forall k cs, (match k with KIs _ _ _ | KCond => False | _ => True end) ->
  is_wf (PN k cs) = true -> forallb is_wf cs = true.
Proof. intros k cs Hk W. destruct k; try contradiction; exact W. Qed.

Lemma good_of_vok2 : forall k cs s f (W : Prop),
  (is_wf (PN k cs) = true -> W) ->
  (match k with KIs _ _ _ => False | _ => True end) ->
  (let s0 := set_nodes_stack (Some k :: nodes_stack s) s in
   vok s0 (f s0) W (post (ctx_of s0) (namespace s0) (PN k cs))) ->
  exists r s1, append_to k f s = route k r s1 /\ children_res s1 = children_res s /\ frame s s1 /\
               istack (PN k cs) s s1 /\ post (ctx_of s) (namespace s) (PN k cs) r.
Proof.
  intros k cs s f W HW Hk H. cbv zeta in H.
  destruct (append_to_ok k f s (fun l => W -> l = is_stack s) (post (ctx_of s) (namespace s) (PN k cs))) as (r & s1 & E & C & F & I & P).
  - cbv zeta. destruct H as (C & F & I & P). auto.
  - exists r, s1. refine (conj E (conj C (conj F (conj _ P)))).
    destruct k; try contradiction; cbn [istack]; intros Wf; apply I, HW, Wf.
Qed.

Lemma vok_change_ns : forall name g s0 (W : Prop) Q,
  (let s1 := set_namespace (name :: namespace s0) s0 in vok s1 (g s1) W Q) ->
  vok s0 (change_namespace name g s0) W Q.
Proof.
  intros name g s0 W Q H. cbv zeta in H. destruct H as (C & F & I & P).
  apply (change_namespace_ok name g s0 (fun l => W -> l = is_stack s0) Q). cbv zeta. auto.
Qed.

Lemma visit_good : forall n, goodg n.
Proof.
  apply jnode_ind. intros k cs IH. split.
  2:{ cbn [children_of]. eapply Forall_impl; [|exact IH]. intros c [G _]. exact G. }
  assert (Gk : Forall good cs) by (eapply Forall_impl; [|exact IH]; intros c [G _]; exact G).
  pose proof (kids_ok_map cs Gk) as Hk.
  assert (Hg : Forall2 (fun c g => Forall2 kid_ok (children_of c) g) cs
                       (map (fun c => map (fun g => fun s' => visit g s') (children_of c)) cs)).
  { clear - IH. induction IH as [|c l [_ Hc] Hl IHl]; cbn [map]; constructor; [now apply kids_ok_map | exact IHl]. }
  intros s R. rewrite visit_unfold. unfold visit_kind. cbn [kind_of].
  destruct k.
  - (* Block *)
    apply (good_of_vok2 _ _ _ _ (forallb is_wf cs = true)); [now apply is_wf_kids | exact I|].
    cbv zeta. apply visit_block_ok; [exact Hk|]. now apply (routed_kids_plain _ (KBlock h)).
  - apply (good_of_vok2 _ _ _ _ True); [auto | exact I|]. cbv zeta. apply visit_super_ok.
  - (* Class *)
    apply (good_of_vok2 _ _ _ _ (forallb is_wf cs = true)); [now apply is_wf_kids | exact I|].
    cbv zeta. apply vok_change_ns. cbv zeta.
    match goal with |- vok ?S _ _ _ => apply (visit_class_ok cs _ _ name _ _ _ _ _ (namespace s) S) end; auto;
    now apply (routed_kids_enter _ (KClass name class_type is_final nfields nsupers nfuncs)).
  - apply (good_of_vok2 _ _ _ _ True); [auto | exact I|]. cbv zeta. apply visit_type_param_ok.
  - apply (good_of_vok2 _ _ _ _ (forallb is_wf cs = true)); [now apply is_wf_kids | exact I|].
    cbv zeta. apply visit_var_decl_ok; [exact Hk|]. now apply (routed_kids_plain _ (KVarDecl name is_final var_type inferred)).
  - apply (good_of_vok2 _ _ _ _ (forallb is_wf cs = true)); [now apply is_wf_kids | exact I|].
    cbv zeta. apply visit_call_argument_ok; [exact Hk|]. now apply (routed_kids_plain _ KCallArg).
  - apply (good_of_vok2 _ _ _ _ True); [auto | exact I|]. cbv zeta. apply visit_field_ok.
  - apply (good_of_vok2 _ _ _ _ True); [auto | exact I|]. cbv zeta. apply visit_param_ok.
  - (* Func *)
    apply (good_of_vok2 _ _ _ _ (forallb is_wf cs = true)); [now apply is_wf_kids | exact I|].
    cbv zeta. apply vok_change_ns. cbv zeta.
    match goal with |- vok ?S _ _ _ => apply (visit_func_decl_ok cs _ name ret_type _ _ _ _ _ (namespace s) S) end; auto;
    now apply (routed_kids_enter _ (KFunc name ret_type inferred is_final has_body nparams ntparams)).
  - (* Lambda *)
    apply (good_of_vok2 _ _ _ _ (forallb is_wf cs = true)); [now apply is_wf_kids | exact I|].
    cbv zeta. apply vok_change_ns. cbv zeta.
    match goal with |- vok ?S _ _ _ => apply (visit_lambda_ok cs _ name _ _ _ (namespace s) S) end; auto;
    now apply (routed_kids_enter _ (KLambda name ret_type nparams has_body)).
  - apply (good_of_vok2 _ _ _ _ True); [auto | exact I|]. cbv zeta. apply visit_bottom_ok.
  - apply (good_of_vok2 _ _ _ _ True); [auto | exact I|]. cbv zeta. apply visit_integer_ok.
  - apply (good_of_vok2 _ _ _ _ True); [auto | exact I|]. cbv zeta. apply visit_real_ok.
  - apply (good_of_vok2 _ _ _ _ True); [auto | exact I|]. cbv zeta. apply visit_char_ok.
  - apply (good_of_vok2 _ _ _ _ True); [auto | exact I|]. cbv zeta. apply visit_string_ok.
  - apply (good_of_vok2 _ _ _ _ True); [auto | exact I|]. cbv zeta. apply visit_boolean_ok.
  - apply (good_of_vok2 _ _ _ _ (forallb is_wf cs = true)); [now apply is_wf_kids | exact I|].
    cbv zeta. apply visit_array_ok; [exact Hk|]. now apply (routed_kids_plain _ (KArray array_type length)).
  - apply (good_of_vok2 _ _ _ _ True); [auto | exact I|]. cbv zeta. apply visit_variable_ok.
  - apply (good_of_vok2 _ _ _ _ (forallb is_wf cs = true)); [now apply is_wf_kids | exact I|].
    cbv zeta. apply visit_binary_op_ok; [exact Hk|]. now apply (routed_kids_plain _ (KBinOp op is_not)).
  - (* Cond *)
    apply (good_of_vok2 _ _ _ _ (is_wf (PN KCond cs) = true)); [auto | exact I|].
    cbv zeta. apply visit_conditional_ok; [exact Hk | exact R].
  - (* Is *)
    destruct (append_to_ok (KIs is_not rexpr_name rexpr) (visit_is (map (fun c s' => visit c s') cs) is_not rexpr_name cs) s
                (fun l => forallb is_wf cs = true -> l = (match var_name_of cs with Some x => [Some x] | None => [] end) ++ is_stack s)
                (post (ctx_of s) (namespace s) (PN (KIs is_not rexpr_name rexpr) cs))) as (r & s1 & E & C & F & I & P).
    + cbv zeta. apply (visit_is_ok cs _ is_not rexpr_name rexpr (set_nodes_stack (Some (KIs is_not rexpr_name rexpr) :: nodes_stack s) s));
        [exact Hk|]. now apply (routed_kids_plain _ (KIs is_not rexpr_name rexpr)).
    + exists r, s1. refine (conj E (conj C (conj F (conj _ P)))). exact I.
  - apply (good_of_vok2 _ _ _ _ (forallb is_wf cs = true)); [now apply is_wf_kids | exact I|].
    cbv zeta. apply visit_new_ok; [exact Hk|]. now apply (routed_kids_plain _ (KNew class_type)).
  - apply (good_of_vok2 _ _ _ _ (forallb is_wf cs = true)); [now apply is_wf_kids | exact I|].
    cbv zeta. apply visit_field_access_ok; [exact Hk|]. now apply (routed_kids_plain _ (KFieldAccess field)).
  - apply (good_of_vok2 _ _ _ _ (forallb is_wf cs = true)); [now apply is_wf_kids | exact I|].
    cbv zeta. apply visit_func_ref_ok; [exact Hk|]. now apply (routed_kids_plain _ (KFuncRef func)).
  - apply (good_of_vok2 _ _ _ _ (forallb is_wf cs = true)); [now apply is_wf_kids | exact I|].
    cbv zeta. apply visit_func_call_ok; [exact Hk|].
    now apply (routed_kids_plain _ (KFuncCall func type_args can_infer is_ref_call has_receiver)).
  - apply (good_of_vok2 _ _ _ _ (forallb is_wf cs = true)); [now apply is_wf_kids | exact I|].
    cbv zeta. apply visit_assign_ok; [exact Hk|]. now apply (routed_kids_plain _ (KAssign name has_receiver)).
Qed.

(* ------------------------------------------------------------------------------------ *)
(* C11: the statements                                                                    *)

Definition restored (s s' : st) : Prop :=
  ident s' = ident s /\ cast_number s' = cast_number s /\ fnv s' = fnv s /\ nfb s' = nfb s /\
  inside_is s' = inside_is s /\ inside_is_function s' = inside_is_function s /\
  nodes_stack s' = nodes_stack s /\ namespace s' = namespace s /\ smart_casts s' = smart_casts s /\
  context s' = context s /\ types_set s' = types_set s /\
  x_counter s <= x_counter s' /\ incl (fun_ifaces s) (fun_ifaces s').

Lemma restored_spelled_out_lem : forall s s',
  restored s s' <->
  (ident s' = ident s /\ cast_number s' = cast_number s /\ fnv s' = fnv s /\ nfb s' = nfb s /\
   inside_is s' = inside_is s /\ inside_is_function s' = inside_is_function s /\
   nodes_stack s' = nodes_stack s /\ namespace s' = namespace s /\ smart_casts s' = smart_casts s /\
   context s' = context s /\ types_set s' = types_set s /\
   x_counter s <= x_counter s' /\ incl (fun_ifaces s) (fun_ifaces s')).
Proof. intros. apply iff_refl. Qed.

Lemma frame_restored : forall s s', frame s s' -> restored s s' /\ main_children s' = main_children s /\ main_method s' = main_method s.
Proof. intros s s' []. unfold restored. repeat split; assumption. Qed.

Lemma restored_push : forall s s1 r, restored s s1 -> restored s (push r s1).
Proof. intros s s1 r H. exact H. Qed.

Lemma visit_restores_lem : forall n s, routed false (namespace s) n = true ->
  exists r,
    children_res (visit n s) = r :: children_res s /\
    main_children (visit n s) = main_children s /\ main_method (visit n s) = main_method s /\
    restored s (visit n s) /\
    (is_wf n = true -> is_stack (visit n s) = is_stack s).
Proof.
  intros n s R. destruct (routed_false _ _ R) as [R1 R2].
  destruct (visit_good n) as [G _]. destruct (G s R1) as (r & s1 & E & C & F & I & _).
  assert (E' : visit n s = push r s1).
  { rewrite E. apply route_push. now rewrite (f_ns _ _ F). }
  destruct (frame_restored _ _ F) as (Rs & M1 & M2).
  exists r. rewrite E'. refine (conj _ (conj M1 (conj M2 (conj Rs _)))).
  - stc. now rewrite C.
  - intros W. stc. now apply (istack_wf n).
Qed.

Lemma not_global_deep : forall ns : list string, 2 <= List.length ns -> ns_is_global ns = false.
Proof.
  intros [|a [|b l]] H; cbn in H; try lia. unfold ns_is_global. cbn [list_str_eqb].
  apply andb_false_r.
Qed.

Lemma routed_deep : forall n top ns, 2 <= List.length ns -> routed top ns n = true.
Proof.
  apply (jnode_ind (fun n => forall top ns, 2 <= List.length ns -> routed top ns n = true)).
  intros k cs IH top ns H. cbn [routed]. rewrite (not_global_deep ns H). cbn [andb negb]. rewrite orb_true_r. cbn [andb].
  assert (Hall : forall ns', 2 <= List.length ns' -> forallb (routed false ns') cs = true).
  { intros ns' H'. apply forallb_forall. intros c Hc. rewrite Forall_forall in IH. now apply IH. }
  destruct (enters k) as [name|] eqn:Ee.
  - apply Hall. cbn. lia.
  - destruct k; try (now apply Hall).
    destruct cs as [|c [|tb [|fb [|x rest]]]]; try (now apply Hall).
    destruct (is_is_kind (kind_of c)); [|now apply Hall].
    rewrite Forall_forall in IH.
    rewrite !IH; cbn [andb]; try reflexivity; cbn [In List.length]; auto; lia.
Qed.

Lemma visit_restores_inner_lem : forall n s, 2 <= List.length (namespace s) ->
  exists r,
    children_res (visit n s) = r :: children_res s /\
    main_children (visit n s) = main_children s /\ main_method (visit n s) = main_method s /\
    restored s (visit n s) /\
    (is_wf n = true -> is_stack (visit n s) = is_stack s).
Proof. intros n s H. apply visit_restores_lem. now apply routed_deep. Qed.

(* a declaration of the program: the result goes to Main *)
Lemma visit_top_lem : forall n s, namespace s = ["global"] -> routed true ["global"] n = true ->
  exists r,
    restored s (visit n s) /\ (is_wf n = true -> is_stack (visit n s) = is_stack s) /\
    (if is_main_func (kind_of n)
     then children_res (visit n s) = children_res s /\ main_children (visit n s) = main_children s /\
          main_method (visit n s) = r
     else if is_var_or_func (kind_of n)
     then children_res (visit n s) = children_res s /\ main_children (visit n s) = r :: main_children s /\
          main_method (visit n s) = main_method s
     else children_res (visit n s) = r :: children_res s /\ main_children (visit n s) = main_children s /\
          main_method (visit n s) = main_method s).
Proof.
  intros n s Hns R. destruct (visit_good n) as [G _]. rewrite <- Hns in R.
  destruct (G s R) as (r & s1 & E & C & F & I & _).
  destruct (frame_restored _ _ F) as (Rs & M1 & M2). exists r. rewrite E. unfold route.
  rewrite (f_ns _ _ F), Hns. cbn [ns_is_global list_str_eqb String.eqb Ascii.eqb Bool.eqb andb].
  destruct (is_main_func (kind_of n)) eqn:Em; [|destruct (is_var_or_func (kind_of n)) eqn:Ev]; cbn [andb];
    (refine (conj Rs (conj _ _)); [intros W; stc; now apply (istack_wf n) | stc; rewrite ?C, ?M1, ?M2; auto]).
Qed.

(* ------------------------------------------------------------------------------------ *)
(* C12: the whole program                                                                 *)

Definition outm (s : st) : list mark :=
  flat_map marks (children_res s) ++ flat_map marks (main_children s) ++ marks (main_method s).

Definition top_ok (ctx : jctx) (d : pnode) : bool :=
  (is_class_kind (kind_of d) || is_var_or_func (kind_of d)) &&
  routed true ["global"] d && wfj ctx ["global"] d && is_wf d.

Lemma pinv_top : forall d, (is_class_kind (kind_of d) || is_var_or_func (kind_of d)) = true -> pinv d = inventory d.
Proof. intros [k cs] H. unfold pinv. cbn [kind_of] in *. destruct k; try reflexivity; discriminate. Qed.

Lemma count_mains_cons : forall d ds, count_mains (d :: ds) = (if is_main_func (kind_of d) then 1 else 0) + count_mains ds.
Proof. intros. unfold count_mains. cbn [filter]. destruct (is_main_func (kind_of d)); reflexivity. Qed.

Lemma main_is_func : forall k, is_main_func k = true -> is_var_or_func k = true.
Proof. intros k H. destruct k; try discriminate; reflexivity. Qed.

Lemma top_run : forall ctx ds s,
  namespace s = ["global"] -> ctx_of s = ctx ->
  forallb (top_ok ctx) ds = true -> forallb lex ds = true ->
  (count_mains ds = 0 \/ (count_mains ds <= 1 /\ main_method s = [])) ->
  Forall tidy (children_res s) -> Forall tidy (main_children s) -> tidy (main_method s) ->
  let s' := visit_children (map (fun d => fun s' => visit d s') ds) s in
  Forall tidy (children_res s') /\ Forall tidy (main_children s') /\ tidy (main_method s') /\
  Permutation (outm s') (flat_map inventory ds ++ outm s) /\
  List.length (children_res s') <= List.length ds + List.length (children_res s).
Proof.
  intros ctx ds. induction ds as [|d ds IH]; intros s Hns Hctx Hok Hlex Hm T1 T2 T3; cbv zeta.
  - cbn. refine (conj T1 (conj T2 (conj T3 (conj (Permutation_refl _) _)))). lia.
  - cbn [forallb] in Hok, Hlex. apply andb_true_iff in Hok. destruct Hok as [Hd Hds].
    apply andb_true_iff in Hlex. destruct Hlex as [Ld Lds].
    unfold top_ok in Hd. apply andb_true_iff in Hd. destruct Hd as [Hd Wis]. apply andb_true_iff in Hd.
    destruct Hd as [Hd Wd]. apply andb_true_iff in Hd. destruct Hd as [Kd Rd].
    destruct (visit_good d) as [G _]. rewrite <- Hns in Rd.
    destruct (G s Rd) as (r & s1 & E & C & F & I & P). rewrite Hctx, Hns in P.
    destruct P as [_ P]. destruct (P Wd) as (Pl & _). destruct (Pl Ld) as [Tr Pr]. rewrite (pinv_top d Kd) in Pr.
    cbn [map]. unfold visit_children. cbn [fold_left]. fold (visit_children (map (fun d0 => fun s' => visit d0 s') ds) (visit d s)).
    rewrite E. set (s2 := route (kind_of d) r s1).
    assert (Hs2 : namespace s2 = ["global"] /\ ctx_of s2 = ctx).
    { unfold s2, route. destruct (_ && _); [|destruct (_ && _)]; unfold ctx_of; stc;
        rewrite (f_ns _ _ F), (f_ctx _ _ F); auto. }
    destruct Hs2 as [Hns2 Hctx2].
    rewrite count_mains_cons in Hm.
    assert (Hr : Forall tidy (children_res s2) /\ Forall tidy (main_children s2) /\ tidy (main_method s2) /\
                 Permutation (outm s2) (inventory d ++ outm s) /\
                 List.length (children_res s2) <= 1 + List.length (children_res s) /\
                 (count_mains ds = 0 \/ (count_mains ds <= 1 /\ main_method s2 = []))).
    { unfold s2, route, outm. rewrite (f_ns _ _ F), Hns.
      cbn [ns_is_global list_str_eqb String.eqb Ascii.eqb Bool.eqb andb].
      destruct (is_main_func (kind_of d)) eqn:Em.
      - stc. rewrite C, (f_mc _ _ F).
        assert (Hm0 : count_mains ds = 0 /\ main_method s = []) by (destruct Hm as [Hm | [Hm1 Hm2]]; [lia | split; [lia | exact Hm2]]).
        destruct Hm0 as [Hm1 Hm2]. refine (conj T1 (conj T2 (conj Tr (conj _ (conj _ _))))); [|lia|now left].
        rewrite Hm2. cbn [marks flat_map]. rewrite app_nil_r.
        rewrite !app_assoc. eapply Permutation_trans; [apply Permutation_app_comm|]. rewrite <- app_assoc.
        now apply Permutation_app_tail.
      - assert (Hm' : count_mains ds = 0 \/ count_mains ds <= 1 /\ main_method s = []) by (cbn in Hm; exact Hm).
        destruct (is_var_or_func (kind_of d)) eqn:Ev; stc; rewrite ?C, ?(f_mc _ _ F), ?(f_mm _ _ F).
        + refine (conj T1 (conj (Forall_cons _ Tr T2) (conj T3 (conj _ (conj _ _))))); [|lia|].
          * cbn [flat_map]. rewrite <- !app_assoc.
            eapply Permutation_trans; [apply Permutation_app_swap_app|]. now apply Permutation_app_tail.
          * destruct Hm' as [Hm' | [Hm1 Hm2]]; [now left | right; split; [exact Hm1 | rewrite ?(f_mm _ _ F); exact Hm2]].
        + refine (conj (Forall_cons _ Tr T1) (conj T2 (conj T3 (conj _ (conj _ _))))); [|cbn; lia|].
          * cbn [flat_map]. rewrite <- !app_assoc. now apply Permutation_app_tail.
          * destruct Hm' as [Hm' | [Hm1 Hm2]]; [now left | right; split; [exact Hm1 | rewrite ?(f_mm _ _ F); exact Hm2]]. }
    destruct Hr as (U1 & U2 & U3 & U4 & U5 & U6).
    destruct (IH s2 Hns2 Hctx2 Hds Lds U6 U1 U2 U3) as (V1 & V2 & V3 & V4 & V5).
    refine (conj V1 (conj V2 (conj V3 (conj _ _)))).
    + eapply Permutation_trans; [exact V4|]. cbn [flat_map]. rewrite <- app_assoc.
      eapply Permutation_trans; [apply Permutation_app_head; exact U4|].
      rewrite !app_assoc. apply Permutation_app_tail. apply Permutation_app_comm.
    + cbn [List.length]. lia.
Qed.

Lemma pop_all : forall n s, List.length (children_res s) <= n -> fst (pop_res n s) = rev (children_res s).
Proof. intros n s H. unfold pop_res. cbn [fst]. now rewrite firstn_all2. Qed.

Lemma wf_program_tops : forall p, wf_program p = true ->
  forallb (top_ok (pctx p)) (decls p) = true /\ count_mains (decls p) <= 1.
Proof.
  intros p H. unfold wf_program in H. apply andb_true_iff in H. destruct H as [H1 H2].
  split; [exact H1 | now apply Nat.leb_le].
Qed.

Lemma print_segs_eq : forall pkg p, print_segs pkg p = fst (visit_program_st pkg p init_st).
Proof. intros. unfold print_segs, visit_program, init_tr. cbn [tst]. destruct (visit_program_st pkg p init_st). reflexivity. Qed.

Lemma declares_exactly_lem : forall pkg p,
  wf_program p = true -> lex_program p = true ->
  Permutation (marks (print_segs pkg p)) (program_inventory p).
Proof.
  intros pkg p W L. destruct (wf_program_tops p W) as [W1 W2].
  rewrite print_segs_eq. unfold visit_program_st.
  set (s0 := set_context (Some (pctx p)) (set_types_set true init_st)).
  assert (Hm : count_mains (decls p) = 0 \/ count_mains (decls p) <= 1 /\ main_method s0 = []) by (right; split; [exact W2 | reflexivity]).
  destruct (top_run (pctx p) (decls p) s0 eq_refl eq_refl W1 L Hm (Forall_nil _) (Forall_nil _) tidy_nil) as (V1 & V2 & V3 & V4 & V5).
  cbv zeta in V1, V2, V3, V4, V5.
  change (map visit (decls p)) with (map (fun d => fun s' => visit d s') (decls p)).
  set (s1 := visit_children (map (fun d => fun s' => visit d s') (decls p)) s0) in *.
  unfold pop_res. cbn [fst].
  stc. rewrite firstn_all2 by (cbn [s0 children_res List.length] in V5; stc; rewrite Nat.add_0_r in V5; exact V5).
  eapply Permutation_trans; [apply program_marks; [exact V2 | exact V3]|].
  unfold outm in V4. cbn [s0 children_res main_children main_method flat_map marks] in V4. stc. rewrite !app_nil_r in V4.
  unfold program_inventory. eapply Permutation_trans; [|exact V4].
  rewrite (app_assoc _ _ (flat_map marks (rev (children_res s1)))).
  eapply Permutation_trans; [apply Permutation_app_comm|]. apply Permutation_app_tail. apply flat_map_rev_perm.
Qed.

Lemma top_run_bal : forall ctx ds s,
  namespace s = ["global"] -> ctx_of s = ctx ->
  forallb (top_ok ctx) ds = true -> forallb clean ds = true -> clean_ctx ctx = true ->
  Forall Bal (children_res s) -> Forall Bal (main_children s) -> Bal (main_method s) ->
  let s' := visit_children (map (fun d => fun s' => visit d s') ds) s in
  Forall Bal (children_res s') /\ Forall Bal (main_children s') /\ Bal (main_method s').
Proof.
  intros ctx ds. induction ds as [|d ds IH]; intros s Hns Hctx Hok Hcl Hcc T1 T2 T3; cbv zeta.
  - cbn. auto.
  - cbn [forallb] in Hok, Hcl. apply andb_true_iff in Hok. destruct Hok as [Hd Hds].
    apply andb_true_iff in Hcl. destruct Hcl as [Ld Lds].
    unfold top_ok in Hd. apply andb_true_iff in Hd. destruct Hd as [Hd Wis]. apply andb_true_iff in Hd.
    destruct Hd as [Hd Wd]. apply andb_true_iff in Hd. destruct Hd as [Kd Rd].
    destruct (visit_good d) as [G _]. rewrite <- Hns in Rd.
    destruct (G s Rd) as (r & s1 & E & C & F & I & P). rewrite Hctx, Hns in P.
    destruct P as [_ P]. destruct (P Wd) as (_ & Pb). pose proof (Pb Ld Hcc) as Br.
    cbn [map]. unfold visit_children. cbn [fold_left]. fold (visit_children (map (fun d0 => fun s' => visit d0 s') ds) (visit d s)).
    rewrite E. set (s2 := route (kind_of d) r s1).
    assert (Hs2 : namespace s2 = ["global"] /\ ctx_of s2 = ctx).
    { unfold s2, route. destruct (_ && _); [|destruct (_ && _)]; unfold ctx_of; stc;
        rewrite (f_ns _ _ F), (f_ctx _ _ F); auto. }
    destruct Hs2 as [Hns2 Hctx2].
    assert (Hr : Forall Bal (children_res s2) /\ Forall Bal (main_children s2) /\ Bal (main_method s2)).
    { unfold s2, route. destruct (_ && _); [|destruct (_ && _)]; stc; rewrite ?C, ?(f_mc _ _ F), ?(f_mm _ _ F); auto. }
    destruct Hr as (U1 & U2 & U3). exact (IH s2 Hns2 Hctx2 Hds Lds Hcc U1 U2 U3).
Qed.

Lemma print_program_flatten : forall pkg p, print_program pkg p = flatten (print_segs pkg p).
Proof. reflexivity. Qed.

Lemma brackets_balanced_lem : forall pkg p,
  wf_program p = true -> clean_program pkg p = true ->
  balanced "("%char ")"%char (print_program pkg p) = true /\
  balanced "{"%char "}"%char (print_program pkg p) = true.
Proof.
  intros pkg p W Cl. destruct (wf_program_tops p W) as [W1 _].
  unfold clean_program in Cl. apply andb_true_iff in Cl. destruct Cl as [Cl C3].
  apply andb_true_iff in Cl. destruct Cl as [C1 C2].
  rewrite print_program_flatten, print_segs_eq. unfold visit_program_st.
  set (s0 := set_context (Some (pctx p)) (set_types_set true init_st)).
  destruct (top_run_bal (pctx p) (decls p) s0 eq_refl eq_refl W1 C3 C2 (Forall_nil _) (Forall_nil _) Bal_nil) as (V1 & V2 & V3).
  cbv zeta in V1, V2, V3.
  change (map visit (decls p)) with (map (fun d => fun s' => visit d s') (decls p)).
  set (s1 := visit_children (map (fun d => fun s' => visit d s') (decls p)) s0) in *.
  unfold pop_res. cbn [fst]. stc.
  assert (B : Bal (program_text pkg (main_children s1) (main_method s1) (fun_ifaces s1)
                                (rev (firstn (List.length (decls p)) (children_res s1))))).
  { apply program_bal; auto. apply Forall_rev. now apply Forall_firstn. }
  destruct B as [B1 B2]. split; now apply neutral_balanced.
Qed.

(* ------------------------------------------------------------------------------------ *)
(* C12: the structural statements                                                         *)

Lemma visit_shape_lem : forall n s, routed false (namespace s) n = true ->
  exists r, children_res (visit n s) = r :: children_res s /\ shape n r.
Proof.
  intros n s R. destruct (routed_false _ _ R) as [R1 R2].
  destruct (visit_good n) as [G _]. destruct (G s R1) as (r & s1 & E & C & F & I & P).
  exists r. split; [|exact (proj1 P)]. rewrite E, route_push by now rewrite (f_ns _ _ F). stc. now rewrite C.
Qed.

Lemma var_decl_shape_lem : forall name fin vt inf cs s,
  routed false (namespace s) (PN (KVarDecl name fin vt inf) cs) = true ->
  exists mp idt cr,
    children_res (visit (PN (KVarDecl name fin vt inf) cs) s) =
    (T idt ++ T (if fin then "final " else "") ++ T (type_name inf) ++ T " " ++ T mp ++
     [Decl DVar name] ++ T " = " ++ lstrip_segs (nth_seg 0 cr) ++ T ";") :: children_res s.
Proof.
  intros name fin vt inf cs s R. destruct (visit_shape_lem _ s R) as (r & E & mp & idt & cr & ->).
  exists mp, idt, cr. exact E.
Qed.

Lemma var_type_absent_lem : forall name fin inf cs s,
  routed false (namespace s) (PN (KVarDecl name fin None inf) cs) = true ->
  exists mp idt cr,
    children_res (visit (PN (KVarDecl name fin None inf) cs) s) =
    (T idt ++ T (if fin then "final " else "") ++ T (type_name inf) ++ T " " ++ T mp ++
     [Decl DVar name] ++ T " = " ++ lstrip_segs (nth_seg 0 cr) ++ T ";") :: children_res s.
Proof. intros. now apply var_decl_shape_lem. Qed.

Lemma func_decl_shape_lem : forall name rt inf fin hb np ntp cs s,
  routed false (namespace s) (PN (KFunc name rt inf fin hb np ntp) cs) = true ->
  exists nested close cr,
    children_res (visit (PN (KFunc name rt inf fin hb np ntp) cs) s) =
    func_decl_text name inf fin hb np ntp (negb (hb && last_is_block cs)) nested close cr :: children_res s.
Proof.
  intros name rt inf fin hb np ntp cs s R. destruct (visit_shape_lem _ s R) as (r & E & nested & close & cr & ->).
  exists nested, close, cr. exact E.
Qed.

Lemma lambda_shape_lem : forall name rt np hb cs s,
  routed false (namespace s) (PN (KLambda name rt np hb) cs) = true ->
  exists sm cr,
    children_res (visit (PN (KLambda name rt np hb) cs) s) =
    lambda_text rt np hb (negb (hb && last_is_block cs)) sm cr :: children_res s.
Proof.
  intros name rt np hb cs s R. destruct (visit_shape_lem _ s R) as (r & E & sm & cr & ->). exists sm, cr. exact E.
Qed.

Lemma lambda_ret_type_lem : forall rt rt' np hb ie sm cr, opt_is_void rt = opt_is_void rt' ->
  lambda_text rt np hb ie sm cr = lambda_text rt' np hb ie sm cr.
Proof. intros. unfold lambda_text. now rewrite H. Qed.

Lemma new_shape_lem : forall ct cs s, routed false (namespace s) (PN (KNew ct) cs) = true ->
  exists idt sm cr,
    children_res (visit (PN (KNew ct) cs) s) =
    (T idt ++ T "new " ++ T (new_type_text ct) ++ paren (joins (T ", ") cr) ++ T sm) :: children_res s.
Proof.
  intros ct cs s R. destruct (visit_shape_lem _ s R) as (r & E & idt & sm & cr & ->). exists idt, sm, cr. exact E.
Qed.

Lemma new_type_text_spec : forall n arr ci args,
  new_type_text (TApp n arr ci args) = if ci then (n ++ "<>")%string else type_name (TApp n arr ci args).
Proof. reflexivity. Qed.

Lemma func_call_shape_lem : forall f ta ci rc hr cs s,
  routed false (namespace s) (PN (KFuncCall f ta ci rc hr) cs) = true ->
  exists info mpf mpv idt sm cr,
    children_res (visit (PN (KFuncCall f ta ci rc hr) cs) s) =
    func_call_text f rc hr (first_is_bottom cs) info mpf mpv idt sm cr :: children_res s.
Proof.
  intros f ta ci rc hr cs s R.
  destruct (visit_shape_lem _ s R) as (r & E & info & mpf & mpv & idt & sm & cr & ->).
  exists info, mpf, mpv, idt, sm, cr. exact E.
Qed.

Lemma field_shape_lem : forall name ft fin cs s, routed false (namespace s) (PN (KField name ft fin) cs) = true ->
  children_res (visit (PN (KField name ft fin) cs) s) =
  (T "public " ++ T (if fin then "final " else "") ++ T (type_name ft) ++ T " " ++ [Decl DField name] ++ T ";")
  :: children_res s.
Proof. intros name ft fin cs s R. destruct (visit_shape_lem _ s R) as (r & E & ->). exact E. Qed.

Lemma type_param_shape_lem : forall name b cs s, routed false (namespace s) (PN (KTypeParam name b) cs) = true ->
  children_res (visit (PN (KTypeParam name b) cs) s) =
  ([Decl DTypeParam name] ++ match b with Some t => T " extends " ++ T (boxed (type_name t)) | None => [] end)
  :: children_res s.
Proof. intros name b cs s R. destruct (visit_shape_lem _ s R) as (r & E & ->). exact E. Qed.

Lemma param_shape_lem : forall name pt va cs s, routed false (namespace s) (PN (KParam name pt va) cs) = true ->
  children_res (visit (PN (KParam name pt va) cs) s) =
  (T (param_print_type pt va) ++ T (if va then "..." else "") ++ T " " ++ [Decl DParam name]) :: children_res s.
Proof. intros name pt va cs s R. destruct (visit_shape_lem _ s R) as (r & E & ->). exact E. Qed.

Lemma class_shape_lem : forall name ct fin nf ns nfn cs s,
  routed false (namespace s) (PN (KClass name ct fin nf ns nfn) cs) = true ->
  exists ifs sup old cr,
    children_res (visit (PN (KClass name ct fin nf ns nfn) cs) s) =
    class_text name ct fin nf ns nfn cs ifs sup old cr :: children_res s.
Proof.
  intros name ct fin nf ns nfn cs s R. destruct (visit_shape_lem _ s R) as (r & E & ifs & sup & old & cr & ->).
  exists ifs, sup, old, cr. exact E.
Qed.

(* "final " iff is_final, the prefix of the kind of class, the name, the type parameters,
   "extends" the superclasses (those that are not interfaces of the context), "implements" (or,
   for an interface, "extends") the interfaces *)
Lemma class_header_lem : forall name ct fin nf ns nfn cs ifs sup old cr,
  exists body,
    class_text name ct fin nf ns nfn cs ifs sup old cr =
    let tparams := joins (T ", ") (skipn (nf + ns + nfn) cr) in
    let superclasses := fst (split_supers ifs (supers_of nf ns cs)) in
    let interfaces := snd (split_supers ifs (supers_of nf ns cs)) in
    let res := T (spaces old) ++ T (if fin then "final " else "") ++ T (class_prefix ct) ++ T " " ++ [Decl DClass name] in
    let res := if negb (segs_empty tparams) then res ++ T "<" ++ tparams ++ T ">" else res in
    let res := if nonempty superclasses then res ++ T " extends " ++ T (join ", " superclasses) else res in
    let res := if nonempty interfaces
               then res ++ T (if Nat.eqb ct 1 then " extends " else " implements ") ++ T (join ", " interfaces)
               else res in
    res ++ T " " ++ brace body.
Proof.
  intros. unfold class_text. destruct (split_supers ifs (supers_of nf ns cs)) as [a b]. cbn [fst snd].
  eexists. reflexivity.
Qed.

Lemma func_modifiers_lem : forall name inf fin hb np ntp ie close cr,
  exists tparams params body,
    func_decl_text name inf fin hb np ntp ie false close cr =
    T close ++ T "public " ++ T (if fin then "final " else "") ++
    T (if segs_empty body then "abstract " else "") ++ tparams ++
    T (type_name inf) ++ T " " ++ [Decl DFunc name] ++ paren params ++ T " " ++ body ++
    T (if segs_empty body then ";" else "").
Proof. intros. rewrite func_decl_text_eq. cbv zeta. eexists _, _, _. reflexivity. Qed.

Lemma func_nested_lem : forall name inf fin hb np ntp ie close cr,
  exists types params body,
    func_decl_text name inf fin hb np ntp ie true close cr =
    T close ++ T "Function" ++ T (nat_str (List.length (firstn np cr))) ++ T "<" ++
    T (join ", " (types ++ [boxed (type_name_gen true false inf)])) ++ T "> " ++ [Decl DFunc name] ++ T " = " ++
    paren params ++ T " -> " ++ body ++ T ";".
Proof. intros. rewrite func_decl_text_eq. cbv zeta. eexists _, _, _. reflexivity. Qed.

(* ------------------------------------------------------------------------------------ *)
(* refutations (witnesses evaluated in the kernel)                                        *)

(* class A { String f } ; final class B extends A("a  b"): the two blanks of the literal are
   collapsed by construct_constructor's re.sub(r'\s+', ' ', ...) *)
Definition witness_super_literal : pprogram :=
  mkProgram (mkCtx [] [] [] [] [] [])
    [PN (KClass "A" 0 false 1 0 0) [PN (KField "f" (TName JOther false "String") true) []];
     PN (KClass "B" 0 true 0 1 0) [PN (KSuper (TName JOther false "A") false) [PN (KString "a  b") []]]].

Lemma literal_in_super_args_altered_lem :
  exists p, wf_program p = true /\ clean_program "" p = true /\
            ~ Permutation (marks (print_segs "" p)) (program_inventory p).
Proof.
  exists witness_super_literal. split; [vm_compute; reflexivity|]. split; [vm_compute; reflexivity|].
  intros H. apply same_marks_spec in H. vm_compute in H. discriminate.
Qed.

(* without _reset_state having run (an exception in the middle of a translation leaves e.g.
   ident where it was) the next text is another one *)
Lemma text_depends_on_dirty_state_lem :
  exists pkg p s, fst (translate_program pkg (mkTr s None) p) <> print_program pkg p.
Proof.
  exists "", witness_super_literal, (set_ident 4 init_st). vm_compute. discriminate.
Qed.
