(* IR/PrintProofs.v -- lemmas about the model of KotlinTranslator (IR/PrintKotlin.v). *)
From Coq Require Import String Ascii List Arith Bool Lia.
Import ListNotations.
From Heph Require Import IR.PrintKotlin.
Open Scope string_scope.
Open Scope list_scope.

(* visit_program reads neither the program text nor the context left by earlier translations *)
Lemma prior_output_irrelevant_lem : forall pkg p s c a b,
  visit_program pkg p (mkTr (set_context c s) a) = visit_program pkg p (mkTr s b).
Proof. reflexivity. Qed.
