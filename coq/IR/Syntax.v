(* IR/Syntax.v -- the program IR of src/ir/ast.py as a generic tree: one node per AST object,
   with its kind, name (an id; 0 = none), a number (arity / class kind / length), boolean
   attributes, type attributes (None = absent) and children, in the layout fixed by
   harness/ir2coq.py:

   kind  class                    name     num         flags                                   types                                   children
   0  Program                     -        -           -                                       -                                       declarations
   1  ClassDeclaration            name     class_type  [is_final]                              type parameters                         superclasses ++ fields ++ functions
   2  SuperClassInstantiation     -        -           [args is not None]                      [class_type]                            args
   3  FieldDeclaration            name     -           [is_final; can_override; override]      [field_type]                            -
   4  FunctionDeclaration         name     #params     [is_final; override; is_method; has_body] [ret_type; inferred_type] ++ type parameters   params ++ [body]
   5  ParameterDeclaration        name     -           [vararg; has_default]                   [param_type]                            [default]
   6  VariableDeclaration         name     -           [is_final]                              [var_type; inferred_type]               [expr]
   7  Block                       -        -           [is_func_block]                         -                                       body
   8  Lambda                      name     #params     [has_body]                              [ret_type; signature]                   params ++ [body]
   9  BottomConstant  10 Integer  11 Real  12 Boolean  13 Char  14 String   (literal as name)   [t] / [integer_type] / [real_type]
   15 ArrayExpr                   -        length      -                                       [array_type]                            exprs
   16 Variable                    name
   17 Conditional                 -        -           -                                       [inferred_type]                         [cond; true; false]
   18 Logical 19 Equality 20 Comparison 21 Arith       operator  -  [is_not]                   -                                       [lexpr; rexpr]
   22 Is                          -        -           [is_not]                                [etype]                                 [expr]
   23 New                         -        -           [can_infer_type_args]                   [class_type]                            args
   24 FieldAccess                 field    -           -                                       -                                       [expr]
   25 FunctionCall                func     #args       [is_ref_call; can_infer_type_args; has_receiver]  type_args                     [receiver] ++ args
   26 CallArgument                name     -           -                                       -                                       [expr]
   27 FunctionReference           func     -           [has_receiver]                          [signature]                             [receiver]
   28 Assignment                  name     -           [has_receiver]                          -                                       [receiver] ++ [expr]
   Definitions only. *)
From Coq Require Import List Arith Bool.
Import ListNotations.
From Heph Require Import Types.Syntax.

Inductive node :=
| N (kind name num : nat) (flags : list bool) (tys : list (option ty)) (kids : list node).

Definition kind_of (n : node) : nat := match n with N k _ _ _ _ _ => k end.
Definition name_of_node (n : node) : nat := match n with N _ x _ _ _ _ => x end.
Definition num_of (n : node) : nat := match n with N _ _ x _ _ _ => x end.
Definition flags_of (n : node) : list bool := match n with N _ _ _ f _ _ => f end.
Definition tys_of (n : node) : list (option ty) := match n with N _ _ _ _ t _ => t end.
Definition kids_of (n : node) : list node := match n with N _ _ _ _ _ k => k end.

Definition kClassDecl := 1. Definition kSuperInst := 2. Definition kFieldDecl := 3.
Definition kFuncDecl := 4. Definition kParamDecl := 5. Definition kVarDecl := 6.
Definition kBlock := 7. Definition kLambda := 8. Definition kNew := 23. Definition kFunctionCall := 25.

(* the present types of a node *)
Definition present (l : list (option ty)) : list ty :=
  flat_map (fun o => match o with Some t => [t] | None => [] end) l.

(* all nodes of a tree, pre-order *)
Fixpoint nodes (n : node) : list node :=
  match n with
  | N _ _ _ _ _ kids => n :: flat_map nodes kids
  end.

(* every subterm of a type: the type itself, type arguments, bounds of wildcards, bounds of
   type variables (and the bounds of captured types) *)
Fixpoint subterms (t : ty) : list ty :=
  t :: match t with
       | TApp _ l => flat_map subterms l
       | TVar _ _ (Some b) => subterms b
       | TWild _ (Some b) => subterms b
       | TCap _ u l => (match u with Some x => subterms x | None => [] end) ++
                       (match l with Some x => subterms x | None => [] end)
       | _ => []
       end.

(* every type occurrence of a program: declared and inferred types, type arguments, bounds,
   supertypes, New/Is/array/lambda/function-reference types, nested arguments and bounds *)
Definition type_occurrences (p : node) : list ty :=
  flat_map (fun n => flat_map subterms (present (tys_of n))) (nodes p).

Inductive TypeOccurs (t : ty) (p : node) : Prop :=
| TO (n : node) (top : ty) :
    In n (nodes p) -> In (Some top) (tys_of n) -> In t (subterms top) -> TypeOccurs t p.

(* declared type parameters of classes / of functions *)
Definition class_type_params (p : node) : list ty :=
  flat_map (fun n => if Nat.eqb (kind_of n) kClassDecl then present (tys_of n) else []) (nodes p).
Definition func_type_params (p : node) : list ty :=
  flat_map (fun n => if Nat.eqb (kind_of n) kFuncDecl then present (skipn 2 (tys_of n)) else []) (nodes p).
