(* IR/SchemeProofs.v -- every run of a well-formed scheme table: the call stack is bounded by the depth
   counter it has reached and the listed edges it has used (C18). *)
From Coq Require Import List Arith Bool String Lia.
Import ListNotations.
From Heph Require Import IR.Depth IR.DepthProofs IR.Scheme Generated.GenScheme.

(* ---------- generic lemmas ---------- *)

Lemma ids_from_nth : forall T k g e, ids_from k T = true -> nth_error T g = Some e -> e_id e = k + g.
Proof.
  induction T as [|a T IH]; intros k g e H Hn.
  - destruct g; discriminate.
  - cbn in H. apply andb_true_iff in H. destruct H as [Ha Ht]. destruct g as [|g]; cbn in Hn.
    + inversion Hn; subst. apply Nat.eqb_eq in Ha. lia.
    + rewrite (IH (S k) g e Ht Hn). lia.
Qed.

Lemma nth_le_list_max : forall (r : list nat) i, nth i r 0 <= list_max r.
Proof.
  intros r i. destruct (nth_in_or_default i r 0) as [Hin | Hd].
  - pose proof (proj1 (list_max_le r (list_max r)) (le_n _)) as HF.
    rewrite Forall_forall in HF. apply HF. exact Hin.
  - rewrite Hd. apply Nat.le_0_l.
Qed.

Lemma rank_le_max : forall r n, rank r n <= list_max r.
Proof. intros. unfold rank. apply nth_le_list_max. Qed.

Lemma step_inv : forall lst T max x l y, step lst T max x l y ->
  exists g b d e s b' d',
    x = ((g, b), d) /\ y = ((s_callee s, b'), d') /\ l = lab lst e s /\ nth_error T g = Some e /\
    In s (e_sites e) /\ In b' (mode_after (s_ol s) b) /\ ((max <=? d) || b = true -> s_disp s <> 3) /\ d + s_off s <= d'.
Proof.
  intros lst T max x l y H. destruct H as [g b d e s b' d' H1 H2 H3 H4 H5].
  exists g, b, d, e, s, b', d'. repeat split; assumption.
Qed.

Lemma step_depth : forall lst T max x l y, step lst T max x l y -> snd x + is_incr l <= snd y.
Proof.
  intros lst T max x l y H. apply step_inv in H.
  destruct H as (g & b & d & e & s & b' & d' & -> & -> & -> & _ & _ & _ & _ & Hd). cbn [snd].
  unfold lab. destruct (0 <? s_off s) eqn:E.
  - apply Nat.ltb_lt in E. cbn. lia.
  - destruct (lst e s); cbn; lia.
Qed.

Lemma step_rank : forall lst T max r x y,
  ids_from 0 T = true -> rank_ok lst T r = true ->
  step lst T max x LFlat y -> rank r (fst y) < rank r (fst x).
Proof.
  intros lst T max r x y Hid Hr H. apply step_inv in H.
  destruct H as (g & b & d & e & s & b' & d' & -> & -> & Hl & Hn & Hs & Hb & Hdisp & _). cbn [fst].
  pose proof (ids_from_nth T 0 g e Hid Hn) as Hg. cbn in Hg.
  unfold rank_ok in Hr. rewrite forallb_forall in Hr. specialize (Hr e (nth_error_In _ _ Hn)).
  rewrite forallb_forall in Hr.
  assert (Hbin : In b [false; true]) by (destruct b; cbn; auto).
  specialize (Hr b Hbin). rewrite forallb_forall in Hr. specialize (Hr s Hs).
  assert (Hen : site_enabled s b = true).
  { unfold site_enabled. destruct b; [|reflexivity]. cbn.
    destruct (s_disp s =? 3) eqn:E; [|reflexivity]. apply Nat.eqb_eq in E. exfalso. apply Hdisp; [apply orb_true_r | exact E]. }
  assert (Hfl : flat lst e s = true).
  { unfold flat. unfold lab in Hl. destruct (0 <? s_off s) eqn:E; [discriminate|].
    destruct (lst e s); [discriminate|]. apply Nat.ltb_ge in E.
    assert (s_off s = 0) as -> by lia. reflexivity. }
  rewrite Hen, Hfl in Hr. cbn [andb] in Hr. rewrite forallb_forall in Hr. specialize (Hr b' Hb).
  apply Nat.ltb_lt in Hr. rewrite Hg in Hr. exact Hr.
Qed.

Lemma chain_depth : forall lst T max x n k i z, chain lst T max x n k i z -> snd x + i <= snd z.
Proof.
  intros lst T max x n k i z H. induction H as [x | x l y n k i z Hs Hc IH].
  - lia.
  - pose proof (step_depth _ _ _ _ _ _ Hs). lia.
Qed.

Lemma chain_rank : forall lst T max r x n k i z,
  ids_from 0 T = true -> rank_ok lst T r = true ->
  chain lst T max x n k i z -> n + rank r (fst z) <= rank r (fst x) + S (list_max r) * (k + i).
Proof.
  intros lst T max r x n k i z Hid Hr H. induction H as [x | x l y n k i z Hs Hc IH].
  - lia.
  - destruct l; cbn [is_listed is_incr].
    + pose proof (rank_le_max r (fst y)). nia.
    + pose proof (rank_le_max r (fst y)). nia.
    + pose proof (step_rank _ _ _ _ _ _ Hid Hr Hs). cbn [plus]. lia.
Qed.

Lemma call_depth_bounded_lem : forall lst T max r x n k i z,
  ids_from 0 T = true -> rank_ok lst T r = true ->
  chain lst T max x n k i z -> n <= S (list_max r) * (1 + k + (snd z - snd x)).
Proof.
  intros lst T max r x n k i z Hid Hr H.
  pose proof (chain_rank _ _ _ _ _ _ _ _ _ Hid Hr H) as H1.
  pose proof (chain_depth _ _ _ _ _ _ _ _ H) as H2.
  pose proof (rank_le_max r (fst x)) as H3.
  assert (Hm : S (list_max r) * (1 + k + i) <= S (list_max r) * (1 + k + (snd z - snd x))).
  { apply Nat.mul_le_mono_l. lia. }
  nia.
Qed.

Lemma scheme_ok_parts : forall lst leaky T, scheme_ok lst leaky T = true ->
  ids_from 0 T = true /\ rank_ok lst T (compute_ranks lst T) = true.
Proof.
  intros lst leaky T H. unfold scheme_ok in H. repeat (apply andb_true_iff in H; destruct H as [H ?]).
  split; assumption.
Qed.


Lemma scheme_call_depth_lem : forall lst leaky T max x n k i z,
  scheme_ok lst leaky T = true -> chain lst T max x n k i z ->
  n <= scheme_bound lst T * (1 + k + (snd z - snd x)).
Proof.
  intros lst leaky T max x n k i z Hok H. destruct (scheme_ok_parts _ _ _ Hok) as [Hid Hr].
  unfold scheme_bound. eapply call_depth_bounded_lem; eassumption.
Qed.

Lemma scheme_depth_mono_lem : forall lst T max x n k i z, chain lst T max x n k i z -> snd x + i <= snd z.
Proof. exact chain_depth. Qed.

(* the depth of every frame is what the incrementing edges below it add up to, at least *)
Lemma scheme_cut_lem : forall lst leaky T max x n k i z D,
  scheme_ok lst leaky T = true -> chain lst T max x n k i z -> snd z <= D ->
  n <= scheme_bound lst T * (1 + k + (D - snd x)).
Proof.
  intros lst leaky T max x n k i z D Hok H HD.
  pose proof (scheme_call_depth_lem _ _ _ _ _ _ _ _ _ Hok H) as H1.
  assert (Hm : scheme_bound lst T * (1 + k + (snd z - snd x)) <= scheme_bound lst T * (1 + k + (D - snd x))).
  { apply Nat.mul_le_mono_l. lia. }
  lia.
Qed.

(* ---------- scheme_ok does not bound the depth itself: a table with the void loop ---------- *)

Definition toy : table :=
  [mkEntry 0 "generate_expr" false 0 0 false [] [1] [mkSite 1 0 OLp 1 0 0];
   mkEntry 1 "gen_func_call" true 1 0 false [0] [] [mkSite 0 1 OLp 0 0 0]].
Definition nolist (e : entry) (s : site) : bool := false.
Definition noleak (s : string) : bool := false.

Lemma toy_ok : scheme_ok nolist noleak toy = true.
Proof. vm_compute. reflexivity. Qed.

Lemma toy_round : forall max d z n k i,
  chain nolist toy max ((0, false), S d) n k i z -> chain nolist toy max ((0, false), d) (S (S n)) k (S i) z.
Proof.
  intros max d z n k i H.
  assert (S1 : step nolist toy max ((0, false), d) LFlat ((1, false), d)).
  { apply (Step nolist toy max 0 false d (mkEntry 0 "generate_expr" false 0 0 false [] [1] [mkSite 1 0 OLp 1 0 0])
                 (mkSite 1 0 OLp 1 0 0) false d); cbn; auto; try lia; try (intros _ E; discriminate E). }
  assert (S2 : step nolist toy max ((1, false), d) LIncr ((0, false), S d)).
  { apply (Step nolist toy max 1 false d (mkEntry 1 "gen_func_call" true 1 0 false [0] [] [mkSite 0 1 OLp 0 0 0])
                 (mkSite 0 1 OLp 0 0 0) false (S d)); cbn; auto; try lia; try (intros _ E; discriminate E). }
  pose proof (C_cons _ _ _ _ _ _ _ _ _ _ S2 H) as C2. cbn [is_listed is_incr plus] in C2.
  pose proof (C_cons _ _ _ _ _ _ _ _ _ _ S1 C2) as C1. cbn [is_listed is_incr plus] in C1. exact C1.
Qed.

Lemma toy_unbounded : forall max m d, exists z, chain nolist toy max ((0, false), d) (2 * m) 0 m z.
Proof.
  intros max m. induction m as [|m IH]; intro d.
  - exists ((0, false), d). apply C_nil.
  - destruct (IH (S d)) as [z Hz]. exists z.
    replace (2 * S m) with (S (S (2 * m))) by lia. apply toy_round. exact Hz.
Qed.

Lemma no_bound_from_max_depth_lem :
  exists lst leaky T, scheme_ok lst leaky T = true /\
    forall max B, exists x n k i z, snd x = 1 /\ k = 0 /\ chain lst T max x n k i z /\ B < n.
Proof.
  exists nolist, noleak, toy. split; [exact toy_ok|].
  intros max B. destruct (toy_unbounded max (S B) 1) as [z Hz].
  exists ((0, false), 1), (2 * S B), 0, (S B), z. repeat split; [exact Hz | lia].
Qed.

(* a permitted cycle of ANY table can be repeated: same statement for the table at hand *)
Lemma cycle_from_chain : forall T lst max c n last d,
  cycle_from T lst n c last = true ->
  exists d' i, chain lst T max (n, d) (List.length c) 0 i (last, d') /\ d <= d'.
Proof.
  intros T lst max c. induction c as [|[j n'] c IH]; intros n last d H.
  - cbn in H. apply andb_true_iff in H. destruct H as [H1 H2]. apply Nat.eqb_eq in H1. apply eqb_prop in H2.
    exists d, 0. destruct n as [g b], last as [g' b']. cbn in H1, H2. subst. split; [apply C_nil | lia].
  - cbn [cycle_from] in H. destruct (nth_error T (fst n)) as [e|] eqn:He; [|discriminate].
    destruct (nth_error (e_sites e) j) as [s|] eqn:Hs; [|discriminate].
    apply andb_true_iff in H. destruct H as [H Hrest]. apply andb_true_iff in H. destruct H as [H Hm].
    apply andb_true_iff in H. destruct H as [H Hc]. apply andb_true_iff in H. destruct H as [H _].
    apply andb_true_iff in H. destruct H as [Hd3 Hnl].
    apply negb_true_iff in Hd3. apply Nat.eqb_neq in Hd3. apply Nat.eqb_eq in Hc.
    apply existsb_exists in Hm. destruct Hm as [bm [Hbm Hbe]]. apply eqb_prop in Hbe.
    destruct (IH n' last (d + s_off s) Hrest) as [d' [i [Hch Hle]]].
    destruct n as [g b], n' as [g' b']. cbn [fst snd] in *. subst g' bm.
    assert (St : step lst T max ((g, b), d) (lab lst e s) ((s_callee s, b'), d + s_off s)).
    { apply Step; auto. apply (nth_error_In _ _ Hs). }
    assert (Hlab : is_listed (lab lst e s) = 0).
    { unfold lab. destruct (0 <? s_off s) eqn:E; [reflexivity|]. apply Nat.ltb_ge in E.
      assert (s_off s = 0) as Z by lia. rewrite Z in Hnl. cbn in Hnl. apply negb_true_iff in Hnl. rewrite Hnl. reflexivity. }
    exists d', (is_incr (lab lst e s) + i). split; [|lia].
    pose proof (C_cons _ _ _ _ _ _ _ _ _ _ St Hch) as C. rewrite Hlab in C. exact C.
Qed.

Lemma chain_app : forall lst T max x n k i y, chain lst T max x n k i y ->
  forall n2 k2 i2 z, chain lst T max y n2 k2 i2 z -> chain lst T max x (n + n2) (k + k2) (i + i2) z.
Proof.
  intros lst T max x n k i y H. induction H as [x | x l y n k i z Hs Hc IH]; intros n2 k2 i2 z2 H2.
  - exact H2.
  - specialize (IH _ _ _ _ H2). pose proof (C_cons _ _ _ _ _ _ _ _ _ _ Hs IH) as C.
    replace (S n + n2) with (S (n + n2)) by lia.
    replace (is_listed l + k + k2) with (is_listed l + (k + k2)) by lia.
    replace (is_incr l + i + i2) with (is_incr l + (i + i2)) by lia. exact C.
Qed.

Lemma cycle_unbounded_lem : forall T lst max n c,
  cycle_from T lst n c n = true -> c <> [] ->
  forall B d, exists m i d', chain lst T max (n, d) m 0 i (n, d') /\ B <= m.
Proof.
  intros T lst max n c H Hne B. induction B as [|B IH]; intro d.
  - exists 0, 0, d. split; [apply C_nil | lia].
  - destruct (cycle_from_chain T lst max c n n d H) as [d1 [i1 [C1 _]]].
    destruct (IH d1) as [m [i [d' [C2 Hm]]]].
    exists (List.length c + m), (i1 + i), d'. split.
    + exact (chain_app _ _ _ _ _ _ _ _ C1 _ _ _ _ C2).
    + destruct c; [contradiction|]. cbn [List.length]. lia.
Qed.

(* ---------- the generated table ---------- *)

Lemma generated_scheme_ok_lem : scheme_ok (listed_in gen_table) leaky_names gen_table = true.
Proof. vm_compute. reflexivity. Qed.

Lemma generated_call_depth_lem : forall max x n k i z,
  chain (listed_in gen_table) gen_table max x n k i z ->
  n <= scheme_bound (listed_in gen_table) gen_table * (1 + k + (snd z - snd x)).
Proof. intros. eapply scheme_call_depth_lem; [exact generated_scheme_ok_lem | eassumption]. Qed.

Lemma generated_dispatcher_lem : name_of gen_table id_dispatcher = "generate_expr"%string.
Proof. vm_compute. reflexivity. Qed.

(* the increments of the get_generators model (IR/Depth.v inc) are the increments found in the source *)
Lemma model_increments_lem : forall g, entry_inc gen_table (inc_name g) = Some (inc g).
Proof. intro g. destruct g; vm_compute; reflexivity. Qed.

(* every generator the get_generators model can offer is offered, in the same branch, by the source *)
Lemma dispatch_covers_model_lem : forall d m ol ev iv ib ck v mv g,
  In g (get_generators d m ol ev iv ib ck v mv) ->
  offered gen_table (if iv then 1 else if (m <=? d) || ol then 2 else 3) (gen_name g) = true.
Proof.
  intros d m ol ev iv ib ck v mv g Hin. destruct iv.
  - cbn in Hin. destruct Hin as [<- | [<- | []]]; vm_compute; reflexivity.
  - destruct ((m <=? d) || ol) eqn:E.
    + assert (Hl : is_leaf_gen g = true).
      { apply (leaves_forced_lem d m ol ev ib ck v mv g); [|exact Hin].
        apply orb_true_iff in E. destruct E as [E | E]; [left; apply Nat.leb_le; exact E | right; exact E]. }
      destruct g; try discriminate; vm_compute; reflexivity.
    + unfold get_generators in Hin. rewrite E in Hin.
      destruct ck; destruct ib; destruct ev; cbn in Hin;
        repeat (destruct Hin as [<- | Hin]; [vm_compute; reflexivity|]); destruct Hin.
Qed.

(* non-vacuity: a real call stack of the generated table, starting in generate_main_func (found by the
   translator, re-checked here) *)
Lemma generated_chain_example_lem :
  exists x n k i z, chain (listed_in gen_table) gen_table 3 x n k i z /\ 3 <= n /\ k = 0 /\
                    name_of gen_table (fst (fst x)) = "generate_main_func"%string.
Proof.
  pose (st := fst (fst example_path)). pose (p := snd (fst example_path)). pose (last := snd example_path).
  assert (H : cycle_from gen_table (listed_in gen_table) st p last = true) by (vm_compute; reflexivity).
  destruct (cycle_from_chain gen_table (listed_in gen_table) 3 p st last 1 H) as [d' [i [Hc _]]].
  exists (st, 1), (List.length p), 0, i, (last, d').
  split; [exact Hc | split; [vm_compute; lia | split; [reflexivity | vm_compute; reflexivity]]].
Qed.

Lemma cycle_ok_unbounded_lem : forall T lst max n c,
  cycle_ok T lst n c = true ->
  forall B d, exists m i d', chain lst T max (n, d) m 0 i (n, d') /\ B <= m.
Proof.
  intros T lst max n c H. unfold cycle_ok in H. apply andb_true_iff in H. destruct H as [H1 H2].
  apply cycle_unbounded_lem with (c := c); [exact H1|]. intro E. subst c. cbn in H2. discriminate.
Qed.
