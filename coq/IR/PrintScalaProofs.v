(* IR/PrintScalaProofs.v -- lemmas about the model of ScalaTranslator (IR/PrintScala.v).
   The proof architecture is the one of IR/PrintProofs.v (Kotlin), adapted.

   Part 1 (C11): the stateful translator is a pure function.  `pp` is a state-free printer
   (environment in, text and outgoing ident out) assembled from the same *_text functions;
   `visit_pure` shows that every visit of the stateful model pushes exactly pp's text and
   restores every component of the translator object except ident, which is either restored
   or left at 0 (the leak of visit_super_instantiation).  From this: a translation leaves the
   object initial (up to `context`, reassigned by the next visit_program) and the text of a
   program does not depend on the history of the object.
   Part 2 (C12): marks (declared names, literals, operators) and bracket balance ((), {}, [])
   of pp's text, transported to print_program; the operator of `Is` nodes is not printed. *)
From Coq Require Import String Ascii List Arith Bool Lia Permutation.
Import ListNotations.
From Heph Require Import IR.PrintScala.
Open Scope string_scope.
Open Scope list_scope.

(* ------------------------------------------------------------------------------------ *)
(* induction over the tree                                                                *)

Fixpoint pnode_ind' (P : pnode -> Prop)
    (H : forall k cs, Forall P cs -> P (PN k cs)) (n : pnode) {struct n} : P n :=
  match n with
  | PN k cs =>
      H k cs ((fix go (l : list pnode) : Forall P l :=
                 match l with
                 | [] => Forall_nil P
                 | c :: r => Forall_cons c (pnode_ind' P H c) (go r)
                 end) cs)
  end.

Lemma visit_unfold : forall k cs s, visit (PN k cs) s = visit_node visit (PN k cs) s.
Proof. reflexivity. Qed.

(* visit_program reads neither the program text nor the context left by earlier translations *)
Lemma prior_output_irrelevant_lem : forall pkg p s c a b,
  visit_program pkg p (mkTr (set_context c s) a) = visit_program pkg p (mkTr s b).
Proof. reflexivity. Qed.

(* ------------------------------------------------------------------------------------ *)
(* the state-free printer                                                                 *)

Record env := mkEnv {
  e_ident : nat; e_unit : bool; e_lambda : bool; e_cast : bool;
  e_stack : list (option pkind); e_ctx : option pprogram }.

Definition env_of (s : st) : env :=
  mkEnv (ident s) (is_unit s) (is_lambda s) (cast_integers s) (nodes_stack s) (context s).

Definition pvisitor := pnode -> env -> segs * nat.

(* the children's texts in order and the ident after the last child *)
Definition pp_children (rec : pvisitor) : list pnode -> env -> list segs * nat :=
  fix go (cs : list pnode) (e : env) {struct cs} : list segs * nat :=
    match cs with
    | [] => ([], e_ident e)
    | c :: r =>
        let (x, i) := rec c e in
        let (xs, j) := go r (mkEnv i (e_unit e) (e_lambda e) (e_cast e) (e_stack e) (e_ctx e)) in
        (x :: xs, j)
    end.

Lemma pp_children_nil : forall rec e, pp_children rec [] e = ([], e_ident e).
Proof. reflexivity. Qed.

Lemma pp_children_cons : forall rec c r e,
  pp_children rec (c :: r) e =
  let (x, i) := rec c e in
  let (xs, j) := pp_children rec r (mkEnv i (e_unit e) (e_lambda e) (e_cast e) (e_stack e) (e_ctx e)) in
  (x :: xs, j).
Proof. reflexivity. Qed.

Definition pp_node (rec : pvisitor) (n : pnode) (e : env) : segs * nat :=
  match n with
  | PN k cs =>
      let stk := Some k :: e_stack e in
      let i0 := e_ident e in
      let kids i u l c := pp_children rec cs (mkEnv i u l c stk (e_ctx e)) in
      let kids0 := kids 0 (e_unit e) (e_lambda e) (e_cast e) in
      match k with
      | KBlock fb =>
          let (cr, i) := kids i0 false false (e_cast e) in
          (block_text fb (e_unit e) (e_lambda e) i cr, i)
      | KSuper ct an => let (cr, i) := kids0 in (super_text ct an cr, i)
      | KClass name ct fin nf ns nfn =>
          let (cr, _) := kids (i0 + 2) (e_unit e) (e_lambda e) (e_cast e) in
          (class_text name ct fin nf ns nfn i0 cr, i0)
      | KTypeParam name v b => (type_param_text name v b, i0)
      | KVarDecl name fin vt _ =>
          let (cr, _) := kids 0 (e_unit e) (e_lambda e)
                              (match vt with None => true | Some _ => e_cast e end) in
          (var_decl_text name fin vt i0 cr, i0)
      | KCallArg name => let (cr, _) := kids0 in (call_argument_text name cr, i0)
      | KField name ft fin co ov => (field_text name ft fin co ov, i0)
      | KParam name pt va => let (cr, _) := kids0 in (param_text name pt va (nonempty cs) cr, i0)
      | KFunc name rt inf fin im ov hb np ntp =>
          let is_expression := negb (hb && last_is_block cs) in
          let (cr, _) := kids (i0 + 2) (is_unit_ty inf) (e_lambda e)
                              (if is_expression then true else e_cast e) in
          (func_decl_text name rt fin im ov hb np ntp i0 cr, i0)
      | KLambda rt np hb =>
          let is_expression := negb (hb && last_is_block cs) in
          let (cr, _) := kids (if is_expression then 0 else i0 + 2) (opt_is_unit rt) true
                              (if is_expression then true else e_cast e) in
          (lambda_text rt np hb cr, i0)
      | KBottom t => (bottom_text t i0, i0)
      | KInt lit it => (integer_text lit it (e_cast e) i0, i0)
      | KReal lit rt => (real_text lit rt i0, i0)
      | KChar lit => (char_text lit i0, i0)
      | KString lit => (string_text lit i0, i0)
      | KBool lit => (boolean_text lit i0, i0)
      | KArray at_ len =>
          if Nat.eqb len 0 then (array_empty_text at_ i0, i0)
          else let (cr, _) := kids0 in (array_text at_ i0 cr, i0)
      | KVariable name => (variable_text name i0, i0)
      | KBinOp _ op nt =>
          let (cr, _) := kids0 in
          (binary_op_text op nt (nth_is_ref_or_lambda 0 cs) (nth_is_ref_or_lambda 1 cs) i0 cr, i0)
      | KCond =>
          let (cr, i) := kids (i0 + 2) (e_unit e) (e_lambda e) (e_cast e) in
          (conditional_text i0 i cr, i0)
      | KIs _ _ rx => let (cr, _) := kids0 in (is_text rx i0 cr, i0)
      | KNew ct => let (cr, _) := kids0 in (new_text ct i0 cr, i0)
      | KFieldAccess f =>
          let (cr, _) := kids0 in (field_access_text f (nonempty cs) (first_is_bottom cs) i0 cr, i0)
      | KFuncRef f =>
          let (cr, _) := kids0 in (func_ref_text f (inside_block_unit_function stk) i0 cr, i0)
      | KFuncCall f ta ci hr =>
          let (cr, _) := kids0 in (func_call_text f ta ci hr (first_is_bottom cs) i0 cr, i0)
      | KAssign name hr =>
          let (cr, _) := kids 0 (e_unit e) (e_lambda e) true in
          (assign_text name hr (first_is_bottom cs) i0 cr, i0)
      end
  end.

Fixpoint pp (n : pnode) (e : env) {struct n} : segs * nat := pp_node pp n e.

Lemma pp_unfold : forall k cs e, pp (PN k cs) e = pp_node pp (PN k cs) e.
Proof. reflexivity. Qed.

(* the whole program, from the environment visit_program sets up *)
Definition prog_env (e : env) (p : pprogram) : env :=
  mkEnv (e_ident e) (e_unit e) (e_lambda e) (e_cast e) (e_stack e) (Some p).

Definition init_env : env := mkEnv 0 false false false [None] None.

Definition pp_program (pkg : string) (p : pprogram) (e : env) : segs :=
  program_text pkg (fst (pp_children pp (decls p) (prog_env e p))).

(* ------------------------------------------------------------------------------------ *)
(* Part 1: refinement                                                                     *)

(* the state after a visit: one more result, ident i, everything else as before *)
Definition pushed (s : st) (i : nat) (r : segs) : st :=
  mkSt i (is_unit s) (is_lambda s) (cast_integers s) (r :: children_res s) (nodes_stack s) (context s).

Definition pure_at (n : pnode) : Prop :=
  forall s, visit n s = pushed s (snd (pp n (env_of s))) (fst (pp n (env_of s))).

Lemma children_pure : forall cs, Forall pure_at cs -> forall s,
  visit_children visit cs s =
  mkSt (snd (pp_children pp cs (env_of s))) (is_unit s) (is_lambda s) (cast_integers s)
       (rev (fst (pp_children pp cs (env_of s))) ++ children_res s) (nodes_stack s) (context s).
Proof.
  induction 1 as [|c cs Hc Hcs IH]; intros s.
  - destruct s; reflexivity.
  - unfold visit_children. cbn [fold_left]. fold (visit_children visit cs (visit c s)).
    rewrite (Hc s). rewrite IH. rewrite pp_children_cons.
    destruct (pp c (env_of s)) as [x i] eqn:E1.
    unfold pushed. cbn [env_of ident is_unit is_lambda cast_integers children_res nodes_stack context fst snd].
    cbn [e_unit e_lambda e_cast e_stack e_ctx env_of ident is_unit is_lambda cast_integers nodes_stack context].
    destruct (pp_children pp cs _) as [xs j] eqn:E2.
    cbn [fst snd rev]. rewrite <- app_assoc. reflexivity.
Qed.

Lemma pop_res_exact : forall (rs res : list segs) n i u l c stk ctx,
  List.length rs = n ->
  pop_res n (mkSt i u l c (rev rs ++ res) stk ctx) = (rs, mkSt i u l c res stk ctx).
Proof.
  intros rs res n i u l c stk ctx H. unfold pop_res, set_res.
  cbn [children_res ident is_unit is_lambda cast_integers nodes_stack context].
  assert (Hl : List.length (rev rs) = n) by (rewrite rev_length; exact H).
  rewrite firstn_app, skipn_app, Hl, Nat.sub_diag.
  rewrite <- Hl at 1. rewrite firstn_all. rewrite <- Hl at 1. rewrite skipn_all.
  cbn [firstn skipn]. rewrite app_nil_r, rev_involutive. reflexivity.
Qed.

Lemma pp_children_length : forall rec cs e, List.length (fst (pp_children rec cs e)) = List.length cs.
Proof.
  intros rec cs; induction cs as [|c cs IH]; intros e.
  - reflexivity.
  - rewrite pp_children_cons. destruct (rec c e) as [x i]. specialize (IH (mkEnv i (e_unit e) (e_lambda e) (e_cast e) (e_stack e) (e_ctx e))).
    destruct (pp_children rec cs _) as [xs j]. cbn [fst List.length] in *. now rewrite IH.
Qed.

Local Opaque block_text super_text class_text type_param_text var_decl_text call_argument_text
  field_text param_text func_decl_text lambda_text bottom_text integer_text real_text char_text
  string_text boolean_text array_empty_text array_text variable_text binary_op_text
  conditional_text is_text new_text field_access_text func_ref_text func_call_text assign_text
  inside_block_unit_function last_is_block first_is_bottom nth_is_ref_or_lambda
  is_unit_ty opt_is_unit nonempty.

Ltac st_cbn :=
  cbv beta iota zeta delta
      [env_of ident is_unit is_lambda cast_integers children_res nodes_stack context
       e_ident e_unit e_lambda e_cast e_stack e_ctx
       set_ident set_is_unit set_is_lambda set_cast set_res set_stack set_context push pushed
       fst snd tl].

Ltac kids_step cs IH :=
  rewrite (children_pure cs IH); st_cbn;
  match goal with
  | |- context [pp_children pp cs ?E] =>
      let cr := fresh "cr" in let j := fresh "j" in let HE := fresh "HE" in
      let HL := fresh "HL" in
      pose proof (pp_children_length pp cs E) as HL;
      destruct (pp_children pp cs E) as [cr j] eqn:HE;
      cbn [fst snd] in HL |- *; st_cbn;
      rewrite (pop_res_exact cr _ _ _ _ _ _ _ _ HL); st_cbn
  end.

Lemma visit_pure : forall n, pure_at n.
Proof.
  induction n as [k cs IH] using pnode_ind'. intros s.
  rewrite visit_unfold, pp_unfold. unfold visit_node, pp_node.
  destruct k; unfold append_to.
  - (* KBlock *) unfold visit_block. st_cbn. kids_step cs IH. reflexivity.
  - (* KSuper *) unfold visit_super_instantiation. st_cbn. kids_step cs IH. reflexivity.
  - (* KClass *) unfold visit_class_decl. st_cbn. kids_step cs IH. reflexivity.
  - unfold visit_type_param. st_cbn. reflexivity.
  - (* KVarDecl *) unfold visit_var_decl. st_cbn. destruct var_type; st_cbn; kids_step cs IH; reflexivity.
  - unfold visit_call_argument. st_cbn. kids_step cs IH. reflexivity.
  - unfold visit_field_decl. st_cbn. reflexivity.
  - unfold visit_param_decl. st_cbn. kids_step cs IH. reflexivity.
  - (* KFunc *) unfold visit_func_decl. st_cbn.
    destruct (negb (has_body && last_is_block cs)); st_cbn; kids_step cs IH; reflexivity.
  - (* KLambda *) unfold visit_lambda. st_cbn.
    destruct (negb (has_body && last_is_block cs)); st_cbn; kids_step cs IH; reflexivity.
  - unfold visit_bottom_constant. st_cbn. reflexivity.
  - unfold visit_integer_constant. st_cbn. reflexivity.
  - unfold visit_real_constant. st_cbn. reflexivity.
  - unfold visit_char_constant. st_cbn. reflexivity.
  - unfold visit_string_constant. st_cbn. reflexivity.
  - unfold visit_boolean_constant. st_cbn. reflexivity.
  - (* KArray *) unfold visit_array_expr. st_cbn. destruct (Nat.eqb length 0); st_cbn.
    + reflexivity.
    + kids_step cs IH. reflexivity.
  - unfold visit_variable. st_cbn. reflexivity.
  - (* KBinOp *) destruct c; unfold append_to, visit_binary_op; st_cbn; kids_step cs IH; reflexivity.
  - unfold visit_conditional. st_cbn. kids_step cs IH. reflexivity.
  - unfold visit_is. st_cbn. kids_step cs IH. reflexivity.
  - unfold visit_new. st_cbn. kids_step cs IH. reflexivity.
  - unfold visit_field_access. st_cbn. kids_step cs IH. reflexivity.
  - unfold visit_func_ref. st_cbn. kids_step cs IH. reflexivity.
  - unfold visit_func_call. st_cbn. kids_step cs IH. reflexivity.
  - unfold visit_assign. st_cbn. kids_step cs IH. reflexivity.
Qed.

(* ---- the outgoing ident: restored, or 0 *)
Definition id_ok (i i0 : nat) : Prop := i = i0 \/ i = 0.

Lemma pp_children_ident : forall cs,
  Forall (fun c => forall e, id_ok (snd (pp c e)) (e_ident e)) cs ->
  forall e, id_ok (snd (pp_children pp cs e)) (e_ident e).
Proof.
  induction 1 as [|c cs Hc Hcs IH]; intros e.
  - left; reflexivity.
  - rewrite pp_children_cons. specialize (Hc e). destruct (pp c e) as [x i]. cbn [snd] in Hc.
    specialize (IH (mkEnv i (e_unit e) (e_lambda e) (e_cast e) (e_stack e) (e_ctx e))).
    destruct (pp_children pp cs _) as [xs j]. cbn [snd e_ident] in *.
    unfold id_ok in *. destruct IH as [->| ->]; [exact Hc | right; reflexivity].
Qed.

Lemma pp_ident : forall n e, id_ok (snd (pp n e)) (e_ident e).
Proof.
  induction n as [k cs IH] using pnode_ind'. intros e.
  rewrite pp_unfold. unfold pp_node.
  destruct k;
    repeat match goal with
           | |- context [if ?b then _ else _] => destruct b
           | |- context [match ?c with BLogical => _ | _ => _ end] => destruct c
           | |- context [match ?c with Some _ => _ | None => _ end] => destruct c
           end;
    try (left; reflexivity);
    match goal with
    | |- context [pp_children pp cs ?E] =>
        pose proof (pp_children_ident cs IH E) as H; destruct (pp_children pp cs E)
    end;
    unfold id_ok in *; cbn [snd e_ident] in *;
    first [ left; reflexivity | exact H | right; destruct H; assumption ].
Qed.

(* ---- node level: every visit pushes exactly one result and restores the object *)
Lemma visit_restores_lem : forall n s,
  exists r,
    children_res (visit n s) = r :: children_res s /\
    is_unit (visit n s) = is_unit s /\ is_lambda (visit n s) = is_lambda s /\
    cast_integers (visit n s) = cast_integers s /\ nodes_stack (visit n s) = nodes_stack s /\
    context (visit n s) = context s /\
    (ident (visit n s) = ident s \/ ident (visit n s) = 0).
Proof.
  intros n s. rewrite (visit_pure n s). exists (fst (pp n (env_of s))).
  unfold pushed. cbn [children_res is_unit is_lambda cast_integers nodes_stack context ident].
  repeat split. exact (pp_ident n (env_of s)).
Qed.

(* ---- program level *)
Lemma visit_program_pure : forall pkg p t,
  visit_program pkg p t =
  mkTr (mkSt (snd (pp_children pp (decls p) (prog_env (env_of (tst t)) p)))
             (is_unit (tst t)) (is_lambda (tst t)) (cast_integers (tst t))
             (children_res (tst t)) (nodes_stack (tst t)) (Some p))
       (Some (pp_program pkg p (env_of (tst t)))).
Proof.
  intros pkg p t. unfold visit_program, pp_program, prog_env.
  assert (HF : Forall pure_at (decls p)) by (apply Forall_forall; intros; apply visit_pure).
  rewrite (children_pure (decls p) HF). st_cbn.
  match goal with |- context [pp_children pp (decls p) ?E] =>
    pose proof (pp_children_length pp (decls p) E) as HL;
    destruct (pp_children pp (decls p) E) as [cr j] end.
  cbn [fst snd] in *. rewrite (pop_res_exact cr _ _ _ _ _ _ _ _ HL). reflexivity.
Qed.

Lemma translation_restores_state_lem : forall pkg p t,
  let t' := snd (translate_program pkg t p) in
  is_unit (tst t') = is_unit (tst t) /\ is_lambda (tst t') = is_lambda (tst t) /\
  cast_integers (tst t') = cast_integers (tst t) /\ children_res (tst t') = children_res (tst t) /\
  nodes_stack (tst t') = nodes_stack (tst t) /\
  (ident (tst t') = ident (tst t) \/ ident (tst t') = 0) /\
  context (tst t') = Some p.
Proof.
  intros pkg p t. unfold translate_program. cbn [snd]. rewrite visit_program_pure.
  cbn [tst is_unit is_lambda cast_integers children_res nodes_stack ident context].
  repeat split.
  exact (pp_children_ident (decls p)
           (proj2 (Forall_forall _ _) (fun c _ => pp_ident c)) (prog_env (env_of (tst t)) p)).
Qed.

(* a translator object whose visible state is initial, whatever context it remembers *)
Definition pristine (t : translator) : Prop := exists ctx, tst t = set_context ctx init_st.

Lemma pristine_preserved : forall pkg p t, pristine t -> pristine (snd (translate_program pkg t p)).
Proof.
  intros pkg p t [ctx Ht]. exists (Some p).
  unfold translate_program. cbn [snd]. rewrite visit_program_pure. rewrite Ht.
  pose proof (pp_children_ident (decls p)
                (proj2 (Forall_forall _ _) (fun c _ => pp_ident c))
                (prog_env (env_of (set_context ctx init_st)) p)) as Hi.
  cbn [tst]. unfold set_context, init_st in *.
  cbn [ident is_unit is_lambda cast_integers children_res nodes_stack context] in *.
  unfold prog_env, env_of in *.
  cbn [e_ident e_unit e_lambda e_cast e_stack ident is_unit is_lambda cast_integers nodes_stack context] in *.
  destruct Hi as [-> | ->]; reflexivity.
Qed.

Lemma pristine_text : forall pkg p t, pristine t ->
  fst (translate_program pkg t p) = print_program pkg p.
Proof.
  intros pkg p t [ctx Ht]. unfold print_program, translate_program. cbn [fst].
  unfold result, result_segs. rewrite !visit_program_pure. cbn [program]. rewrite Ht. reflexivity.
Qed.

Lemma run_history_pristine : forall h t, pristine t -> pristine (snd (run_history t h)).
Proof.
  induction h as [|[pkg p] h IH]; intros t Ht.
  - exact Ht.
  - cbn [run_history]. pose proof (pristine_preserved pkg p t Ht) as H1.
    destruct (translate_program pkg t p) as [x t'] eqn:E1. cbn [snd] in H1.
    specialize (IH t' H1). destruct (run_history t' h) as [xs t'']. exact IH.
Qed.

Lemma init_pristine : pristine init_tr.
Proof. exists None. reflexivity. Qed.

Lemma fresh_translator_restored_lem : forall pkg p,
  tst (snd (translate_program pkg init_tr p)) = set_context (Some p) init_st.
Proof.
  intros pkg p. unfold translate_program. cbn [snd]. rewrite visit_program_pure.
  pose proof (pp_children_ident (decls p)
                (proj2 (Forall_forall _ _) (fun c _ => pp_ident c))
                (prog_env (env_of (tst init_tr)) p)) as Hi.
  cbn [tst]. unfold init_tr, init_st, set_context in *.
  cbn [tst ident is_unit is_lambda cast_integers children_res nodes_stack context] in *.
  unfold prog_env, env_of in *.
  cbn [e_ident ident] in *.
  destruct Hi as [-> | ->]; reflexivity.
Qed.

Lemma history_independent_lem : forall h pkg p,
  fst (translate_program pkg (snd (run_history init_tr h)) p) = print_program pkg p.
Proof.
  intros h pkg p. apply pristine_text. apply run_history_pristine. exact init_pristine.
Qed.

(* every text of a history is the text from a fresh translator *)
Lemma history_texts_lem : forall h,
  fst (run_history init_tr h) = map (fun x => print_program (fst x) (snd x)) h.
Proof.
  assert (G : forall h t, pristine t ->
              fst (run_history t h) = map (fun x => print_program (fst x) (snd x)) h).
  { induction h as [|[pkg p] h IH]; intros t Ht.
    - reflexivity.
    - cbn [run_history map fst snd].
      pose proof (pristine_text pkg p t Ht) as H0.
      pose proof (pristine_preserved pkg p t Ht) as H1.
      destruct (translate_program pkg t p) as [x t'] eqn:E1. cbn [fst snd] in *.
      specialize (IH t' H1). destruct (run_history t' h) as [xs t'']. cbn [fst] in *.
      now rewrite H0, IH. }
  intros h. apply G. exact init_pristine.
Qed.

(* ==================================================================================== *)
(* Part 2: what the text contains                                                         *)

Local Transparent block_text super_text class_text type_param_text var_decl_text call_argument_text
  field_text param_text func_decl_text lambda_text bottom_text integer_text real_text char_text
  string_text boolean_text array_empty_text array_text variable_text binary_op_text
  conditional_text is_text new_text field_access_text func_ref_text func_call_text assign_text
  inside_block_unit_function last_is_block first_is_bottom nth_is_ref_or_lambda
  is_unit_ty opt_is_unit nonempty.

(* ---- strings and segments *)
Lemma sapp_assoc : forall a b c : string, ((a ++ b) ++ c = a ++ (b ++ c))%string.
Proof. induction a; intros; cbn; [reflexivity | now rewrite IHa]. Qed.

Lemma sapp_nil_r : forall a : string, (a ++ "" = a)%string.
Proof. induction a; cbn; [reflexivity | now rewrite IHa]. Qed.

Lemma flatten_app : forall a b, flatten (a ++ b) = (flatten a ++ flatten b)%string.
Proof. induction a; intros; cbn; [reflexivity | now rewrite IHa, sapp_assoc]. Qed.

Lemma flatten_T : forall s, flatten (T s) = s.
Proof. intros; cbn. apply sapp_nil_r. Qed.

Lemma flatten_single : forall sg, flatten [sg] = seg_text sg.
Proof. intros; cbn. apply sapp_nil_r. Qed.

(* ---- marks *)
Lemma marks_app : forall a b, marks (a ++ b) = marks a ++ marks b.
Proof. intros. unfold marks. apply flat_map_app. Qed.

Lemma marks_nil : marks [] = [].
Proof. reflexivity. Qed.

Lemma marks_T : forall s, marks (T s) = [].
Proof. reflexivity. Qed.

Lemma marks_paren : forall r, marks (paren r) = marks r.
Proof. intros. unfold paren. rewrite !marks_app, !marks_T. cbn. now rewrite app_nil_r. Qed.

Lemma marks_brace : forall r, marks (brace r) = marks r.
Proof. intros. unfold brace. rewrite !marks_app, !marks_T. cbn. now rewrite app_nil_r. Qed.

Lemma marks_joins : forall sep l, marks sep = [] -> marks (joins sep l) = flat_map marks l.
Proof.
  intros sep l Hs. induction l as [|x r IH]; [reflexivity|].
  cbn [joins flat_map]. destruct r as [|y r'].
  - cbn. now rewrite app_nil_r.
  - rewrite !marks_app, Hs, IH. reflexivity.
Qed.

Lemma segs_empty_marks : forall r, segs_empty r = true -> marks r = [].
Proof.
  induction r as [|sg r IH]; [reflexivity|]. unfold segs_empty. cbn [forallb].
  intros H. apply andb_true_iff in H. destruct H as [H1 H2].
  change (marks (sg :: r)) with (seg_marks sg ++ marks r). rewrite (IH H2), app_nil_r.
  destruct sg; cbn in *; unfold mk_mark; try rewrite H1; reflexivity.
Qed.

Lemma marks_decl : forall k s, marks [Decl k s] = mk_mark (MDecl k) s.
Proof. intros. cbn. apply app_nil_r. Qed.
Lemma marks_lit : forall s, marks [Lit s] = mk_mark MLit s.
Proof. intros. cbn. apply app_nil_r. Qed.
Lemma marks_op : forall s, marks [Op s] = mk_mark MOp s.
Proof. intros. cbn. apply app_nil_r. Qed.

Lemma marks_cons_txt : forall s r, marks (Txt s :: r) = marks r.
Proof. reflexivity. Qed.

Lemma spaces_length : forall n, String.length (spaces n) = n.
Proof. induction n; cbn; [reflexivity | now rewrite IHn]. Qed.

Lemma drop_segs_0 : forall l, drop_segs l 0 = l.
Proof. destruct l; reflexivity. Qed.

Lemma drop_segs_prefix : forall n r,
  drop_segs (Txt (spaces n) :: r) n = r \/ drop_segs (Txt (spaces n) :: r) n = Txt (spaces n) :: r.
Proof.
  intros n r. destruct n as [|n]; [right; reflexivity|]. left.
  cbn [drop_segs seg_text]. rewrite spaces_length, Nat.leb_refl, Nat.sub_diag. apply drop_segs_0.
Qed.

Lemma marks_drop_prefix : forall n r k, (k = n \/ k = 0) ->
  marks (drop_segs (Txt (spaces n) :: r) k) = marks r.
Proof.
  intros n r k [-> | ->].
  - destruct (drop_segs_prefix n r) as [-> | ->]; reflexivity.
  - rewrite drop_segs_0. reflexivity.
Qed.

Lemma marks_brack : forall r, marks (brack r) = marks r.
Proof. intros. unfold brack. rewrite !marks_app, !marks_T. cbn. now rewrite app_nil_r. Qed.

Lemma marks_operand : forall w r, marks (operand w r) = marks r.
Proof. intros [] r; [apply marks_paren | reflexivity]. Qed.

#[local] Hint Rewrite marks_app marks_nil marks_T marks_paren marks_brace marks_brack marks_operand
  marks_decl marks_lit marks_op app_nil_r app_nil_l : marks.

(* ---- list splitting *)
Lemma flat_map_firstn_skipn : forall (A B : Type) (f : A -> list B) n l,
  flat_map f l = flat_map f (firstn n l) ++ flat_map f (skipn n l).
Proof. intros. rewrite <- flat_map_app, firstn_skipn. reflexivity. Qed.

Lemma skipn_skipn : forall (A : Type) (x y : nat) (l : list A), skipn x (skipn y l) = skipn (x + y) l.
Proof.
  intros A x y. revert x. induction y as [|y IH]; intros x l.
  - now rewrite Nat.add_0_r.
  - destruct l as [|a l]; [now rewrite !skipn_nil|]. cbn [skipn]. rewrite IH.
    replace (x + S y) with (S (x + y)) by lia. reflexivity.
Qed.

Lemma skipn_last : forall (A : Type) n (l : list A) d, List.length l = n + 1 -> skipn n l = [last l d].
Proof.
  intros A n; induction n as [|n IH]; intros l d H.
  - destruct l as [|x [|y l]]; cbn in H; try discriminate. reflexivity.
  - destruct l as [|x l]; [discriminate|]. cbn in H. injection H as H.
    cbn [skipn]. rewrite (IH l d H). destruct l; [cbn in H; lia | reflexivity].
Qed.

Lemma removelast_last_fm : forall (B : Type) (f : segs -> list B) (l : list segs),
  l <> [] -> flat_map f l = flat_map f (removelast l) ++ f (last l []).
Proof.
  intros B f l H. rewrite (app_removelast_last [] H) at 1.
  rewrite flat_map_app. cbn. now rewrite app_nil_r.
Qed.

(* ---- balance *)
Definition neutral (o c : ascii) (s : string) : Prop := forall d, scan o c s d = Some d.

Lemma scan_app : forall o c a b d,
  scan o c (a ++ b) d = match scan o c a d with Some d' => scan o c b d' | None => None end.
Proof.
  induction a as [|x a IH]; intros b d; cbn [append scan]; [reflexivity|].
  destruct (Ascii.eqb x o); [apply IH|].
  destruct (Ascii.eqb x c); [destruct d; [reflexivity | apply IH] | apply IH].
Qed.

Lemma neutral_app : forall o c a b, neutral o c a -> neutral o c b -> neutral o c (a ++ b).
Proof. intros o c a b Ha Hb d. rewrite scan_app, Ha. apply Hb. Qed.

Lemma neutral_empty : forall o c, neutral o c "".
Proof. intros o c d. reflexivity. Qed.

(* a string that is balanced from depth 0 is depth-neutral from every depth *)
Lemma scan_shift : forall o c s a b, scan o c s a = Some b -> forall d, scan o c s (a + d) = Some (b + d).
Proof.
  induction s as [|x s IH]; intros a b H d; cbn [scan] in *.
  - injection H as <-. reflexivity.
  - destruct (Ascii.eqb x o).
    + exact (IH (S a) b H d).
    + destruct (Ascii.eqb x c).
      * destruct a as [|a']; [discriminate|]. exact (IH a' b H d).
      * exact (IH a b H d).
Qed.

Lemma balanced_neutral : forall o c s, balanced o c s = true -> neutral o c s.
Proof.
  intros o c s H d. unfold balanced in H. destruct (scan o c s 0) as [[|k]|] eqn:E; try discriminate.
  exact (scan_shift o c s 0 0 E d).
Qed.

Definition Bal (r : segs) : Prop :=
  neutral "("%char ")"%char (flatten r) /\ neutral "{"%char "}"%char (flatten r) /\
  neutral "["%char "]"%char (flatten r).

Lemma clean_neutral : forall s, clean_str s = true ->
  neutral "("%char ")"%char s /\ neutral "{"%char "}"%char s /\ neutral "["%char "]"%char s.
Proof.
  intros s H. unfold clean_str in H. apply andb_true_iff in H. destruct H as [H H3].
  apply andb_true_iff in H. destruct H as [H1 H2].
  repeat split; apply balanced_neutral; assumption.
Qed.

Lemma Bal_nil : Bal [].
Proof. repeat split; apply neutral_empty. Qed.

Lemma Bal_app : forall a b, Bal a -> Bal b -> Bal (a ++ b).
Proof.
  intros a b (A1 & A2 & A3) (B1 & B2 & B3). unfold Bal. rewrite flatten_app.
  repeat split; now apply neutral_app.
Qed.

Lemma Bal_single : forall sg, clean_str (seg_text sg) = true -> Bal [sg].
Proof. intros sg H. unfold Bal. rewrite flatten_single. now apply clean_neutral. Qed.

Lemma Bal_T : forall s, clean_str s = true -> Bal (T s).
Proof. intros. now apply Bal_single. Qed.

Lemma spaces_neutral : forall o c n,
  Ascii.eqb " "%char o = false -> Ascii.eqb " "%char c = false -> neutral o c (spaces n).
Proof.
  intros o c n Ho Hc. induction n as [|n IH]; intros d; cbn [spaces scan]; [reflexivity|].
  rewrite Ho, Hc. apply IH.
Qed.

Lemma Bal_spaces : forall n, Bal (T (spaces n)).
Proof.
  intros n. unfold Bal. rewrite flatten_T. repeat split; apply spaces_neutral; reflexivity.
Qed.

Lemma Bal_paren : forall r, Bal r -> Bal (paren r).
Proof.
  intros r (H1 & H2 & H3). unfold Bal, paren. rewrite !flatten_app, !flatten_T. repeat split; intros d.
  - cbn. rewrite scan_app, (H1 (S d)). reflexivity.
  - cbn. rewrite scan_app, (H2 d). reflexivity.
  - cbn. rewrite scan_app, (H3 d). reflexivity.
Qed.

Lemma Bal_brace : forall r, Bal r -> Bal (brace r).
Proof.
  intros r (H1 & H2 & H3). unfold Bal, brace. rewrite !flatten_app, !flatten_T. repeat split; intros d.
  - cbn. rewrite scan_app, (H1 d). reflexivity.
  - cbn. rewrite scan_app, (H2 (S d)). reflexivity.
  - cbn. rewrite scan_app, (H3 d). reflexivity.
Qed.

Lemma Bal_brack : forall r, Bal r -> Bal (brack r).
Proof.
  intros r (H1 & H2 & H3). unfold Bal, brack. rewrite !flatten_app, !flatten_T. repeat split; intros d.
  - cbn. rewrite scan_app, (H1 d). reflexivity.
  - cbn. rewrite scan_app, (H2 d). reflexivity.
  - cbn. rewrite scan_app, (H3 (S d)). reflexivity.
Qed.

Lemma Bal_joins : forall sep l, Bal sep -> Forall Bal l -> Bal (joins sep l).
Proof.
  intros sep l Hs Hl. induction Hl as [|x r Hx Hr IH]; [apply Bal_nil|].
  cbn [joins]. destruct r as [|y r']; [exact Hx|].
  apply Bal_app; [exact Hx | apply Bal_app; [exact Hs | exact IH]].
Qed.

Lemma Bal_nth : forall l i, Forall Bal l -> Bal (nth_seg i l).
Proof.
  intros l i H. unfold nth_seg. revert i. induction H as [|x r Hx Hr IH]; intros [|i]; cbn;
    try apply Bal_nil; auto.
Qed.

Lemma Bal_last : forall l, Forall Bal l -> Bal (last_seg l).
Proof.
  intros l H. unfold last_seg. induction H as [|x r Hx Hr IH]; [apply Bal_nil|].
  cbn [last]. destruct r; [exact Hx | exact IH].
Qed.

Lemma Forall_firstn : forall (A : Type) (P : A -> Prop) n l, Forall P l -> Forall P (firstn n l).
Proof. intros A P n l H. revert n. induction H; intros [|n]; cbn; constructor; auto. Qed.

Lemma Forall_skipn : forall (A : Type) (P : A -> Prop) n l, Forall P l -> Forall P (skipn n l).
Proof. intros A P n l H. revert n. induction H; intros [|n]; cbn; auto. Qed.

Lemma Forall_removelast : forall (A : Type) (P : A -> Prop) l, Forall P l -> Forall P (removelast l).
Proof.
  intros A P l H. induction H as [|x r Hx Hr IH]; [constructor|].
  cbn [removelast]. destruct r; [constructor | constructor; assumption].
Qed.

Lemma Forall_tl : forall (A : Type) (P : A -> Prop) l, Forall P l -> Forall P (tl l).
Proof. intros A P l H. destruct H; [constructor | assumption]. Qed.

(* a text that starts with its indentation, cut at that indentation or not at all *)
Lemma Bal_drop_prefix : forall n r k, (k = n \/ k = 0) -> Bal (Txt (spaces n) :: r) ->
  Bal (drop_segs (Txt (spaces n) :: r) k).
Proof.
  intros n r k [-> | ->] H.
  - destruct (drop_segs_prefix n r) as [-> | ->]; [|exact H].
    destruct H as (H1 & H2 & H3). unfold Bal in *.
    cbn [flatten seg_text] in H1, H2, H3.
    destruct (Bal_spaces n) as (S1 & S2 & S3). rewrite flatten_T in S1, S2, S3.
    repeat split; intros d.
    + specialize (H1 d). rewrite scan_app, (S1 d) in H1. exact H1.
    + specialize (H2 d). rewrite scan_app, (S2 d) in H2. exact H2.
    + specialize (H3 d). rewrite scan_app, (S3 d) in H3. exact H3.
  - rewrite drop_segs_0. exact H.
Qed.

Lemma neutral_balanced : forall o c s, neutral o c s -> balanced o c s = true.
Proof. intros o c s H. unfold balanced. now rewrite (H 0). Qed.

(* ---- tactics *)
Ltac bal :=
  cbv zeta;
  repeat match goal with
         | H : Bal ?x |- Bal ?x => exact H
         | |- Bal (if ?b then _ else _) => destruct b
         | |- Bal (match ?o with Some _ => _ | None => _ end) => destruct o
         | |- Bal (_ ++ _) => apply Bal_app
         | |- Bal [] => apply Bal_nil
         | |- Bal (paren _) => apply Bal_paren
         | |- Bal (brace _) => apply Bal_brace
         | |- Bal (brack _) => apply Bal_brack
         | |- Bal (operand _ _) => unfold operand
         | |- Bal (joins _ _) => apply Bal_joins
         | |- Bal (T (spaces _)) => apply Bal_spaces
         | |- Bal (T _) => apply Bal_T
         | |- Bal [_] => apply Bal_single
         | |- Bal (nth_seg _ _) => apply Bal_nth
         | |- Bal (last_seg _) => apply Bal_last
         | |- Forall Bal (firstn _ _) => apply Forall_firstn
         | |- Forall Bal (skipn _ _) => apply Forall_skipn
         | |- Forall Bal (removelast _) => apply Forall_removelast
         | |- Forall Bal (tl _) => apply Forall_tl
         | |- clean_str (if ?b then _ else _) = true => destruct b
         | |- clean_str (seg_text _) = true => cbn [seg_text]
         end; try assumption; try reflexivity.

Ltac split_clean H :=
  unfold clean_kind in H; cbn [kind_strings forallb] in H;
  repeat match type of H with
         | (_ && _ = true) => let H1 := fresh "Hc" in apply andb_true_iff in H; destruct H as [H1 H]
         end.

(* ---- texts: balance *)
Lemma Bal_integer_suffix : forall t, Bal (T (integer_suffix t)).
Proof. intros [[[] n| |]|]; cbn [integer_suffix]; apply Bal_T; reflexivity. Qed.

Lemma block_bal : forall fb u l i cr, Forall Bal cr -> Bal (block_text fb u l i cr).
Proof. intros. unfold block_text. bal. Qed.

Lemma super_bal : forall ct an cr, clean_str (type_name ct) = true -> Forall Bal cr -> Bal (super_text ct an cr).
Proof. intros. unfold super_text. bal. Qed.

Lemma class_prefix_clean : forall ct, clean_str (class_prefix ct) = true.
Proof. intros [|[|n]]; reflexivity. Qed.

Lemma class_bal : forall name ct fin nf ns nfn old cr,
  clean_str name = true -> Forall Bal cr -> Bal (class_text name ct fin nf ns nfn old cr).
Proof. intros. unfold class_text. pose proof (class_prefix_clean ct). bal. Qed.

Lemma variance_str_clean : forall v, clean_str (variance_str v) = true.
Proof. intros [|[|n]]; reflexivity. Qed.

Lemma type_param_bal : forall name v b,
  clean_str name = true -> clean_str (opt_type_name b) = true -> Bal (type_param_text name v b).
Proof. intros name v b H1 H2. unfold type_param_text. pose proof (variance_str_clean v). destruct b; cbn [opt_type_name] in H2; bal. Qed.

Lemma type_annotation_bal : forall t, clean_str (opt_type_name t) = true -> Bal (type_annotation t).
Proof. intros [t|] H; cbn [opt_type_name] in H; unfold type_annotation; bal. Qed.

Lemma var_decl_bal : forall name fin vt old cr,
  clean_str name = true -> clean_str (opt_type_name vt) = true -> Forall Bal cr ->
  Bal (var_decl_text name fin vt old cr).
Proof. intros. unfold var_decl_text. pose proof (type_annotation_bal vt). bal. auto. Qed.

Lemma call_argument_bal : forall name cr,
  clean_str (match name with Some n => n | None => EmptyString end) = true -> Forall Bal cr ->
  Bal (call_argument_text name cr).
Proof. intros. unfold call_argument_text. bal. Qed.

Lemma field_bal : forall name ft fin co ov,
  clean_str name = true -> clean_str (type_name ft) = true -> Bal (field_text name ft fin co ov).
Proof. intros. unfold field_text. bal. Qed.

Lemma param_bal : forall name pt va hc cr,
  clean_str name = true -> clean_str (param_print_type pt va) = true -> Forall Bal cr ->
  Bal (param_text name pt va hc cr).
Proof. intros. unfold param_text. bal. Qed.

Lemma func_decl_bal : forall name rt fin im ov hb np ntp old cr,
  clean_str name = true -> clean_str (opt_type_name rt) = true -> Forall Bal cr ->
  Bal (func_decl_text name rt fin im ov hb np ntp old cr).
Proof. intros. unfold func_decl_text. pose proof (type_annotation_bal rt). bal; auto. Qed.

Lemma lambda_bal : forall rt np hb cr,
  clean_str (opt_type_name rt) = true -> Forall Bal cr -> Bal (lambda_text rt np hb cr).
Proof. intros. unfold lambda_text. pose proof (type_annotation_bal rt). bal; auto. Qed.

Lemma bottom_bal : forall t i, clean_str (opt_type_name t) = true -> Bal (bottom_text t i).
Proof. intros [t|] i H; cbn [opt_type_name] in H; unfold bottom_text; bal. Qed.

Lemma integer_bal : forall lit it c i, clean_str lit = true -> Bal (integer_text lit it c i).
Proof. intros. unfold integer_text. pose proof (Bal_integer_suffix it). bal. Qed.

Lemma real_suffix_clean : forall t, clean_str (real_suffix t) = true.
Proof. intros [[[] n| |]|]; reflexivity. Qed.

Lemma real_bal : forall lit rt i, clean_str lit = true -> Bal (real_text lit rt i).
Proof. intros. unfold real_text. pose proof (real_suffix_clean rt). bal. Qed.

Lemma char_bal : forall lit i, clean_str lit = true -> Bal (char_text lit i).
Proof. intros. unfold char_text. bal. Qed.

Lemma string_bal : forall lit i, clean_str lit = true -> Bal (string_text lit i).
Proof. intros. unfold string_text. bal. Qed.

Lemma boolean_bal : forall lit i, clean_str lit = true -> Bal (boolean_text lit i).
Proof. intros. unfold boolean_text. bal. Qed.

Lemma array_empty_bal : forall at_ i, clean_str (ty_arg0_name at_) = true -> Bal (array_empty_text at_ i).
Proof. intros. unfold array_empty_text, array_cast. bal. Qed.

Lemma array_bal : forall at_ i cr,
  clean_str (ty_arg0_name at_) = true -> Forall Bal cr -> Bal (array_text at_ i cr).
Proof. intros. unfold array_text, array_cast. bal. Qed.

Lemma variable_bal : forall name i, clean_str name = true -> Bal (variable_text name i).
Proof. intros. unfold variable_text. bal. Qed.

Lemma binary_op_bal : forall op nt w0 w1 old cr,
  clean_str (op_str op nt) = true -> Forall Bal cr -> Bal (binary_op_text op nt w0 w1 old cr).
Proof. intros. unfold binary_op_text. bal. Qed.

Lemma is_bal : forall rx old cr,
  clean_str (type_name rx) = true -> Forall Bal cr -> Bal (is_text rx old cr).
Proof. intros. unfold is_text. bal. Qed.

Lemma new_bal : forall ct i cr, clean_str (new_type_text ct) = true -> Forall Bal cr -> Bal (new_text ct i cr).
Proof. intros. unfold new_text. bal. Qed.

Lemma receiver_bal : forall b cr, Forall Bal cr -> Bal (receiver_expr b cr).
Proof. intros. unfold receiver_expr. bal. Qed.

Lemma field_access_bal : forall f hc b i cr, clean_str f = true -> Forall Bal cr -> Bal (field_access_text f hc b i cr).
Proof. intros. unfold field_access_text. pose proof (receiver_bal b cr). bal. auto. Qed.

Lemma func_ref_bal : forall f iu i cr, clean_str f = true -> Forall Bal cr -> Bal (func_ref_text f iu i cr).
Proof. intros. unfold func_ref_text. bal. Qed.

Lemma func_call_bal : forall f ta ci hr b i cr,
  clean_str f = true ->
  clean_str (match rsplit_dot f with Some (a, _) => a | None => EmptyString end) = true ->
  clean_str (match rsplit_dot f with Some (_, b) => b | None => EmptyString end) = true ->
  clean_str (type_args_str ta ci) = true -> Forall Bal cr ->
  Bal (func_call_text f ta ci hr b i cr).
Proof.
  intros f ta ci hr b i cr H1 H2 H3 H4 H5. unfold func_call_text. pose proof (receiver_bal b cr).
  destruct (rsplit_dot f) as [[x y]|]; bal; auto.
Qed.

Lemma assign_bal : forall name hr b old cr, clean_str name = true -> Forall Bal cr -> Bal (assign_text name hr b old cr).
Proof. intros. unfold assign_text. pose proof (receiver_bal b cr). bal; auto. Qed.

(* the condition must start with its indentation: then the slice removes only that *)
Lemma conditional_bal : forall old i cr,
  Forall Bal cr ->
  (forall r0 rest, cr = r0 :: rest -> exists r', r0 = Txt (spaces (old + 2)) :: r') ->
  (i = old + 2 \/ i = 0) ->
  Bal (conditional_text old i cr).
Proof.
  intros old i cr H Hp Hi. unfold conditional_text.
  assert (Hd : Bal (drop_segs (nth_seg 0 cr) i)).
  { destruct cr as [|r0 rest].
    - unfold nth_seg; cbn. destruct i; apply Bal_nil.
    - destruct (Hp r0 rest eq_refl) as [r' ->]. unfold nth_seg; cbn [nth].
      apply Bal_drop_prefix; [exact Hi | inversion H; assumption]. }
  bal.
Qed.

Lemma program_bal : forall pkg cr, clean_str pkg = true -> Forall Bal cr -> Bal (program_text pkg cr).
Proof. intros. unfold program_text. bal. Qed.

(* ---- texts: marks *)
Ltac mk := autorewrite with marks.

Lemma perm_rot4 : forall (A : Type) (a b c d : list A),
  Permutation (a ++ b ++ c ++ d) (b ++ c ++ d ++ a).
Proof.
  intros. eapply perm_trans; [apply (Permutation_app_comm a (b ++ c ++ d))|].
  rewrite <- !app_assoc. apply Permutation_refl.
Qed.

Lemma perm_func : forall (A : Type) (x tp p b : list A),
  Permutation (x ++ tp ++ p ++ b) (x ++ p ++ tp ++ b).
Proof.
  intros. apply Permutation_app_head. rewrite !app_assoc. apply Permutation_app_tail.
  apply Permutation_app_comm.
Qed.

Lemma marks_if_nonempty : forall (l : list segs) res X,
  marks X = flat_map marks l ->
  marks (if nonempty l then res ++ X else res) = marks res ++ flat_map marks l.
Proof. intros [|x l] res X H; cbn [nonempty]; [cbn; now rewrite app_nil_r | now rewrite marks_app, H]. Qed.

Lemma marks_if_segs : forall tp res X,
  marks X = marks tp ->
  marks (if negb (segs_empty tp) then res ++ X else res) = marks res ++ marks tp.
Proof.
  intros tp res X H. destruct (segs_empty tp) eqn:E; cbn [negb].
  - rewrite (segs_empty_marks tp E). now rewrite app_nil_r.
  - now rewrite marks_app, H.
Qed.

Lemma marks_if_segs0 : forall (tp X : list seg),
  marks X = marks tp ->
  marks (if negb (segs_empty tp) then X else @nil seg) = marks tp.
Proof.
  intros tp X H. destruct (segs_empty tp) eqn:E; cbn [negb]; [|exact H].
  now rewrite (segs_empty_marks tp E).
Qed.

Lemma block_marks : forall fb u l i cr, marks (block_text fb u l i cr) = flat_map marks cr.
Proof.
  intros fb u l i cr. unfold block_text. cbv zeta.
  set (rk := if fb && negb u && negb l then T "return " else []).
  assert (Hrk : marks rk = []) by (unfold rk; destruct (fb && negb u && negb l); reflexivity).
  assert (Hj : marks (joins (T semi_nl) (removelast cr)) = flat_map marks (removelast cr))
    by (apply marks_joins; reflexivity).
  destruct cr as [|x r].
  - cbn [removelast nonempty joins]; mk; rewrite ?Hrk; reflexivity.
  - assert (Hne : x :: r <> []) by discriminate.
    rewrite (removelast_last_fm _ marks (x :: r) Hne).
    change (nonempty (x :: r)) with true. cbv iota. unfold last_seg.
    destruct (nonempty (removelast (x :: r))); mk; rewrite ?Hrk, ?Hj; mk; reflexivity.
Qed.

Lemma super_marks : forall ct an cr,
  marks (super_text ct an cr) = if an then [] else flat_map marks cr.
Proof.
  intros. unfold super_text. destruct an; mk; [reflexivity|].
  apply marks_joins. reflexivity.
Qed.

Lemma class_marks : forall name ct fin nf ns nfn old cr,
  Permutation (marks (class_text name ct fin nf ns nfn old cr))
              (mk_mark (MDecl DClass) name ++ flat_map marks cr).
Proof.
  intros. unfold class_text. cbv zeta.
  set (F := firstn nf cr). set (S := firstn ns (skipn nf cr)).
  set (Fn := firstn nfn (skipn (nf + ns) cr)). set (TP := skipn (nf + ns + nfn) cr).
  assert (Hcr : flat_map marks cr =
                flat_map marks F ++ flat_map marks S ++ flat_map marks Fn ++ flat_map marks TP).
  { unfold F, S, Fn, TP.
    rewrite (flat_map_firstn_skipn _ _ marks nf cr). f_equal.
    rewrite (flat_map_firstn_skipn _ _ marks ns (skipn nf cr)). f_equal.
    rewrite skipn_skipn, (Nat.add_comm ns nf).
    rewrite (flat_map_firstn_skipn _ _ marks nfn (skipn (nf + ns) cr)). f_equal.
    rewrite skipn_skipn. f_equal. f_equal. lia. }
  rewrite Hcr.
  rewrite !marks_if_nonempty by (mk; first [apply marks_joins; reflexivity | reflexivity]).
  rewrite marks_if_segs by (mk; reflexivity).
  rewrite (marks_joins (T ", ") TP) by reflexivity. mk.
  rewrite <- !app_assoc. apply Permutation_app_head. apply perm_rot4.
Qed.

Lemma type_param_marks : forall name v b,
  marks (type_param_text name v b) = mk_mark (MDecl DTypeParam) name.
Proof. intros. unfold type_param_text. mk. reflexivity. Qed.

Lemma type_annotation_marks : forall t, marks (type_annotation t) = [].
Proof. intros [t|]; reflexivity. Qed.
#[local] Hint Rewrite type_annotation_marks : marks.

Lemma var_decl_marks : forall name fin vt old (cr : list segs), List.length cr = 1 ->
  marks (var_decl_text name fin vt old cr) = mk_mark (MDecl DVar) name ++ flat_map marks cr.
Proof.
  intros name fin vt old [|x [|y r]] H; try discriminate. unfold var_decl_text, nth_seg. cbn [nth flat_map].
  mk. reflexivity.
Qed.

Lemma call_argument_marks : forall name (cr : list segs), List.length cr = 1 ->
  marks (call_argument_text name cr) = flat_map marks cr.
Proof.
  intros name [|x [|y r]] H; try discriminate. unfold call_argument_text, nth_seg. cbn [nth flat_map].
  destruct (name_truthy name); mk; reflexivity.
Qed.

Lemma field_marks : forall name ft fin co ov,
  marks (field_text name ft fin co ov) = mk_mark (MDecl DField) name.
Proof. intros. unfold field_text. mk. reflexivity. Qed.

Lemma param_marks : forall name pt va (cr : list segs), List.length cr <= 1 ->
  marks (param_text name pt va (nonempty cr) cr) = mk_mark (MDecl DParam) name ++ flat_map marks cr.
Proof.
  intros name pt va [|x [|y r]] H; cbn in H; try lia; unfold param_text, nth_seg; cbn [nonempty nth flat_map];
    mk; reflexivity.
Qed.

Lemma body_marks : forall (hb : bool) n (cr : list segs),
  List.length cr = n + (if hb then 1 else 0) ->
  flat_map marks (skipn n cr) = marks (if hb then last_seg cr else []).
Proof.
  intros hb n cr H. destruct hb.
  - rewrite (skipn_last _ n cr [] H). cbn. now rewrite app_nil_r.
  - rewrite skipn_all2 by lia. reflexivity.
Qed.

Lemma func_decl_marks : forall name rt fin im ov (hb : bool) np ntp old (cr : list segs),
  List.length cr = np + ntp + (if hb then 1 else 0) ->
  Permutation (marks (func_decl_text name rt fin im ov hb np ntp old cr))
              (mk_mark (MDecl DFunc) name ++ flat_map marks cr).
Proof.
  intros name rt fin im ov hb np ntp old cr H. unfold func_decl_text. cbv zeta.
  set (P := firstn np cr). set (TP := firstn ntp (skipn np cr)).
  set (B := if hb then last_seg cr else []).
  assert (Hcr : flat_map marks cr = flat_map marks P ++ flat_map marks TP ++ marks B).
  { unfold P, TP, B.
    rewrite (flat_map_firstn_skipn _ _ marks np cr). f_equal.
    rewrite (flat_map_firstn_skipn _ _ marks ntp (skipn np cr)). f_equal.
    rewrite skipn_skipn, (Nat.add_comm ntp np). now apply body_marks. }
  rewrite Hcr.
  match goal with |- Permutation (marks (if negb (segs_empty B) then ?res ++ ?X else ?res)) _ =>
    rewrite (marks_if_segs B res X) end.
  2:{ mk. reflexivity. }
  mk.
  rewrite marks_if_segs0 by (mk; reflexivity).
  rewrite (marks_joins (T ", ") TP) by reflexivity.
  rewrite (marks_joins (T ", ") P) by reflexivity.
  rewrite <- !app_assoc. apply perm_func.
Qed.

Lemma lambda_marks : forall rt np (hb : bool) (cr : list segs),
  List.length cr = np + (if hb then 1 else 0) ->
  marks (lambda_text rt np hb cr) = flat_map marks cr.
Proof.
  intros rt np hb cr H. unfold lambda_text. cbv zeta.
  rewrite (flat_map_firstn_skipn _ _ marks np cr), (body_marks hb np cr H).
  mk. rewrite (marks_joins (T ", ") (firstn np cr)) by reflexivity. reflexivity.
Qed.

Lemma bottom_marks : forall t i, marks (bottom_text t i) = [].
Proof. intros [t|] i; reflexivity. Qed.

Lemma integer_marks : forall lit it c i, marks (integer_text lit it c i) = mk_mark MLit lit.
Proof. intros. unfold integer_text. destruct (negb c); mk; reflexivity. Qed.

Lemma real_marks : forall lit rt i, marks (real_text lit rt i) = mk_mark MLit lit.
Proof. intros. unfold real_text. mk. reflexivity. Qed.
Lemma char_marks : forall lit i, marks (char_text lit i) = mk_mark MLit lit.
Proof. intros. unfold char_text. mk. reflexivity. Qed.
Lemma string_marks : forall lit i, marks (string_text lit i) = mk_mark MLit lit.
Proof. intros. unfold string_text. mk. reflexivity. Qed.
Lemma boolean_marks : forall lit i, marks (boolean_text lit i) = mk_mark MLit lit.
Proof. intros. unfold boolean_text. mk. reflexivity. Qed.

Lemma array_empty_marks : forall at_ i, marks (array_empty_text at_ i) = [].
Proof. intros. unfold array_empty_text. destruct (ty_arg0_has_tvars at_); reflexivity. Qed.

Lemma array_marks : forall at_ i cr, marks (array_text at_ i cr) = flat_map marks cr.
Proof.
  intros. unfold array_text, array_cast. destruct (ty_arg0_is_tvar at_); mk; apply marks_joins; reflexivity.
Qed.

Lemma variable_marks : forall name i, marks (variable_text name i) = [].
Proof. reflexivity. Qed.

Lemma binary_op_marks : forall op nt w0 w1 old (cr : list segs), List.length cr = 2 ->
  Permutation (marks (binary_op_text op nt w0 w1 old cr)) (mk_mark MOp (op_str op nt) ++ flat_map marks cr).
Proof.
  intros op nt w0 w1 old [|x [|y [|z r]]] H; try discriminate. unfold binary_op_text, nth_seg. cbn [nth flat_map].
  mk. rewrite !app_assoc. apply Permutation_app_tail. apply Permutation_app_comm.
Qed.

Lemma conditional_marks : forall old i (cr : list segs), List.length cr = 3 ->
  (forall r0 rest, cr = r0 :: rest -> exists r', r0 = Txt (spaces (old + 2)) :: r') ->
  (i = old + 2 \/ i = 0) ->
  marks (conditional_text old i cr) = flat_map marks cr.
Proof.
  intros old i [|x [|y [|z [|w r]]]] H Hp Hi; try discriminate.
  destruct (Hp x [y; z] eq_refl) as [r' ->].
  unfold conditional_text, nth_seg. cbn [nth flat_map]. mk.
  rewrite (marks_drop_prefix (old + 2) r' i Hi). reflexivity.
Qed.

Lemma is_marks : forall rx old (cr : list segs), List.length cr = 1 ->
  Permutation (marks (is_text rx old cr)) (mk_mark MOp is_op ++ flat_map marks cr).
Proof.
  intros rx old [|x [|y r]] H; try discriminate. unfold is_text, nth_seg. cbn [nth flat_map].
  mk. apply Permutation_app_comm.
Qed.

Lemma new_marks : forall ct i (cr : list segs), (if is_any_ty ct then List.length cr = 0 else True) ->
  marks (new_text ct i cr) = flat_map marks cr.
Proof.
  intros ct i cr H. unfold new_text. destruct (is_any_ty ct).
  - destruct cr; [reflexivity | discriminate].
  - mk. apply marks_joins. reflexivity.
Qed.

Lemma receiver_marks : forall b cr, marks (receiver_expr b cr) = marks (nth_seg 0 cr).
Proof. intros. unfold receiver_expr. destruct b; mk; reflexivity. Qed.
#[local] Hint Rewrite receiver_marks : marks.

Lemma field_access_marks : forall f b i (cr : list segs), List.length cr = 1 ->
  marks (field_access_text f true b i cr) = flat_map marks cr.
Proof.
  intros f b i [|x [|y r]] H; try discriminate. unfold field_access_text. mk.
  unfold nth_seg. cbn. now rewrite app_nil_r.
Qed.

Lemma func_ref_marks : forall f iu i (cr : list segs), List.length cr <= 1 ->
  marks (func_ref_text f iu i cr) = flat_map marks cr.
Proof.
  intros f iu i [|x [|y r]] H; cbn in H; try lia; unfold func_ref_text, nth_seg; cbn [nonempty nth flat_map];
    mk; reflexivity.
Qed.

Lemma func_call_marks : forall f ta ci (hr : bool) b i (cr : list segs), (if hr then 1 <= List.length cr else True) ->
  marks (func_call_text f ta ci hr b i cr) = flat_map marks cr.
Proof.
  intros f ta ci hr b i cr H. unfold func_call_text. destruct hr.
  - destruct cr as [|x r]; [cbn in H; lia|]. mk. unfold nth_seg. cbn [nth tl flat_map].
    rewrite (marks_joins (T ", ") r) by reflexivity. reflexivity.
  - mk. apply marks_joins. reflexivity.
Qed.

Lemma assign_marks : forall name (hr : bool) b old (cr : list segs), List.length cr = (if hr then 2 else 1) ->
  marks (assign_text name hr b old cr) = flat_map marks cr.
Proof.
  intros name hr b old cr H. unfold assign_text. destruct hr.
  - destruct cr as [|x [|y [|z r]]]; try discriminate. mk. unfold nth_seg. cbn. now rewrite app_nil_r.
  - destruct cr as [|x [|y r]]; try discriminate. mk. unfold nth_seg. cbn. now rewrite app_nil_r.
Qed.

Lemma program_marks : forall pkg cr, marks (program_text pkg cr) = flat_map marks cr.
Proof.
  intros. unfold program_text. destruct (negb (str_empty pkg)); mk; apply marks_joins; reflexivity.
Qed.

(* ---- the invariant of the printer *)
Definition good (n : pnode) (e : env) (r : segs) : Prop :=
  wf n = true ->
  Permutation (marks r) (inventory n) /\
  (prefixing (kind_of n) = true -> exists r', r = Txt (spaces (e_ident e)) :: r') /\
  (clean n = true -> Bal r).

Definition head_prefixed (cs : list pnode) (rs : list segs) (i : nat) : Prop :=
  forall c cs' r0 rest, cs = c :: cs' -> rs = r0 :: rest -> prefixing (kind_of c) = true ->
  exists r', r0 = Txt (spaces i) :: r'.

Lemma kids_good : forall cs, Forall (fun c => forall e, good c e (fst (pp c e))) cs ->
  forallb wf cs = true -> forall e,
  Permutation (flat_map marks (fst (pp_children pp cs e))) (flat_map inventory cs) /\
  head_prefixed cs (fst (pp_children pp cs e)) (e_ident e) /\
  (forallb clean cs = true -> Forall Bal (fst (pp_children pp cs e))).
Proof.
  induction 1 as [|c cs Hc Hcs IH]; intros Hwf e.
  - cbn. repeat split; auto. intros ? ? ? ? H; discriminate H.
  - cbn [forallb] in Hwf. apply andb_true_iff in Hwf. destruct Hwf as [Hw1 Hw2].
    rewrite pp_children_cons. specialize (Hc e Hw1). destruct (pp c e) as [x i]. cbn [fst] in Hc.
    specialize (IH Hw2 (mkEnv i (e_unit e) (e_lambda e) (e_cast e) (e_stack e) (e_ctx e))).
    destruct (pp_children pp cs _) as [xs j]. cbn [fst e_stack] in *.
    destruct Hc as (P1 & H1 & B1). destruct IH as (P2 & _ & B2).
    repeat split.
    + cbn [flat_map]. now apply Permutation_app.
    + intros c0 cs' r0 rest E1 E2 Hp. injection E1 as <- <-. injection E2 as <- <-. exact (H1 Hp).
    + intros Hcl. cbn [forallb] in Hcl. apply andb_true_iff in Hcl. destruct Hcl as [C1 C2].
      constructor; auto.
Qed.

Definition starts (p : string) (r : segs) : Prop := exists r', r = Txt p :: r'.

Lemma starts_app : forall p r x, starts p r -> starts p (r ++ x).
Proof. intros p r x [r' ->]. exists (r' ++ x). reflexivity. Qed.

Lemma starts_if : forall p (c : bool) a b, starts p a -> starts p b -> starts p (if c then a else b).
Proof. intros p [] a b Ha Hb; assumption. Qed.

Lemma starts_T : forall p x, starts p (T p ++ x).
Proof. intros. exists x. reflexivity. Qed.

Ltac prefix_tac :=
  let Hp := fresh "Hp" in
  intros Hp;
  first [ discriminate Hp
        | unfold class_text, var_decl_text, func_decl_text, bottom_text, integer_text, real_text,
            char_text, string_text, boolean_text, array_empty_text, array_text, variable_text,
            binary_op_text, conditional_text, is_text, new_text, field_access_text, func_ref_text,
            func_call_text, assign_text;
          cbv zeta; try (rewrite Hp; cbv iota);
          match goal with |- exists r', ?x = Txt ?p :: r' => change (starts p x) end;
          repeat first [ apply starts_T | apply starts_if | apply starts_app ] ].

Ltac arith_tac :=
  repeat match goal with
         | H : Nat.eqb _ _ = true |- _ => apply Nat.eqb_eq in H
         | H : Nat.leb _ _ = true |- _ => apply Nat.leb_le in H
         | H : (_ && _) = true |- _ => apply andb_true_iff in H; destruct H
         end;
  try lia.

Lemma pp_good : forall n e, good n e (fst (pp n e)).
Proof.
  induction n as [k cs IH] using pnode_ind'. intros e Hwf.
  cbn [wf] in Hwf. apply andb_true_iff in Hwf. destruct Hwf as [Har Hwfs].
  rewrite pp_unfold. unfold pp_node. cbn [inventory kind_of].
  assert (Hid : Forall (fun c => forall e, id_ok (snd (pp c e)) (e_ident e)) cs)
    by (apply Forall_forall; intros; apply pp_ident).
  destruct k; cbn [arity_ok] in Har; cbn [own_marks prefixing];
    try (destruct (Nat.eqb length 0) eqn:Elen);
    try match goal with
        | |- context [pp_children pp cs ?E] =>
            pose proof (kids_good cs IH Hwfs E) as (HP & HH & HB);
            pose proof (pp_children_length pp cs E) as HL;
            pose proof (pp_children_ident cs Hid E) as HI;
            destruct (pp_children pp cs E) as [cr j]
        end;
    cbn [fst snd e_ident e_stack] in *;
    (split; [| split; [prefix_tac |]]).
  all: try (intros Hc; cbn [clean] in Hc; apply andb_true_iff in Hc; destruct Hc as [Hck Hcs];
            try specialize (HB Hcs);
            split_clean Hck; cbn [forallb] in *; arith_tac).
  (* KBlock *)
  - rewrite block_marks. exact HP.
  - apply block_bal. exact HB.
  (* KSuper *)
  - rewrite super_marks. destruct args_none; [|exact HP].
    arith_tac. destruct cs; [apply Permutation_refl | discriminate].
  - apply super_bal; assumption.
  (* KClass *)
  - eapply perm_trans; [apply class_marks | apply Permutation_app_head; exact HP].
  - apply class_bal; assumption.
  (* KTypeParam *)
  - arith_tac. destruct cs; [|discriminate]. rewrite type_param_marks. cbn. rewrite app_nil_r. apply Permutation_refl.
  - apply type_param_bal; assumption.
  (* KVarDecl *)
  - arith_tac. rewrite var_decl_marks by lia. apply Permutation_app_head. exact HP.
  - apply var_decl_bal; assumption.
  (* KCallArg *)
  - arith_tac. rewrite call_argument_marks by lia. exact HP.
  - apply call_argument_bal; assumption.
  (* KField *)
  - arith_tac. destruct cs; [|discriminate]. rewrite field_marks. cbn. rewrite app_nil_r. apply Permutation_refl.
  - apply field_bal; assumption.
  (* KParam *)
  - arith_tac. replace (nonempty cs) with (nonempty cr) by (destruct cs, cr; cbn in *; try reflexivity; lia).
    rewrite param_marks by lia. apply Permutation_app_head. exact HP.
  - apply param_bal; assumption.
  (* KFunc *)
  - arith_tac. eapply perm_trans; [apply func_decl_marks; lia | apply Permutation_app_head; exact HP].
  - apply func_decl_bal; assumption.
  (* KLambda *)
  - arith_tac. rewrite lambda_marks by lia. exact HP.
  - apply lambda_bal; assumption.
  (* KBottom *)
  - arith_tac. destruct cs; [|discriminate]. rewrite bottom_marks. apply Permutation_refl.
  - apply bottom_bal; assumption.
  (* KInt *)
  - arith_tac. destruct cs; [|discriminate]. rewrite integer_marks. cbn. rewrite app_nil_r. apply Permutation_refl.
  - apply integer_bal; assumption.
  (* KReal *)
  - arith_tac. destruct cs; [|discriminate]. rewrite real_marks. cbn. rewrite app_nil_r. apply Permutation_refl.
  - apply real_bal; assumption.
  (* KChar *)
  - arith_tac. destruct cs; [|discriminate]. rewrite char_marks. cbn. rewrite app_nil_r. apply Permutation_refl.
  - apply char_bal; assumption.
  (* KString *)
  - arith_tac. destruct cs; [|discriminate]. rewrite string_marks. cbn. rewrite app_nil_r. apply Permutation_refl.
  - apply string_bal; assumption.
  (* KBool *)
  - arith_tac. destruct cs; [|discriminate]. rewrite boolean_marks. cbn. rewrite app_nil_r. apply Permutation_refl.
  - apply boolean_bal; assumption.
  (* KArray, empty *)
  - arith_tac. destruct cs; [|discriminate]. rewrite array_empty_marks. apply Permutation_refl.
  - apply array_empty_bal; assumption.
  (* KArray *)
  - rewrite array_marks. exact HP.
  - apply array_bal; assumption.
  (* KVariable *)
  - arith_tac. destruct cs; [|discriminate]. rewrite variable_marks. apply Permutation_refl.
  - apply variable_bal; assumption.
  (* KBinOp *)
  - arith_tac. eapply perm_trans; [apply binary_op_marks; lia | apply Permutation_app_head; exact HP].
  - apply binary_op_bal; assumption.
  (* KCond *)
  - arith_tac. rewrite conditional_marks; [exact HP | lia | | exact HI].
    intros r0 rest ->. destruct cs as [|c0 cs']; [discriminate|]. eapply HH; eauto.
  - apply conditional_bal; [assumption | | exact HI].
    intros r0 rest ->. destruct cs as [|c0 cs']; [discriminate|]. eapply HH; eauto.
  (* KIs *)
  - arith_tac. eapply perm_trans; [apply is_marks; lia | apply Permutation_app_head; exact HP].
  - apply is_bal; assumption.
  (* KNew *)
  - rewrite new_marks; [exact HP|]. revert Har. destruct (is_any_ty class_type); intros Har; [arith_tac | exact I].
  - apply new_bal; assumption.
  (* KFieldAccess *)
  - arith_tac. replace (nonempty cs) with true by (destruct cs; [cbn in *; lia | reflexivity]).
    rewrite field_access_marks by lia. exact HP.
  - apply field_access_bal; assumption.
  (* KFuncRef *)
  - arith_tac. rewrite func_ref_marks by lia. exact HP.
  - apply func_ref_bal; assumption.
  (* KFuncCall *)
  - rewrite func_call_marks; [exact HP|]. destruct has_receiver; [arith_tac | exact I].
  - apply func_call_bal; assumption.
  (* KAssign *)
  - arith_tac. rewrite assign_marks; [exact HP|]. destruct has_receiver; lia.
  - apply assign_bal; assumption.
Qed.

(* ---- program level *)
Lemma result_segs_pp : forall pkg p t,
  result_segs (visit_program pkg p t) = pp_program pkg p (env_of (tst t)).
Proof. intros. rewrite visit_program_pure. reflexivity. Qed.

Lemma all_good : forall cs, Forall (fun c => forall e, good c e (fst (pp c e))) cs.
Proof. intros. apply Forall_forall. intros. apply pp_good. Qed.

Lemma declares_exactly_lem : forall pkg p t,
  wf_program p = true ->
  Permutation (marks (result_segs (visit_program pkg p t))) (program_inventory p).
Proof.
  intros pkg p t Hwf. rewrite result_segs_pp. unfold pp_program. rewrite program_marks.
  exact (proj1 (kids_good (decls p) (all_good _) Hwf _)).
Qed.

Lemma print_program_flatten : forall pkg p, print_program pkg p = flatten (print_segs pkg p).
Proof. reflexivity. Qed.

Lemma brackets_balanced_lem : forall pkg p,
  wf_program p = true -> clean_program pkg p = true ->
  balanced "("%char ")"%char (print_program pkg p) = true /\
  balanced "{"%char "}"%char (print_program pkg p) = true /\
  balanced "["%char "]"%char (print_program pkg p) = true.
Proof.
  intros pkg p Hwf Hcl. unfold clean_program in Hcl. apply andb_true_iff in Hcl. destruct Hcl as [Hpk Hcs].
  rewrite print_program_flatten. unfold print_segs. rewrite result_segs_pp. unfold pp_program.
  destruct (kids_good (decls p) (all_good _) Hwf (prog_env (env_of (tst init_tr)) p)) as (_ & _ & HB).
  specialize (HB Hcs).
  destruct (program_bal pkg _ Hpk HB) as (B1 & B2 & B3).
  repeat split; apply neutral_balanced; assumption.
Qed.

(* ---- a declared type / explicit type arguments are printed iff the program carries them *)
Lemma type_annotation_spec : forall t,
  type_annotation t = match t with Some t' => [Txt ": "; Txt (type_name t')] | None => [] end.
Proof. intros [t|]; reflexivity. Qed.

Lemma var_decl_shape_lem : forall name fin vt inf cs s,
  exists cr,
    children_res (visit (PN (KVarDecl name fin vt inf) cs) s) =
    (T (spaces (ident s)) ++ T (if fin then "val " else "var ") ++ [Decl DVar name] ++
     match vt with Some t => [Txt ": "; Txt (type_name t)] | None => [] end ++
     T " = " ++ nth_seg 0 cr) :: children_res s.
Proof.
  intros. rewrite visit_pure, pp_unfold. unfold pp_node.
  match goal with |- context [pp_children pp cs ?E] => destruct (pp_children pp cs E) as [cr j] end.
  exists cr. unfold pushed. cbn [children_res fst]. unfold var_decl_text. rewrite type_annotation_spec.
  reflexivity.
Qed.

Lemma func_decl_text_split : forall name fin im ov hb np ntp old cr,
  exists head body, forall rt,
    func_decl_text name rt fin im ov hb np ntp old cr =
    head ++ match rt with Some t => [Txt ": "; Txt (type_name t)] | None => [] end ++ body.
Proof.
  intros. unfold func_decl_text. cbv zeta.
  match goal with |- exists head body, forall rt, (if ?c then (?h ++ _) ++ ?x else _) = _ =>
    exists h, (if c then x else []) end.
  intros rt. rewrite type_annotation_spec. destruct (negb _); [now rewrite <- app_assoc | now rewrite app_nil_r].
Qed.

Lemma func_decl_shape_lem : forall name rt inf fin im ov hb np ntp cs s,
  exists cr,
    children_res (visit (PN (KFunc name rt inf fin im ov hb np ntp) cs) s) =
    func_decl_text name rt fin im ov hb np ntp (ident s) cr :: children_res s.
Proof.
  intros. rewrite visit_pure, pp_unfold. unfold pp_node. cbv zeta.
  match goal with |- context [pp_children pp cs ?E] => destruct (pp_children pp cs E) as [cr j] end.
  exists cr. reflexivity.
Qed.

Lemma lambda_shape_lem : forall rt np hb cs s,
  exists cr,
    children_res (visit (PN (KLambda rt np hb) cs) s) = lambda_text rt np hb cr :: children_res s.
Proof.
  intros. rewrite visit_pure, pp_unfold. unfold pp_node. cbv zeta.
  match goal with |- context [pp_children pp cs ?E] => destruct (pp_children pp cs E) as [cr j] end.
  exists cr. reflexivity.
Qed.

Lemma lambda_text_spec : forall rt np hb cr,
  lambda_text rt np hb cr =
  paren (joins (T ", ") (firstn np cr)) ++ T " => " ++ (if hb then last_seg cr else []) ++
  match rt with Some t => [Txt ": "; Txt (type_name t)] | None => [] end.
Proof. intros. unfold lambda_text. rewrite type_annotation_spec. reflexivity. Qed.

Lemma new_shape_lem : forall ct cs s,
  exists cr,
    children_res (visit (PN (KNew ct) cs) s) = new_text ct (ident s) cr :: children_res s.
Proof.
  intros. rewrite visit_pure, pp_unfold. unfold pp_node.
  match goal with |- context [pp_children pp cs ?E] => destruct (pp_children pp cs E) as [cr j] end.
  exists cr. reflexivity.
Qed.

Lemma new_text_spec : forall ct i cr,
  new_text ct i cr =
  if is_any_ty ct then T (spaces i) ++ T "1.asInstanceOf" ++ brack (T "Any")
  else T "new " ++ T (spaces i) ++ T (new_type_text ct) ++ paren (joins (T ", ") cr).
Proof. reflexivity. Qed.

Lemma new_type_text_spec : forall n ci args,
  new_type_text (TApp n ci args) = if ci then n else type_name (TApp n ci args).
Proof. reflexivity. Qed.

Lemma func_call_shape_lem : forall f ta ci hr cs s,
  exists cr,
    children_res (visit (PN (KFuncCall f ta ci hr) cs) s) =
    func_call_text f ta ci hr (first_is_bottom cs) (ident s) cr :: children_res s.
Proof.
  intros. rewrite visit_pure, pp_unfold. unfold pp_node.
  match goal with |- context [pp_children pp cs ?E] => destruct (pp_children pp cs E) as [cr j] end.
  exists cr. reflexivity.
Qed.

Lemma func_call_text_spec : forall f ta ci hr b i cr,
  func_call_text f ta ci hr b i cr =
  T (spaces i) ++
  (if hr then receiver_expr b cr ++ T "." ++ T bquote ++ T f ++ T bquote
   else T (match rsplit_dot f with Some (a, _) => a | None => "" end) ++ T bquote ++
        T (match rsplit_dot f with Some (_, b) => b | None => f end) ++ T bquote) ++
  T (if ci then "" else match ta with [] => "" | _ => ("[" ++ join "," (map type_name ta) ++ "]")%string end) ++
  paren (joins (T ", ") (if hr then tl cr else cr)).
Proof.
  intros. unfold func_call_text, type_args_str.
  destruct hr, ci, ta; cbn [negb andb nonempty]; rewrite <- ?app_assoc; reflexivity.
Qed.

(* the operator of an Is node is not an input of its text *)
Lemma is_shape_lem : forall op nt rx cs s,
  exists cr,
    children_res (visit (PN (KIs op nt rx) cs) s) =
    (T (spaces (ident s)) ++ nth_seg 0 cr ++ [Op ".isInstanceOf"] ++ brack (T (type_name rx))) :: children_res s.
Proof.
  intros. rewrite visit_pure, pp_unfold. unfold pp_node.
  match goal with |- context [pp_children pp cs ?E] => destruct (pp_children pp cs E) as [cr j] end.
  exists cr. reflexivity.
Qed.

(* ---- the counting decision procedure evaluated by the harness is exact *)
Lemma mark_eqb_spec : forall a b, mark_eqb a b = true <-> a = b.
Proof.
  intros a b; split.
  - destruct a as [k1 s1|s1|s1], b as [k2 s2|s2|s2]; cbn; try discriminate.
    + intros H. apply andb_true_iff in H. destruct H as [H1 H2]. apply String.eqb_eq in H1. subst.
      destruct k1, k2; try discriminate; reflexivity.
    + intros H. apply String.eqb_eq in H. now subst.
    + intros H. apply String.eqb_eq in H. now subst.
  - intros <-. destruct a as [k s|s|s]; cbn; rewrite String.eqb_refl; [destruct k|..]; reflexivity.
Qed.

Lemma remove_one_perm : forall m l l', remove_one m l = Some l' -> Permutation l (m :: l').
Proof.
  intros m l; induction l as [|x l IH]; intros l' H; [discriminate|].
  cbn [remove_one] in H. destruct (mark_eqb m x) eqn:E.
  - apply mark_eqb_spec in E. subst. injection H as <-. apply Permutation_refl.
  - destruct (remove_one m l) as [r'|]; [|discriminate]. injection H as <-.
    eapply perm_trans; [apply perm_skip, IH; reflexivity | apply perm_swap].
Qed.

Lemma remove_one_in : forall m l, In m l -> exists l', remove_one m l = Some l'.
Proof.
  intros m l; induction l as [|x l IH]; intros H; [destruct H|].
  cbn [remove_one]. destruct (mark_eqb m x) eqn:E; [eexists; reflexivity|].
  destruct H as [-> | H].
  - rewrite (proj2 (mark_eqb_spec m m) eq_refl) in E. discriminate.
  - destruct (IH H) as [l' ->]. eexists; reflexivity.
Qed.

Lemma same_marks_spec : forall a b, same_marks a b = true <-> Permutation a b.
Proof.
  induction a as [|m r IH]; intros b.
  - cbn. destruct b; split; intros H; try reflexivity; try discriminate.
    + apply Permutation_nil in H. discriminate.
  - cbn [same_marks]. split.
    + destruct (remove_one m b) as [b'|] eqn:E; [|discriminate]. intros H.
      apply IH in H. apply Permutation_sym.
      eapply perm_trans; [apply remove_one_perm; exact E | apply perm_skip, Permutation_sym, H].
    + intros H. assert (Hin : In m b) by (eapply Permutation_in; [exact H | left; reflexivity]).
      destruct (remove_one_in m b Hin) as [b' E]. rewrite E. apply IH.
      apply remove_one_perm in E. eapply Permutation_cons_inv. eapply perm_trans; [exact H | exact E].
Qed.

(* ---- modifiers, bounds, inheritance clauses: the headers of the declarations *)
Lemma visit_field_lem : forall name ft fin co ov cs s,
  children_res (visit (PN (KField name ft fin co ov) cs) s) =
  (T (if co then "" else "final ") ++ T (if ov then "override " else "") ++
   T (if fin then "val " else "var ") ++ [Decl DField name] ++ T ": " ++ T (type_name ft))
  :: children_res s.
Proof. intros. rewrite visit_pure, pp_unfold. reflexivity. Qed.

Lemma visit_type_param_lem : forall name v b cs s,
  children_res (visit (PN (KTypeParam name v b) cs) s) =
  (T (match v with 0 => "" | 1 => "+" | _ => "-" end) ++ [Decl DTypeParam name] ++ T " <: " ++
   T (match b with Some t => type_name t | None => "Any" end))
  :: children_res s.
Proof. intros. rewrite visit_pure, pp_unfold. reflexivity. Qed.

Lemma visit_class_lem : forall name ct fin nf ns nfn cs s,
  exists cr,
    children_res (visit (PN (KClass name ct fin nf ns nfn) cs) s) =
    class_text name ct fin nf ns nfn (ident s) cr :: children_res s.
Proof.
  intros. rewrite visit_pure, pp_unfold. unfold pp_node.
  match goal with |- context [pp_children pp cs ?E] => destruct (pp_children pp cs E) as [cr j] end.
  exists cr. reflexivity.
Qed.

(* class header: modifiers, name, type parameters, constructor fields, supertypes, members *)
Lemma class_text_spec : forall name ct fin nf ns nfn old cr,
  class_text name ct fin nf ns nfn old cr =
  let fields := firstn nf cr in
  let supers := firstn ns (skipn nf cr) in
  let funcs := firstn nfn (skipn (nf + ns) cr) in
  let tparams := joins (T ", ") (skipn (nf + ns + nfn) cr) in
  (T (spaces old) ++ T (if negb fin || Nat.eqb ct 1 then "open " else "") ++
   T (match ct with 0 => "class" | 1 => "trait" | _ => "abstract class" end) ++ T " " ++ [Decl DClass name]) ++
  (if negb (segs_empty tparams) then brack tparams else []) ++
  (if nonempty fields then paren (joins (T ", ") fields) else []) ++
  (if nonempty supers then T " extends " ++ joins (T ", ") supers else []) ++
  (if nonempty funcs
   then T " " ++ brace (T nl ++ joins (T (nl ++ nl)%string) funcs ++ T nl ++ T (spaces old))
   else []).
Proof.
  intros. unfold class_text. cbv zeta.
  destruct (nonempty (firstn nfn _)), (nonempty (firstn ns _)), (nonempty (firstn nf cr)),
    (negb (segs_empty _)); rewrite <- ?app_assoc, ?app_nil_r; reflexivity.
Qed.

(* function header: final iff final class method, override iff override, then "def" and the name *)
Lemma func_decl_head_lem : forall name rt fin im ov hb np ntp old cr,
  exists rest,
    func_decl_text name rt fin im ov hb np ntp old cr =
    T (spaces old) ++ T (if fin && im then "final " else "") ++ T (if ov then "override " else "") ++
    T "def " ++ [Decl DFunc name] ++ rest.
Proof.
  intros. unfold func_decl_text. cbv zeta. destruct (negb (segs_empty _)); rewrite <- !app_assoc; eexists; reflexivity.
Qed.

(* ---- refutations: what a faithful translation would have to satisfy and ScalaTranslator does not *)
Definition is_witness (nt : bool) : pprogram :=
  mkProgram [PN (KVarDecl "x" true None (TName CBuiltin "Boolean"))
                [PN (KIs "is" nt (TName CBuiltin "Int")) [PN (KVariable "y") []]]].

Lemma is_negation_not_printed_lem :
  wf_program (is_witness true) = true /\ wf_program (is_witness false) = true /\
  is_witness true <> is_witness false /\
  print_program "" (is_witness true) = print_program "" (is_witness false).
Proof. repeat split; try reflexivity. unfold is_witness. discriminate. Qed.

Lemma full_inventory_refuted_lem :
  exists pkg p, wf_program p = true /\ clean_program pkg p = true /\
    ~ Permutation (marks (print_segs pkg p)) (program_inventory_full p).
Proof.
  exists "", (is_witness true). repeat split; try reflexivity.
  intros H. apply same_marks_spec in H. vm_compute in H. discriminate H.
Qed.

(* on programs without negated Is nodes nothing is missing *)
Lemma inventory_full_neg_free : forall n, neg_free n = true -> inventory_full n = inventory n.
Proof.
  induction n as [k cs IH] using pnode_ind'. intros H. cbn [neg_free] in H.
  apply andb_true_iff in H. destruct H as [Hk Hcs]. cbn [inventory_full inventory].
  assert (E : flat_map inventory_full cs = flat_map inventory cs).
  { clear Hk. induction IH as [|c cs Hc _ IHcs]; [reflexivity|].
    cbn [forallb] in Hcs. apply andb_true_iff in Hcs. destruct Hcs as [H1 H2].
    cbn [flat_map]. now rewrite (Hc H1), (IHcs H2). }
  rewrite E. destruct k; try reflexivity. cbn [own_marks_full]. destruct is_not; [discriminate Hk|].
  now rewrite app_nil_r.
Qed.

Lemma declares_exactly_neg_free_lem : forall pkg p t,
  wf_program p = true -> neg_free_program p = true ->
  Permutation (marks (result_segs (visit_program pkg p t))) (program_inventory_full p).
Proof.
  intros pkg p t Hwf Hf.
  assert (E : program_inventory_full p = program_inventory p).
  { unfold program_inventory_full, program_inventory, neg_free_program in *.
    induction (decls p) as [|c cs IH]; [reflexivity|].
    cbn [forallb] in Hf. apply andb_true_iff in Hf. destruct Hf as [H1 H2].
    cbn [flat_map]. now rewrite (inventory_full_neg_free c H1), (IH H2). }
  rewrite E. now apply declares_exactly_lem.
Qed.
