(* Properties_C05_spec.v -- the property theorems, nothing else: the self-contained scoping sub-checkers of the
   reference checker decide the DECLARATIVE specifications of IR/CheckSpec.v, for all trees. *)
From Coq Require Import List Arith Bool.
Import ListNotations.
From Heph Require Import Types.Syntax IR.Syntax IR.Check IR.CheckSpec IR.ScopeScan IR.CheckSpecProofs.

(* (a) code 24 *)
Theorem tv_scope_all_decides_TvClosed : forall p, tv_scope_all p = [] <-> TvClosed p.
Proof. exact tv_closed_iff_lem. Qed.
Print Assumptions tv_scope_all_decides_TvClosed.

Theorem tv_scope_all_reports_exactly_the_escapes : forall p e,
  In e (tv_scope_all p) <-> exists path, e = mkerr path 24 /\ TvEscapes p path.
Proof. exact tv_scope_all_in_lem. Qed.
Print Assumptions tv_scope_all_reports_exactly_the_escapes.

Theorem TvClosed_iff_no_escape : forall p, TvClosed p <-> forall path, ~ TvEscapes p path.
Proof. exact tv_closed_no_escape_lem. Qed.
Print Assumptions TvClosed_iff_no_escape.

Theorem accepted_program_is_TvClosed : forall infer strict L cn bclasses bt arr kw p,
  only_codes scoping_codes (check_program infer strict L cn bclasses bt arr kw p) = [] -> TvClosed p.
Proof. exact accepted_tv_closed_lem. Qed.
Print Assumptions accepted_program_is_TvClosed.

Theorem tv_scope_not_vacuous :
  TvClosed ex_tv_closed /\ ~ TvClosed ex_tv_open /\ TvEscapes ex_tv_open [1; 0; 0] /\
  tv_scope_all ex_tv_open = [mkerr [1] 24; mkerr [1; 0; 0] 24].
Proof. exact tv_examples_lem. Qed.
Print Assumptions tv_scope_not_vacuous.

(* (b) codes 21, 22: the exhaustive scanner *)
Theorem scan_checked_decides_ScopesChecked : forall kw p, scan_checked kw p = [] <-> ScopesChecked kw p.
Proof. exact scan_checked_iff_lem. Qed.
Print Assumptions scan_checked_decides_ScopesChecked.

Theorem scan_extra_decides_ScopesExtra : forall kw p, scan_extra kw p = [] <-> ScopesExtra kw p.
Proof. exact scan_extra_iff_lem. Qed.
Print Assumptions scan_extra_decides_ScopesExtra.

Theorem scan_decides_ScopesIntended : forall kw p, scan_checked kw p ++ scan_extra kw p = [] <-> ScopesIntended kw p.
Proof. exact scan_intended_iff_lem. Qed.
Print Assumptions scan_decides_ScopesIntended.

Theorem scopes_not_vacuous :
  ScopesIntended ex_kw ex_sc_ok /\ ~ ScopesChecked ex_kw ex_sc_dup /\ ~ ScopesChecked ex_kw ex_sc_kw /\
  check_program false false exL ex_cn [] [] None ex_kw ex_sc_ok = [] /\
  check_program false false exL ex_cn [] [] None ex_kw ex_sc_dup = [mkerr [1; 2; 1; 0; 1; 1] 21] /\
  check_program false false exL ex_cn [] [] None ex_kw ex_sc_kw = [mkerr [1; 2; 1; 0; 1; 1] 22].
Proof. exact scope_examples_lem. Qed.
Print Assumptions scopes_not_vacuous.

Theorem reference_checker_establishes_ScopesIntended_refuted :
  exists L cn kw p, check_program false false L cn [] [] None kw p = [] /\ ScopesChecked kw p /\ ~ ScopesIntended kw p.
Proof. exact checker_misses_member_lists_lem. Qed.
Print Assumptions reference_checker_establishes_ScopesIntended_refuted.

(* (b) what the reference checker itself is proved to report (completeness at the top level, all trees) *)
Theorem reserved_top_level_name_is_reported : forall infer strict L cn bclasses bt arr kw p i d,
  nth_error (kids_of p) i = Some d -> TopDecl d -> In (name_of_node d) kw ->
  In (mkerr [i] 22) (check_program infer strict L cn bclasses bt arr kw p).
Proof. exact top_reserved_reported. Qed.
Print Assumptions reserved_top_level_name_is_reported.

Theorem duplicate_parameter_of_top_level_function_is_reported : forall infer strict L cn bclasses bt arr kw p i d,
  nth_error (kids_of p) i = Some d -> kind_of d = kFuncDecl -> ~ DistinctNames (IsKind kParamDecl) (kids_of d) ->
  In (mkerr [i] 21) (check_program infer strict L cn bclasses bt arr kw p).
Proof. exact top_func_params_reported. Qed.
Print Assumptions duplicate_parameter_of_top_level_function_is_reported.

Theorem duplicate_parameter_of_method_is_reported : forall infer strict L cn bclasses bt arr kw p i d j s,
  nth_error (kids_of p) i = Some d -> kind_of d = kClassDecl ->
  nth_error (kids_of d) j = Some s -> kind_of s = kFuncDecl -> ~ DistinctNames (IsKind kParamDecl) (kids_of s) ->
  In (mkerr [i; j] 21) (check_program infer strict L cn bclasses bt arr kw p).
Proof. exact method_params_reported. Qed.
Print Assumptions duplicate_parameter_of_method_is_reported.

Theorem accepted_program_top_level_identifiers : forall infer strict L cn bclasses bt arr kw p,
  only_codes scoping_codes (check_program infer strict L cn bclasses bt arr kw p) = [] ->
  (forall d, In d (kids_of p) -> TopDecl d -> ~ In (name_of_node d) kw) /\
  (forall d, In d (kids_of p) -> kind_of d = kFuncDecl -> DistinctNames (IsKind kParamDecl) (kids_of d)) /\
  (forall d s, In d (kids_of p) -> kind_of d = kClassDecl -> In s (kids_of d) -> kind_of s = kFuncDecl ->
               DistinctNames (IsKind kParamDecl) (kids_of s)).
Proof. exact accepted_top_level_lem. Qed.
Print Assumptions accepted_program_top_level_identifiers.

(* further witnesses: on arbitrary trees the reference checker is not complete even for ScopesChecked (a block below a
   New without a recorded class type is never visited), and it never examines parameter names for reserved words *)
Theorem reference_checker_decides_ScopesChecked_refuted :
  exists L cn kw p, check_program false false L cn [] [] None kw p = [] /\ ~ ScopesChecked kw p.
Proof. exact checker_misses_unvisited_lem. Qed.
Print Assumptions reference_checker_decides_ScopesChecked_refuted.

Theorem reference_checker_rejects_reserved_parameter_names_refuted :
  exists L cn kw p n, check_program false false L cn [] [] None kw p = [] /\ ScopesChecked kw p /\
                      In n (nodes p) /\ kind_of n = kParamDecl /\ In (name_of_node n) kw.
Proof. exact checker_misses_reserved_param_lem. Qed.
Print Assumptions reference_checker_rejects_reserved_parameter_names_refuted.

(* the two ways the specifications address nodes (pre-order list, position relation) agree *)
Theorem nodes_are_the_positions : forall p m, In m (nodes p) <-> exists path anc, Path p path anc m.
Proof. exact nodes_iff_path_lem. Qed.
Print Assumptions nodes_are_the_positions.

(* (b) the statement loop of the reference checker's Block case reports, for a block it visits with fuel left, every
   duplicate and every reserved variable name the exhaustive scanner finds in that block (all trees, all environments) *)
Theorem visited_block_reports_what_the_scanner_finds : forall infer strict L w cs topfuncs topvars kw fu G path exp b,
  kind_of b = kBlock ->
  (forall j, In j (dups is_local_decl (kids_of b)) ->
             In (mkerr (path ++ [j]) 21) (snd (chk infer strict L w cs topfuncs topvars kw (S fu) G path exp b))) /\
  (forall j, In j (reserved_from (is_kind kVarDecl) kw 0 (kids_of b)) ->
             In (mkerr (path ++ [j]) 22) (snd (chk infer strict L w cs topfuncs topvars kw (S fu) G path exp b))).
Proof. exact chk_block_reports. Qed.
Print Assumptions visited_block_reports_what_the_scanner_finds.

Theorem accepted_program_body_blocks : forall infer strict L cn bclasses bt arr kw p,
  only_codes scoping_codes (check_program infer strict L cn bclasses bt arr kw p) = [] ->
  (forall d b, In d (kids_of p) -> kind_of d = kFuncDecl -> body_of d = [b] -> kind_of b = kBlock -> BlockOk kw b) /\
  (forall d s b, In d (kids_of p) -> kind_of d = kClassDecl -> In s (kids_of d) -> kind_of s = kFuncDecl ->
                 body_of s = [b] -> kind_of b = kBlock -> BlockOk kw b).
Proof. exact accepted_body_blocks_lem. Qed.
Print Assumptions accepted_program_body_blocks.
