(* Properties_C18_scheme.v -- the property theorems about the recursion scheme TRANSLATED from
   /repo/src/generators/generator.py (Generated/GenScheme.v), nothing else. *)
From Coq Require Import List Arith Bool String.
Import ListNotations.
From Heph Require Import IR.Depth IR.Scheme Generated.GenScheme IR.SchemeProofs.

(* ANY table that passes the decidable check, ANY run (call stack) of it read as a nondeterministic recursion,
   any max_depth: the number of frames is bounded by the depth counter the stack has climbed plus the listed
   (structurally bounded) edges it used -- recursion can only get deep by raising self.depth *)
Theorem scheme_call_depth_bounded : forall lst leaky T max x n k i z,
  scheme_ok lst leaky T = true -> chain lst T max x n k i z ->
  n <= scheme_bound lst T * (1 + k + (snd z - snd x)).
Proof. exact scheme_call_depth_lem. Qed.
Print Assumptions scheme_call_depth_bounded.

(* self.depth never decreases along a call stack and grows by at least one per incrementing edge *)
Theorem scheme_depth_never_decreases : forall lst T max x n k i z,
  chain lst T max x n k i z -> snd x + i <= snd z.
Proof. exact scheme_depth_mono_lem. Qed.
Print Assumptions scheme_depth_never_decreases.

(* partial form of "nesting bounded by a function of the configured depth": under a cut D on the depth counter *)
Theorem scheme_call_depth_bounded_partial : forall lst leaky T max x n k i z D,
  scheme_ok lst leaky T = true -> chain lst T max x n k i z -> snd z <= D ->
  n <= scheme_bound lst T * (1 + k + (D - snd x)).
Proof. exact scheme_cut_lem. Qed.
Print Assumptions scheme_call_depth_bounded_partial.

(* without the cut the statement is false: a table that passes the check (generate_expr offering gen_func_call
   for the void type at every depth) has, for every max_depth, call stacks of any length without listed edges *)
Theorem scheme_call_depth_bounded_by_max_depth_refuted :
  exists lst leaky T, scheme_ok lst leaky T = true /\
    forall max B, exists x n k i z, snd x = 1 /\ k = 0 /\ chain lst T max x n k i z /\ B < n.
Proof. exact no_bound_from_max_depth_lem. Qed.
Print Assumptions scheme_call_depth_bounded_by_max_depth_refuted.

(* a checked cycle that the dispatcher permits at every depth can be repeated for ever (the depth climbs) *)
Theorem permitted_cycle_is_unbounded : forall T lst max n c,
  cycle_ok T lst n c = true ->
  forall B d, exists m i d', chain lst T max (n, d) m 0 i (n, d') /\ B <= m.
Proof. exact cycle_ok_unbounded_lem. Qed.
Print Assumptions permitted_cycle_is_unbounded.

(* THE OBLIGATION ON THE SOURCE: the table translated from generator.py passes the check (ids, summary columns,
   only gen_is_expr leaks, every cycle passes an increment or a listed edge) *)
Theorem generated_scheme_ok : scheme_ok (listed_in gen_table) leaky_names gen_table = true.
Proof. exact generated_scheme_ok_lem. Qed.
Print Assumptions generated_scheme_ok.

Theorem generated_call_depth_bounded : forall max x n k i z,
  chain (listed_in gen_table) gen_table max x n k i z ->
  n <= scheme_bound (listed_in gen_table) gen_table * (1 + k + (snd z - snd x)).
Proof. exact generated_call_depth_lem. Qed.
Print Assumptions generated_call_depth_bounded.

(* the hypotheses are satisfiable on the generated table: a call stack of >= 3 frames from generate_main_func *)
Theorem generated_chain_example :
  exists x n k i z, chain (listed_in gen_table) gen_table 3 x n k i z /\ 3 <= n /\ k = 0 /\
                    name_of gen_table (fst (fst x)) = "generate_main_func"%string.
Proof. exact generated_chain_example_lem. Qed.
Print Assumptions generated_chain_example.

(* ties between the translated table and the hand-written get_generators model of IR/Depth.v *)
Theorem model_increments_match_source : forall g, entry_inc gen_table (inc_name g) = Some (inc g).
Proof. exact model_increments_lem. Qed.
Print Assumptions model_increments_match_source.

Theorem dispatch_covers_model : forall d m ol ev iv ib ck v mv g,
  In g (get_generators d m ol ev iv ib ck v mv) ->
  offered gen_table (if iv then 1 else if (m <=? d) || ol then 2 else 3) (gen_name g) = true.
Proof. exact dispatch_covers_model_lem. Qed.
Print Assumptions dispatch_covers_model.
