(* IR/Work.v -- the three counters that bound the pipeline's work besides the generator's depth (C18):
   (1) ProgramProcessor's transformation schedule (src/modules/processor.py) with the
       while-loop of hephaestus.process_cp_transformations;
   (2) the budget of TypeErasure.visit_func_decl's search over combinations
       (src/transformations/type_erasure.py);
   (3) the rule by which gen_new cuts constructor arguments to bottom constants
       (src/generators/generator.py).
   Definitions only. *)
From Coq Require Import List Arith Bool.
Import ListNotations.

(* ---------- (1) schedule ---------- *)
Record proc := { cur : nat; slen : nat }.

Definition can_transform (p : proc) : bool := cur p <? slen p.

(* transform_program / inject_fault: the counter advances whether or not the transformation
   changed the program; the result is None exactly when it did not *)
Definition transform_program (p : proc) (transformed : bool) : proc * bool :=
  ({| cur := S (cur p); slen := slen p |}, transformed).

(* next outcome of the oracle (is_transformed of the next transformation); an exhausted oracle answers false *)
Definition next (o : list bool) : bool * list bool :=
  match o with [] => (false, []) | b :: o' => (b, o') end.

(* process_cp_transformations: while proc.can_transform(): res = proc.transform_program(program);
   if res is None: continue; ...      Result: final state, number of calls, 1-based numbers of the
   transformations that produced a program; None = out of fuel *)
Fixpoint cp_loop (fuel : nat) (p : proc) (o : list bool) (calls : nat) (applied : list nat)
  : option (proc * nat * list nat) :=
  if can_transform p then
    match fuel with
    | 0 => None
    | S f =>
        let '(b, o') := next o in
        let '(p', r) := transform_program p b in
        cp_loop f p' o' (S calls) (if r then applied ++ [cur p'] else applied)
    end
  else Some (p, calls, applied).

(* ---------- (2) erasure search budget ---------- *)
(* for i, combination in enumerate(combinations):
     if max_combinations and i > max_combinations: break
     if feasible(combination): apply; break
   `results` are the feasibility answers in enumeration order (total = length results);
   returns (index of the applied combination, number of feasibility checks performed) *)
Fixpoint search (budget : nat) (i : nat) (results : list bool) (checks : nat) : option nat * nat :=
  match results with
  | [] => (None, checks)
  | r :: rest =>
      if negb (Nat.eqb budget 0) && (budget <? i) then (None, checks)
      else if r then (Some i, S checks)
      else search budget (S i) rest (S checks)
  end.

(* ---------- (3) gen_new's cut ---------- *)
(* gen_bottom = expr_type.name == etype.name or (self.depth > cfg.limits.max_depth * 2 and not expr_type.is_primitive())
   -- it does not depend on only_leaves *)
Definition gen_bottom_rule (same_name : bool) (depth max_depth : nat) (is_primitive only_leaves : bool) : bool :=
  same_name || ((2 * max_depth <? depth) && negb is_primitive).

(* ---------- correspondence cases ---------- *)
(* schedule: (start, schedule length, oracle, observed calls, observed final counter, observed applied numbers) *)
Definition scase := (nat * nat * list bool * nat * nat * list nat)%type.

Definition list_nat_eqb (a b : list nat) : bool :=
  (length a =? length b) && forallb (fun p => fst p =? snd p) (combine a b).

Definition scase_ok (c : scase) : bool :=
  let '(st, n, o, calls, fin, appl) := c in
  match cp_loop (S n) {| cur := st; slen := n |} o 0 [] with
  | Some (p, k, a) => (k =? calls) && (cur p =? fin) && list_nat_eqb a appl
  | None => false
  end.

(* search: (budget, results observed (as far as evaluated, padded with the unevaluated as false), total, observed checks, observed applied index+1 or 0) *)
Definition bcase := (nat * list bool * nat * nat)%type.

Definition bcase_ok (c : bcase) : bool :=
  let '(budget, results, checks, applied1) := c in
  let '(r, k) := search budget 0 results 0 in
  (k =? checks) && (match r with Some i => S i =? applied1 | None => applied1 =? 0 end).

(* cut: (same_name, depth, max_depth, is_primitive, only_leaves, observed gen_bottom) *)
Definition gcase3 := (bool * nat * nat * bool * bool * bool)%type.

Definition gcase3_ok (c : gcase3) : bool :=
  let '(sn, d, m, pr, ol, obs) := c in Bool.eqb (gen_bottom_rule sn d m pr ol) obs.

Fixpoint mism {A} (ok : A -> bool) (i : nat) (l : list A) : list nat :=
  match l with
  | [] => []
  | c :: l' => (if ok c then [] else [i]) ++ mism ok (S i) l'
  end.
