(* IR/Overwrite.v -- the single-site difference of the type-overwriting mutation and its
   classification.  Definitions only. *)
From Coq Require Import List Arith Bool.
Import ListNotations.
From Heph Require Import Types.Syntax Types.Subst Types.Subtype Types.Decl Types.Corr IR.Syntax IR.Diff IR.Check.

Fixpoint path_eqb (a b : list nat) : bool :=
  match a, b with
  | [], [] => true
  | x :: a', y :: b' => Nat.eqb x y && path_eqb a' b'
  | _, _ => false
  end.

Fixpoint node_at (p : node) (path : list nat) : option node :=
  match path with
  | [] => Some p
  | i :: path' => match nth_error (kids_of p) i with Some c => node_at c path' | None => None end
  end.

(* the site of an overwriting: path of the node, the replaced type and the new type *)
Record site := { s_path : list nat; s_kind : nat; s_old : ty; s_new : ty }.

Inductive ow_shape :=
| OwNone                      (* the programs are identical *)
| OwOne (s : site)            (* exactly one declared type / one explicit type argument differs *)
| OwSeveral (n : nat)         (* several nodes differ *)
| OwOtherSlot                 (* a type that is not a declared type / explicit type argument differs *)
| OwErasedArgs                (* a type argument of a constructor / generic call whose type arguments are NOT explicit
                                 (can_infer_type_args: the translators print none) differs: invisible in the text *)
| OwNotTypes.                 (* something other than types differs *)

Definition ow_classify (p p' : node) : ow_shape :=
  match type_changes [] p p' with
  | None => OwNotTypes
  | Some [] => OwNone
  | Some (((path, i, o, n) :: rest) as cs) =>
      if negb (forallb (fun c => path_eqb (fst (fst (fst c))) path) cs) then OwSeveral (length cs)
      else
        match node_at p path with
        | None => OwOtherSlot
        | Some nd =>
            let k := kind_of nd in
            if Nat.eqb k kVarDecl || Nat.eqb k kFuncDecl then
              (* var_type / ret_type (slot 0) and the recorded inferred type (slot 1) *)
              if forallb (fun c => snd (fst (fst c)) <=? 1) cs then
                match nth_error (tys_of nd) 1, find (fun c => Nat.eqb (snd (fst (fst c))) 1) cs with
                | Some (Some old), Some (_, _, _, Some new) =>
                    (* the DECLARED type (slot 0) of the mutated program must carry the new type: an
                       overwrite that only touches the recorded copy is invisible in the program text *)
                    if forallb (fun c => oty_eqb (snd c) (Some new)) cs &&
                       match node_at p' path with
                       | Some nd' => match nth_error (tys_of nd') 0 with Some o0 => oty_eqb o0 (Some new) | None => false end
                       | None => false
                       end
                    then OwOne {| s_path := path; s_kind := k; s_old := old; s_new := new |}
                    else OwOtherSlot
                | Some (Some old), None =>
                    (* only the declared slot changed *)
                    match n with
                    | Some new => OwOne {| s_path := path; s_kind := k; s_old := old; s_new := new |}
                    | None => OwOtherSlot
                    end
                | _, _ => OwOtherSlot
                end
              else OwOtherSlot
            else if (Nat.eqb k kNew && flag nd 0) || (Nat.eqb k kFunctionCall && flag nd 1) then OwErasedArgs
            else if Nat.eqb k kNew || Nat.eqb k kFunctionCall then
              match cs with
              | [(_, _, Some a, Some b)] =>
                  match ty_diffs 6 a b with
                  | [(old, new)] => OwOne {| s_path := path; s_kind := k; s_old := old; s_new := new |}
                  | _ => OwOtherSlot
                  end
              | _ => OwOtherSlot
              end
            else OwOtherSlot
        end
  end.

(* language-level convertibility the IR does not record: widening of primitive/numeric types,
   boxing, and the top type above every reference type (reference tables supplied per language) *)
Record lang_rel := { lr_widen : list (nat * nat);   (* numeric widening (from, to), transitively closed *)
                     lr_ref : list (nat * nat);     (* reference widening not recorded in the IR: (numeric class, Number) *)
                     lr_prim_only : bool;           (* Java: numeric widening needs a primitive target *)
                     lr_top : nat }.

(* may a value of type a be used where b is expected, by a conversion the IR does not model? *)
Definition lang_assignable (lr : lang_rel) (a b : ty) : bool :=
  match a, b with
  | TBuiltin x _, TBuiltin y py =>
      Nat.eqb x y || Nat.eqb y (lr_top lr) ||
      existsb (fun p => Nat.eqb (fst p) x && Nat.eqb (snd p) y) (lr_ref lr) ||
      (existsb (fun p => Nat.eqb (fst p) x && Nat.eqb (snd p) y) (lr_widen lr) && (negb (lr_prim_only lr) || py))
  | _, TBuiltin y _ => Nat.eqb y (lr_top lr)
  | _, _ => false
  end.

(* verdict on the pair (old, new):
   0 unrelated   1 new <: old   2 old <: new   3 convertible at language level (either way)   5 unknown *)
Definition relatedness (w : world) (lr : lang_rel) (old new : ty) : nat :=
  match sub_ref w 40 [] new old, sub_ref w 40 [] old new with
  | Yes, _ => 1
  | _, Yes => 2
  | No, No => if lang_assignable lr new old || lang_assignable lr old new then 3 else 0
  | _, _ => if lang_assignable lr new old || lang_assignable lr old new then 3 else 5
  end.

(* (shape code, node kind, relatedness, number of errors before, number of errors after)
   shape codes: 0 none, 1 one site, 2 several, 3 other slot, 4 not only types, 5 erased (non-explicit) type arguments *)
Definition ow_report (L : lang) (lr : lang_rel) (cn : list (nat * nat)) (bclasses : ctable) (bt : btable)
           (arr : option nat) (kw : list nat) (p p' : node) : nat * nat * nat * nat * nat :=
  let w := world_of (classes_of cn p) bclasses bt arr in
  let e0 := length (only_codes typing_codes (check_program false false L cn bclasses bt arr kw p)) in
  let e1 := length (only_codes typing_codes (check_program false false L cn bclasses bt arr kw p')) in
  match ow_classify p p' with
  | OwNone => (0, 0, 0, e0, e1)
  | OwOne s => (1, s_kind s, relatedness w lr (s_old s) (s_new s), e0, e1)
  | OwSeveral n => (2, n, 0, e0, e1)
  | OwOtherSlot => (3, 0, 0, e0, e1)
  | OwErasedArgs => (5, 0, 0, e0, e1)
  | OwNotTypes => (4, 0, 0, e0, e1)
  end.
