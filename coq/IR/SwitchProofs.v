(* IR/SwitchProofs.v -- proofs for C17 (generation switches): the occurrence relation agrees
   with the computed occurrence list, every checker decides its predicate, and the decision
   fragments obey the switches for every value of the random draws. *)
From Coq Require Import List Arith Bool Lia.
Import ListNotations.
From Heph Require Import Types.Syntax IR.Syntax IR.Switches.

(* ---------- S1: occurrences ---------- *)

Lemma in_present : forall (t : ty) l, In t (present l) <-> In (Some t) l.
Proof.
  intros t l. unfold present. rewrite in_flat_map. split.
  - intros [o [Ho Ht]]. destruct o as [u|]; simpl in Ht.
    + destruct Ht as [->|[]]. exact Ho.
    + destruct Ht.
  - intros H. exists (Some t). split; [exact H|]. simpl. left. reflexivity.
Qed.

Lemma type_occurs_iff_l : forall t p, TypeOccurs t p <-> In t (type_occurrences p).
Proof.
  intros t p. unfold type_occurrences. rewrite in_flat_map. split.
  - intros [n top Hn Htop Ht]. exists n. split; [exact Hn|].
    rewrite in_flat_map. exists top. split; [|exact Ht].
    apply in_present. exact Htop.
  - intros [n [Hn H]]. rewrite in_flat_map in H. destruct H as [top [Htop Ht]].
    apply in_present in Htop. exact (TO t p n top Hn Htop Ht).
Qed.

(* ---------- S2: checkers ---------- *)

Lemma forallb_occ : forall (f : ty -> bool) (P : ty -> Prop) p,
  (forall t, f t = true <-> P t) ->
  (forallb f (type_occurrences p) = true <-> forall t, TypeOccurs t p -> P t).
Proof.
  intros f P p HfP. rewrite forallb_forall. split.
  - intros H t Ht. apply HfP. apply H. apply type_occurs_iff_l. exact Ht.
  - intros H t Ht. apply HfP. apply H. apply type_occurs_iff_l. exact Ht.
Qed.

Lemma chk_no_use_site_iff_l : forall p, chk_no_use_site p = true <-> NoUseSite p.
Proof.
  intros p. unfold chk_no_use_site, NoUseSite. apply forallb_occ.
  intros t. destruct (is_wild t); simpl; split; congruence.
Qed.

Lemma chk_no_contra_iff_l : forall p, chk_no_contra p = true <-> NoContraUseSite p.
Proof.
  intros p. unfold chk_no_contra, NoContraUseSite.
  apply (forallb_occ
           (fun t => match t with TWild Contra _ => false | _ => true end)
           (fun t => match t with TWild Contra _ => False | _ => True end)).
  intros t. destruct t as [b pr|c|c l|c|x v o|v o| |i u l]; try (split; [exact (fun _ => I)|reflexivity]).
  destruct v; split; try exact (fun _ => I); try reflexivity; try discriminate; intros [].
Qed.

Lemma chk_no_bounds_iff_l : forall p, chk_no_bounds p = true <-> NoBounds p.
Proof.
  intros p. unfold chk_no_bounds, NoBounds.
  apply (forallb_occ
           (fun t => match t with TVar _ _ (Some _) => false | _ => true end)
           (fun t => match t with TVar _ _ (Some _) => False | _ => True end)).
  intros t. destruct t as [b pr|c|c l|c|x v o|v o| |i u l]; try (split; [exact (fun _ => I)|reflexivity]).
  destruct o; split; try exact (fun _ => I); try reflexivity; try discriminate; intros [].
Qed.

Lemma chk_no_param_funcs_iff_l : forall p, chk_no_param_funcs p = true <-> NoParamFuncs p.
Proof.
  intros p. unfold chk_no_param_funcs, NoParamFuncs. rewrite forallb_forall. split.
  - intros H n Hn Hk. specialize (H n Hn). rewrite Hk in H.
    rewrite Nat.eqb_refl in H. simpl in H. apply Nat.leb_le. exact H.
  - intros H n Hn. destruct (Nat.eqb (kind_of n) kFuncDecl) eqn:E; simpl.
    + apply Nat.leb_le. apply H; [exact Hn|]. apply Nat.eqb_eq. exact E.
    + reflexivity.
Qed.

Lemma var_eqb_inv : forall v, var_eqb v Inv = true <-> v = Inv.
Proof. intros v. destruct v; simpl; split; congruence. Qed.

Lemma chk_no_decl_variance_iff_l : forall p, chk_no_decl_variance p = true <-> NoDeclVariance p.
Proof.
  intros p. unfold chk_no_decl_variance, NoDeclVariance. rewrite forallb_forall. split.
  - intros H t Ht. apply var_eqb_inv. exact (H t Ht).
  - intros H t Ht. apply var_eqb_inv. exact (H t Ht).
Qed.

Lemma chk_func_params_invariant_iff_l :
  forall p, chk_func_params_invariant p = true <-> FuncParamsInvariant p.
Proof.
  intros p. unfold chk_func_params_invariant, FuncParamsInvariant. rewrite forallb_forall. split.
  - intros H t Ht. apply var_eqb_inv. exact (H t Ht).
  - intros H t Ht. apply var_eqb_inv. exact (H t Ht).
Qed.

(* ---------- S3: the conjunction ---------- *)

Lemma imp_or_iff : forall (b c : bool) (P : Prop),
  (c = true <-> P) -> (negb b || c = true <-> (b = true -> P)).
Proof.
  intros b c P H. destruct b; simpl.
  - rewrite H. split; [intros HP _; exact HP | intros HP; exact (HP eq_refl)].
  - split; [intros _ E; discriminate E | reflexivity].
Qed.

Lemma imp_or_iff_neg : forall (b c : bool) (P : Prop),
  (c = true <-> P) -> (b || c = true <-> (b = false -> P)).
Proof.
  intros b c P H. destruct b; simpl.
  - split; [intros _ E; discriminate E | reflexivity].
  - rewrite H. split; [intros HP _; exact HP | intros HP; exact (HP eq_refl)].
Qed.

Lemma chk_honoured_iff_l : forall s p, chk_honoured s p = true <-> Honoured s p.
Proof.
  intros s p. unfold chk_honoured, Honoured.
  rewrite !andb_true_iff.
  rewrite (imp_or_iff _ _ _ (chk_no_use_site_iff_l p)).
  rewrite (imp_or_iff _ _ _ (chk_no_contra_iff_l p)).
  rewrite (imp_or_iff _ _ _ (chk_no_bounds_iff_l p)).
  rewrite (imp_or_iff _ _ _ (chk_no_param_funcs_iff_l p)).
  rewrite (imp_or_iff_neg _ _ _ (chk_no_decl_variance_iff_l p)).
  rewrite (chk_func_params_invariant_iff_l p).
  tauto.
Qed.

(* ---------- S4: switch logic ---------- *)

(* what a choice from a short list can be: every index is either inside the list or yields
   the default *)
Lemma nth_short : forall (k : nat) (a b c : variance),
  (nth k [a] Inv = a \/ nth k [a] Inv = Inv) /\
  (nth k [a; b] Inv = a \/ nth k [a; b] Inv = b \/ nth k [a; b] Inv = Inv) /\
  (nth k [a; b; c] Inv = a \/ nth k [a; b; c] Inv = b \/ nth k [a; b; c] Inv = c \/
   nth k [a; b; c] Inv = Inv).
Proof.
  intros k a b c. destruct k as [|[|[|[|k]]]]; simpl; tauto.
Qed.

(* the index really is inside the list (the default is never reached) *)
Lemma pick_in_range : forall pick (vs : list variance),
  vs <> [] -> In (nth (pick mod length vs) vs Inv) vs.
Proof.
  intros pick vs H. apply nth_In. apply Nat.mod_upper_bound.
  destruct vs; [congruence | simpl; discriminate].
Qed.

Lemma use_site_disabled_l : forall dc pv ch ib pick,
  get_type_arg_variance true dc pv ch ib pick = Inv.
Proof.
  intros dc pv ch ib pick. unfold get_type_arg_variance.
  destruct ch as [[cv cc]|]; [|reflexivity].
  destruct ib; [reflexivity|].
  cbn [andb negb app].
  destruct pv; cbn [app]; generalize (pick mod length [Inv]); intro k;
    destruct k as [|[|k]]; reflexivity.
Qed.

Lemma gtav_table : forall du dc pv ch ib pick,
  let r := get_type_arg_variance du dc pv ch ib pick in
  r = Inv \/
  (r = Cov /\ du = false /\ ib = false /\ pv <> Contra /\ exists cc, ch = Some (true, cc)) \/
  (r = Contra /\ du = false /\ dc = false /\ ib = false /\ pv <> Cov /\
   exists cv, ch = Some (cv, true)).
Proof.
  intros du dc pv ch ib pick r. subst r. unfold get_type_arg_variance.
  destruct ch as [[cv cc]|]; [|left; reflexivity].
  destruct ib; [left; reflexivity|].
  destruct du, dc, cv, cc, pv; cbn [andb negb app];
    match goal with
    | |- context [nth ?i _ _] => generalize i; intro k
    end;
    destruct k as [|[|[|[|k]]]]; cbn [nth];
    first
      [ left; reflexivity
      | right; left; repeat split; try discriminate; eexists; reflexivity
      | right; right; repeat split; try discriminate; eexists; reflexivity ].
Qed.

Lemma contra_disabled_l : forall du pv ch ib pick,
  get_type_arg_variance du true pv ch ib pick <> Contra.
Proof.
  intros du pv ch ib pick H.
  destruct (gtav_table du true pv ch ib pick) as [E|[[E _]|[_ [_ [E _]]]]].
  - rewrite E in H. discriminate.
  - rewrite E in H. discriminate.
  - discriminate.
Qed.

Lemma bound_mentioned_invariant_l : forall du dc pv ch pick,
  get_type_arg_variance du dc pv ch true pick = Inv.
Proof.
  intros du dc pv ch pick. unfold get_type_arg_variance.
  destruct ch as [[cv cc]|]; reflexivity.
Qed.

Lemma no_choices_invariant_l : forall du dc pv ib pick,
  get_type_arg_variance du dc pv None ib pick = Inv.
Proof. reflexivity. Qed.

Lemma covariant_only_if_allowed_l : forall du dc pv ch ib pick,
  get_type_arg_variance du dc pv ch ib pick = Cov ->
  du = false /\ ib = false /\ pv <> Contra /\ exists cc, ch = Some (true, cc).
Proof.
  intros du dc pv ch ib pick H.
  destruct (gtav_table du dc pv ch ib pick) as [E|[[_ R]|[E _]]].
  - rewrite E in H. discriminate.
  - exact R.
  - rewrite E in H. discriminate.
Qed.

Lemma contravariant_only_if_allowed_l : forall du dc pv ch ib pick,
  get_type_arg_variance du dc pv ch ib pick = Contra ->
  du = false /\ dc = false /\ ib = false /\ pv <> Cov /\ exists cv, ch = Some (cv, true).
Proof.
  intros du dc pv ch ib pick H.
  destruct (gtav_table du dc pv ch ib pick) as [E|[[E _]|[_ R]]].
  - rewrite E in H. discriminate.
  - rewrite E in H. discriminate.
  - exact R.
Qed.

Lemma prob_zero_never_l : forall d, rbool 0 d = false.
Proof. intros d. unfold rbool. apply Nat.ltb_ge. apply Nat.le_0_l. Qed.

Lemma no_bound_when_disabled_l : forall d, gen_param_has_bound 0 d = false.
Proof. intros d. unfold gen_param_has_bound. apply prob_zero_never_l. Qed.

Lemma no_func_type_params_when_disabled_l : forall d, func_gets_type_params 0 d = false.
Proof. intros d. unfold func_gets_type_params. apply prob_zero_never_l. Qed.

Lemma no_variance_without_flag_l : forall c p, gen_param_variance false c p = Inv.
Proof. reflexivity. Qed.

Lemma func_type_params_invariant_l : forall c p, func_param_variance c p = Inv.
Proof. reflexivity. Qed.

(* ---------- non-vacuity: the switches are not trivially honoured, and the decision
   fragments do produce the other variances when allowed ---------- *)

Definition ex_class : node :=
  N kClassDecl 1 0 [false] [Some (TVar 1 Cov (Some (TClass 5)))] [].
Definition ex_func : node :=
  N kFuncDecl 2 0 [false; false; false; false] [Some (TClass 5); None; Some (TVar 2 Inv None)] [].
Definition ex_var : node :=
  N kVarDecl 3 0 [false] [Some (TApp 7 [TWild Cov (Some (TClass 5))]); None] [N 9 0 0 [] [Some (TClass 5)] []].
Definition ex_prog : node := N 0 0 0 [] [] [ex_class; ex_func; ex_var].

Lemma switches_not_vacuous_l :
  chk_no_use_site ex_prog = false /\ chk_no_bounds ex_prog = false /\
  chk_no_param_funcs ex_prog = false /\ chk_no_decl_variance ex_prog = false /\
  chk_no_contra ex_prog = true /\ chk_func_params_invariant ex_prog = true.
Proof. vm_compute. repeat split. Qed.

Lemma variance_reachable_l :
  get_type_arg_variance false false Inv (Some (true, true)) false 1 = Cov /\
  get_type_arg_variance false false Inv (Some (true, true)) false 2 = Contra /\
  get_type_arg_variance false true Inv (Some (true, true)) false 1 = Cov /\
  gen_param_variance true true 2 = Contra /\
  rbool 500 499 = true.
Proof. vm_compute. repeat split. Qed.
