(* IR/DepthProofs.v -- the depth logic bounds the nesting (C18). *)
From Coq Require Import List Arith Bool Lia.
Import ListNotations.
From Heph Require Import IR.Depth.

Lemma leaves_forced_lem : forall depth max_depth only_leaves exclude_var is_bool ck vars max_vars g,
  (max_depth <= depth \/ only_leaves = true) ->
  In g (get_generators depth max_depth only_leaves exclude_var false is_bool ck vars max_vars) ->
  is_leaf_gen g = true.
Proof.
  intros depth max_depth ol ev ib ck vars mv g Hd Hin. unfold get_generators in Hin.
  assert (E : (max_depth <=? depth) || ol = true).
  { destruct Hd as [Hd | Hd]; [apply Nat.leb_le in Hd; rewrite Hd; reflexivity | rewrite Hd; apply orb_true_r]. }
  rewrite E in Hin.
  destruct ck; destruct (vars <? mv); destruct ol; destruct ev; cbn in Hin;
    repeat (destruct Hin as [Hin | Hin]; [subst g; reflexivity|]); destruct Hin.
Qed.

Lemma no_variable_when_excluded_lem : forall depth max_depth only_leaves is_bool ck vars max_vars,
  (max_depth <= depth \/ only_leaves = true) ->
  ~ In GVariable (get_generators depth max_depth only_leaves true false is_bool ck vars max_vars).
Proof.
  intros depth max_depth ol ib ck vars mv Hd Hin. unfold get_generators in Hin.
  assert (E : (max_depth <=? depth) || ol = true).
  { destruct Hd as [Hd | Hd]; [apply Nat.leb_le in Hd; rewrite Hd; reflexivity | rewrite Hd; apply orb_true_r]. }
  rewrite E in Hin.
  destruct ck; destruct (vars <? mv); destruct ol; cbn in Hin;
    repeat (destruct Hin as [Hin | Hin]; [discriminate|]); destruct Hin.
Qed.

Lemma generators_nonempty_lem : forall depth max_depth ol ev iv ib ck vars mv,
  get_generators depth max_depth ol ev iv ib ck vars mv <> [].
Proof.
  intros. unfold get_generators.
  destruct iv; [discriminate|].
  destruct ((max_depth <=? depth) || ol); destruct ck; discriminate.
Qed.

Lemma void_generators_lem : forall depth max_depth ol ev ib ck vars mv,
  get_generators depth max_depth ol ev true ib ck vars mv = [GFunCall; GAssignment].
Proof. reflexivity. Qed.

Lemma composite_increments_lem : forall g, is_leaf_gen g = false -> 1 <= inc g.
Proof. intros g H. destruct g; cbn in *; try discriminate; lia. Qed.

Lemma fold_max_le : forall (l : list tree) b,
  (forall c, In c l -> height c <= b) -> fold_right (fun c m => Nat.max (height c) m) 0 l <= b.
Proof.
  induction l as [|x l IH]; intros b H; cbn; [lia|].
  apply Nat.max_lub; [apply H; left; reflexivity | apply IH; intros c Hc; apply H; right; exact Hc].
Qed.

Lemma height_bounded_lem : forall max A a d t,
    Gen max A a d t -> a <= A -> height t <= a + 1 + (A + 1) * (2 * max + 1 - d).
Proof.
  fix IH 6. intros max A a d t H Ha.
  destruct H as [a d | a d t H | a d k cs Hk Hd Hc | a d cs Hc | a d cs Hd Hc].
  - cbn [height]. apply Nat.le_0_l.
  - apply IH; assumption.
  - cbn [height].
    assert (Hb : fold_right (fun c m => Nat.max (height c) m) 0 cs <= A + 1 + (A + 1) * (2 * max + 1 - (d + k))).
    { apply fold_max_le. intros c Hin. apply (IH max A A (d + k) c (Hc c Hin)). lia. }
    assert (E : 2 * max + 1 - d = S (2 * max + 1 - (d + 1))) by lia.
    assert (Hm : (A + 1) * (2 * max + 1 - (d + k)) <= (A + 1) * (2 * max + 1 - (d + 1))).
    { apply Nat.mul_le_mono_l. lia. }
    rewrite E. rewrite Nat.mul_succ_r. lia.
  - cbn [height].
    assert (Hb : fold_right (fun c m => Nat.max (height c) m) 0 cs <= a + 1 + (A + 1) * (2 * max + 1 - d)).
    { apply fold_max_le. intros c Hin. apply (IH max A a d c (Hc c Hin)). lia. }
    lia.
  - cbn [height].
    assert (Hb : fold_right (fun c m => Nat.max (height c) m) 0 cs <= 0).
    { apply fold_max_le. intros c Hin. rewrite (Hc c Hin). cbn. lia. }
    lia.
Qed.

Lemma nesting_bounded_lem : forall max A t, Gen max A A 1 t -> height t <= (A + 1) * (2 * max + 1).
Proof.
  intros max A t H. pose proof (height_bounded_lem max A A 1 t H (le_n A)) as Hb.
  replace (2 * max + 1 - 1) with (2 * max) in Hb by lia.
  replace ((A + 1) * (2 * max + 1)) with ((A + 1) * (2 * max) + (A + 1)) by (rewrite Nat.mul_add_distr_l; lia).
  lia.
Qed.

(* without arrays the bound is the plain 2 * max_depth + 1 *)
Lemma nesting_bounded_no_arrays_lem : forall max t, Gen max 0 0 1 t -> height t <= 2 * max + 1.
Proof. intros max t H. pose proof (nesting_bounded_lem max 0 t H). lia. Qed.
