(* IR/DiffProofs.v -- proofs about the "differs only by" relations of IR/Diff.v:
   the boolean equalities decide Leibniz equality (D0), erased_from decides ErasedFrom (D1, D2),
   erasure only removes types, keeps the shape and is local (D3-D5), and type_changes lists
   exactly the type slots at which two programs differ (D6-D8). *)
From Coq Require Import List Arith Bool Lia.
Import ListNotations.
From Heph Require Import Types.Syntax Types.Corr IR.Syntax IR.Diff.

(* ---------- induction principles for the nested inductives ---------- *)
Section TyInd.
  Variable P : ty -> Prop.
  Hypothesis HB : forall b pr, P (TBuiltin b pr).
  Hypothesis HC : forall c, P (TClass c).
  Hypothesis HA : forall c l, Forall P l -> P (TApp c l).
  Hypothesis HCon : forall c, P (TCon c).
  Hypothesis HV : forall x v ob, (forall b, ob = Some b -> P b) -> P (TVar x v ob).
  Hypothesis HW : forall v ob, (forall b, ob = Some b -> P b) -> P (TWild v ob).
  Hypothesis HN : P TNothing.
  Hypothesis HCap : forall i u l,
      (forall b, u = Some b -> P b) -> (forall b, l = Some b -> P b) -> P (TCap i u l).

  Lemma ty_ind' : forall t, P t.
  Proof.
    fix IH 1. intros t. destruct t as [b pr|c|c l|c|x v ob|v ob| |i u l].
    - apply HB.
    - apply HC.
    - apply HA. induction l as [|a l IHl]; constructor; [apply IH | exact IHl].
    - apply HCon.
    - apply HV. destruct ob as [b|]; intros b' E; [injection E as <-; apply IH | discriminate].
    - apply HW. destruct ob as [b|]; intros b' E; [injection E as <-; apply IH | discriminate].
    - apply HN.
    - apply HCap.
      + destruct u as [x|]; intros b E; [injection E as <-; apply IH | discriminate].
      + destruct l as [x|]; intros b E; [injection E as <-; apply IH | discriminate].
  Qed.
End TyInd.

Section NodeInd.
  Variable P : node -> Prop.
  Hypothesis HN : forall k nm num fl tys kids, Forall P kids -> P (N k nm num fl tys kids).

  Lemma node_ind' : forall n, P n.
  Proof.
    fix IH 1. intros [k nm num fl tys kids]. apply HN.
    induction kids as [|a l IHl]; constructor; [apply IH | exact IHl].
  Qed.
End NodeInd.

(* ---------- D0: the boolean equalities ---------- *)
Fixpoint nats_eqb (a b : list nat) : bool :=
  match a, b with
  | [], [] => true
  | x :: a', y :: b' => Nat.eqb x y && nats_eqb a' b'
  | _, _ => false
  end.

Lemma ty_eqb_builtin x p y q : ty_eqb (TBuiltin x p) (TBuiltin y q) = Nat.eqb x y && Bool.eqb p q.
Proof. reflexivity. Qed.
Lemma ty_eqb_app c l d m : ty_eqb (TApp c l) (TApp d m) = Nat.eqb c d && tys_eqb l m.
Proof. reflexivity. Qed.
Lemma ty_eqb_var x v o y u p :
  ty_eqb (TVar x v o) (TVar y u p) = Nat.eqb x y && var_eqb v u && oty_eqb o p.
Proof. reflexivity. Qed.
Lemma ty_eqb_wild v o u p : ty_eqb (TWild v o) (TWild u p) = var_eqb v u && oty_eqb o p.
Proof. reflexivity. Qed.
Lemma ty_eqb_cap i u l j u' l' :
  ty_eqb (TCap i u l) (TCap j u' l') = nats_eqb i j && oty_eqb u u' && oty_eqb l l'.
Proof. reflexivity. Qed.

Lemma var_eqb_eq : forall a b, var_eqb a b = true <-> a = b.
Proof. intros [] []; simpl; split; intro H; try reflexivity; discriminate H. Qed.

Lemma nats_eqb_eq : forall a b, nats_eqb a b = true <-> a = b.
Proof.
  induction a as [|x a IH]; intros [|y b]; simpl; split; intro H;
    try reflexivity; try discriminate H.
  - apply andb_true_iff in H. destruct H as [H1 H2].
    apply Nat.eqb_eq in H1. apply IH in H2. subst. reflexivity.
  - injection H as -> ->. rewrite Nat.eqb_refl. simpl. apply IH. reflexivity.
Qed.

Lemma bools_eqb_eq : forall a b, bools_eqb a b = true <-> a = b.
Proof.
  induction a as [|x a IH]; intros [|y b]; simpl; split; intro H;
    try reflexivity; try discriminate H.
  - apply andb_true_iff in H. destruct H as [H1 H2].
    apply Bool.eqb_prop in H1. apply IH in H2. subst. reflexivity.
  - injection H as -> ->. rewrite Bool.eqb_reflx. simpl. apply IH. reflexivity.
Qed.

Lemma oeq_gen (o : option ty) :
  (forall b, o = Some b -> forall c, ty_eqb b c = true <-> b = c) ->
  forall p, oty_eqb o p = true <-> o = p.
Proof.
  intros H p. destruct o as [x|], p as [y|]; simpl; split; intro E;
    try reflexivity; try discriminate E.
  - apply (H x eq_refl) in E. subst. reflexivity.
  - injection E as <-. apply (H x eq_refl). reflexivity.
Qed.

Lemma tys_eqb_gen : forall l,
  Forall (fun a => forall b, ty_eqb a b = true <-> a = b) l ->
  forall m, tys_eqb l m = true <-> l = m.
Proof.
  induction 1 as [|x l Hx Hl IH]; intros [|y m]; simpl; split; intro E;
    try reflexivity; try discriminate E.
  - apply andb_true_iff in E. destruct E as [E1 E2].
    apply Hx in E1. apply IH in E2. subst. reflexivity.
  - injection E as <- <-. apply andb_true_iff. split; [apply Hx | apply IH]; reflexivity.
Qed.

Ltac mism := let HH := fresh "HH" in split; intro HH; [cbn in HH; discriminate HH | discriminate HH].

Lemma ty_eqb_eq : forall a b, ty_eqb a b = true <-> a = b.
Proof.
  apply (ty_ind' (fun a => forall b, ty_eqb a b = true <-> a = b)).
  - intros x p [y q|d|d m|d|y u q|u q| |j u' l']; try mism.
    rewrite ty_eqb_builtin, andb_true_iff, Nat.eqb_eq, Bool.eqb_true_iff.
    split; [intros [-> ->]; reflexivity | intros E; injection E; auto].
  - intros c [y q|d|d m|d|y u q|u q| |j u' l']; try mism.
    simpl. rewrite Nat.eqb_eq. split; [intros ->; reflexivity | intros E; injection E; auto].
  - intros c l Hl [y q|d|d m|d|y u q|u q| |j u' l']; try mism.
    rewrite ty_eqb_app, andb_true_iff, Nat.eqb_eq, (tys_eqb_gen l Hl).
    split; [intros [-> ->]; reflexivity | intros E; injection E; auto].
  - intros c [y q|d|d m|d|y u q|u q| |j u' l']; try mism.
    simpl. rewrite Nat.eqb_eq. split; [intros ->; reflexivity | intros E; injection E; auto].
  - intros x v ob H [y q|d|d m|d|y u q|u q| |j u' l']; try mism.
    rewrite ty_eqb_var, !andb_true_iff, Nat.eqb_eq, var_eqb_eq, (oeq_gen ob H).
    split; [intros [[-> ->] ->]; reflexivity | intros E; injection E; auto].
  - intros v ob H [y q|d|d m|d|y u q|u q| |j u' l']; try mism.
    rewrite ty_eqb_wild, !andb_true_iff, var_eqb_eq, (oeq_gen ob H).
    split; [intros [-> ->]; reflexivity | intros E; injection E; auto].
  - intros [y q|d|d m|d|y u q|u q| |j u' l']; try mism.
    split; reflexivity.
  - intros i u l Hu Hl [y q|d|d m|d|y u0 q|u0 q| |j u' l']; try mism.
    rewrite ty_eqb_cap, !andb_true_iff, nats_eqb_eq, (oeq_gen u Hu), (oeq_gen l Hl).
    split; [intros [[-> ->] ->]; reflexivity | intros E; injection E; auto].
Qed.

Lemma oty_eqb_eq : forall a b, oty_eqb a b = true <-> a = b.
Proof. intros a. apply oeq_gen. intros b _. apply ty_eqb_eq. Qed.

Lemma otys_eqb_eq : forall a b, otys_eqb a b = true <-> a = b.
Proof.
  induction a as [|x a IH]; intros [|y b]; simpl; split; intro H;
    try reflexivity; try discriminate H.
  - apply andb_true_iff in H. destruct H as [H1 H2].
    apply oty_eqb_eq in H1. apply IH in H2. subst. reflexivity.
  - injection H as <- <-. apply andb_true_iff. split; [apply oty_eqb_eq | apply IH]; reflexivity.
Qed.

Lemma bools_eqb_refl a : bools_eqb a a = true.
Proof. apply bools_eqb_eq. reflexivity. Qed.
Lemma oty_eqb_refl a : oty_eqb a a = true.
Proof. apply oty_eqb_eq. reflexivity. Qed.
Lemma otys_eqb_refl a : otys_eqb a a = true.
Proof. apply otys_eqb_eq. reflexivity. Qed.

(* ---------- erasure: the checker decides the relation ---------- *)
Definition ef_go : list node -> list node -> bool :=
  fix go (l l' : list node) : bool :=
    match l, l' with
    | [], [] => true
    | x :: r, y :: r' => erased_from x y && go r r'
    | _, _ => false
    end.

Lemma erased_from_unfold k nm num fl tys kids k' nm' num' fl' tys' kids' :
  erased_from (N k nm num fl tys kids) (N k' nm' num' fl' tys' kids') =
  Nat.eqb k k' && Nat.eqb nm nm' && Nat.eqb num num' &&
  flags_erased k fl fl' && tys_erased k tys tys' && ef_go kids kids'.
Proof. reflexivity. Qed.

Lemma ef_go_iff : forall kids,
  Forall (fun x => forall y, erased_from x y = true <-> ErasedFrom x y) kids ->
  forall kids', ef_go kids kids' = true <-> ErasedAll kids kids'.
Proof.
  induction 1 as [|x l Hx Hl IH]; intros [|y l']; simpl; split; intro E;
    try discriminate E; try (inversion E; fail); try constructor.
  - apply andb_true_iff in E. apply Hx. tauto.
  - apply andb_true_iff in E. apply IH. tauto.
  - inversion E; subst. apply andb_true_iff. split; [apply Hx | apply IH]; assumption.
Qed.

Lemma erased_from_iff : forall p p', erased_from p p' = true <-> ErasedFrom p p'.
Proof.
  apply (node_ind' (fun p => forall p', erased_from p p' = true <-> ErasedFrom p p')).
  intros k nm num fl tys kids IH [k' nm' num' fl' tys' kids'].
  rewrite erased_from_unfold. split; intro H.
  - repeat (apply andb_true_iff in H; destruct H as [H ?]).
    apply Nat.eqb_eq in H. apply Nat.eqb_eq in H3. apply Nat.eqb_eq in H4. subst.
    constructor; try assumption. apply (ef_go_iff kids IH). assumption.
  - inversion H; subst. rewrite !Nat.eqb_refl. simpl.
    repeat (apply andb_true_iff; split); try assumption.
    apply (ef_go_iff kids IH). assumption.
Qed.

Lemma flags_may_set_refl : forall a i, flags_may_set i a a = true.
Proof.
  induction a as [|x a IH]; intros [|i]; simpl; try reflexivity.
  - rewrite Bool.eqb_reflx, bools_eqb_refl. reflexivity.
  - rewrite Bool.eqb_reflx, IH. reflexivity.
Qed.

Lemma flags_erased_refl k a : flags_erased k a a = true.
Proof.
  unfold flags_erased. destruct (Nat.eqb k kNew); [apply flags_may_set_refl|].
  destruct (Nat.eqb k kFunctionCall); [apply flags_may_set_refl | apply bools_eqb_refl].
Qed.

Lemma tys_erased_refl k a : tys_erased k a a = true.
Proof.
  unfold tys_erased. destruct (Nat.eqb k kVarDecl || Nat.eqb k kFuncDecl); [|apply otys_eqb_refl].
  destruct a as [|x a]; simpl; [reflexivity|]. rewrite oty_eqb_refl, otys_eqb_refl. reflexivity.
Qed.

Lemma erased_from_refl : forall p, erased_from p p = true.
Proof.
  apply node_ind'. intros k nm num fl tys kids IH.
  rewrite erased_from_unfold, !Nat.eqb_refl, flags_erased_refl, tys_erased_refl. simpl.
  induction IH as [|x l Hx Hl IHl]; simpl; [reflexivity|]. rewrite Hx, IHl. reflexivity.
Qed.

(* ---------- erasure: node-wise relation along the pre-order traversal ---------- *)
Definition erased_node (n n' : node) : Prop :=
  kind_of n' = kind_of n /\ name_of_node n' = name_of_node n /\ num_of n' = num_of n /\
  flags_erased (kind_of n) (flags_of n) (flags_of n') = true /\
  tys_erased (kind_of n) (tys_of n) (tys_of n') = true.

Lemma erased_kids_nodes : forall kids,
  Forall (fun x => forall y, ErasedFrom x y -> Forall2 erased_node (nodes x) (nodes y)) kids ->
  forall kids', ErasedAll kids kids' ->
  Forall2 erased_node (flat_map nodes kids) (flat_map nodes kids').
Proof.
  induction 1 as [|x l Hx Hl IH]; intros kids' HA; inversion HA; subst; simpl.
  - constructor.
  - apply Forall2_app; [apply Hx | apply IH]; assumption.
Qed.

Lemma erased_nodes : forall p p', ErasedFrom p p' -> Forall2 erased_node (nodes p) (nodes p').
Proof.
  apply (node_ind' (fun p => forall p', ErasedFrom p p' -> Forall2 erased_node (nodes p) (nodes p'))).
  intros k nm num fl tys kids IH p' H. inversion H; subst. simpl. constructor.
  - unfold erased_node. simpl. auto.
  - apply erased_kids_nodes; assumption.
Qed.

Lemma Forall2_in_r {A B} (R : A -> B -> Prop) l l' :
  Forall2 R l l' -> forall b, In b l' -> exists a, In a l /\ R a b.
Proof.
  induction 1 as [|x y l l' Hxy Hl IH]; intros b Hb; simpl in Hb; [contradiction|].
  destruct Hb as [<-|Hb].
  - exists x. simpl. auto.
  - destruct (IH b Hb) as [a [Ha Hr]]. exists a. simpl. auto.
Qed.

Lemma Forall2_map_eq {A B} (f : A -> B) l l' :
  Forall2 (fun a b => f a = f b) l l' -> map f l = map f l'.
Proof. induction 1; simpl; [reflexivity | f_equal; assumption]. Qed.

Lemma Forall2_weaken {A B} (R S : A -> B -> Prop) :
  (forall a b, R a b -> S a b) -> forall l l', Forall2 R l l' -> Forall2 S l l'.
Proof. intros H l l'. induction 1; constructor; auto. Qed.

Lemma tys_erased_spec k a b :
  tys_erased k a b = true ->
  (forall t, In (Some t) b -> In (Some t) a) /\
  (forall i, 1 <= i -> nth_error b i = nth_error a i) /\
  (k <> kVarDecl /\ k <> kFuncDecl -> b = a).
Proof.
  unfold tys_erased. intros H.
  destruct (Nat.eqb k kVarDecl || Nat.eqb k kFuncDecl) eqn:E.
  - assert (Hk : ~ (k <> kVarDecl /\ k <> kFuncDecl)).
    { apply orb_true_iff in E. destruct E as [E|E]; apply Nat.eqb_eq in E; tauto. }
    destruct a as [|x a], b as [|y b]; simpl in H; try discriminate H.
    + repeat split; auto; tauto.
    + apply andb_true_iff in H. destruct H as [H1 H2]. apply otys_eqb_eq in H2. subst b.
      repeat split.
      * intros t [Ht|Ht]; [|right; assumption]. subst y.
        rewrite orb_false_r in H1. apply oty_eqb_eq in H1. left. assumption.
      * intros [|i] Hi; [lia|]. reflexivity.
      * tauto.
  - apply otys_eqb_eq in H. subst b. repeat split; auto.
Qed.

Lemma flags_erased_spec k a b :
  flags_erased k a b = true -> k <> kNew /\ k <> kFunctionCall -> b = a.
Proof.
  unfold flags_erased. intros H [H1 H2].
  apply Nat.eqb_neq in H1. apply Nat.eqb_neq in H2. rewrite H1, H2 in H.
  apply bools_eqb_eq in H. congruence.
Qed.

(* D3 *)
Lemma erasure_only_removes_types :
  forall p p', ErasedFrom p p' -> forall t, TypeOccurs t p' -> TypeOccurs t p.
Proof.
  intros p p' H t [n' top Hn Htop Ht].
  destruct (Forall2_in_r _ _ _ (erased_nodes p p' H) n' Hn) as [n [Hin [_ [_ [_ [_ Hty]]]]]].
  apply tys_erased_spec in Hty. destruct Hty as [Hsub _].
  exact (TO t p n top Hin (Hsub top Htop) Ht).
Qed.

(* D4 *)
Lemma erasure_keeps_shape :
  forall p p', ErasedFrom p p' ->
  map (fun n => (kind_of n, name_of_node n, num_of n)) (nodes p) =
  map (fun n => (kind_of n, name_of_node n, num_of n)) (nodes p').
Proof.
  intros p p' H. apply Forall2_map_eq.
  apply (Forall2_weaken erased_node); [|apply erased_nodes; assumption].
  intros a b [H1 [H2 [H3 _]]]. rewrite H1, H2, H3. reflexivity.
Qed.

(* D5 *)
Lemma erasure_is_local :
  forall p p', ErasedFrom p p' ->
  Forall2 (fun n n' =>
    (kind_of n <> kVarDecl /\ kind_of n <> kFuncDecl -> tys_of n' = tys_of n) /\
    (kind_of n <> kNew /\ kind_of n <> kFunctionCall -> flags_of n' = flags_of n) /\
    (forall i, 1 <= i -> nth_error (tys_of n') i = nth_error (tys_of n) i))
    (nodes p) (nodes p').
Proof.
  intros p p' H.
  apply (Forall2_weaken erased_node); [|apply erased_nodes; assumption].
  intros a b [_ [_ [_ [Hf Ht]]]]. apply tys_erased_spec in Ht. destruct Ht as [_ [Hn He]].
  repeat split; auto. apply (flags_erased_spec _ _ _ Hf).
Qed.

(* ---------- type overwriting ---------- *)
Definition tc_go (here : list change) (path : list nat) :=
  fix go (i : nat) (l l' : list node) : option (list change) :=
    match l, l' with
    | [], [] => Some here
    | x :: r, y :: r' =>
        match type_changes (path ++ [i]) x y, go (S i) r r' with
        | Some c1, Some c2 => Some (c2 ++ c1)
        | _, _ => None
        end
    | _, _ => None
    end.

Lemma type_changes_unfold path k nm num fl tys kids k' nm' num' fl' tys' kids' :
  type_changes path (N k nm num fl tys kids) (N k' nm' num' fl' tys' kids') =
  if Nat.eqb k k' && Nat.eqb nm nm' && Nat.eqb num num' && bools_eqb fl fl' then
    match slot_changes path 0 tys tys' with
    | None => None
    | Some here => tc_go here path 0 kids kids'
    end
  else None.
Proof. reflexivity. Qed.

Lemma tc_go_cons here path i x r y r' :
  tc_go here path i (x :: r) (y :: r') =
  match type_changes (path ++ [i]) x y, tc_go here path (S i) r r' with
  | Some c1, Some c2 => Some (c2 ++ c1)
  | _, _ => None
  end.
Proof. reflexivity. Qed.

Lemma type_changes_inv path k nm num fl tys kids k' nm' num' fl' tys' kids' cs :
  type_changes path (N k nm num fl tys kids) (N k' nm' num' fl' tys' kids') = Some cs ->
  k = k' /\ nm = nm' /\ num = num' /\ fl = fl' /\
  exists here, slot_changes path 0 tys tys' = Some here /\ tc_go here path 0 kids kids' = Some cs.
Proof.
  rewrite type_changes_unfold. intros H.
  destruct (Nat.eqb k k' && Nat.eqb nm nm' && Nat.eqb num num' && bools_eqb fl fl') eqn:E;
    [|discriminate H].
  repeat (apply andb_true_iff in E; destruct E as [E ?]).
  apply Nat.eqb_eq in E. apply Nat.eqb_eq in H1. apply Nat.eqb_eq in H2. apply bools_eqb_eq in H0.
  destruct (slot_changes path 0 tys tys') as [here|] eqn:Es; [|discriminate H].
  repeat split; auto. exists here. auto.
Qed.

(* D6 *)
Lemma slot_changes_nil path : forall a b i, slot_changes path i a b = Some [] -> a = b.
Proof.
  induction a as [|x a IH]; intros [|y b] i H; simpl in H; try discriminate H; [reflexivity|].
  destruct (slot_changes path (S i) a b) as [r|] eqn:E; [|discriminate H].
  destruct (oty_eqb x y) eqn:Exy; [|discriminate H].
  injection H as ->. apply oty_eqb_eq in Exy. apply IH in E. subst. reflexivity.
Qed.

Lemma slot_changes_refl path : forall a i, slot_changes path i a a = Some [].
Proof.
  induction a as [|x a IH]; intros i; simpl; [reflexivity|].
  rewrite IH, oty_eqb_refl. reflexivity.
Qed.

Lemma tc_go_nil : forall kids,
  Forall (fun x => forall path y, type_changes path x y = Some [] -> x = y) kids ->
  forall here path i kids', tc_go here path i kids kids' = Some [] -> here = [] /\ kids = kids'.
Proof.
  induction 1 as [|x l Hx Hl IH]; intros here path i [|y l'] H; try discriminate H.
  - simpl in H. injection H as ->. auto.
  - rewrite tc_go_cons in H.
    destruct (type_changes (path ++ [i]) x y) as [c1|] eqn:E1; [|discriminate H].
    destruct (tc_go here path (S i) l l') as [c2|] eqn:E2; [|discriminate H].
    injection H as H. apply app_eq_nil in H. destruct H as [-> ->].
    apply Hx in E1. apply IH in E2. destruct E2 as [-> ->]. subst. auto.
Qed.

Lemma type_changes_nil_fwd : forall p path p', type_changes path p p' = Some [] -> p = p'.
Proof.
  apply (node_ind' (fun p => forall path p', type_changes path p p' = Some [] -> p = p')).
  intros k nm num fl tys kids IH path [k' nm' num' fl' tys' kids'] H.
  apply type_changes_inv in H.
  destruct H as [-> [-> [-> [-> [here [Hs Hg]]]]]].
  apply (tc_go_nil kids IH) in Hg. destruct Hg as [-> ->].
  apply slot_changes_nil in Hs. subst. reflexivity.
Qed.

Lemma type_changes_refl : forall p path, type_changes path p p = Some [].
Proof.
  apply (node_ind' (fun p => forall path, type_changes path p p = Some [])).
  intros k nm num fl tys kids IH path.
  rewrite type_changes_unfold, !Nat.eqb_refl, bools_eqb_refl, slot_changes_refl. simpl.
  generalize 0.
  induction IH as [|x l Hx Hl IHl]; intros i; [reflexivity|].
  rewrite tc_go_cons, Hx, IHl. reflexivity.
Qed.

Lemma type_changes_nil_iff : forall path p p', type_changes path p p' = Some [] <-> p = p'.
Proof.
  intros path p p'. split; [apply type_changes_nil_fwd | intros <-; apply type_changes_refl].
Qed.

(* D7 *)
Definition skel (n : node) :=
  (kind_of n, name_of_node n, num_of n, flags_of n, length (tys_of n)).

Lemma slot_changes_length path : forall a b i r, slot_changes path i a b = Some r -> length a = length b.
Proof.
  induction a as [|x a IH]; intros [|y b] i r H; simpl in H; try discriminate H; [reflexivity|].
  destruct (slot_changes path (S i) a b) as [r0|] eqn:E; [|discriminate H].
  simpl. f_equal. eapply IH. eassumption.
Qed.

Lemma tc_go_skel : forall kids,
  Forall (fun x => forall path y cs, type_changes path x y = Some cs ->
                   map skel (nodes x) = map skel (nodes y)) kids ->
  forall here path i kids' cs, tc_go here path i kids kids' = Some cs ->
  map skel (flat_map nodes kids) = map skel (flat_map nodes kids').
Proof.
  induction 1 as [|x l Hx Hl IH]; intros here path i [|y l'] cs H; try discriminate H.
  - reflexivity.
  - rewrite tc_go_cons in H.
    destruct (type_changes (path ++ [i]) x y) as [c1|] eqn:E1; [|discriminate H].
    destruct (tc_go here path (S i) l l') as [c2|] eqn:E2; [|discriminate H].
    simpl. rewrite !map_app. f_equal; [eapply Hx | eapply IH]; eassumption.
Qed.

Lemma type_changes_same_skeleton :
  forall path p p' cs, type_changes path p p' = Some cs ->
  map (fun n => (kind_of n, name_of_node n, num_of n, flags_of n, length (tys_of n))) (nodes p) =
  map (fun n => (kind_of n, name_of_node n, num_of n, flags_of n, length (tys_of n))) (nodes p').
Proof.
  intros path p. revert path.
  apply (node_ind' (fun p => forall path p' cs, type_changes path p p' = Some cs ->
                             map skel (nodes p) = map skel (nodes p'))).
  intros k nm num fl tys kids IH path [k' nm' num' fl' tys' kids'] cs H.
  apply type_changes_inv in H.
  destruct H as [-> [-> [-> [-> [here [Hs Hg]]]]]].
  simpl. f_equal.
  - unfold skel. simpl. rewrite (slot_changes_length _ _ _ _ _ Hs). reflexivity.
  - eapply tc_go_skel; eassumption.
Qed.

(* D8 *)
Fixpoint slot_at (p : node) (path : list nat) (i : nat) : option (option ty) :=
  match path with
  | [] => nth_error (tys_of p) i
  | j :: rest =>
      match nth_error (kids_of p) j with
      | Some c => slot_at c rest i
      | None => None
      end
  end.

Lemma slot_changes_spec path : forall a b j r,
  slot_changes path j a b = Some r ->
  forall q i o o',
    In (q, i, o, o') r <->
    (q = path /\ exists m, i = j + m /\ nth_error a m = Some o /\ nth_error b m = Some o' /\ o <> o').
Proof.
  induction a as [|x a IH]; intros [|y b] j r H q i o o'; simpl in H; try discriminate H.
  - injection H as <-. split; [intros []|].
    intros [_ [m [_ [Hm _]]]]. destruct m; discriminate Hm.
  - destruct (slot_changes path (S j) a b) as [r0|] eqn:E; [|discriminate H].
    injection H as <-. specialize (IH b (S j) r0 E q i o o').
    split.
    + intros Hin.
      assert (Hcase : (oty_eqb x y = false /\ (path, j, x, y) = (q, i, o, o')) \/ In (q, i, o, o') r0).
      { destruct (oty_eqb x y) eqn:Exy; [right; assumption|].
        destruct Hin as [Hin|Hin]; [left; auto | right; assumption]. }
      destruct Hcase as [[Exy Heq]|Hin0].
      * injection Heq as <- <- <- <-. split; [reflexivity|]. exists 0.
        rewrite Nat.add_0_r. simpl. repeat split.
        intros Hxy. apply oty_eqb_eq in Hxy. congruence.
      * apply IH in Hin0. destruct Hin0 as [-> [m [-> [Ha [Hb Hne]]]]].
        split; [reflexivity|]. exists (S m). simpl. repeat split; auto; lia.
    + intros [-> [m [-> [Ha [Hb Hne]]]]]. destruct m as [|m].
      * simpl in Ha, Hb. injection Ha as ->. injection Hb as ->.
        destruct (oty_eqb o o') eqn:Exy; [apply oty_eqb_eq in Exy; contradiction|].
        rewrite Nat.add_0_r. left. reflexivity.
      * simpl in Ha, Hb.
        assert (Hin0 : In (path, j + S m, o, o') r0).
        { apply IH. split; [reflexivity|]. exists m. repeat split; auto. lia. }
        destruct (oty_eqb x y); [assumption | right; assumption].
Qed.

Definition tc_spec (c : node) : Prop :=
  forall pre c' cs, type_changes pre c c' = Some cs ->
  forall q i o o',
    In (q, i, o, o') cs <->
    exists path, q = pre ++ path /\ slot_at c path i = Some o /\ slot_at c' path i = Some o' /\ o <> o'.

Lemma tc_go_spec here pre : forall kids, Forall tc_spec kids ->
  forall j kids' cs, tc_go here pre j kids kids' = Some cs ->
  forall q i o o',
    In (q, i, o, o') cs <->
    (In (q, i, o, o') here \/
     exists m c c' rest, nth_error kids m = Some c /\ nth_error kids' m = Some c' /\
       q = pre ++ (j + m) :: rest /\
       slot_at c rest i = Some o /\ slot_at c' rest i = Some o' /\ o <> o').
Proof.
  induction 1 as [|x l Hx Hl IH]; intros j [|y l'] cs H q i o o'; try discriminate H.
  - simpl in H. injection H as <-. split; [auto|].
    intros [Hin|[m [c [c' [rest [Hm _]]]]]]; [assumption|]. destruct m; discriminate Hm.
  - rewrite tc_go_cons in H.
    destruct (type_changes (pre ++ [j]) x y) as [c1|] eqn:E1; [|discriminate H].
    destruct (tc_go here pre (S j) l l') as [c2|] eqn:E2; [|discriminate H].
    injection H as <-. rewrite in_app_iff.
    specialize (IH (S j) l' c2 E2 q i o o'). specialize (Hx (pre ++ [j]) y c1 E1 q i o o').
    split.
    + intros [Hin|Hin].
      * apply IH in Hin. destruct Hin as [Hin|[m [c [c' [rest [Hm [Hm' [-> Hrest]]]]]]]]; [auto|].
        right. exists (S m), c, c', rest. simpl. repeat split; try tauto.
        f_equal. f_equal. lia.
      * apply Hx in Hin. destruct Hin as [path [-> Hrest]].
        right. exists 0, x, y, path. simpl. repeat split; try tauto.
        rewrite <- app_assoc, Nat.add_0_r. reflexivity.
    + intros [Hin|[m [c [c' [rest [Hm [Hm' [-> Hrest]]]]]]]].
      * left. apply IH. auto.
      * destruct m as [|m].
        -- simpl in Hm, Hm'. injection Hm as ->. injection Hm' as ->.
           right. apply Hx. exists rest. split; [|assumption].
           rewrite <- app_assoc, Nat.add_0_r. reflexivity.
        -- simpl in Hm, Hm'. left. apply IH. right. exists m, c, c', rest.
           repeat split; try tauto. f_equal. f_equal. lia.
Qed.

Lemma type_changes_spec : forall p, tc_spec p.
Proof.
  apply node_ind'. intros k nm num fl tys kids IH.
  intros pre [k' nm' num' fl' tys' kids'] cs H q i o o'.
  apply type_changes_inv in H.
  destruct H as [-> [-> [-> [-> [here [Hs Hg]]]]]].
  rewrite (tc_go_spec here pre kids IH 0 kids' cs Hg q i o o').
  rewrite (slot_changes_spec pre tys tys' 0 here Hs q i o o').
  split.
  - intros [[-> [m [-> [Ha [Hb Hne]]]]]|[m [c [c' [rest [Hm [Hm' [-> [Ha [Hb Hne]]]]]]]]]].
    + exists []. rewrite app_nil_r. simpl. auto.
    + exists (m :: rest). simpl. rewrite Hm, Hm'. auto.
  - intros [[|m rest] [-> [Ha [Hb Hne]]]].
    + left. rewrite app_nil_r. split; [reflexivity|]. exists i. simpl in Ha, Hb. auto.
    + right. simpl in Ha, Hb.
      destruct (nth_error kids m) as [c|] eqn:Hm; [|discriminate Ha].
      destruct (nth_error kids' m) as [c'|] eqn:Hm'; [|discriminate Hb].
      exists m, c, c', rest. repeat split; auto.
Qed.

Lemma type_changes_complete :
  forall p p' cs, type_changes [] p p' = Some cs ->
  forall path i o o',
    In (path, i, o, o') cs <->
    (slot_at p path i = Some o /\ slot_at p' path i = Some o' /\ o <> o').
Proof.
  intros p p' cs H path i o o'.
  rewrite (type_changes_spec p [] p' cs H path i o o'). simpl. split.
  - intros [path0 [-> Hr]]. exact Hr.
  - intros Hr. exists path. auto.
Qed.

(* ---------- examples ---------- *)
Definition ex_field (t : ty) : node := N 3 7 0 [false; false; false] [Some t] [].
Definition ex_prog (decl : option ty) (infer : bool) (ft : ty) : node :=
  N 0 0 0 [] []
    [ N 6 1 0 [false] [decl; Some (TApp 2 [TClass 1])]
        [ N 23 0 0 [infer] [Some (TApp 2 [TClass 1])] [] ];
      N 1 5 0 [false] [] [ ex_field ft ] ].

Definition ex_p := ex_prog (Some (TApp 2 [TClass 1])) false (TClass 1).
Definition ex_erased := ex_prog None true (TClass 1).
Definition ex_overwritten := ex_prog (Some (TApp 2 [TClass 1])) false (TClass 3).

Example ex_erasure :
  erased_from ex_p ex_erased = true /\ erased_count ex_p ex_erased = 2 /\
  type_changes [] ex_p ex_erased = None.
Proof. vm_compute. repeat split. Qed.

Example ex_overwrite :
  erased_from ex_p ex_overwritten = false /\
  type_changes [] ex_p ex_overwritten = Some [([1; 0], 0, Some (TClass 1), Some (TClass 3))].
Proof. vm_compute. repeat split. Qed.
