(* IR/PrintGroovyProofs.v -- lemmas about the model of GroovyTranslator (IR/PrintGroovy.v).

   Part 1 (C11).  (a) `frame`: every visit of the stateful model restores every scalar component
   of the translator object (ident, is_unit, _cast_number, _inside_is, _inside_is_function,
   _nodes_stack, _namespace, _function_interfaces, context, types, always_cast_numbers), for
   every tree and every state; only the three accumulators change.  (b) _reset_state makes the
   object initial, so the text of a program does not depend on the history of the object.
   (c) `pp` is a state-free printer (environment in, text out) assembled from the same *_text
   functions; `visit_pure` shows that on routed trees every visit hands exactly pp's text to
   append_to's routing (one of the three accumulators) and changes nothing else.
   Part 2 (C12): marks (declared names, literals, operators) and bracket balance of pp's text,
   transported to print_program; the `printed iff` equations and their refutations. *)
From Coq Require Import String Ascii List Arith Bool Lia Permutation.
Import ListNotations.
From Heph Require Import IR.PrintGroovy.
Open Scope string_scope.
Open Scope list_scope.

(* ------------------------------------------------------------------------------------ *)
(* induction over the tree                                                                *)

Fixpoint pnode_ind' (P : pnode -> Prop)
    (H : forall k cs, Forall P cs -> P (PN k cs)) (n : pnode) {struct n} : P n :=
  match n with
  | PN k cs =>
      H k cs ((fix go (l : list pnode) : Forall P l :=
                 match l with
                 | [] => Forall_nil P
                 | c :: r => Forall_cons c (pnode_ind' P H c) (go r)
                 end) cs)
  end.

Lemma visit_unfold : forall k cs s, visit (PN k cs) s = visit_node visit (PN k cs) s.
Proof. reflexivity. Qed.

(* ==================================================================================== *)
(* Part 1 (a): the frame                                                                  *)

(* the scalar components of the translator object *)
Definition sc (s : st) :=
  (ident s, is_unit s, cast_number s, inside_is s, inside_is_function s, nodes_stack s, namespace s,
   fun_ifaces s, context s, types_set s, acn s).

Definition framed (n : pnode) : Prop := forall s, sc (visit n s) = sc s.

Ltac frame_finish :=
  unfold sc in *; cbn in *;
  repeat match goal with
         | H : (_, _) = (_, _) |- _ => injection H as; subst
         end;
  repeat match goal with
         | |- context [if ?b then _ else _] => destruct b; cbn
         end;
  try reflexivity.

(* abstract the state after the children (Y) and keep only what the frame says about it *)
Ltac frame_kids H :=
  match goal with
  | |- context [visit_children visit ?cs ?X] =>
      let Y := fresh "Y" in let HY := fresh "HY" in
      set (Y := visit_children visit cs X);
      assert (HY : sc Y = sc X) by (apply H);
      clearbody Y
  end.

Lemma frame_children : forall cs, Forall framed cs -> forall s, sc (visit_children visit cs s) = sc s.
Proof.
  induction 1 as [|c cs Hc Hcs IH]; intros s; [reflexivity|].
  unfold visit_children. cbn [fold_left]. fold (visit_children visit cs (visit c s)).
  rewrite IH. apply Hc.
Qed.

Lemma frame_block_children : forall fb cs, Forall framed cs -> forall s,
  sc (visit_block_children visit fb cs s) = sc s.
Proof.
  intros fb cs H. induction H as [|c cs Hc Hcs IH]; intros s; [reflexivity|].
  cbn [visit_block_children]. destruct cs as [|c' cs'].
  - destruct (fb && negb (is_unit s)).
    + pose proof (Hc (set_cast_number false s)) as HY.
      set (Y := visit c (set_cast_number false s)) in *. clearbody Y.
      destruct s, Y. frame_finish.
    + apply Hc.
  - change (sc (visit_block_children visit fb (c' :: cs') (visit c s)) = sc s).
    rewrite IH. apply Hc.
Qed.

Lemma frame_cond_children : forall cs, Forall framed cs -> forall s,
  sc (visit_cond_children visit cs s) = sc s.
Proof.
  intros cs H s. unfold visit_cond_children.
  destruct cs as [|c0 [|c1 [|c2 rest]]]; try (apply frame_children; exact H).
  inversion H as [|? ? H0 H']; subst. inversion H' as [|? ? H1 H'']; subst. inversion H'' as [|? ? H2 _]; subst.
  pose proof (H0 s) as E0. set (Y0 := visit c0 s) in *. clearbody Y0.
  pose proof (H1 (set_namespace ("true_block" :: namespace s) Y0)) as E1.
  set (Y1 := visit c1 _) in *. clearbody Y1.
  pose proof (H2 (set_namespace ("false_block" :: namespace s) Y1)) as E2.
  set (Y2 := visit c2 _) in *. clearbody Y2.
  destruct s, Y0, Y1, Y2. frame_finish.
Qed.

Lemma frame_append_to : forall k f s,
  (forall s1, sc (snd (f s1)) = sc s1) -> sc (append_to k f s) = sc s.
Proof.
  intros k f s H. unfold append_to.
  pose proof (H (set_nodes_stack (Some k :: nodes_stack s) s)) as HY.
  destruct (f (set_nodes_stack (Some k :: nodes_stack s) s)) as [res Y]. cbn [snd] in HY.
  unfold route. destruct s, Y. frame_finish.
Qed.

Lemma frame_change_namespace : forall name f,
  (forall s1, sc (snd (f s1)) = sc s1) -> forall s, sc (snd (change_namespace name f s)) = sc s.
Proof.
  intros name f H s. unfold change_namespace.
  pose proof (H (set_namespace (name :: namespace s) s)) as HY.
  destruct (f (set_namespace (name :: namespace s) s)) as [res Y]. cbn [snd] in *.
  destruct s, Y. frame_finish.
Qed.

Lemma frame_class : forall cs, (forall s, sc (visit_children visit cs s) = sc s) -> forall name ct fin nf ns nfn s,
  sc (snd (visit_class_decl visit name ct fin nf ns nfn cs s)) = sc s.
Proof. intros cs H; intros. unfold visit_class_decl, pop_res. frame_kids H. cbn [snd]. destruct s, Y. frame_finish. Qed.

Lemma frame_var_decl : forall cs, (forall s, sc (visit_children visit cs s) = sc s) -> forall name fin vt inf s,
  sc (snd (visit_var_decl visit name fin vt inf cs s)) = sc s.
Proof. intros cs H; intros. unfold visit_var_decl, pop_res. frame_kids H. cbn [snd]. destruct s, Y. frame_finish. Qed.

Lemma frame_call_argument : forall cs, (forall s, sc (visit_children visit cs s) = sc s) -> forall s, sc (snd (visit_call_argument visit cs s)) = sc s.
Proof. intros cs H; intros. unfold visit_call_argument, pop_res. frame_kids H. cbn [snd]. destruct s, Y. frame_finish. Qed.

Lemma frame_param : forall cs, (forall s, sc (visit_children visit cs s) = sc s) -> forall name pt va s, sc (snd (visit_param_decl visit name pt va cs s)) = sc s.
Proof. intros cs H; intros. unfold visit_param_decl, pop_res. frame_kids H. cbn [snd]. destruct s, Y. frame_finish. Qed.

Lemma frame_func : forall cs, (forall s, sc (visit_children visit cs s) = sc s) -> forall name rt inf bx fin hb np ntp s,
  sc (snd (visit_func_decl visit name rt inf bx fin hb np ntp cs s)) = sc s.
Proof.
  intros cs H; intros. unfold visit_func_decl, pop_res. frame_kids H. cbn [snd].
  destruct s as [i u c ii iif cr mc mm stk ns fi cx ts a], Y. unfold sc in *. cbn in HY |- *.
  destruct ii, (negb (hb && last_is_block cs)); cbn in HY |- *;
    injection HY as; subst; cbn; destruct (ns_parent_global ns); cbn;
    repeat f_equal; lia.
Qed.

Lemma frame_lambda : forall cs, (forall s, sc (visit_children visit cs s) = sc s) -> forall rt sg np hb s, sc (snd (visit_lambda visit rt sg np hb cs s)) = sc s.
Proof.
  intros cs H; intros. unfold visit_lambda, pop_res. frame_kids H. cbn [snd].
  destruct s as [i u c ii iif cr mc mm stk ns fi cx ts a], Y. unfold sc in *. cbn in HY |- *.
  destruct (negb (hb && last_is_block cs)); cbn in HY |- *;
    injection HY as; subst; cbn; destruct (ns_parent_global ns); cbn;
    repeat f_equal; lia.
Qed.

Lemma frame_array : forall cs, (forall s, sc (visit_children visit cs s) = sc s) -> forall at_ len s, sc (snd (visit_array_expr visit at_ len cs s)) = sc s.
Proof.
  intros cs H; intros. unfold visit_array_expr, pop_res. destruct (Nat.eqb len 0); [reflexivity|].
  frame_kids H. cbn [snd]. destruct s, Y. frame_finish.
Qed.

Lemma frame_binary_op : forall cs, (forall s, sc (visit_children visit cs s) = sc s) -> forall op nt s, sc (snd (visit_binary_op visit op nt cs s)) = sc s.
Proof. intros cs H; intros. unfold visit_binary_op, pop_res. frame_kids H. cbn [snd]. destruct s, Y. frame_finish. Qed.

Lemma frame_is : forall cs, (forall s, sc (visit_children visit cs s) = sc s) -> forall nt rx s, sc (snd (visit_is visit nt rx cs s)) = sc s.
Proof. intros cs H; intros. unfold visit_is, pop_res. frame_kids H. cbn [snd]. destruct s, Y. frame_finish. Qed.

Lemma frame_new : forall cs, (forall s, sc (visit_children visit cs s) = sc s) -> forall ct s, sc (snd (visit_new visit ct cs s)) = sc s.
Proof. intros cs H; intros. unfold visit_new, pop_res. frame_kids H. cbn [snd]. destruct s, Y. frame_finish. Qed.

Lemma frame_field_access : forall cs, (forall s, sc (visit_children visit cs s) = sc s) -> forall f s, sc (snd (visit_field_access visit f cs s)) = sc s.
Proof. intros cs H; intros. unfold visit_field_access, pop_res. frame_kids H. cbn [snd]. destruct s, Y. frame_finish. Qed.

Lemma frame_func_ref : forall cs, (forall s, sc (visit_children visit cs s) = sc s) -> forall f sg s, sc (snd (visit_func_ref visit f sg cs s)) = sc s.
Proof. intros cs H; intros. unfold visit_func_ref, pop_res. frame_kids H. cbn [snd]. destruct s, Y. frame_finish. Qed.

Lemma frame_func_call : forall cs, (forall s, sc (visit_children visit cs s) = sc s) -> forall f rc hr s, sc (snd (visit_func_call visit f rc hr cs s)) = sc s.
Proof. intros cs H; intros. unfold visit_func_call, pop_res. frame_kids H. cbn [snd]. destruct s, Y. frame_finish. Qed.

Lemma frame_assign : forall cs, (forall s, sc (visit_children visit cs s) = sc s) -> forall name hr s, sc (snd (visit_assign visit name hr cs s)) = sc s.
Proof. intros cs H; intros. unfold visit_assign, pop_res. frame_kids H. cbn [snd]. destruct s, Y. frame_finish. Qed.


Lemma frame_block : forall fb cs, Forall framed cs -> forall s, sc (snd (visit_block visit fb cs s)) = sc s.
Proof.
  intros fb cs H s. unfold visit_block, pop_res.
  pose proof (frame_block_children fb cs H s) as HY.
  set (Y := visit_block_children visit fb cs s) in *. clearbody Y. cbn [snd]. destruct s, Y. frame_finish.
Qed.

Lemma frame_conditional : forall cs, Forall framed cs -> forall s, sc (snd (visit_conditional visit cs s)) = sc s.
Proof.
  intros cs H s. unfold visit_conditional, pop_res.
  match goal with |- context [visit_cond_children visit cs ?X] =>
    pose proof (frame_cond_children cs H X) as HY; set (Y := visit_cond_children visit cs X) in *; clearbody Y end.
  cbn [snd]. destruct s, Y. frame_finish.
Qed.

Lemma visit_framed : forall n, framed n.
Proof.
  induction n as [k cs IH] using pnode_ind'. intros s.
  pose proof (frame_children cs IH) as HK.
  rewrite visit_unfold. unfold visit_node.
  destruct k; apply frame_append_to; intros s1;
    try (apply frame_change_namespace; intros s2);
    try reflexivity.
  - apply frame_block; exact IH.
  - apply frame_class; exact HK.
  - apply frame_var_decl; exact HK.
  - apply frame_call_argument; exact HK.
  - apply frame_param; exact HK.
  - apply frame_func; exact HK.
  - apply frame_lambda; exact HK.
  - apply frame_array; exact HK.
  - apply frame_binary_op; exact HK.
  - apply frame_conditional; exact IH.
  - apply frame_is; exact HK.
  - apply frame_new; exact HK.
  - apply frame_field_access; exact HK.
  - apply frame_func_ref; exact HK.
  - apply frame_func_call; exact HK.
  - apply frame_assign; exact HK.
Qed.

Lemma visit_restores_lem : forall n s,
  ident (visit n s) = ident s /\ is_unit (visit n s) = is_unit s /\
  cast_number (visit n s) = cast_number s /\ inside_is (visit n s) = inside_is s /\
  inside_is_function (visit n s) = inside_is_function s /\ nodes_stack (visit n s) = nodes_stack s /\
  namespace (visit n s) = namespace s /\ fun_ifaces (visit n s) = fun_ifaces s /\
  context (visit n s) = context s /\ types_set (visit n s) = types_set s /\ acn (visit n s) = acn s.
Proof.
  intros n s. pose proof (visit_framed n s) as H. unfold sc in H.
  injection H as H1 H2 H3 H4 H5 H6 H7 H8 H9 H10 H11. repeat split; assumption.
Qed.

(* ==================================================================================== *)
(* Part 1 (b): _reset_state and histories                                                 *)

Lemma reset_state_lem : forall s, reset_state s = init_st (acn s).
Proof. intros s. destruct s. reflexivity. Qed.

Lemma visit_program_st_acn : forall pkg p s, acn (snd (visit_program_st pkg p s)) = acn s.
Proof.
  intros pkg p s. unfold visit_program_st, pop_res.
  pose proof (frame_children (decls p) (proj2 (Forall_forall _ _) (fun c _ => visit_framed c))
                (set_context (Some (pctx p)) (set_types_set true s))) as HY.
  set (Y := visit_children visit (decls p) _) in *. clearbody Y. cbn [snd].
  destruct s, Y. unfold sc in HY. cbn in *. injection HY as; subst. reflexivity.
Qed.

Lemma visit_program_tst : forall pkg p t, tst (visit_program pkg p t) = init_st (acn (tst t)).
Proof.
  intros pkg p t. unfold visit_program.
  pose proof (visit_program_st_acn pkg p (tst t)) as H.
  destruct (visit_program_st pkg p (tst t)) as [r s']. cbn [snd tst] in *.
  rewrite reset_state_lem, H. reflexivity.
Qed.

Lemma translation_resets_state_lem : forall pkg p t,
  tst (snd (translate_program pkg t p)) = init_st (acn (tst t)).
Proof. intros. exact (visit_program_tst pkg p t). Qed.

Lemma prior_output_irrelevant_lem : forall pkg p s a b,
  visit_program pkg p (mkTr s a) = visit_program pkg p (mkTr s b).
Proof. reflexivity. Qed.

(* visit_program assigns self.types and self.context before it reads anything: what earlier
   translations left there is irrelevant too *)
Lemma prior_context_irrelevant_lem : forall pkg p s c ts a b,
  visit_program pkg p (mkTr (set_types_set ts (set_context c s)) a) = visit_program pkg p (mkTr s b).
Proof. intros. destruct s. reflexivity. Qed.

Definition pristine (o : bool) (t : translator) : Prop := tst t = init_st o.

Lemma pristine_text : forall o pkg p t, pristine o t ->
  fst (translate_program pkg t p) = print_program o pkg p.
Proof.
  intros o pkg p [s a] Ht. unfold pristine in Ht. cbn [tst] in Ht. subst s.
  unfold print_program, translate_program, init_tr. cbn [fst].
  unfold result, result_segs. rewrite (prior_output_irrelevant_lem pkg p (init_st o) a None). reflexivity.
Qed.

Lemma pristine_preserved : forall o pkg p t, pristine o t -> pristine o (snd (translate_program pkg t p)).
Proof.
  intros o pkg p t Ht. unfold pristine in *. rewrite translation_resets_state_lem, Ht. reflexivity.
Qed.

Lemma run_history_cons : forall t pkg p r,
  run_history t ((pkg, p) :: r) =
  (fst (translate_program pkg t p) :: fst (run_history (snd (translate_program pkg t p)) r),
   snd (run_history (snd (translate_program pkg t p)) r)).
Proof.
  intros. cbn [run_history]. destruct (translate_program pkg t p) as [x t'].
  cbn [fst snd]. destruct (run_history t' r). reflexivity.
Qed.

Lemma run_history_pristine : forall o h t, pristine o t -> pristine o (snd (run_history t h)).
Proof.
  intros o h. induction h as [|[pkg p] r IH]; intros t Ht; [exact Ht|].
  rewrite run_history_cons. cbn [snd]. apply IH. apply pristine_preserved. exact Ht.
Qed.

Lemma init_pristine : forall o, pristine o (init_tr o).
Proof. reflexivity. Qed.

Lemma history_independent_lem : forall o h pkg p,
  fst (translate_program pkg (snd (run_history (init_tr o) h)) p) = print_program o pkg p.
Proof. intros. apply pristine_text. apply run_history_pristine. apply init_pristine. Qed.

Lemma history_texts_gen : forall o h t, pristine o t ->
  fst (run_history t h) = map (fun x => print_program o (fst x) (snd x)) h.
Proof.
  intros o h. induction h as [|[pkg p] r IH]; intros t Ht; [reflexivity|].
  rewrite run_history_cons. cbn [fst map snd]. f_equal.
  - apply pristine_text. exact Ht.
  - apply IH. apply pristine_preserved. exact Ht.
Qed.

Lemma history_texts_lem : forall o h,
  fst (run_history (init_tr o) h) = map (fun x => print_program o (fst x) (snd x)) h.
Proof. intros. apply history_texts_gen. apply init_pristine. Qed.

Lemma history_state_lem : forall o h, tst (snd (run_history (init_tr o) h)) = init_st o.
Proof. intros. apply (run_history_pristine o h (init_tr o) (init_pristine o)). Qed.

(* ==================================================================================== *)
(* Part 1 (c): the state-free printer                                                     *)

Record env := mkEnv {
  e_ident : nat; e_unit : bool; e_cast : bool; e_is : bool; e_iif : bool;
  e_stack : list (option pkind); e_ns : list string; e_ctx : option gctx; e_acn : bool }.

Definition env_of (s : st) : env :=
  mkEnv (ident s) (is_unit s) (cast_number s) (inside_is s) (inside_is_function s) (nodes_stack s)
        (namespace s) (context s) (acn s).

Definition set_e_ident (v : nat) (e : env) : env :=
  mkEnv v (e_unit e) (e_cast e) (e_is e) (e_iif e) (e_stack e) (e_ns e) (e_ctx e) (e_acn e).
Definition set_e_cast (v : bool) (e : env) : env :=
  mkEnv (e_ident e) (e_unit e) v (e_is e) (e_iif e) (e_stack e) (e_ns e) (e_ctx e) (e_acn e).
Definition set_e_is (v : bool) (e : env) : env :=
  mkEnv (e_ident e) (e_unit e) (e_cast e) v (e_iif e) (e_stack e) (e_ns e) (e_ctx e) (e_acn e).
Definition set_e_stack (v : list (option pkind)) (e : env) : env :=
  mkEnv (e_ident e) (e_unit e) (e_cast e) (e_is e) (e_iif e) v (e_ns e) (e_ctx e) (e_acn e).
Definition set_e_ns (v : list string) (e : env) : env :=
  mkEnv (e_ident e) (e_unit e) (e_cast e) (e_is e) (e_iif e) (e_stack e) v (e_ctx e) (e_acn e).

Definition e_gctx (e : env) : gctx := match e_ctx e with Some c => c | None => empty_ctx end.

(* self._nodes_stack[-2] while the node is visited: the head of the stack the node found *)
Definition e_parent (e : env) : option pkind := nth 0 (e_stack e) None.

Definition pvisitor := pnode -> env -> segs.

Definition pp_block_children (rec : pvisitor) (fb : bool) (e : env) : list pnode -> list segs :=
  fix go (cs : list pnode) : list segs :=
    match cs with
    | [] => []
    | c :: r =>
        match r with
        | [] => [rec c (if fb && negb (e_unit e) then set_e_cast false e else e)]
        | _ => rec c e :: go r
        end
    end.

Definition pp_cond_children (rec : pvisitor) (e : env) (cs : list pnode) : list segs :=
  match cs with
  | c0 :: c1 :: c2 :: _ =>
      [rec c0 e; rec c1 (set_e_ns ("true_block" :: e_ns e) e); rec c2 (set_e_ns ("false_block" :: e_ns e) e)]
  | _ => map (fun c => rec c e) cs
  end.

(* the environment of construct_constructor's second translator *)
Definition nested_env (e : env) : env := mkEnv 0 false true false false [None] (e_ns e) (e_ctx e) false.

Definition pp_super_args_at (rec : pvisitor) (e : env) : nat -> list pnode -> option (bool * bool * list segs) :=
  fix go (i : nat) (cs : list pnode) {struct cs} : option (bool * bool * list segs) :=
    match cs with
    | [] => None
    | c :: r =>
        match i with
        | 0 => match c with
               | PN (KSuper _ bi) args => Some (bi, nonempty args, map (fun a => rec a (nested_env e)) args)
               | _ => None
               end
        | S i' => go i' r
        end
    end.

Definition old_str (old cur : nat) : string := spaces (if Nat.eqb old 0 then cur else old).

Definition pp_node (rec : pvisitor) (n : pnode) (e : env) : segs :=
  match n with
  | PN k cs =>
      let e0 := set_e_stack (Some k :: e_stack e) e in
      let i0 := e_ident e in
      let kids (e' : env) := map (fun c => rec c e') cs in
      let kids0 := kids (set_e_ident 0 e0) in
      match k with
      | KBlock fb => block_text i0 (e_is e && negb (e_iif e)) (pp_block_children rec fb e0 cs)
      | KSuper ct _ => T (type_name ct)
      | KClass name ct fin nf ns nfn =>
          let e1 := set_e_ident (i0 + 2) (set_e_ns (name :: e_ns e) e0) in
          let sup := if Nat.eqb ns 0 then None else pp_super_args_at rec e1 nf cs in
          class_text name ct fin nf ns nfn cs (ifaces (e_gctx e)) sup i0 (kids e1)
      | KTypeParam name b => type_param_text name b
      | KVarDecl name fin vt inf =>
          let glob := ns_is_global (e_ns e) in
          var_decl_text name fin vt inf glob
            (if negb glob then main_prefix (main_vars (e_gctx e)) name else "") (spaces i0)
            (kids (set_e_cast (match vt with Some _ => false | None => true end) e0))
      | KCallArg => nth_seg 0 kids0
      | KField name ft fin => field_text name ft fin
      | KParam name pt va => param_text name pt va (nonempty cs) kids0
      | KFunc name rt inf bx fin hb np ntp =>
          let ns1 := name :: e_ns e in
          let old := i0 + (if ns_parent_global ns1 then 2 else 0) in
          let is_expression := negb (hb && last_is_block cs) in
          let e1 := mkEnv (old + 2) (is_void_ty inf) (if is_expression then false else e_cast e) (e_is e)
                          (if e_is e then true else e_iif e) (Some k :: e_stack e) ns1 (e_ctx e) (e_acn e) in
          func_decl_text name rt inf bx fin hb np ntp is_expression (closure_of (e_parent e))
                         (old_str old (old + 2)) (kids e1)
      | KLambda name rt sg np hb =>
          let ns1 := name :: e_ns e in
          let old := i0 + (if ns_parent_global ns1 then 2 else 0) in
          let is_expression := negb (hb && last_is_block cs) in
          let e1 := mkEnv (old + 2) (opt_is_void rt) (if is_expression then false else e_cast e) (e_is e)
                          (e_iif e) (Some k :: e_stack e) ns1 (e_ctx e) (e_acn e) in
          lambda_text sg np hb (kids e1)
      | KBottom t => bottom_text t (opt_kind is_funcref_kind (e_parent e)) (spaces i0)
      | KInt lit t => integer_text lit t (negb (e_cast e) && (negb (e_acn e) && ty_is_primitive t)) (spaces i0)
      | KReal lit t => real_text lit t (negb (e_cast e) && (negb (e_acn e) && ty_is_primitive t)) (spaces i0)
      | KChar lit => char_text lit (spaces i0)
      | KString lit => string_text lit (spaces i0)
      | KBool lit => boolean_text lit (spaces i0)
      | KArray at_ len =>
          if Nat.eqb len 0 then array_empty_text at_ (spaces i0) else array_text at_ (spaces i0) kids0
      | KVariable name => variable_text name (main_prefix (main_vars (e_gctx e)) name) (spaces i0)
      | KBinOp op nt => binary_op_text op nt (old_str i0 0) kids0
      | KCond =>
          conditional_text (old_str i0 (i0 + 2))
                           (pp_cond_children rec (set_e_is true (set_e_ident (i0 + 2) e0)) cs)
      | KIs nt rx => is_text nt rx (old_str i0 0) kids0
      | KNew ct => new_text ct (spaces i0) (kids (set_e_cast true (set_e_ident 0 e0)))
      | KFieldAccess f => field_access_text f (first_is_bottom cs) (spaces i0) kids0
      | KFuncRef f sg => func_ref_text f sg (spaces i0) kids0
      | KFuncCall f _ _ rc hr =>
          let mp := main_prefix (main_funcs (e_gctx e)) f in
          func_call_text f rc hr (first_is_bottom cs)
                         (if str_empty mp then main_prefix (main_vars (e_gctx e)) f else mp) (spaces i0)
                         (kids (set_e_cast true (set_e_ident 0 e0)))
      | KAssign name hr =>
          assign_text name (main_prefix (main_vars (e_gctx e)) name) hr (first_is_bottom cs) (old_str i0 i0)
                      (kids (set_e_cast false (set_e_ident 0 e0)))
      end
  end.

Fixpoint pp (n : pnode) (e : env) {struct n} : segs := pp_node pp n e.

Lemma pp_unfold : forall k cs e, pp (PN k cs) e = pp_node pp (PN k cs) e.
Proof. reflexivity. Qed.

(* ---- refinement: on routed trees a visit hands pp's text to the routing of append_to *)

(* a visit below the top level: the result is pushed on _children_res, nothing else changes *)
Definition pure_kid (n : pnode) : Prop :=
  forall s, routed false (namespace s) n = true -> visit n s = push (pp n (env_of s)) s.

Definition pure_top (n : pnode) : Prop :=
  forall s, routed true (namespace s) n = true -> visit n s = route (kind_of n) (pp n (env_of s)) s.

Lemma routed_false_true : forall ns n, routed false ns n = true -> routed true ns n = true.
Proof.
  intros ns [k cs] H. cbn [routed] in *. apply andb_true_iff in H. destruct H as [_ H].
  apply andb_true_iff. split; [reflexivity | exact H].
Qed.

Lemma routed_false_push : forall ns k cs, routed false ns (PN k cs) = true ->
  ns_is_global ns && is_var_or_func k = false.
Proof.
  intros ns k cs H. cbn [routed] in H. apply andb_true_iff in H. destruct H as [H _].
  cbn [orb] in H. now apply negb_true_iff in H.
Qed.

Lemma is_main_var_or_func : forall k, is_main_func k = true -> is_var_or_func k = true.
Proof. intros []; cbn; try discriminate; reflexivity. Qed.

Lemma pure_top_kid : forall n, pure_top n -> pure_kid n.
Proof.
  intros [k cs] H s Hr. rewrite (H s (routed_false_true _ _ Hr)).
  pose proof (routed_false_push _ _ _ Hr) as Hp. unfold route. cbn [kind_of].
  destruct (ns_is_global (namespace s)); cbn [andb] in *; [|reflexivity].
  rewrite Hp. destruct (is_main_func k) eqn:E; [|reflexivity].
  rewrite (is_main_var_or_func k E) in Hp. discriminate.
Qed.

Lemma children_pure : forall cs, Forall pure_kid cs -> forall s,
  forallb (routed false (namespace s)) cs = true ->
  visit_children visit cs s =
  set_children_res (rev (map (fun c => pp c (env_of s)) cs) ++ children_res s) s.
Proof.
  induction 1 as [|c cs Hc Hcs IH]; intros s Hr.
  - destruct s; reflexivity.
  - cbn [forallb] in Hr. apply andb_true_iff in Hr. destruct Hr as [Hr1 Hr2].
    unfold visit_children. cbn [fold_left]. fold (visit_children visit cs (visit c s)).
    rewrite (Hc s Hr1). rewrite IH by (destruct s; exact Hr2).
    destruct s. unfold push, set_children_res, env_of. cbn. rewrite <- app_assoc. reflexivity.
Qed.

Lemma pop_firstn : forall (rs res : list segs) n, List.length rs = n -> firstn n (rev rs ++ res) = rev rs.
Proof.
  intros rs res n H. assert (Hl : List.length (rev rs) = n) by (rewrite rev_length; exact H).
  rewrite firstn_app, Hl, Nat.sub_diag. rewrite <- Hl at 1. rewrite firstn_all. cbn. apply app_nil_r.
Qed.

Lemma pop_skipn : forall (rs res : list segs) n, List.length rs = n -> skipn n (rev rs ++ res) = res.
Proof.
  intros rs res n H. assert (Hl : List.length (rev rs) = n) by (rewrite rev_length; exact H).
  rewrite skipn_app, Hl, Nat.sub_diag. rewrite <- Hl at 1. rewrite skipn_all. reflexivity.
Qed.

Lemma pop_map_firstn : forall (f : pnode -> segs) cs res,
  rev (firstn (List.length cs) (rev (map f cs) ++ res)) = map f cs.
Proof. intros. rewrite pop_firstn by apply map_length. apply rev_involutive. Qed.

Lemma pop_map_skipn : forall (f : pnode -> segs) cs res,
  skipn (List.length cs) (rev (map f cs) ++ res) = res.
Proof. intros. apply pop_skipn. apply map_length. Qed.

Ltac st_cbn :=
  cbv beta iota zeta delta
      [env_of ident is_unit cast_number inside_is inside_is_function children_res main_children main_method
       nodes_stack namespace fun_ifaces context types_set acn
       e_ident e_unit e_cast e_is e_iif e_stack e_ns e_ctx e_acn e_gctx e_parent ctx_of
       set_ident set_is_unit set_cast_number set_inside_is set_inside_is_function set_children_res
       set_main_children set_main_method set_nodes_stack set_namespace set_fun_ifaces set_context set_types_set
       set_e_ident set_e_cast set_e_is set_e_stack set_e_ns nested_env nested_init
       push gi gi_old old_str parent_kind parent_is_func_ref is_closure plain_number
       fst snd tl kind_of].

Ltac st_cbn_in H :=
  cbv beta iota zeta delta
      [env_of ident is_unit cast_number inside_is inside_is_function children_res main_children main_method
       nodes_stack namespace fun_ifaces context types_set acn
       set_ident set_is_unit set_cast_number set_inside_is set_inside_is_function set_children_res
       set_main_children set_main_method set_nodes_stack set_namespace set_fun_ifaces set_context set_types_set
       push fst snd tl kind_of] in H.

Lemma block_children_pure : forall fb cs, Forall pure_kid cs -> forall s,
  forallb (routed false (namespace s)) cs = true ->
  visit_block_children visit fb cs s =
  set_children_res (rev (pp_block_children pp fb (env_of s) cs) ++ children_res s) s.
Proof.
  intros fb cs H. induction H as [|c cs Hc Hcs IH]; intros s Hr.
  - destruct s; reflexivity.
  - cbn [forallb] in Hr. apply andb_true_iff in Hr. destruct Hr as [Hr1 Hr2].
    cbn [visit_block_children pp_block_children]. destruct cs as [|c' cs'].
    + destruct s as [i u c0 ii iif cr mc mm stk ns fi cx ts a]. st_cbn.
      destruct (fb && negb u).
      * rewrite Hc by exact Hr1. st_cbn. reflexivity.
      * rewrite Hc by exact Hr1. st_cbn. reflexivity.
    + change (visit_block_children visit fb (c' :: cs') (visit c s) =
              set_children_res (rev (pp c (env_of s) :: pp_block_children pp fb (env_of s) (c' :: cs')) ++ children_res s) s).
      rewrite (Hc s Hr1). rewrite IH by (destruct s; exact Hr2).
      destruct s. st_cbn. cbn [rev]. rewrite <- app_assoc. reflexivity.
Qed.

Lemma pp_block_children_length : forall rec fb e cs, List.length (pp_block_children rec fb e cs) = List.length cs.
Proof.
  intros rec fb e cs. induction cs as [|c cs IH]; [reflexivity|].
  cbn [pp_block_children]. destruct cs; [reflexivity|]. cbn [List.length] in *. now rewrite IH.
Qed.

Lemma cond_children_pure : forall cs, Forall pure_kid cs -> forall s,
  routed false (namespace s) (PN KCond cs) = true ->
  visit_cond_children visit cs s =
  set_children_res (rev (pp_cond_children pp (env_of s) cs) ++ children_res s) s /\
  List.length (pp_cond_children pp (env_of s) cs) = List.length cs.
Proof.
  intros cs H s Hr. cbn [routed enters] in Hr. apply andb_true_iff in Hr. destruct Hr as [_ Hr].
  unfold visit_cond_children, pp_cond_children.
  destruct cs as [|c0 [|c1 [|c2 rest]]];
    try (split; [apply children_pure; assumption | apply map_length]).
  apply andb_true_iff in Hr. destruct Hr as [Hr Hrest]. apply andb_true_iff in Hr. destruct Hr as [Hr Hr2].
  apply andb_true_iff in Hr. destruct Hr as [Hr0 Hr1].
  destruct rest; [|discriminate].
  inversion H as [|? ? H0 H']; subst. inversion H' as [|? ? H1 H'']; subst. inversion H'' as [|? ? H2 _]; subst.
  split; [|reflexivity].
  destruct s as [i u c ii iif cr mc mm stk ns fi cx ts a]. st_cbn. st_cbn_in Hr0. st_cbn_in Hr1. st_cbn_in Hr2.
  rewrite H0 by exact Hr0. st_cbn. rewrite H1 by exact Hr1. st_cbn. rewrite H2 by exact Hr2. st_cbn. reflexivity.
Qed.

Lemma super_args_pure : forall cs,
  Forall (fun c => Forall pure_kid (children_of c)) cs -> forall s nf,
  (forall ct bi args, In (PN (KSuper ct bi) args) cs -> forallb (routed false (namespace s)) args = true) ->
  super_args_at visit s nf cs = pp_super_args_at pp (env_of s) nf cs.
Proof.
  intros cs H s. induction H as [|c cs Hc Hcs IH]; intros nf Hr; [reflexivity|].
  cbn [super_args_at pp_super_args_at]. destruct nf as [|nf].
  - destruct c as [k args]. destruct k; try reflexivity.
    cbn [children_of] in Hc.
    assert (Hra : forallb (routed false (namespace (nested_init s))) args = true).
    { destruct s. st_cbn. eapply Hr. left. reflexivity. }
    rewrite (children_pure args Hc (nested_init s) Hra).
    destruct s. st_cbn. rewrite app_nil_r, rev_involutive. reflexivity.
  - apply IH. intros ct bi args Hin. eapply Hr. right. exact Hin.
Qed.

Lemma routed_super_args : forall ns cs, forallb (routed false ns) cs = true ->
  forall ct bi args, In (PN (KSuper ct bi) args) cs -> forallb (routed false ns) args = true.
Proof.
  intros ns cs H ct bi args Hin. rewrite forallb_forall in H. specialize (H _ Hin).
  cbn [routed enters] in H. apply andb_true_iff in H. destruct H as [_ H]. exact H.
Qed.

Lemma old_str_same : forall i, old_str i i = spaces i.
Proof. intros i. unfold old_str. destruct (Nat.eqb i 0); reflexivity. Qed.

Lemma old_str_0 : forall i, old_str i 0 = spaces i.
Proof. intros i. unfold old_str. destruct (Nat.eqb i 0) eqn:E; [apply Nat.eqb_eq in E; now subst | reflexivity]. Qed.

Definition pure_all (n : pnode) : Prop := pure_top n /\ Forall pure_kid (children_of n).

Ltac kids_step cs HK Hk :=
  rewrite (children_pure cs HK) by (st_cbn; exact Hk); st_cbn;
  unfold pop_res; st_cbn; rewrite ?pop_map_firstn, ?pop_map_skipn; st_cbn.

Lemma visit_pure_all : forall n, pure_all n.
Proof.
  induction n as [k cs IH] using pnode_ind'.
  assert (HK : Forall pure_kid cs).
  { eapply Forall_impl; [|exact IH]. intros c [Hc _]. now apply pure_top_kid. }
  assert (HG : Forall (fun c => Forall pure_kid (children_of c)) cs).
  { eapply Forall_impl; [|exact IH]. intros c [_ Hc]. exact Hc. }
  split; [|exact HK].
  intros s Hr. destruct s as [i u c ii iif cr mc mm stk ns fi cx ts a].
  cbn [routed namespace] in Hr. apply andb_true_iff in Hr. destruct Hr as [_ Hk].
  rewrite visit_unfold, pp_unfold. unfold visit_node, pp_node.
  destruct k; cbn [enters] in Hk; unfold append_to, change_namespace.
  - (* KBlock *) unfold visit_block. st_cbn.
    rewrite (block_children_pure is_func_block cs HK) by (st_cbn; exact Hk). st_cbn.
    unfold pop_res. st_cbn. rewrite pop_firstn, pop_skipn by apply pp_block_children_length.
    rewrite rev_involutive. st_cbn. reflexivity.
  - (* KSuper *) unfold visit_super_instantiation. st_cbn. reflexivity.
  - (* KClass *) unfold visit_class_decl. st_cbn. kids_step cs HK Hk.
    rewrite (super_args_pure cs HG) by (st_cbn; apply routed_super_args; exact Hk). st_cbn. reflexivity.
  - unfold visit_type_param. st_cbn. reflexivity.
  - (* KVarDecl *) unfold visit_var_decl. st_cbn. kids_step cs HK Hk. reflexivity.
  - unfold visit_call_argument. st_cbn. kids_step cs HK Hk. reflexivity.
  - unfold visit_field_decl. st_cbn. reflexivity.
  - unfold visit_param_decl. st_cbn. kids_step cs HK Hk. reflexivity.
  - (* KFunc *) unfold visit_func_decl. st_cbn.
    destruct ii, (negb (has_body && last_is_block cs)); st_cbn; kids_step cs HK Hk;
      destruct (ns_parent_global (name :: ns)); st_cbn;
      rewrite ?Nat.add_0_r, ?Nat.sub_0_r, ?Nat.add_sub; reflexivity.
  - (* KLambda *) unfold visit_lambda. st_cbn.
    destruct (negb (has_body && last_is_block cs)); st_cbn; kids_step cs HK Hk;
      destruct (ns_parent_global (name :: ns)); st_cbn;
      rewrite ?Nat.add_0_r, ?Nat.sub_0_r, ?Nat.add_sub; reflexivity.
  - unfold visit_bottom_constant. st_cbn. reflexivity.
  - unfold visit_integer_constant. st_cbn. reflexivity.
  - unfold visit_real_constant. st_cbn. reflexivity.
  - unfold visit_char_constant. st_cbn. reflexivity.
  - unfold visit_string_constant. st_cbn. reflexivity.
  - unfold visit_boolean_constant. st_cbn. reflexivity.
  - (* KArray *) unfold visit_array_expr. st_cbn. destruct (Nat.eqb length 0); st_cbn.
    + reflexivity.
    + kids_step cs HK Hk. reflexivity.
  - unfold visit_variable. st_cbn. reflexivity.
  - unfold visit_binary_op. st_cbn. kids_step cs HK Hk. reflexivity.
  - (* KCond *) unfold visit_conditional. st_cbn.
    match goal with |- context [visit_cond_children visit cs ?S] =>
      destruct (cond_children_pure cs HK S) as [HC HL] end.
    { cbn [routed enters namespace is_var_or_func]. st_cbn. rewrite andb_false_r. cbn [negb orb andb]. exact Hk. }
    rewrite HC. st_cbn. st_cbn_in HL. unfold pop_res. st_cbn.
    rewrite pop_firstn, pop_skipn by (st_cbn; exact HL). rewrite rev_involutive. st_cbn. reflexivity.
  - unfold visit_is. st_cbn. kids_step cs HK Hk. reflexivity.
  - unfold visit_new. st_cbn. kids_step cs HK Hk. reflexivity.
  - unfold visit_field_access. st_cbn. kids_step cs HK Hk. reflexivity.
  - unfold visit_func_ref. st_cbn. kids_step cs HK Hk. reflexivity.
  - unfold visit_func_call. st_cbn. kids_step cs HK Hk. reflexivity.
  - unfold visit_assign. st_cbn. kids_step cs HK Hk. reflexivity.
Qed.

(* a visit on a routed tree changes exactly one accumulator, by exactly one result *)
Lemma visit_routes_one_lem : forall n s, routed true (namespace s) n = true ->
  exists r, visit n s = route (kind_of n) r s.
Proof. intros n s H. exists (pp n (env_of s)). exact (proj1 (visit_pure_all n) s H). Qed.

Lemma visit_pushes_one_lem : forall n s, routed false (namespace s) n = true ->
  exists r, visit n s = push r s.
Proof.
  intros n s H. exists (pp n (env_of s)). exact (pure_top_kid n (proj1 (visit_pure_all n)) s H).
Qed.

(* ==================================================================================== *)
(* Part 2: what the text contains                                                         *)

(* ---- strings and segments *)
Lemma sapp_assoc : forall a b c : string, ((a ++ b) ++ c = a ++ (b ++ c))%string.
Proof. induction a; intros; cbn; [reflexivity | now rewrite IHa]. Qed.

Lemma sapp_nil_r : forall a : string, (a ++ "" = a)%string.
Proof. induction a; cbn; [reflexivity | now rewrite IHa]. Qed.

Lemma flatten_app : forall a b, flatten (a ++ b) = (flatten a ++ flatten b)%string.
Proof. induction a; intros; cbn; [reflexivity | now rewrite IHa, sapp_assoc]. Qed.

Lemma flatten_T : forall s, flatten (T s) = s.
Proof. intros; cbn. apply sapp_nil_r. Qed.

Lemma flatten_single : forall sg, flatten [sg] = seg_text sg.
Proof. intros; cbn. apply sapp_nil_r. Qed.

Lemma seg_text_set : forall sg x, seg_text (set_text sg x) = x.
Proof. intros [] x; reflexivity. Qed.

(* ---- marks *)
Lemma marks_app : forall a b, marks (a ++ b) = marks a ++ marks b.
Proof. intros. unfold marks. apply flat_map_app. Qed.

Lemma marks_nil : marks [] = [].
Proof. reflexivity. Qed.

Lemma marks_T : forall s, marks (T s) = [].
Proof. reflexivity. Qed.

Lemma marks_paren : forall r, marks (paren r) = marks r.
Proof. intros. unfold paren. rewrite !marks_app, !marks_T. cbn. now rewrite app_nil_r. Qed.

Lemma marks_brace : forall r, marks (brace r) = marks r.
Proof. intros. unfold brace. rewrite !marks_app, !marks_T. cbn. now rewrite app_nil_r. Qed.

Lemma marks_joins : forall sep l, marks sep = [] -> marks (joins sep l) = flat_map marks l.
Proof.
  intros sep l Hs. induction l as [|x r IH]; [reflexivity|].
  cbn [joins flat_map]. destruct r as [|y r'].
  - cbn. now rewrite app_nil_r.
  - rewrite !marks_app, Hs, IH. reflexivity.
Qed.

Lemma segs_empty_marks : forall r, segs_empty r = true -> marks r = [].
Proof.
  induction r as [|sg r IH]; [reflexivity|]. unfold segs_empty. cbn [forallb].
  intros H. apply andb_true_iff in H. destruct H as [H1 H2].
  change (marks (sg :: r)) with (seg_marks sg ++ marks r). rewrite (IH H2), app_nil_r.
  destruct sg; cbn in *; unfold mk_mark; try rewrite H1; reflexivity.
Qed.

Lemma marks_decl : forall k s, marks [Decl k s] = mk_mark (MDecl k) s.
Proof. intros. cbn. apply app_nil_r. Qed.
Lemma marks_lit : forall s, marks [Lit s] = mk_mark MLit s.
Proof. intros. cbn. apply app_nil_r. Qed.
Lemma marks_op : forall s, marks [Op s] = mk_mark MOp s.
Proof. intros. cbn. apply app_nil_r. Qed.

Lemma marks_cons : forall sg r, marks (sg :: r) = seg_marks sg ++ marks r.
Proof. reflexivity. Qed.

#[local] Hint Rewrite marks_app marks_nil marks_T marks_paren marks_brace
  marks_decl marks_lit marks_op app_nil_r app_nil_l : marks.

Ltac mk := autorewrite with marks.

(* ---- white space: lstrip and the collapse of super(...) keep the marks of texts whose marked
   pieces are free of white space *)
Definition seg_ok (sg : seg) : Prop :=
  match sg with Txt _ => True | _ => has_ws (seg_text sg) = false end.

Definition Lex (r : segs) : Prop := Forall seg_ok r.

Lemma lstrip_ws_free : forall s, has_ws s = false -> lstrip_str s = s.
Proof.
  intros [|a r] H; [reflexivity|]. cbn [has_ws] in H. apply orb_false_iff in H. destruct H as [H _].
  cbn [lstrip_str]. now rewrite H.
Qed.

Lemma collapse_ws_free : forall s p, has_ws s = false -> fst (collapse_str p s) = s.
Proof.
  induction s as [|a r IH]; intros p H; [reflexivity|].
  cbn [has_ws] in H. apply orb_false_iff in H. destruct H as [Ha Hr].
  cbn [collapse_str]. rewrite Ha. specialize (IH false Hr).
  destruct (collapse_str false r) as [x f]. cbn [fst] in *. now rewrite IH.
Qed.

Lemma set_text_same : forall sg, set_text sg (seg_text sg) = sg.
Proof. intros []; reflexivity. Qed.

Lemma marks_lstrip : forall r, Lex r -> marks (lstrip_segs r) = marks r.
Proof.
  induction 1 as [|sg r Hsg Hr IH]; [reflexivity|].
  cbn [lstrip_segs]. cbv zeta. destruct sg as [t|k t|t|t]; cbn [seg_ok seg_text] in Hsg; cbn [seg_text set_text].
  - destruct (str_empty (lstrip_str t)); [exact IH | reflexivity].
  - rewrite (lstrip_ws_free t Hsg). cbn [seg_text]. destruct (str_empty t) eqn:E.
    + rewrite IH, marks_cons. cbn [seg_marks]. unfold mk_mark. now rewrite E.
    + reflexivity.
  - rewrite (lstrip_ws_free t Hsg). cbn [seg_text]. destruct (str_empty t) eqn:E.
    + rewrite IH, marks_cons. cbn [seg_marks]. unfold mk_mark. now rewrite E.
    + reflexivity.
  - rewrite (lstrip_ws_free t Hsg). cbn [seg_text]. destruct (str_empty t) eqn:E.
    + rewrite IH, marks_cons. cbn [seg_marks]. unfold mk_mark. now rewrite E.
    + reflexivity.
Qed.

Lemma Lex_lstrip : forall r, Lex r -> Lex (lstrip_segs r).
Proof.
  induction 1 as [|sg r Hsg Hr IH]; [constructor|].
  cbn [lstrip_segs]. cbv zeta. destruct (str_empty (lstrip_str (seg_text sg))); [exact IH|].
  constructor; [|exact Hr].
  destruct sg as [t|k t|t|t]; cbn [seg_ok seg_text set_text] in *; try exact I;
    now rewrite (lstrip_ws_free t Hsg).
Qed.

Lemma marks_collapse : forall r, Lex r -> forall p, marks (collapse_segs p r) = marks r.
Proof.
  induction 1 as [|sg r Hsg Hr IH]; intros p; [reflexivity|].
  cbn [collapse_segs]. destruct (collapse_str p (seg_text sg)) as [s' f] eqn:E.
  rewrite !marks_cons, IH. f_equal.
  destruct sg as [t|k t|t|t]; cbn [seg_ok seg_text set_text] in *; try reflexivity;
    pose proof (collapse_ws_free t p Hsg) as H0; rewrite E in H0; cbn [fst] in H0; now subst.
Qed.

Lemma Lex_collapse : forall r, Lex r -> forall p, Lex (collapse_segs p r).
Proof.
  induction 1 as [|sg r Hsg Hr IH]; intros p; [constructor|].
  cbn [collapse_segs]. destruct (collapse_str p (seg_text sg)) as [s' f] eqn:E.
  constructor; [|apply IH].
  destruct sg as [t|k t|t|t]; cbn [seg_ok seg_text set_text] in *; try exact I;
    pose proof (collapse_ws_free t p Hsg) as H0; rewrite E in H0; cbn [fst] in H0; now subst.
Qed.

Lemma Lex_nil : Lex [].
Proof. constructor. Qed.

Lemma Lex_app : forall a b, Lex a -> Lex b -> Lex (a ++ b).
Proof. intros. apply Forall_app. split; assumption. Qed.

Lemma Lex_T : forall s, Lex (T s).
Proof. intros. constructor; [exact I | constructor]. Qed.

Lemma Lex_decl : forall k s, ws_free s = true -> Lex [Decl k s].
Proof. intros k s H. constructor; [|constructor]. cbn. now apply negb_true_iff in H. Qed.
Lemma Lex_lit : forall s, ws_free s = true -> Lex [Lit s].
Proof. intros s H. constructor; [|constructor]. cbn. now apply negb_true_iff in H. Qed.
Lemma Lex_op : forall s, ws_free s = true -> Lex [Op s].
Proof. intros s H. constructor; [|constructor]. cbn. now apply negb_true_iff in H. Qed.

Lemma Lex_paren : forall r, Lex r -> Lex (paren r).
Proof. intros. unfold paren. repeat apply Lex_app; auto using Lex_T. Qed.

Lemma Lex_brace : forall r, Lex r -> Lex (brace r).
Proof. intros. unfold brace. repeat apply Lex_app; auto using Lex_T. Qed.

Lemma Lex_joins : forall sep l, Lex sep -> Forall Lex l -> Lex (joins sep l).
Proof.
  intros sep l Hs Hl. induction Hl as [|x r Hx Hr IH]; [apply Lex_nil|].
  cbn [joins]. destruct r as [|y r']; [exact Hx|].
  apply Lex_app; [exact Hx | apply Lex_app; [exact Hs | exact IH]].
Qed.

Lemma Lex_nth : forall l i, Forall Lex l -> Lex (nth_seg i l).
Proof.
  intros l i H. unfold nth_seg. revert i. induction H as [|x r Hx Hr IH]; intros [|i]; cbn;
    try apply Lex_nil; auto.
Qed.

Lemma Lex_last : forall l, Forall Lex l -> Lex (last_seg l).
Proof.
  intros l H. unfold last_seg. induction H as [|x r Hx Hr IH]; [apply Lex_nil|].
  cbn [last]. destruct r; [exact Hx | exact IH].
Qed.

Lemma Forall_firstn : forall (A : Type) (P : A -> Prop) n l, Forall P l -> Forall P (firstn n l).
Proof. intros A P n l H. revert n. induction H; intros [|n]; cbn; constructor; auto. Qed.

Lemma Forall_skipn : forall (A : Type) (P : A -> Prop) n l, Forall P l -> Forall P (skipn n l).
Proof. intros A P n l H. revert n. induction H; intros [|n]; cbn; auto. Qed.

Lemma Forall_tl : forall (A : Type) (P : A -> Prop) l, Forall P l -> Forall P (tl l).
Proof. intros A P l H. destruct H; [constructor | assumption]. Qed.

Ltac lexok :=
  cbv zeta;
  repeat match goal with
         | H : Lex ?x |- Lex ?x => exact H
         | |- Lex (if ?b then _ else _) => destruct b
         | |- Lex (match ?o with Some _ => _ | None => _ end) => destruct o
         | |- Lex (_ ++ _) => apply Lex_app
         | |- Lex [] => apply Lex_nil
         | |- Lex (paren _) => apply Lex_paren
         | |- Lex (brace _) => apply Lex_brace
         | |- Lex (joins _ _) => apply Lex_joins
         | |- Lex (lstrip_segs _) => apply Lex_lstrip
         | |- Lex (collapse_segs _ _) => apply Lex_collapse
         | |- Lex (T _) => apply Lex_T
         | |- Lex [Decl _ _] => apply Lex_decl
         | |- Lex [Lit _] => apply Lex_lit
         | |- Lex [Op _] => apply Lex_op
         | |- Lex (nth_seg _ _) => apply Lex_nth
         | |- Lex (last_seg _) => apply Lex_last
         | |- Forall Lex (firstn _ _) => apply Forall_firstn
         | |- Forall Lex (skipn _ _) => apply Forall_skipn
         | |- Forall Lex (tl _) => apply Forall_tl
         end; try assumption; try reflexivity.

(* ---- list splitting *)
Lemma flat_map_firstn_skipn : forall (A B : Type) (f : A -> list B) n l,
  flat_map f l = flat_map f (firstn n l) ++ flat_map f (skipn n l).
Proof. intros. rewrite <- flat_map_app, firstn_skipn. reflexivity. Qed.

Lemma skipn_skipn : forall (A : Type) (x y : nat) (l : list A), skipn x (skipn y l) = skipn (x + y) l.
Proof.
  intros A x y. revert x. induction y as [|y IH]; intros x l.
  - now rewrite Nat.add_0_r.
  - destruct l as [|a l]; [now rewrite !skipn_nil|]. cbn [skipn]. rewrite IH.
    replace (x + S y) with (S (x + y)) by lia. reflexivity.
Qed.

Lemma skipn_last : forall (A : Type) n (l : list A) d, List.length l = n + 1 -> skipn n l = [last l d].
Proof.
  intros A n; induction n as [|n IH]; intros l d H.
  - destruct l as [|x [|y l]]; cbn in H; try discriminate. reflexivity.
  - destruct l as [|x l]; [discriminate|]. cbn in H. injection H as H.
    cbn [skipn]. rewrite (IH l d H). destruct l; [cbn in H; lia | reflexivity].
Qed.

(* ---- balance *)
Definition neutral (o c : ascii) (s : string) : Prop := forall d, scan o c s d = Some d.

Lemma scan_app : forall o c a b d,
  scan o c (a ++ b) d = match scan o c a d with Some d' => scan o c b d' | None => None end.
Proof.
  induction a as [|x a IH]; intros b d; cbn [append scan]; [reflexivity|].
  destruct (Ascii.eqb x o); [apply IH|].
  destruct (Ascii.eqb x c); [destruct d; [reflexivity | apply IH] | apply IH].
Qed.

Lemma neutral_app : forall o c a b, neutral o c a -> neutral o c b -> neutral o c (a ++ b).
Proof. intros o c a b Ha Hb d. rewrite scan_app, Ha. apply Hb. Qed.

Lemma neutral_empty : forall o c, neutral o c "".
Proof. intros o c d. reflexivity. Qed.

Lemma scan_shift : forall o c s a b, scan o c s a = Some b -> forall d, scan o c s (a + d) = Some (b + d).
Proof.
  induction s as [|x s IH]; intros a b H d; cbn [scan] in *.
  - injection H as <-. reflexivity.
  - destruct (Ascii.eqb x o).
    + exact (IH (S a) b H d).
    + destruct (Ascii.eqb x c).
      * destruct a as [|a']; [discriminate|]. exact (IH a' b H d).
      * exact (IH a b H d).
Qed.

Lemma balanced_neutral : forall o c s, balanced o c s = true -> neutral o c s.
Proof.
  intros o c s H d. unfold balanced in H. destruct (scan o c s 0) as [[|k]|] eqn:E; try discriminate.
  exact (scan_shift o c s 0 0 E d).
Qed.

Lemma neutral_balanced : forall o c s, neutral o c s -> balanced o c s = true.
Proof. intros o c s H. unfold balanced. now rewrite (H 0). Qed.

Definition Bal (r : segs) : Prop :=
  neutral "("%char ")"%char (flatten r) /\ neutral "{"%char "}"%char (flatten r) /\
  neutral "["%char "]"%char (flatten r).

Lemma clean_neutral : forall s, clean_str s = true ->
  neutral "("%char ")"%char s /\ neutral "{"%char "}"%char s /\ neutral "["%char "]"%char s.
Proof.
  intros s H. unfold clean_str in H. apply andb_true_iff in H. destruct H as [H H3].
  apply andb_true_iff in H. destruct H as [H1 H2].
  repeat split; apply balanced_neutral; assumption.
Qed.

Lemma neutral_clean : forall s,
  neutral "("%char ")"%char s -> neutral "{"%char "}"%char s -> neutral "["%char "]"%char s -> clean_str s = true.
Proof. intros s H1 H2 H3. unfold clean_str. now rewrite !neutral_balanced. Qed.

Lemma Bal_nil : Bal [].
Proof. repeat split; apply neutral_empty. Qed.

Lemma Bal_app : forall a b, Bal a -> Bal b -> Bal (a ++ b).
Proof.
  intros a b (A1 & A2 & A3) (B1 & B2 & B3). unfold Bal. rewrite flatten_app.
  repeat split; now apply neutral_app.
Qed.

Lemma Bal_single : forall sg, clean_str (seg_text sg) = true -> Bal [sg].
Proof. intros sg H. unfold Bal. rewrite flatten_single. now apply clean_neutral. Qed.

Lemma Bal_T : forall s, clean_str s = true -> Bal (T s).
Proof. intros. now apply Bal_single. Qed.

Lemma spaces_neutral : forall o c n,
  Ascii.eqb " "%char o = false -> Ascii.eqb " "%char c = false -> neutral o c (spaces n).
Proof.
  intros o c n Ho Hc. induction n as [|n IH]; intros d; cbn [spaces scan]; [reflexivity|].
  rewrite Ho, Hc. apply IH.
Qed.

Lemma Bal_spaces : forall n, Bal (T (spaces n)).
Proof.
  intros n. unfold Bal. rewrite flatten_T. repeat split; apply spaces_neutral; reflexivity.
Qed.

Lemma Bal_paren : forall r, Bal r -> Bal (paren r).
Proof.
  intros r (H1 & H2 & H3). unfold Bal, paren. rewrite !flatten_app, !flatten_T. repeat split; intros d.
  - cbn. rewrite scan_app, (H1 (S d)). reflexivity.
  - cbn. rewrite scan_app, (H2 d). reflexivity.
  - cbn. rewrite scan_app, (H3 d). reflexivity.
Qed.

Lemma Bal_brace : forall r, Bal r -> Bal (brace r).
Proof.
  intros r (H1 & H2 & H3). unfold Bal, brace. rewrite !flatten_app, !flatten_T. repeat split; intros d.
  - cbn. rewrite scan_app, (H1 d). reflexivity.
  - cbn. rewrite scan_app, (H2 (S d)). reflexivity.
  - cbn. rewrite scan_app, (H3 d). reflexivity.
Qed.

Lemma Bal_joins : forall sep l, Bal sep -> Forall Bal l -> Bal (joins sep l).
Proof.
  intros sep l Hs Hl. induction Hl as [|x r Hx Hr IH]; [apply Bal_nil|].
  cbn [joins]. destruct r as [|y r']; [exact Hx|].
  apply Bal_app; [exact Hx | apply Bal_app; [exact Hs | exact IH]].
Qed.

Lemma Bal_nth : forall l i, Forall Bal l -> Bal (nth_seg i l).
Proof.
  intros l i H. unfold nth_seg. revert i. induction H as [|x r Hx Hr IH]; intros [|i]; cbn;
    try apply Bal_nil; auto.
Qed.

Lemma Bal_last : forall l, Forall Bal l -> Bal (last_seg l).
Proof.
  intros l H. unfold last_seg. induction H as [|x r Hx Hr IH]; [apply Bal_nil|].
  cbn [last]. destruct r; [exact Hx | exact IH].
Qed.

(* white space is no bracket: lstrip and collapse do not change the bracket depth *)
Lemma ws_not : forall a o, is_ws a = true -> is_ws o = false -> Ascii.eqb a o = false.
Proof.
  intros a o Ha Ho. destruct (Ascii.eqb a o) eqn:E; [|reflexivity].
  apply Ascii.eqb_eq in E. subst. congruence.
Qed.

Lemma scan_lstrip : forall o c, is_ws o = false -> is_ws c = false ->
  forall s d, scan o c (lstrip_str s) d = scan o c s d.
Proof.
  intros o c Ho Hc. induction s as [|a r IH]; intros d; [reflexivity|].
  cbn [lstrip_str]. destruct (is_ws a) eqn:E; [|reflexivity].
  rewrite IH. cbn [scan]. now rewrite (ws_not a o E Ho), (ws_not a c E Hc).
Qed.

Lemma lstrip_app : forall a b,
  lstrip_str (a ++ b) = if str_empty (lstrip_str a) then lstrip_str b else (lstrip_str a ++ b)%string.
Proof.
  induction a as [|x a IH]; intros b; [reflexivity|].
  cbn [append lstrip_str]. destruct (is_ws x); [apply IH | reflexivity].
Qed.

Lemma flatten_lstrip : forall r, flatten (lstrip_segs r) = lstrip_str (flatten r).
Proof.
  induction r as [|sg r IH]; [reflexivity|].
  cbn [lstrip_segs flatten]. cbv zeta. rewrite lstrip_app.
  destruct (str_empty (lstrip_str (seg_text sg))); [exact IH|].
  cbn [flatten]. now rewrite seg_text_set.
Qed.

Lemma scan_collapse : forall o c, is_ws o = false -> is_ws c = false ->
  forall s p d, scan o c (fst (collapse_str p s)) d = scan o c s d.
Proof.
  intros o c Ho Hc. induction s as [|a r IH]; intros p d; [reflexivity|].
  cbn [collapse_str]. destruct (is_ws a) eqn:E.
  - cbn [scan]. rewrite (ws_not a o E Ho), (ws_not a c E Hc). destruct p.
    + apply IH.
    + specialize (IH true d). destruct (collapse_str true r) as [x f]. cbn [fst scan] in *.
      assert (Hs : is_ws " "%char = true) by reflexivity.
      now rewrite (ws_not " "%char o Hs Ho), (ws_not " "%char c Hs Hc).
  - pose proof (IH false) as IH'. destruct (collapse_str false r) as [x f]. cbn [fst scan] in *.
    destruct (Ascii.eqb a o); [apply IH'|].
    destruct (Ascii.eqb a c); [destruct d; [reflexivity | apply IH'] | apply IH'].
Qed.

Lemma collapse_app : forall a b p,
  collapse_str p (a ++ b) =
  (let (x, f) := collapse_str p a in let (y, g) := collapse_str f b in ((x ++ y)%string, g)).
Proof.
  induction a as [|x a IH]; intros b p.
  - cbn. destruct (collapse_str p b); reflexivity.
  - cbn [append collapse_str]. destruct (is_ws x).
    + destruct p.
      * apply IH.
      * rewrite IH. destruct (collapse_str true a) as [x0 f]. destruct (collapse_str f b). reflexivity.
    + rewrite IH. destruct (collapse_str false a) as [x0 f]. destruct (collapse_str f b). reflexivity.
Qed.

Lemma flatten_collapse : forall r p, flatten (collapse_segs p r) = fst (collapse_str p (flatten r)).
Proof.
  induction r as [|sg r IH]; intros p; [reflexivity|].
  cbn [collapse_segs flatten]. rewrite collapse_app.
  destruct (collapse_str p (seg_text sg)) as [s' f]. cbn [flatten]. rewrite seg_text_set, IH.
  destruct (collapse_str f (flatten r)). reflexivity.
Qed.

Lemma Bal_lstrip : forall r, Bal r -> Bal (lstrip_segs r).
Proof.
  intros r (H1 & H2 & H3). unfold Bal. rewrite flatten_lstrip.
  repeat split; intros d; rewrite scan_lstrip by reflexivity; auto.
Qed.

Lemma Bal_collapse : forall r p, Bal r -> Bal (collapse_segs p r).
Proof.
  intros r p (H1 & H2 & H3). unfold Bal. rewrite flatten_collapse.
  repeat split; intros d; rewrite scan_collapse by reflexivity; auto.
Qed.

Ltac bal :=
  cbv zeta;
  repeat match goal with
         | H : Bal ?x |- Bal ?x => exact H
         | |- Bal (if ?b then _ else _) => destruct b
         | |- Bal (match ?o with Some _ => _ | None => _ end) => destruct o
         | |- Bal (_ ++ _) => apply Bal_app
         | |- Bal [] => apply Bal_nil
         | |- Bal (paren _) => apply Bal_paren
         | |- Bal (brace _) => apply Bal_brace
         | |- Bal (joins _ _) => apply Bal_joins
         | |- Bal (lstrip_segs _) => apply Bal_lstrip
         | |- Bal (collapse_segs _ _) => apply Bal_collapse
         | |- Bal (T (spaces _)) => apply Bal_spaces
         | |- Bal (T _) => apply Bal_T
         | |- Bal [_] => apply Bal_single
         | |- Bal (nth_seg _ _) => apply Bal_nth
         | |- Bal (last_seg _) => apply Bal_last
         | |- Forall Bal (firstn _ _) => apply Forall_firstn
         | |- Forall Bal (skipn _ _) => apply Forall_skipn
         | |- Forall Bal (tl _) => apply Forall_tl
         | |- clean_str (if ?b then _ else _) = true => destruct b
         | |- clean_str (seg_text _) = true => cbn [seg_text]
         end; try assumption; try reflexivity.

(* ---- clean strings *)
Definition Cl (s : string) : Prop := clean_str s = true.

Lemma Cl_app : forall a b, Cl a -> Cl b -> Cl (a ++ b)%string.
Proof.
  intros a b Ha Hb. destruct (clean_neutral a Ha) as (A1 & A2 & A3). destruct (clean_neutral b Hb) as (B1 & B2 & B3).
  apply neutral_clean; now apply neutral_app.
Qed.

Lemma Cl_join : forall sep l, Cl sep -> Forall Cl l -> Cl (join sep l).
Proof.
  intros sep l Hs Hl. induction Hl as [|x r Hx Hr IH]; [reflexivity|].
  cbn [join]. destruct r as [|y r']; [exact Hx|].
  apply Cl_app; [exact Hx | apply Cl_app; [exact Hs | exact IH]].
Qed.

Lemma Cl_spaces : forall n, Cl (spaces n).
Proof. intros n. apply neutral_clean; apply spaces_neutral; reflexivity. Qed.

Lemma Cl_old_str : forall a b, Cl (old_str a b).
Proof. intros. unfold old_str. apply Cl_spaces. Qed.

Lemma Cl_main_prefix : forall tab name, Cl (main_prefix tab name).
Proof. intros. unfold main_prefix. destruct (mem_str name tab); reflexivity. Qed.

Lemma Bal_Cl : forall s, Cl s -> Bal (T s).
Proof. intros. now apply Bal_T. Qed.

(* ---- texts: balance *)
Lemma block_bal : forall i call cr, Forall Bal cr -> Bal (block_text i call cr).
Proof.
  intros i call cr H. unfold block_text. apply Bal_app; [|destruct call; bal].
  destruct cr as [|c0 [|c1 r]].
  - bal.
  - inversion H; subst. bal.
  - bal.
Qed.

Lemma class_prefix_clean : forall ct, Cl (class_prefix ct).
Proof. intros [|[|n]]; reflexivity. Qed.

Lemma dict_set_Forall : forall (P : string * string -> Prop) k v d,
  P (k, v) -> Forall P d -> Forall P (dict_set k v d).
Proof.
  intros P k v d Hp Hd. induction Hd as [|[k' v'] r Hx Hr IH]; cbn [dict_set].
  - constructor; [exact Hp | constructor].
  - destruct (String.eqb k k'); constructor; auto.
Qed.

Lemma constructor_params_Forall : forall (P : string * string -> Prop) fl,
  Forall P fl -> Forall P (constructor_params fl).
Proof.
  intros P fl H. unfold constructor_params.
  assert (G : forall d, Forall P d -> Forall P (fold_left (fun d f => dict_set (fst f) (snd f) d) fl d)).
  { induction H as [|[k v] r Hx Hr IH]; intros d Hd; cbn [fold_left]; [exact Hd|].
    apply IH. apply dict_set_Forall; assumption. }
  apply G. constructor.
Qed.

Definition sup_res_ok (P : segs -> Prop) (sup : option (bool * bool * list segs)) : Prop :=
  match sup with Some (_, _, res) => Forall P res | None => True end.

Lemma super_call_bal : forall sup idt, sup_res_ok Bal sup -> Bal (super_call_text sup idt).
Proof.
  intros [[[bi ha] res]|] idt H; cbn [sup_res_ok super_call_text] in *; [|apply Bal_nil].
  destruct bi; bal.
Qed.

Lemma constructor_bal : forall name fl sup idt,
  Cl name -> Forall (fun p => Cl (fst p) /\ Cl (snd p)) fl -> sup_res_ok Bal sup ->
  Bal (constructor_text name fl sup idt).
Proof.
  intros name fl sup idt Hn Hf Hs. unfold constructor_text. cbv zeta.
  pose proof (super_call_bal sup idt Hs) as Hsc.
  assert (Hp : Cl (join "," (map (fun p => (snd p ++ " " ++ fst p)%string) (constructor_params fl)))).
  { apply Cl_join; [reflexivity|]. apply Forall_map.
    eapply Forall_impl; [|apply constructor_params_Forall; exact Hf].
    intros [k v] [H1 H2]. cbn [fst snd] in *. apply Cl_app; [exact H2 | apply Cl_app; [reflexivity | exact H1]]. }
  assert (Hsep : Cl (nl ++ spaces (idt + 2))) by (apply Cl_app; [reflexivity | apply Cl_spaces]).
  assert (Hfl : Cl ((if nonempty (map (fun f => ("this." ++ fst f ++ " = " ++ fst f)%string) fl)
                     then (nl ++ spaces (idt + 2))%string else "") ++
                    join (nl ++ spaces (idt + 2)) (map (fun f => ("this." ++ fst f ++ " = " ++ fst f)%string) fl))).
  { apply Cl_app.
    - destruct (nonempty _); [exact Hsep | reflexivity].
    - apply Cl_join; [exact Hsep|]. apply Forall_map. eapply Forall_impl; [|exact Hf].
      intros [k v] [H1 H2]. cbn [fst snd] in *.
      apply Cl_app; [reflexivity | apply Cl_app; [exact H1 | apply Cl_app; [reflexivity | exact H1]]]. }
  pose proof (Cl_spaces idt) as Hsp.
  bal.
Qed.

Lemma split_supers_clean : forall ifs sup, Forall (fun t => Cl (type_name t)) sup ->
  Forall Cl (fst (split_supers ifs sup)) /\ Forall Cl (snd (split_supers ifs sup)).
Proof.
  intros ifs sup H. unfold split_supers. cbn [fst snd]. split; apply Forall_map;
    apply Forall_forall; intros t Ht; apply filter_In in Ht; destruct Ht as [Ht _];
    rewrite Forall_forall in H; now apply H.
Qed.

Lemma class_bal : forall name ct fin nf ns nfn cs ifs sup old cr,
  Cl name -> Forall (fun t => Cl (type_name t)) (supers_of nf ns cs) ->
  Forall (fun p => Cl (fst p) /\ Cl (snd p)) (fields_of nf cs) -> sup_res_ok Bal sup -> Forall Bal cr ->
  Bal (class_text name ct fin nf ns nfn cs ifs sup old cr).
Proof.
  intros name ct fin nf ns nfn cs ifs sup old cr Hn Hs Hf Hsup Hcr. unfold class_text. cbv zeta.
  destruct (split_supers_clean ifs _ Hs) as [HS1 HS2].
  pose proof (class_prefix_clean ct) as Hcp.
  pose proof (constructor_bal name (fields_of nf cs) sup (old + 2) Hn Hf Hsup) as Hc.
  assert (J1 : Cl (join ", " (fst (split_supers ifs (supers_of nf ns cs))))) by (apply Cl_join; [reflexivity | exact HS1]).
  assert (J2 : Cl (join ", " (snd (split_supers ifs (supers_of nf ns cs))))) by (apply Cl_join; [reflexivity | exact HS2]).
  pose proof (Cl_spaces (old + 2)) as Hsp.
  assert (Hsep : Cl (nl ++ spaces (old + 2))) by (apply Cl_app; [reflexivity | apply Cl_spaces]).
  bal.
Qed.

Lemma type_param_bal : forall name b, Cl name -> Cl (opt_type_name b) -> Bal (type_param_text name b).
Proof. intros name [b|] H1 H2; cbn [opt_type_name] in H2; unfold type_param_text; bal. Qed.

Lemma var_decl_bal : forall name fin vt inf glob mp idt cr,
  Cl name -> Cl (type_name inf) -> Cl mp -> Cl idt -> Forall Bal cr ->
  Bal (var_decl_text name fin vt inf glob mp idt cr).
Proof. intros. unfold var_decl_text, var_type_text. bal. Qed.

Lemma field_bal : forall name ft fin, Cl name -> Cl (type_name ft) -> Bal (field_text name ft fin).
Proof. intros. unfold field_text. bal. Qed.

Lemma param_bal : forall name pt va hc cr,
  Cl name -> Cl (param_print_type pt va) -> Forall Bal cr -> Bal (param_text name pt va hc cr).
Proof. intros. unfold param_text. bal. Qed.

Lemma func_decl_bal : forall name rt inf bx fin hb np ntp ie cl close cr,
  Cl name -> Cl (type_name inf) -> Cl (type_name bx) -> Cl close -> Forall Bal cr ->
  Bal (func_decl_text name rt inf bx fin hb np ntp ie cl close cr).
Proof.
  intros. unfold func_decl_text, closure_prefix. cbv zeta. destruct cl.
  - destruct rt as [rt|]; [destruct (is_void_ty rt)|]; bal.
  - bal.
Qed.

Lemma lambda_bal : forall sg np hb cr, Cl (type_name sg) -> Forall Bal cr -> Bal (lambda_text sg np hb cr).
Proof. intros. unfold lambda_text. bal. Qed.

Lemma bottom_bal : forall t pfr idt, Cl (opt_type_name t) -> Cl idt -> Bal (bottom_text t pfr idt).
Proof. intros [t|] pfr idt H Hi; cbn [opt_type_name] in H; unfold bottom_text; cbv zeta; bal. Qed.

Lemma integer_cast_bal : forall t, Bal (integer_cast t).
Proof. intros [[] p n| |]; cbn [integer_cast]; bal. Qed.

Lemma real_cast_bal : forall t, Bal (real_cast t).
Proof. intros [[] p n| |]; cbn [real_cast]; bal. Qed.

Lemma integer_bal : forall lit t plain idt, Cl lit -> Cl idt -> Bal (integer_text lit t plain idt).
Proof. intros. unfold integer_text. pose proof (integer_cast_bal t). bal. Qed.

Lemma real_bal : forall lit t plain idt, Cl lit -> Cl idt -> Bal (real_text lit t plain idt).
Proof. intros. unfold real_text. pose proof (real_cast_bal t). bal. Qed.

Lemma char_bal : forall lit idt, Cl lit -> Cl idt -> Bal (char_text lit idt).
Proof. intros. unfold char_text. bal. Qed.

Lemma string_bal : forall lit idt, Cl lit -> Cl idt -> Bal (string_text lit idt).
Proof. intros. unfold string_text. bal. Qed.

Lemma boolean_bal : forall lit idt, Cl lit -> Cl idt -> Bal (boolean_text lit idt).
Proof. intros. unfold boolean_text. bal. Qed.

Lemma array_empty_bal : forall at_ idt, Cl (opt_type_name (ty_arg0 at_)) -> Cl idt -> Bal (array_empty_text at_ idt).
Proof.
  intros. unfold array_empty_text. bal.
Qed.

Lemma array_bal : forall at_ idt cr, Cl (type_name at_) -> Cl idt -> Forall Bal cr -> Bal (array_text at_ idt cr).
Proof. intros. unfold array_text. bal. Qed.

Lemma variable_bal : forall name mp idt, Cl name -> Cl mp -> Cl idt -> Bal (variable_text name mp idt).
Proof. intros. unfold variable_text. bal. Qed.

Lemma binary_op_bal : forall op nt idt cr, Cl (op_str op nt) -> Cl idt -> Forall Bal cr -> Bal (binary_op_text op nt idt cr).
Proof. intros. unfold binary_op_text. bal. Qed.

Lemma conditional_bal : forall idt cr, Cl idt -> Forall Bal cr -> Bal (conditional_text idt cr).
Proof. intros. unfold conditional_text. bal. Qed.

Lemma is_op_clean : forall nt, Cl (is_op nt).
Proof. intros []; reflexivity. Qed.

Lemma is_bal : forall nt rx idt cr, Cl (type_name rx) -> Cl idt -> Forall Bal cr -> Bal (is_text nt rx idt cr).
Proof. intros. unfold is_text. pose proof (is_op_clean nt). bal. Qed.

Lemma new_bal : forall ct idt cr, Cl (new_type_text ct) -> Cl idt -> Forall Bal cr -> Bal (new_text ct idt cr).
Proof. intros. unfold new_text. bal. Qed.

Lemma receiver_bal : forall b cr, Forall Bal cr -> Bal (receiver_text b cr).
Proof. intros. unfold receiver_text. bal. Qed.

Lemma field_access_bal : forall f b idt cr, Cl f -> Cl idt -> Forall Bal cr -> Bal (field_access_text f b idt cr).
Proof. intros. unfold field_access_text. pose proof (receiver_bal b cr). bal. auto. Qed.

Lemma func_ref_bal : forall f sg idt cr, Cl f -> Cl (type_name sg) -> Cl idt -> Forall Bal cr -> Bal (func_ref_text f sg idt cr).
Proof. intros. unfold func_ref_text. bal. Qed.

Lemma func_call_bal : forall f rc hr b mp idt cr, Cl f -> Cl mp -> Cl idt -> Forall Bal cr ->
  Bal (func_call_text f rc hr b mp idt cr).
Proof.
  intros. unfold func_call_text. pose proof (receiver_bal b cr). bal; auto.
  destruct hr; [apply Forall_tl|]; assumption.
Qed.

Lemma assign_bal : forall name mp hr b idt cr, Cl name -> Cl mp -> Cl idt -> Forall Bal cr ->
  Bal (assign_text name mp hr b idt cr).
Proof. intros. unfold assign_text. pose proof (receiver_bal b cr). bal; auto. Qed.

Lemma interfaces_0123_bal : Bal (functional_interfaces [0; 1; 2; 3]).
Proof.
  unfold Bal. repeat split; apply balanced_neutral; vm_compute; reflexivity.
Qed.

Lemma program_bal : forall pkg mc mm cr, Cl pkg -> Forall Bal mc -> Bal mm -> Forall Bal cr ->
  Bal (program_text pkg mc mm [0; 1; 2; 3] cr).
Proof.
  intros pkg mc mm cr Hp Hmc Hmm Hcr. unfold program_text. cbv zeta.
  pose proof interfaces_0123_bal as Hi.
  assert (Hd : Forall Bal (map main_decl (rev mc))).
  { apply Forall_map. apply Forall_rev. eapply Forall_impl; [|exact Hmc].
    intros d Hd. unfold main_decl. bal. }
  assert (Hm : Bal (main_method_decl mm)) by (unfold main_method_decl; bal).
  bal.
Qed.

(* ---- the printer's text is balanced on clean trees *)
Definition Bq (n : pnode) : Prop := forall e, clean n = true -> Bal (pp n e).

Lemma kids_bal : forall cs, Forall Bq cs -> forallb clean cs = true -> forall e,
  Forall Bal (map (fun c => pp c e) cs).
Proof.
  induction 1 as [|c cs Hc Hcs IH]; intros Hcl e; [constructor|].
  cbn [forallb] in Hcl. apply andb_true_iff in Hcl. destruct Hcl as [H1 H2].
  cbn [map]. constructor; [apply Hc; exact H1 | apply IH; exact H2].
Qed.

Lemma block_kids_bal : forall fb cs, Forall Bq cs -> forallb clean cs = true -> forall e,
  Forall Bal (pp_block_children pp fb e cs).
Proof.
  intros fb cs H. induction H as [|c cs Hc Hcs IH]; intros Hcl e; [constructor|].
  cbn [forallb] in Hcl. apply andb_true_iff in Hcl. destruct Hcl as [H1 H2].
  cbn [pp_block_children]. destruct cs as [|c' cs'].
  - constructor; [apply Hc; exact H1 | constructor].
  - constructor; [apply Hc; exact H1 | apply IH; exact H2].
Qed.

Lemma cond_kids_bal : forall cs, Forall Bq cs -> forallb clean cs = true -> forall e,
  Forall Bal (pp_cond_children pp e cs).
Proof.
  intros cs H Hcl e. unfold pp_cond_children.
  destruct cs as [|c0 [|c1 [|c2 rest]]]; try (apply kids_bal; assumption).
  inversion H as [|? ? H0 H']; subst. inversion H' as [|? ? H1 H'']; subst. inversion H'' as [|? ? H2 _]; subst.
  cbn [forallb] in Hcl. apply andb_true_iff in Hcl. destruct Hcl as [C0 Hcl].
  apply andb_true_iff in Hcl. destruct Hcl as [C1 Hcl]. apply andb_true_iff in Hcl. destruct Hcl as [C2 _].
  constructor; [apply H0; exact C0|]. constructor; [apply H1; exact C1|]. constructor; [apply H2; exact C2|].
  constructor.
Qed.

Lemma sup_bal : forall cs, Forall (fun c => Forall Bq (children_of c)) cs -> forallb clean cs = true ->
  forall e nf, sup_res_ok Bal (pp_super_args_at pp e nf cs).
Proof.
  induction 1 as [|c cs Hc Hcs IH]; intros Hcl e nf; [exact I|].
  cbn [forallb] in Hcl. apply andb_true_iff in Hcl. destruct Hcl as [H1 H2].
  cbn [pp_super_args_at]. destruct nf as [|nf]; [|apply IH; exact H2].
  destruct c as [k args]. destruct k; try exact I. cbn [sup_res_ok children_of] in *.
  cbn [clean] in H1. apply andb_true_iff in H1. destruct H1 as [_ H1].
  apply kids_bal; assumption.
Qed.

Lemma In_firstn : forall (A : Type) n (l : list A) x, In x (firstn n l) -> In x l.
Proof. intros A n l x H. rewrite <- (firstn_skipn n l). apply in_or_app. now left. Qed.

Lemma In_skipn : forall (A : Type) n (l : list A) x, In x (skipn n l) -> In x l.
Proof. intros A n l x H. rewrite <- (firstn_skipn n l). apply in_or_app. now right. Qed.

Lemma supers_clean : forall nf ns cs, forallb clean cs = true ->
  Forall (fun t => Cl (type_name t)) (supers_of nf ns cs).
Proof.
  intros nf ns cs H. unfold supers_of. apply Forall_forall. intros t Ht.
  apply in_flat_map in Ht. destruct Ht as [c [Hc Ht]].
  apply In_firstn, In_skipn in Hc. rewrite forallb_forall in H. specialize (H c Hc).
  destruct c as [k args]. cbn [kind_of] in Ht. destruct k; try contradiction.
  destruct Ht as [<-|[]]. cbn [clean] in H. apply andb_true_iff in H. destruct H as [H _].
  unfold clean_kind in H. cbn [kind_strings forallb] in H. apply andb_true_iff in H. now destruct H.
Qed.

Lemma fields_clean : forall nf cs, forallb clean cs = true ->
  Forall (fun p => Cl (fst p) /\ Cl (snd p)) (fields_of nf cs).
Proof.
  intros nf cs H. unfold fields_of. apply Forall_forall. intros p Hp.
  apply in_flat_map in Hp. destruct Hp as [c [Hc Hp]].
  apply In_firstn in Hc. rewrite forallb_forall in H. specialize (H c Hc).
  destruct c as [k args]. cbn [kind_of] in Hp. destruct k; try contradiction.
  destruct Hp as [<-|[]]. cbn [clean] in H. apply andb_true_iff in H. destruct H as [H _].
  unfold clean_kind in H. cbn [kind_strings forallb] in H.
  apply andb_true_iff in H. destruct H as [H1 H]. apply andb_true_iff in H. destruct H as [H2 _].
  split; assumption.
Qed.

Ltac split_clean H :=
  unfold clean_kind in H; cbn [kind_strings forallb] in H;
  repeat match type of H with
         | (_ && _ = true) => let H1 := fresh "Hc" in apply andb_true_iff in H; destruct H as [H1 H]
         end.

Definition Bq_all (n : pnode) : Prop := Bq n /\ Forall Bq (children_of n).

Lemma pp_bal_all : forall n, Bq_all n.
Proof.
  induction n as [k cs IH] using pnode_ind'.
  assert (HK : Forall Bq cs) by (eapply Forall_impl; [|exact IH]; intros c [Hc _]; exact Hc).
  assert (HG : Forall (fun c => Forall Bq (children_of c)) cs)
    by (eapply Forall_impl; [|exact IH]; intros c [_ Hc]; exact Hc).
  split; [|exact HK].
  intros e Hcl. cbn [clean] in Hcl. apply andb_true_iff in Hcl. destruct Hcl as [Hck Hcs].
  pose proof (kids_bal cs HK Hcs) as HB.
  rewrite pp_unfold. unfold pp_node. cbv zeta.
  destruct k; split_clean Hck;
    try match goal with |- context [if Nat.eqb ?x 0 then array_empty_text _ _ else _] => destruct (Nat.eqb x 0) end.
  - apply block_bal. apply block_kids_bal; assumption.
  - apply Bal_T; assumption.
  - apply class_bal; auto using supers_clean, fields_clean.
    destruct (Nat.eqb nsupers 0); [exact I | apply sup_bal; assumption].
  - apply type_param_bal; assumption.
  - apply var_decl_bal; auto using Cl_spaces.
    destruct (negb _); [apply Cl_main_prefix | reflexivity].
  - apply Bal_nth. apply HB.
  - apply field_bal; assumption.
  - apply param_bal; auto.
  - apply func_decl_bal; auto using Cl_old_str.
  - apply lambda_bal; auto.
  - apply bottom_bal; auto using Cl_spaces.
  - apply integer_bal; auto using Cl_spaces.
  - apply real_bal; auto using Cl_spaces.
  - apply char_bal; auto using Cl_spaces.
  - apply string_bal; auto using Cl_spaces.
  - apply boolean_bal; auto using Cl_spaces.
  - apply array_empty_bal; auto using Cl_spaces.
  - apply array_bal; auto using Cl_spaces.
  - apply variable_bal; auto using Cl_spaces, Cl_main_prefix.
  - apply binary_op_bal; auto using Cl_old_str.
  - apply conditional_bal; [apply Cl_old_str | apply cond_kids_bal; assumption].
  - apply is_bal; auto using Cl_old_str.
  - apply new_bal; auto using Cl_spaces.
  - apply field_access_bal; auto using Cl_spaces.
  - apply func_ref_bal; auto using Cl_spaces.
  - apply func_call_bal; auto using Cl_spaces.
    destruct (str_empty _); apply Cl_main_prefix.
  - apply assign_bal; auto using Cl_old_str, Cl_main_prefix.
Qed.

(* ---- texts: marked pieces stay free of white space *)
Definition Wf (s : string) : Prop := ws_free s = true.

Lemma block_lex : forall i call cr, Forall Lex cr -> Lex (block_text i call cr).
Proof.
  intros i call cr H. unfold block_text. apply Lex_app; [|destruct call; lexok].
  destruct cr as [|c0 [|c1 r]].
  - lexok.
  - inversion H; subst. lexok.
  - lexok.
Qed.

Lemma super_call_lex : forall sup idt, sup_res_ok Lex sup -> Lex (super_call_text sup idt).
Proof.
  intros [[[bi ha] res]|] idt H; cbn [sup_res_ok super_call_text] in *; [|apply Lex_nil].
  destruct bi; lexok.
Qed.

Lemma constructor_lex : forall name fl sup idt, sup_res_ok Lex sup -> Lex (constructor_text name fl sup idt).
Proof. intros. unfold constructor_text. cbv zeta. pose proof (super_call_lex sup idt H). lexok. Qed.

Lemma class_lex : forall name ct fin nf ns nfn cs ifs sup old cr,
  Wf name -> sup_res_ok Lex sup -> Forall Lex cr ->
  Lex (class_text name ct fin nf ns nfn cs ifs sup old cr).
Proof.
  intros. unfold class_text. cbv zeta.
  pose proof (constructor_lex name (fields_of nf cs) sup (old + 2) H0). lexok.
Qed.

Lemma type_param_lex : forall name b, Wf name -> Lex (type_param_text name b).
Proof. intros. unfold type_param_text. lexok. Qed.

Lemma var_decl_lex : forall name fin vt inf glob mp idt cr, Wf name -> Forall Lex cr ->
  Lex (var_decl_text name fin vt inf glob mp idt cr).
Proof. intros. unfold var_decl_text, var_type_text. lexok. Qed.

Lemma field_lex : forall name ft fin, Wf name -> Lex (field_text name ft fin).
Proof. intros. unfold field_text. lexok. Qed.

Lemma param_lex : forall name pt va hc cr, Wf name -> Forall Lex cr -> Lex (param_text name pt va hc cr).
Proof. intros. unfold param_text. lexok. Qed.

Lemma func_decl_lex : forall name rt inf bx fin hb np ntp ie cl close cr, Wf name -> Forall Lex cr ->
  Lex (func_decl_text name rt inf bx fin hb np ntp ie cl close cr).
Proof.
  intros. unfold func_decl_text, closure_prefix. cbv zeta. destruct cl.
  - destruct rt as [rt|]; [destruct (is_void_ty rt)|]; lexok.
  - lexok.
Qed.

Lemma lambda_lex : forall sg np hb cr, Forall Lex cr -> Lex (lambda_text sg np hb cr).
Proof. intros. unfold lambda_text. lexok. Qed.

Lemma bottom_lex : forall t pfr idt, Lex (bottom_text t pfr idt).
Proof. intros [t|] pfr idt; unfold bottom_text; cbv zeta; lexok. Qed.

Lemma integer_cast_lex : forall t, Lex (integer_cast t).
Proof. intros [[] p n| |]; cbn [integer_cast]; lexok. Qed.

Lemma real_cast_lex : forall t, Lex (real_cast t).
Proof. intros [[] p n| |]; cbn [real_cast]; lexok. Qed.

Lemma integer_lex : forall lit t plain idt, Wf lit -> Lex (integer_text lit t plain idt).
Proof. intros. unfold integer_text. pose proof (integer_cast_lex t). lexok. Qed.

Lemma real_lex : forall lit t plain idt, Wf lit -> Lex (real_text lit t plain idt).
Proof. intros. unfold real_text. pose proof (real_cast_lex t). lexok. Qed.

Lemma char_lex : forall lit idt, Wf lit -> Lex (char_text lit idt).
Proof. intros. unfold char_text. lexok. Qed.

Lemma string_lex : forall lit idt, Wf lit -> Lex (string_text lit idt).
Proof. intros. unfold string_text. lexok. Qed.

Lemma boolean_lex : forall lit idt, Wf lit -> Lex (boolean_text lit idt).
Proof. intros. unfold boolean_text. lexok. Qed.

Lemma array_empty_lex : forall at_ idt, Lex (array_empty_text at_ idt).
Proof. intros. unfold array_empty_text. lexok. Qed.

Lemma array_lex : forall at_ idt cr, Forall Lex cr -> Lex (array_text at_ idt cr).
Proof. intros. unfold array_text. lexok. Qed.

Lemma variable_lex : forall name mp idt, Lex (variable_text name mp idt).
Proof. intros. unfold variable_text. lexok. Qed.

Lemma binary_op_lex : forall op nt idt cr, Wf (op_str op nt) -> Forall Lex cr -> Lex (binary_op_text op nt idt cr).
Proof. intros. unfold binary_op_text. lexok. Qed.

Lemma conditional_lex : forall idt cr, Forall Lex cr -> Lex (conditional_text idt cr).
Proof. intros. unfold conditional_text. lexok. Qed.

Lemma is_lex : forall nt rx idt cr, Forall Lex cr -> Lex (is_text nt rx idt cr).
Proof. intros. unfold is_text. lexok. destruct nt; reflexivity. Qed.

Lemma new_lex : forall ct idt cr, Forall Lex cr -> Lex (new_text ct idt cr).
Proof. intros. unfold new_text. lexok. Qed.

Lemma receiver_lex : forall b cr, Forall Lex cr -> Lex (receiver_text b cr).
Proof. intros. unfold receiver_text. lexok. Qed.

Lemma field_access_lex : forall f b idt cr, Forall Lex cr -> Lex (field_access_text f b idt cr).
Proof. intros. unfold field_access_text. pose proof (receiver_lex b cr). lexok. auto. Qed.

Lemma func_ref_lex : forall f sg idt cr, Forall Lex cr -> Lex (func_ref_text f sg idt cr).
Proof. intros. unfold func_ref_text. lexok. Qed.

Lemma func_call_lex : forall f rc hr b mp idt cr, Forall Lex cr -> Lex (func_call_text f rc hr b mp idt cr).
Proof.
  intros. unfold func_call_text. pose proof (receiver_lex b cr). lexok; auto.
  destruct hr; [apply Forall_tl|]; assumption.
Qed.

Lemma assign_lex : forall name mp hr b idt cr, Forall Lex cr -> Lex (assign_text name mp hr b idt cr).
Proof. intros. unfold assign_text. pose proof (receiver_lex b cr). lexok; auto. Qed.

(* ---- texts: marks *)
Lemma perm_rot4 : forall (A : Type) (a b c d : list A),
  Permutation (a ++ b ++ c ++ d) (b ++ c ++ d ++ a).
Proof.
  intros. eapply perm_trans; [apply (Permutation_app_comm a (b ++ c ++ d))|].
  rewrite <- !app_assoc. apply Permutation_refl.
Qed.

Lemma marks_if_segs : forall tp res X,
  marks X = marks tp ->
  marks (if negb (segs_empty tp) then res ++ X else res) = marks res ++ marks tp.
Proof.
  intros tp res X H. destruct (segs_empty tp) eqn:E; cbn [negb].
  - rewrite (segs_empty_marks tp E). now rewrite app_nil_r.
  - now rewrite marks_app, H.
Qed.

Lemma marks_if_segs0 : forall (tp X : list seg),
  marks X = marks tp ->
  marks (if negb (segs_empty tp) then X else @nil seg) = marks tp.
Proof.
  intros tp X H. destruct (segs_empty tp) eqn:E; cbn [negb]; [|exact H].
  now rewrite (segs_empty_marks tp E).
Qed.

Lemma marks_if_plain : forall (b : bool) res X, marks X = [] -> marks (if b then res ++ X else res) = marks res.
Proof. intros [] res X H; [rewrite marks_app, H; apply app_nil_r | reflexivity]. Qed.

Lemma block_marks : forall i call cr, marks (block_text i call cr) = flat_map marks cr.
Proof.
  intros i call cr. unfold block_text. rewrite marks_app.
  destruct call; [rewrite marks_paren|]; rewrite marks_nil, app_nil_r; destruct cr as [|c0 [|c1 r]];
    try reflexivity; mk; try (apply marks_joins; reflexivity); cbn; now rewrite app_nil_r.
Qed.

Definition sup_marks (sup : option (bool * bool * list segs)) : list mark :=
  match sup with Some (false, true, res) => flat_map marks res | _ => [] end.

Lemma super_call_marks : forall sup idt, sup_res_ok Lex sup -> marks (super_call_text sup idt) = sup_marks sup.
Proof.
  intros [[[bi ha] res]|] idt H; cbn [sup_res_ok super_call_text sup_marks] in *; [|reflexivity].
  destruct bi; [reflexivity|]. destruct ha; mk; [|reflexivity].
  rewrite marks_collapse by (apply Lex_joins; [apply Lex_T | exact H]).
  apply marks_joins. reflexivity.
Qed.

Lemma constructor_marks : forall name fl sup idt, sup_res_ok Lex sup ->
  marks (constructor_text name fl sup idt) = sup_marks sup.
Proof.
  intros. unfold constructor_text. cbv zeta. mk. rewrite super_call_marks by assumption. mk. reflexivity.
Qed.

Lemma nonempty_false : forall (A : Type) (l : list A), nonempty l = false -> l = [].
Proof. intros A [|x l] H; [reflexivity | discriminate]. Qed.

Lemma class_marks : forall name ct fin nf ns nfn cs ifs sup old cr,
  sup_res_ok Lex sup ->
  Permutation (marks (class_text name ct fin nf ns nfn cs ifs sup old cr))
    (mk_mark (MDecl DClass) name ++ flat_map marks (firstn nf cr) ++
     (if nonempty (fst (split_supers ifs (supers_of nf ns cs))) || nonempty (firstn nf cr)
      then sup_marks sup else []) ++
     flat_map marks (firstn nfn (skipn (nf + ns) cr)) ++ flat_map marks (skipn (nf + ns + nfn) cr)).
Proof.
  intros name ct fin nf ns nfn cs ifs sup old cr Hsup. unfold class_text. cbv zeta.
  set (F := firstn nf cr). set (Fn := firstn nfn (skipn (nf + ns) cr)). set (TP := skipn (nf + ns + nfn) cr).
  set (SC := fst (split_supers ifs (supers_of nf ns cs))). set (IF := snd (split_supers ifs (supers_of nf ns cs))).
  rewrite !marks_app, marks_brace.
  rewrite (marks_if_plain (nonempty IF)) by reflexivity.
  rewrite (marks_if_plain (nonempty SC)) by reflexivity.
  rewrite marks_if_segs by (mk; reflexivity).
  rewrite (marks_joins (T ", ") TP) by reflexivity. mk.
  assert (HC : marks (constructor_text name (fields_of nf cs) sup (old + 2)) = sup_marks sup)
    by (apply constructor_marks; exact Hsup).
  destruct (nonempty F) eqn:EF; destruct (nonempty Fn) eqn:EFn; destruct (nonempty SC) eqn:ESC;
    cbn [orb]; mk; rewrite ?HC; mk;
    rewrite ?(marks_joins (T (nl ++ spaces (old + 2))%string) F) by reflexivity;
    rewrite ?(marks_joins (T (nl ++ nl)%string) Fn) by reflexivity;
    try rewrite (nonempty_false _ F EF); try rewrite (nonempty_false _ Fn EFn); cbn [flat_map]; mk;
    rewrite <- ?app_assoc; apply Permutation_app_head.
  all: try apply perm_rot4.
  all: try apply Permutation_refl.
  all: eapply perm_trans; [apply Permutation_app_comm | rewrite <- ?app_assoc; apply Permutation_refl].
Qed.

Lemma type_param_marks : forall name b, marks (type_param_text name b) = mk_mark (MDecl DTypeParam) name.
Proof. intros name [b|]; unfold type_param_text; mk; reflexivity. Qed.

Lemma var_type_marks : forall vt inf glob, marks (var_type_text vt inf glob) = [].
Proof. intros [t|] inf []; reflexivity. Qed.

Lemma var_decl_marks : forall name fin vt inf glob mp idt (cr : list segs), List.length cr = 1 -> Forall Lex cr ->
  marks (var_decl_text name fin vt inf glob mp idt cr) = mk_mark (MDecl DVar) name ++ flat_map marks cr.
Proof.
  intros name fin vt inf glob mp idt [|x [|y r]] H HL; try discriminate. unfold var_decl_text, nth_seg. cbn [nth flat_map].
  mk. rewrite var_type_marks, marks_lstrip by (inversion HL; assumption). mk. reflexivity.
Qed.

Lemma call_argument_marks : forall (cr : list segs), List.length cr = 1 -> marks (nth_seg 0 cr) = flat_map marks cr.
Proof. intros [|x [|y r]] H; try discriminate. unfold nth_seg. cbn. now rewrite app_nil_r. Qed.

Lemma field_marks : forall name ft fin, marks (field_text name ft fin) = mk_mark (MDecl DField) name.
Proof. intros. unfold field_text. mk. reflexivity. Qed.

Lemma param_marks : forall name pt va (cr : list segs), List.length cr <= 1 ->
  marks (param_text name pt va (nonempty cr) cr) = mk_mark (MDecl DParam) name ++ flat_map marks cr.
Proof.
  intros name pt va [|x [|y r]] H; cbn in H; try lia; unfold param_text, nth_seg; cbn [nonempty nth flat_map];
    mk; reflexivity.
Qed.

Lemma body_marks : forall (hb : bool) n (cr : list segs),
  List.length cr = n + (if hb then 1 else 0) ->
  flat_map marks (skipn n cr) = marks (if hb then last_seg cr else []).
Proof.
  intros hb n cr H. destruct hb.
  - rewrite (skipn_last _ n cr [] H). cbn. now rewrite app_nil_r.
  - rewrite skipn_all2 by lia. reflexivity.
Qed.

Lemma closure_prefix_marks : forall rt bx, marks (closure_prefix rt bx) = [].
Proof. intros [rt|] bx; unfold closure_prefix; [destruct (is_void_ty rt)|]; reflexivity. Qed.

(* a closure prints the parameters and the body, not the type parameters: there must be none *)
Lemma func_decl_marks : forall name rt inf bx fin (hb : bool) np ntp ie (cl : bool) close (cr : list segs),
  List.length cr = np + ntp + (if hb then 1 else 0) -> (if cl then ntp = 0 else True) ->
  Permutation (marks (func_decl_text name rt inf bx fin hb np ntp ie cl close cr))
              (mk_mark (MDecl DFunc) name ++ flat_map marks cr).
Proof.
  intros name rt inf bx fin hb np ntp ie cl close cr H Hcl. unfold func_decl_text. cbv zeta.
  set (P := firstn np cr). set (TP := firstn ntp (skipn np cr)).
  set (B := if hb then last_seg cr else []).
  assert (Hcr : flat_map marks cr = flat_map marks P ++ flat_map marks TP ++ marks B).
  { unfold P, TP, B.
    rewrite (flat_map_firstn_skipn _ _ marks np cr). f_equal.
    rewrite (flat_map_firstn_skipn _ _ marks ntp (skipn np cr)). f_equal.
    rewrite skipn_skipn, (Nat.add_comm ntp np). now apply body_marks. }
  rewrite Hcr. destruct cl.
  - subst ntp. unfold TP. cbn [firstn flat_map]. mk. rewrite closure_prefix_marks.
    rewrite (marks_joins (T ", ") P) by reflexivity. mk. reflexivity.
  - assert (HB : marks (if negb (segs_empty B) then if ie then brace (T nl ++ B ++ T nl ++ T close) else B else []) = marks B).
    { apply marks_if_segs0. destruct ie; mk; reflexivity. }
    mk. rewrite HB. rewrite marks_if_segs0 by (mk; reflexivity).
    rewrite (marks_joins (T ", ") TP) by reflexivity.
    rewrite (marks_joins (T ", ") P) by reflexivity.
    rewrite <- ?app_assoc.
    (* TP ++ name ++ P ++ B ~ name ++ P ++ TP ++ B *)
    eapply perm_trans; [apply Permutation_app_comm|]. rewrite <- !app_assoc.
    apply Permutation_app_head. apply Permutation_app_head. apply Permutation_app_comm.
Qed.

Lemma lambda_marks : forall sg np (hb : bool) (cr : list segs),
  List.length cr = np + (if hb then 1 else 0) ->
  marks (lambda_text sg np hb cr) = flat_map marks cr.
Proof.
  intros sg np hb cr H. unfold lambda_text. cbv zeta.
  rewrite (flat_map_firstn_skipn _ _ marks np cr), (body_marks hb np cr H).
  mk. rewrite (marks_joins (T ", ") (firstn np cr)) by reflexivity. reflexivity.
Qed.

Lemma bottom_marks : forall t pfr idt, marks (bottom_text t pfr idt) = [].
Proof. intros [t|] [] idt; reflexivity. Qed.

Lemma integer_cast_marks : forall t, marks (integer_cast t) = [].
Proof. intros [[] p n| |]; reflexivity. Qed.

Lemma real_cast_marks : forall t, marks (real_cast t) = [].
Proof. intros [[] p n| |]; reflexivity. Qed.

Lemma integer_marks : forall lit t plain idt, marks (integer_text lit t plain idt) = mk_mark MLit lit.
Proof. intros. unfold integer_text. destruct plain; mk; rewrite ?integer_cast_marks; reflexivity. Qed.

Lemma real_marks : forall lit t plain idt, marks (real_text lit t plain idt) = mk_mark MLit lit.
Proof. intros. unfold real_text. destruct plain; mk; rewrite ?real_cast_marks; reflexivity. Qed.

Lemma char_marks : forall lit idt, marks (char_text lit idt) = mk_mark MLit lit.
Proof. intros. unfold char_text. mk. reflexivity. Qed.
Lemma string_marks : forall lit idt, marks (string_text lit idt) = mk_mark MLit lit.
Proof. intros. unfold string_text. mk. reflexivity. Qed.
Lemma boolean_marks : forall lit idt, marks (boolean_text lit idt) = mk_mark MLit lit.
Proof. intros. unfold boolean_text. mk. reflexivity. Qed.

Lemma array_empty_marks : forall at_ idt, marks (array_empty_text at_ idt) = [].
Proof. reflexivity. Qed.

Lemma array_marks : forall at_ idt cr, marks (array_text at_ idt cr) = flat_map marks cr.
Proof. intros. unfold array_text. mk. apply marks_joins. reflexivity. Qed.

Lemma variable_marks : forall name mp idt, marks (variable_text name mp idt) = [].
Proof. reflexivity. Qed.

Lemma binary_op_marks : forall op nt idt (cr : list segs), List.length cr = 2 ->
  Permutation (marks (binary_op_text op nt idt cr)) (mk_mark MOp (op_str op nt) ++ flat_map marks cr).
Proof.
  intros op nt idt [|x [|y [|z r]]] H; try discriminate. unfold binary_op_text, nth_seg. cbn [nth flat_map].
  mk. rewrite !app_assoc. apply Permutation_app_tail. apply Permutation_app_comm.
Qed.

Lemma conditional_marks : forall idt (cr : list segs), List.length cr = 3 -> Forall Lex cr ->
  marks (conditional_text idt cr) = flat_map marks cr.
Proof.
  intros idt [|x [|y [|z [|w r]]]] H HL; try discriminate.
  unfold conditional_text, nth_seg. cbn [nth flat_map]. mk.
  rewrite marks_lstrip by (inversion HL; assumption). reflexivity.
Qed.

Lemma is_marks : forall nt rx idt (cr : list segs), List.length cr = 1 ->
  Permutation (marks (is_text nt rx idt cr)) (mk_mark MOp (is_op nt) ++ flat_map marks cr).
Proof.
  intros nt rx idt [|x [|y r]] H; try discriminate. unfold is_text, nth_seg. cbn [nth flat_map].
  mk. apply Permutation_app_comm.
Qed.

Lemma new_marks : forall ct idt (cr : list segs), marks (new_text ct idt cr) = flat_map marks cr.
Proof. intros. unfold new_text. mk. apply marks_joins. reflexivity. Qed.

Lemma receiver_marks : forall b cr, marks (receiver_text b cr) = marks (nth_seg 0 cr).
Proof. intros. unfold receiver_text. destruct b; mk; reflexivity. Qed.
#[local] Hint Rewrite receiver_marks : marks.

Lemma field_access_marks : forall f b idt (cr : list segs), List.length cr = 1 ->
  marks (field_access_text f b idt cr) = flat_map marks cr.
Proof.
  intros f b idt [|x [|y r]] H; try discriminate. unfold field_access_text. mk.
  unfold nth_seg. cbn. now rewrite app_nil_r.
Qed.

Lemma func_ref_marks : forall f sg idt (cr : list segs), List.length cr <= 1 ->
  marks (func_ref_text f sg idt cr) = flat_map marks cr.
Proof.
  intros f sg idt [|x [|y r]] H; cbn in H; try lia; unfold func_ref_text, nth_seg; cbn [nonempty nth flat_map];
    mk; reflexivity.
Qed.

(* a receiver whose text is empty is dropped together with the dot: it has no marks *)
Lemma receiver_part_marks : forall (b : bool) (x : segs) cr0,
  marks (if negb (segs_empty x) then receiver_text b (x :: cr0) ++ T "." else []) = marks x.
Proof.
  intros b x cr0. destruct (segs_empty x) eqn:E; cbn [negb].
  - now rewrite (segs_empty_marks x E).
  - mk. reflexivity.
Qed.

Lemma func_call_marks : forall f rc (hr : bool) b mp idt (cr : list segs), (if hr then 1 <= List.length cr else True) ->
  marks (func_call_text f rc hr b mp idt cr) = flat_map marks cr.
Proof.
  intros f rc hr b mp idt cr H. unfold func_call_text. cbv zeta. destruct hr.
  - destruct cr as [|x r]; [cbn in H; lia|]. change (nth_seg 0 (x :: r)) with x. cbn [tl flat_map].
    mk. rewrite receiver_part_marks. rewrite (marks_joins (T ", ") r) by reflexivity. reflexivity.
  - mk. apply marks_joins. reflexivity.
Qed.

Lemma assign_marks : forall name mp (hr : bool) b idt (cr : list segs), List.length cr = (if hr then 2 else 1) ->
  marks (assign_text name mp hr b idt cr) = flat_map marks cr.
Proof.
  intros name mp hr b idt cr H. unfold assign_text. cbv zeta. destruct hr.
  - destruct cr as [|x [|y [|z r]]]; try discriminate. change (nth_seg 0 [x; y]) with x. change (nth_seg 1 [x; y]) with y.
    cbn [flat_map]. mk. rewrite receiver_part_marks. reflexivity.
  - destruct cr as [|x [|y r]]; try discriminate. mk. unfold nth_seg. cbn. now rewrite app_nil_r.
Qed.

(* ---- the invariant of the printer: marks = inventory, marked pieces free of white space *)

(* a super instantiation prints its type only; its arguments are printed by the class *)
Definition inv' (n : pnode) : list mark :=
  if is_super_kind (kind_of n) then [] else inventory n.

Definition Mq (n : pnode) : Prop :=
  forall e, wfg (ifaces (e_gctx e)) (e_parent e) n = true -> lex n = true ->
  Permutation (marks (pp n e)) (inv' n) /\ Lex (pp n e).

(* texts of children, each printed in some environment with the given parent and context *)
Definition texts_of (ifs : list string) (par : option pkind) (cs : list pnode) (rs : list segs) : Prop :=
  Forall2 (fun c r => exists e, e_parent e = par /\ ifaces (e_gctx e) = ifs /\ r = pp c e) cs rs.

Definition Rel (c : pnode) (r : segs) : Prop := Permutation (marks r) (inv' c) /\ Lex r.

Lemma texts_rel : forall ifs par cs rs, texts_of ifs par cs rs -> Forall Mq cs ->
  forallb (wfg ifs par) cs = true -> forallb lex cs = true -> Forall2 Rel cs rs.
Proof.
  intros ifs par cs rs H. induction H as [|c r cs rs Hcr Hrest IH]; intros HM Hw Hl; [constructor|].
  destruct Hcr as (e & E1 & E2 & Er). subst r.
  pose proof (Forall_inv HM) as Hc. pose proof (Forall_inv_tail HM) as HM'.
  cbn [forallb] in Hw, Hl. apply andb_true_iff in Hw. destruct Hw as [W1 W2].
  apply andb_true_iff in Hl. destruct Hl as [L1 L2].
  constructor; [|apply IH; assumption].
  apply Hc; [rewrite E1, E2; exact W1 | exact L1].
Qed.

Lemma texts_map : forall ifs par cs e, e_parent e = par -> ifaces (e_gctx e) = ifs ->
  texts_of ifs par cs (map (fun c => pp c e) cs).
Proof.
  intros ifs par cs e H1 H2. induction cs as [|c cs IH]; [constructor|].
  cbn [map]. constructor; [exists e; auto | exact IH].
Qed.

Lemma texts_block : forall ifs par fb cs e, e_parent e = par -> ifaces (e_gctx e) = ifs ->
  texts_of ifs par cs (pp_block_children pp fb e cs).
Proof.
  intros ifs par fb cs e H1 H2. induction cs as [|c cs IH]; [constructor|].
  cbn [pp_block_children]. destruct cs as [|c' cs'].
  - constructor; [|constructor]. destruct (fb && negb (e_unit e)); [exists (set_e_cast false e) | exists e]; auto.
  - constructor; [exists e; auto | exact IH].
Qed.

Lemma texts_cond : forall ifs par cs e, e_parent e = par -> ifaces (e_gctx e) = ifs -> List.length cs = 3 ->
  texts_of ifs par cs (pp_cond_children pp e cs).
Proof.
  intros ifs par cs e H1 H2 HL. destruct cs as [|c0 [|c1 [|c2 [|c3 r]]]]; try discriminate.
  unfold pp_cond_children. repeat constructor.
  - exists e; auto.
  - exists (set_e_ns ("true_block" :: e_ns e) e); auto.
  - exists (set_e_ns ("false_block" :: e_ns e) e); auto.
Qed.

Lemma rel_perm : forall cs rs, Forall2 Rel cs rs -> Permutation (flat_map marks rs) (flat_map inv' cs).
Proof.
  induction 1 as [|c r cs rs [Hp _] Hrest IH]; [constructor|].
  cbn [flat_map]. now apply Permutation_app.
Qed.

Lemma rel_lex : forall cs rs, Forall2 Rel cs rs -> Forall Lex rs.
Proof. induction 1 as [|c r cs rs [_ Hl] Hrest IH]; constructor; assumption. Qed.

Lemma rel_length : forall cs rs, Forall2 Rel cs rs -> List.length rs = List.length cs.
Proof. induction 1; cbn; [reflexivity | now f_equal]. Qed.

Lemma Forall2_firstn : forall (A B : Type) (R : A -> B -> Prop) n l l',
  Forall2 R l l' -> Forall2 R (firstn n l) (firstn n l').
Proof. intros A B R n l l' H. revert n. induction H; intros [|n]; cbn; constructor; auto. Qed.

Lemma Forall2_skipn : forall (A B : Type) (R : A -> B -> Prop) n l l',
  Forall2 R l l' -> Forall2 R (skipn n l) (skipn n l').
Proof. intros A B R n l l' H. revert n. induction H; intros [|n]; cbn; try constructor; auto. Qed.

(* super instantiations occur only below class declarations *)
Lemma no_super_kids : forall ifs par cs, forallb (wfg ifs par) cs = true -> opt_kind is_class_kind par = false ->
  flat_map inv' cs = flat_map inventory cs.
Proof.
  intros ifs par cs H Hp. induction cs as [|c cs IH]; [reflexivity|].
  cbn [forallb] in H. apply andb_true_iff in H. destruct H as [H1 H2].
  cbn [flat_map]. rewrite (IH H2). f_equal.
  destruct c as [k args]. unfold inv'. cbn [kind_of]. destruct k; try reflexivity.
  cbn [wfg arity_ok] in H1. apply andb_true_iff in H1. destruct H1 as [H1 _]. congruence.
Qed.

Lemma no_super_inv : forall cs, forallb (fun c => negb (is_super_kind (kind_of c))) cs = true ->
  flat_map inv' cs = flat_map inventory cs.
Proof.
  induction cs as [|c cs IH]; intros H; [reflexivity|].
  cbn [forallb] in H. apply andb_true_iff in H. destruct H as [H1 H2].
  cbn [flat_map]. rewrite (IH H2). f_equal. unfold inv'. apply negb_true_iff in H1. now rewrite H1.
Qed.

Lemma pp_super_args_skipn : forall rec e nf cs,
  pp_super_args_at rec e nf cs = pp_super_args_at rec e 0 (skipn nf cs).
Proof.
  intros rec e nf. induction nf as [|nf IH]; intros cs; [reflexivity|].
  destruct cs as [|c cs]; [reflexivity|]. cbn [pp_super_args_at skipn]. apply IH.
Qed.

Lemma supers_inventory_nil : forall cs,
  forallb (fun c => is_super_kind (kind_of c)) cs = true ->
  forallb (fun c => negb (nonempty (children_of c))) cs = true -> flat_map inventory cs = [].
Proof.
  induction cs as [|c cs IH]; intros H1 H2; [reflexivity|].
  cbn [forallb] in H1, H2. apply andb_true_iff in H1. destruct H1 as [A1 A2].
  apply andb_true_iff in H2. destruct H2 as [B1 B2].
  cbn [flat_map]. rewrite (IH A2 B2), app_nil_r.
  destruct c as [k args]. cbn [kind_of children_of] in *. destruct k; try discriminate.
  destruct args; [reflexivity | discriminate].
Qed.

Ltac arith_tac :=
  repeat match goal with
         | H : Nat.eqb _ _ = true |- _ => apply Nat.eqb_eq in H
         | H : Nat.leb _ _ = true |- _ => apply Nat.leb_le in H
         | H : Nat.ltb _ _ = true |- _ => apply Nat.ltb_lt in H
         | H : (_ && _) = true |- _ => apply andb_true_iff in H; destruct H
         end;
  try lia.

Definition Mq_all (n : pnode) : Prop := Mq n /\ Forall Mq (children_of n).

Lemma perm_if_nil : forall (b : bool), Permutation (if b then [] else []) (@nil mark).
Proof. intros []; apply perm_nil. Qed.

(* the superclass part of a class: what the generated constructor prints of the arguments *)
Lemma class_supers : forall ifs e1 nf ns cs (F : list segs),
  Forall (fun c => Forall Mq (children_of c)) cs ->
  ifaces (e_gctx e1) = ifs ->
  forallb (fun c => is_super_kind (kind_of c)) (firstn ns (skipn nf cs)) = true ->
  super_args_ok ifs nf ns cs = true ->
  forallb (fun c => forallb (wfg ifs None) (children_of c) && forallb lex (children_of c)) (firstn ns (skipn nf cs)) = true ->
  (0 < nf -> nonempty F = true) ->
  let sup := if Nat.eqb ns 0 then None else pp_super_args_at pp e1 nf cs in
  sup_res_ok Lex sup /\
  Permutation (if nonempty (fst (split_supers ifs (supers_of nf ns cs))) || nonempty F then sup_marks sup else [])
              (flat_map inventory (firstn ns (skipn nf cs))).
Proof.
  intros ifs e1 nf ns cs F HG Hifs Hsk Hok Hwl HF. cbv zeta.
  destruct (Nat.eqb ns 0) eqn:Ens.
  - apply Nat.eqb_eq in Ens. subst ns. cbn [firstn flat_map sup_res_ok sup_marks].
    split; [exact I|]. apply perm_if_nil.
  - rewrite pp_super_args_skipn. unfold super_args_ok in Hok.
    assert (HGs : Forall (fun c => Forall Mq (children_of c)) (firstn ns (skipn nf cs)))
      by (apply Forall_firstn, Forall_skipn; exact HG).
    destruct ns as [|ns']; [discriminate|].
    destruct (skipn nf cs) as [|first rest] eqn:Esk.
    + cbn [firstn pp_super_args_at flat_map sup_res_ok sup_marks]. split; [exact I|]. apply perm_if_nil.
    + cbn [firstn] in *. cbn [forallb] in Hsk, Hwl.
      apply andb_true_iff in Hsk. destruct Hsk as [Hs1 Hs2].
      apply andb_true_iff in Hwl. destruct Hwl as [Hw1 _].
      apply andb_true_iff in Hw1. destruct Hw1 as [Hwa Hla].
      apply andb_true_iff in Hok. destruct Hok as [Hothers Hfirst].
      pose proof (Forall_inv HGs) as HGf.
      destruct first as [k args]. cbn [kind_of children_of] in *. destruct k; try discriminate.
      cbn [pp_super_args_at flat_map inventory own_marks app].
      rewrite (supers_inventory_nil _ Hs2 Hothers), app_nil_r.
      assert (HR : Forall2 Rel args (map (fun a => pp a (nested_env e1)) args)).
      { eapply texts_rel; [apply (texts_map ifs None) | exact HGf | exact Hwa | exact Hla];
          [reflexivity | exact Hifs]. }
      cbn [sup_res_ok sup_marks]. split; [exact (rel_lex _ _ HR)|].
      destruct args as [|a0 args'].
      * cbn [nonempty map flat_map]. destruct is_builtin; apply perm_if_nil.
      * cbn [nonempty negb orb] in Hfirst. apply andb_true_iff in Hfirst. destruct Hfirst as [Hbi Hgen].
        apply negb_true_iff in Hbi. subst is_builtin.
        assert (Hc : nonempty (fst (split_supers ifs (supers_of nf (S ns') cs))) || nonempty F = true).
        { apply orb_true_iff in Hgen. destruct Hgen as [Hnf | Hsc].
          - apply Nat.ltb_lt in Hnf. rewrite (HF Hnf). apply orb_true_r.
          - rewrite Hsc. reflexivity. }
        rewrite Hc. cbn [nonempty].
        rewrite <- (no_super_kids ifs None (a0 :: args') Hwa eq_refl). exact (rel_perm _ _ HR).
Qed.

Ltac kids_rel ifs k cs HK Hwfs Hlcs :=
  match goal with
  | |- context [map (fun c => pp c ?E) cs] =>
      let HR := fresh "HR" in
      assert (HR : Forall2 Rel cs (map (fun c => pp c E) cs))
        by (eapply texts_rel; [apply (texts_map ifs (kid_parent k)); reflexivity | exact HK | exact Hwfs | exact Hlcs]);
      let HP := fresh "HP" in let HL := fresh "HL" in let HN := fresh "HN" in
      pose proof (rel_perm _ _ HR) as HP; pose proof (rel_lex _ _ HR) as HL; pose proof (rel_length _ _ HR) as HN;
      set (cr := map (fun c => pp c E) cs) in *
  end.

Lemma ws_free_wf : forall s, ws_free s = true -> Wf s.
Proof. intros s H. exact H. Qed.

Lemma pp_marks_all : forall n, Mq_all n.
Proof.
  induction n as [k cs IH] using pnode_ind'.
  assert (HK : Forall Mq cs) by (eapply Forall_impl; [|exact IH]; intros c [Hc _]; exact Hc).
  assert (HG : Forall (fun c => Forall Mq (children_of c)) cs)
    by (eapply Forall_impl; [|exact IH]; intros c [_ Hc]; exact Hc).
  split; [|exact HK].
  intros e Hwf Hlex.
  cbn [wfg] in Hwf. apply andb_true_iff in Hwf. destruct Hwf as [Har Hwfs].
  cbn [lex] in Hlex. apply andb_true_iff in Hlex. destruct Hlex as [Hlk Hlcs].
  set (ifs := ifaces (e_gctx e)) in *.
  rewrite pp_unfold. unfold pp_node. cbv zeta. unfold inv'. cbn [kind_of inventory].
  destruct k; cbn [is_super_kind own_marks kid_parent arity_ok lex_kind] in *.
  - (* KBlock *)
    assert (HR : Forall2 Rel cs (pp_block_children pp is_func_block (set_e_stack (Some (KBlock is_func_block) :: e_stack e) e) cs))
      by (eapply texts_rel; [apply (texts_block ifs (Some (KBlock is_func_block))); reflexivity | exact HK | exact Hwfs | exact Hlcs]).
    rewrite block_marks. rewrite <- (no_super_kids _ _ _ Hwfs eq_refl).
    split; [exact (rel_perm _ _ HR) | apply block_lex; exact (rel_lex _ _ HR)].
  - (* KSuper *) split; [apply perm_nil | apply Lex_T].
  - (* KClass *)
    set (e1 := set_e_ident (e_ident e + 2) (set_e_ns (name :: e_ns e)
                 (set_e_stack (Some (KClass name class_type is_final nfields nsupers nfuncs) :: e_stack e) e))) in *.
    kids_rel ifs (KClass name class_type is_final nfields nsupers nfuncs) cs HK Hwfs Hlcs.
    apply andb_true_iff in Har. destruct Har as [Har Hok].
    apply andb_true_iff in Har. destruct Har as [Har Hrest].
    apply andb_true_iff in Har. destruct Har as [Har Hsk].
    apply andb_true_iff in Har. destruct Har as [Hlen Hfk].
    apply Nat.leb_le in Hlen.
    match goal with |- context [class_text _ _ _ _ _ _ _ _ ?S _ _] => set (sup := S) end.
    assert (HF : 0 < nfields -> nonempty (firstn nfields cr) = true).
    { intros H0. destruct cr as [|x r]; [cbn in HN; lia|]. destruct nfields; [lia | reflexivity]. }
    assert (Hwl : forallb (fun c => forallb (wfg ifs None) (children_of c) && forallb lex (children_of c))
                          (firstn nsupers (skipn nfields cs)) = true).
    { apply forallb_forall. intros c Hc.
      assert (Hin : In c cs) by (eapply In_skipn, In_firstn; exact Hc).
      rewrite forallb_forall in Hwfs, Hlcs, Hsk. specialize (Hwfs c Hin). specialize (Hlcs c Hin). specialize (Hsk c Hc).
      destruct c as [k args]. cbn [kind_of children_of] in *. destruct k; try discriminate.
      cbn [wfg kid_parent] in Hwfs. apply andb_true_iff in Hwfs. destruct Hwfs as [_ Hwfs].
      cbn [lex] in Hlcs. apply andb_true_iff in Hlcs. destruct Hlcs as [_ Hlcs].
      now rewrite Hwfs, Hlcs. }
    destruct (class_supers ifs e1 nfields nsupers cs (firstn nfields cr) HG eq_refl Hsk Hok Hwl HF)
      as [HsL HsP].
    fold sup in HsL, HsP.
    split; [|apply class_lex; [exact Hlk | exact HsL | exact HL]].
    eapply perm_trans; [apply class_marks; exact HsL|].
    apply Permutation_app_head.
    rewrite (flat_map_firstn_skipn _ _ inventory nfields cs).
    rewrite (flat_map_firstn_skipn _ _ inventory nsupers (skipn nfields cs)).
    rewrite skipn_skipn, (Nat.add_comm nsupers nfields).
    rewrite (flat_map_firstn_skipn _ _ inventory nfuncs (skipn (nfields + nsupers) cs)).
    rewrite skipn_skipn, (Nat.add_comm nfuncs (nfields + nsupers)).
    apply Permutation_app.
    { rewrite <- (no_super_inv _ Hfk). apply rel_perm. apply Forall2_firstn. exact HR. }
    apply Permutation_app; [exact HsP|].
    apply Permutation_app.
    { assert (Hn : forallb (fun c => negb (is_super_kind (kind_of c))) (firstn nfuncs (skipn (nfields + nsupers) cs)) = true).
      { apply forallb_forall. intros c Hc. rewrite forallb_forall in Hrest. apply Hrest. eapply In_firstn; exact Hc. }
      rewrite <- (no_super_inv _ Hn). apply rel_perm. apply Forall2_firstn, Forall2_skipn. exact HR. }
    { assert (Hn : forallb (fun c => negb (is_super_kind (kind_of c))) (skipn (nfields + nsupers + nfuncs) cs) = true).
      { apply forallb_forall. intros c Hc. rewrite forallb_forall in Hrest. apply Hrest.
        replace (nfields + nsupers + nfuncs) with (nfuncs + (nfields + nsupers)) in Hc by lia.
        rewrite <- skipn_skipn in Hc. eapply In_skipn. exact Hc. }
      rewrite <- (no_super_inv _ Hn). apply rel_perm. apply Forall2_skipn. exact HR. }
  - (* KTypeParam *) arith_tac. destruct cs; [|discriminate]. rewrite type_param_marks. cbn [flat_map]. rewrite app_nil_r.
    split; [apply Permutation_refl | apply type_param_lex; exact Hlk].
  - (* KVarDecl *) kids_rel ifs (KVarDecl name is_final var_type inferred) cs HK Hwfs Hlcs.
    arith_tac. rewrite var_decl_marks by (try lia; exact HL). rewrite <- (no_super_kids _ _ _ Hwfs eq_refl).
    split; [apply Permutation_app_head; exact HP | apply var_decl_lex; assumption].
  - (* KCallArg *) kids_rel ifs KCallArg cs HK Hwfs Hlcs.
    arith_tac. rewrite call_argument_marks by lia. rewrite <- (no_super_kids _ _ _ Hwfs eq_refl).
    split; [exact HP | apply Lex_nth; exact HL].
  - (* KField *) arith_tac. destruct cs; [|discriminate]. rewrite field_marks. cbn [flat_map]. rewrite app_nil_r.
    split; [apply Permutation_refl | apply field_lex; exact Hlk].
  - (* KParam *) kids_rel ifs (KParam name param_type vararg) cs HK Hwfs Hlcs.
    arith_tac. replace (nonempty cs) with (nonempty cr) by (destruct cs, cr; cbn in *; try reflexivity; lia).
    rewrite param_marks by lia. rewrite <- (no_super_kids _ _ _ Hwfs eq_refl).
    split; [apply Permutation_app_head; exact HP | apply param_lex; assumption].
  - (* KFunc *) kids_rel ifs (KFunc name ret_type inferred boxed is_final has_body nparams ntparams) cs HK Hwfs Hlcs.
    apply andb_true_iff in Har. destruct Har as [Hlen Hcl]. apply Nat.eqb_eq in Hlen.
    rewrite <- (no_super_kids _ _ _ Hwfs eq_refl).
    split; [|apply func_decl_lex; assumption].
    eapply perm_trans; [apply func_decl_marks; [lia|] | apply Permutation_app_head; exact HP].
    destruct (closure_of (e_parent e)); [apply Nat.eqb_eq; exact Hcl | exact I].
  - (* KLambda *) kids_rel ifs (KLambda name ret_type sig nparams has_body) cs HK Hwfs Hlcs.
    arith_tac. rewrite lambda_marks by lia. rewrite <- (no_super_kids _ _ _ Hwfs eq_refl).
    split; [exact HP | apply lambda_lex; exact HL].
  - (* KBottom *) arith_tac. destruct cs; [|discriminate]. rewrite bottom_marks.
    split; [apply perm_nil | apply bottom_lex].
  - (* KInt *) arith_tac. destruct cs; [|discriminate]. rewrite integer_marks. cbn [flat_map]. rewrite app_nil_r.
    split; [apply Permutation_refl | apply integer_lex; exact Hlk].
  - (* KReal *) arith_tac. destruct cs; [|discriminate]. rewrite real_marks. cbn [flat_map]. rewrite app_nil_r.
    split; [apply Permutation_refl | apply real_lex; exact Hlk].
  - (* KChar *) arith_tac. destruct cs; [|discriminate]. rewrite char_marks. cbn [flat_map]. rewrite app_nil_r.
    split; [apply Permutation_refl | apply char_lex; exact Hlk].
  - (* KString *) arith_tac. destruct cs; [|discriminate]. rewrite string_marks. cbn [flat_map]. rewrite app_nil_r.
    split; [apply Permutation_refl | apply string_lex; exact Hlk].
  - (* KBool *) arith_tac. destruct cs; [|discriminate]. rewrite boolean_marks. cbn [flat_map]. rewrite app_nil_r.
    split; [apply Permutation_refl | apply boolean_lex; exact Hlk].
  - (* KArray *) destruct (Nat.eqb length 0) eqn:Elen.
    + arith_tac. destruct cs; [|discriminate]. rewrite array_empty_marks.
      split; [apply perm_nil | apply array_empty_lex].
    + kids_rel ifs (KArray array_type length) cs HK Hwfs Hlcs.
      rewrite array_marks. rewrite <- (no_super_kids _ _ _ Hwfs eq_refl).
      split; [exact HP | apply array_lex; exact HL].
  - (* KVariable *) arith_tac. destruct cs; [|discriminate]. rewrite variable_marks.
    split; [apply perm_nil | apply variable_lex].
  - (* KBinOp *) kids_rel ifs (KBinOp op is_not) cs HK Hwfs Hlcs.
    arith_tac. rewrite <- (no_super_kids _ _ _ Hwfs eq_refl).
    split; [|apply binary_op_lex; assumption].
    eapply perm_trans; [apply binary_op_marks; lia | apply Permutation_app_head; exact HP].
  - (* KCond *) apply Nat.eqb_eq in Har.
    assert (HR : Forall2 Rel cs (pp_cond_children pp (set_e_is true (set_e_ident (e_ident e + 2) (set_e_stack (Some KCond :: e_stack e) e))) cs))
      by (eapply texts_rel; [apply (texts_cond ifs (Some KCond)); [reflexivity | reflexivity | exact Har] | exact HK | exact Hwfs | exact Hlcs]).
    pose proof (rel_length _ _ HR) as HN.
    rewrite conditional_marks by (try lia; exact (rel_lex _ _ HR)). rewrite <- (no_super_kids _ _ _ Hwfs eq_refl).
    split; [exact (rel_perm _ _ HR) | apply conditional_lex; exact (rel_lex _ _ HR)].
  - (* KIs *) kids_rel ifs (KIs is_not rexpr) cs HK Hwfs Hlcs.
    arith_tac. rewrite <- (no_super_kids _ _ _ Hwfs eq_refl).
    split; [|apply is_lex; assumption].
    eapply perm_trans; [apply is_marks; lia | apply Permutation_app_head; exact HP].
  - (* KNew *) kids_rel ifs (KNew class_type) cs HK Hwfs Hlcs.
    rewrite new_marks. rewrite <- (no_super_kids _ _ _ Hwfs eq_refl).
    split; [exact HP | apply new_lex; exact HL].
  - (* KFieldAccess *) kids_rel ifs (KFieldAccess field) cs HK Hwfs Hlcs.
    arith_tac. rewrite field_access_marks by lia. rewrite <- (no_super_kids _ _ _ Hwfs eq_refl).
    split; [exact HP | apply field_access_lex; exact HL].
  - (* KFuncRef *) kids_rel ifs (KFuncRef func sig) cs HK Hwfs Hlcs.
    arith_tac. rewrite func_ref_marks by lia. rewrite <- (no_super_kids _ _ _ Hwfs eq_refl).
    split; [exact HP | apply func_ref_lex; exact HL].
  - (* KFuncCall *) kids_rel ifs (KFuncCall func type_args can_infer is_ref_call has_receiver) cs HK Hwfs Hlcs.
    rewrite func_call_marks by (destruct has_receiver; [arith_tac | exact I]).
    rewrite <- (no_super_kids _ _ _ Hwfs eq_refl).
    split; [exact HP | apply func_call_lex; exact HL].
  - (* KAssign *) kids_rel ifs (KAssign name has_receiver) cs HK Hwfs Hlcs.
    arith_tac. rewrite assign_marks by (destruct has_receiver; lia). rewrite <- (no_super_kids _ _ _ Hwfs eq_refl).
    split; [exact HP | apply assign_lex; exact HL].
Qed.

(* ==================================================================================== *)
(* program level                                                                          *)

(* the declarations of a program, one after the other, each routed by append_to *)
Definition route_fold (e : env) (l : list pnode) (s : st) : st :=
  fold_left (fun s' d => route (kind_of d) (pp d e) s') l s.

Lemma route_env : forall k r s, env_of (route k r s) = env_of s.
Proof.
  intros k r s. unfold route. destruct s.
  destruct (ns_is_global _ && is_main_func k); [reflexivity|].
  destruct (ns_is_global _ && is_var_or_func k); reflexivity.
Qed.

Lemma route_fun_ifaces : forall k r s, fun_ifaces (route k r s) = fun_ifaces s.
Proof.
  intros k r s. unfold route. destruct s.
  destruct (ns_is_global _ && is_main_func k); [reflexivity|].
  destruct (ns_is_global _ && is_var_or_func k); reflexivity.
Qed.

Lemma top_children_pure : forall l s e, env_of s = e -> forallb (routed true (e_ns e)) l = true ->
  visit_children visit l s = route_fold e l s.
Proof.
  induction l as [|d l IH]; intros s e He Hr; [reflexivity|].
  cbn [forallb] in Hr. apply andb_true_iff in Hr. destruct Hr as [Hr1 Hr2].
  unfold visit_children, route_fold. cbn [fold_left].
  fold (visit_children visit l (visit d s)). fold (route_fold e l (route (kind_of d) (pp d e) s)).
  assert (Hd : visit d s = route (kind_of d) (pp d e) s).
  { rewrite <- He. apply (proj1 (visit_pure_all d)). rewrite <- He in Hr1. destruct s; exact Hr1. }
  rewrite Hd. apply IH; [rewrite route_env; exact He | exact Hr2].
Qed.

Lemma route_fold_fun_ifaces : forall e l s, fun_ifaces (route_fold e l s) = fun_ifaces s.
Proof.
  intros e l. induction l as [|d l IH]; intros s; [reflexivity|].
  unfold route_fold. cbn [fold_left]. fold (route_fold e l (route (kind_of d) (pp d e) s)).
  rewrite IH. apply route_fun_ifaces.
Qed.

Lemma route_fold_cons : forall e d l s,
  route_fold e (d :: l) s = route_fold e l (route (kind_of d) (pp d e) s).
Proof. reflexivity. Qed.

(* ---- the accumulators *)
Definition AccP (P : segs -> Prop) (s : st) : Prop :=
  Forall P (children_res s) /\ Forall P (main_children s) /\ P (main_method s).

Lemma route_acc : forall (P : segs -> Prop) k r s, AccP P s -> P r -> AccP P (route k r s).
Proof.
  intros P k r s (H1 & H2 & H3) Hr. unfold route, AccP. destruct s.
  destruct (ns_is_global _ && is_main_func k); [cbn; auto|].
  destruct (ns_is_global _ && is_var_or_func k); cbn in *; auto.
Qed.

Lemma route_fold_acc : forall (P : segs -> Prop) e l s, AccP P s -> Forall (fun d => P (pp d e)) l ->
  AccP P (route_fold e l s).
Proof.
  intros P e l. induction l as [|d l IH]; intros s Hs Hl; [exact Hs|].
  rewrite route_fold_cons. apply IH; [apply route_acc; [exact Hs | exact (Forall_inv Hl)] | exact (Forall_inv_tail Hl)].
Qed.

Lemma route_fold_length : forall e l s,
  List.length (children_res (route_fold e l s)) <= List.length l + List.length (children_res s).
Proof.
  intros e l. induction l as [|d l IH]; intros s; [cbn; lia|].
  rewrite route_fold_cons. specialize (IH (route (kind_of d) (pp d e) s)).
  assert (H : List.length (children_res (route (kind_of d) (pp d e) s)) <= S (List.length (children_res s))).
  { unfold route. destruct s. destruct (ns_is_global _ && is_main_func _); [cbn; lia|].
    destruct (ns_is_global _ && is_var_or_func _); cbn; lia. }
  cbn [List.length]. lia.
Qed.

(* all marks held by the accumulators *)
Definition Macc (s : st) : list mark :=
  flat_map marks (children_res s) ++ flat_map marks (main_children s) ++ marks (main_method s).

Lemma route_marks : forall k r s,
  (ns_is_global (namespace s) && is_main_func k = true -> marks (main_method s) = []) ->
  Permutation (Macc (route k r s)) (marks r ++ Macc s).
Proof.
  intros k r s Hm. unfold route, Macc. destruct s as [i u c ii iif cr mc mm stk ns fi cx ts a]. cbn [namespace main_method] in Hm.
  cbn [namespace].
  destruct (ns_is_global ns && is_main_func k) eqn:E1.
  - st_cbn. rewrite (Hm eq_refl), app_nil_r.
    eapply perm_trans; [|apply Permutation_app_comm]. rewrite <- app_assoc. apply Permutation_refl.
  - destruct (ns_is_global ns && is_var_or_func k) eqn:E2; st_cbn; cbn [flat_map].
    + rewrite <- ?app_assoc. apply Permutation_app_swap_app.
    + rewrite <- ?app_assoc. apply Permutation_refl.
Qed.

Lemma route_main_method : forall k r s, ns_is_global (namespace s) && is_main_func k = false ->
  main_method (route k r s) = main_method s.
Proof.
  intros k r s H. unfold route. rewrite H. destruct s. destruct (ns_is_global _ && is_var_or_func k); reflexivity.
Qed.

Lemma route_namespace : forall k r s, namespace (route k r s) = namespace s.
Proof. intros. pose proof (route_env k r s) as H. unfold env_of in H. now injection H. Qed.

Lemma route_fold_marks : forall e l s, ns_is_global (namespace s) = true ->
  count_mains l <= 1 -> (marks (main_method s) = [] \/ count_mains l = 0) ->
  Permutation (Macc (route_fold e l s)) (flat_map (fun d => marks (pp d e)) l ++ Macc s).
Proof.
  intros e l. induction l as [|d l IH]; intros s Hg Hc Hm; [apply Permutation_refl|].
  rewrite route_fold_cons. unfold count_mains in Hc, Hm. cbn [filter] in Hc, Hm.
  destruct (is_main_func (kind_of d)) eqn:Ed; cbn [List.length] in Hc, Hm.
  - destruct Hm as [Hm|Hm]; [|discriminate].
    eapply perm_trans.
    + apply IH; [rewrite route_namespace; exact Hg | unfold count_mains; lia | right; unfold count_mains; lia].
    + cbn [flat_map]. rewrite <- app_assoc.
      eapply perm_trans; [apply Permutation_app_head; apply route_marks; intros _; exact Hm|].
      rewrite !app_assoc. apply Permutation_app_tail. apply Permutation_app_comm.
  - eapply perm_trans.
    + apply IH; [rewrite route_namespace; exact Hg | exact Hc|].
      rewrite route_main_method by (rewrite Ed; apply andb_false_r). exact Hm.
    + cbn [flat_map]. rewrite <- app_assoc.
      eapply perm_trans; [apply Permutation_app_head; apply route_marks; rewrite Ed, andb_false_r; discriminate|].
      rewrite !app_assoc. apply Permutation_app_tail. apply Permutation_app_comm.
Qed.

(* ---- the text of a program from a fresh translator *)
Definition prog_st (o : bool) (p : pprogram) : st := set_context (Some (pctx p)) (set_types_set true (init_st o)).
Definition prog_env (o : bool) (p : pprogram) : env := env_of (prog_st o p).

Lemma wf_program_routed : forall p, wf_program p = true -> forallb (routed true ["global"]) (decls p) = true.
Proof.
  intros p H. unfold wf_program in H. apply andb_true_iff in H. destruct H as [H _].
  apply forallb_forall. intros d Hd. rewrite forallb_forall in H. specialize (H d Hd).
  apply andb_true_iff in H. now destruct H.
Qed.

Lemma print_segs_pp : forall o pkg p, wf_program p = true ->
  let s2 := route_fold (prog_env o p) (decls p) (prog_st o p) in
  print_segs o pkg p =
  program_text pkg (main_children s2) (main_method s2) [0; 1; 2; 3] (rev (children_res s2)).
Proof.
  intros o pkg p Hwf. cbv zeta. unfold print_segs, visit_program, init_tr. cbn [tst].
  unfold visit_program_st. fold (prog_st o p).
  rewrite (top_children_pure (decls p) (prog_st o p) (prog_env o p) eq_refl (wf_program_routed p Hwf)).
  set (s2 := route_fold (prog_env o p) (decls p) (prog_st o p)).
  pose proof (route_fold_length (prog_env o p) (decls p) (prog_st o p)) as HL. fold s2 in HL.
  pose proof (route_fold_fun_ifaces (prog_env o p) (decls p) (prog_st o p)) as HF. fold s2 in HF.
  unfold pop_res. destruct s2 as [i u c ii iif cr mc mm stk ns fi cx ts a].
  cbn in HL, HF |- *. subst fi. rewrite firstn_all2 by lia. reflexivity.
Qed.

(* ---- balance *)
Lemma brackets_balanced_lem : forall o pkg p,
  wf_program p = true -> clean_program pkg p = true ->
  balanced "("%char ")"%char (print_program o pkg p) = true /\
  balanced "{"%char "}"%char (print_program o pkg p) = true /\
  balanced "["%char "]"%char (print_program o pkg p) = true.
Proof.
  intros o pkg p Hwf Hcl. unfold clean_program in Hcl. apply andb_true_iff in Hcl. destruct Hcl as [Hpk Hcs].
  change (print_program o pkg p) with (flatten (print_segs o pkg p)).
  rewrite (print_segs_pp o pkg p Hwf). cbv zeta.
  set (s2 := route_fold (prog_env o p) (decls p) (prog_st o p)).
  assert (HA : AccP Bal s2).
  { apply route_fold_acc.
    - unfold AccP. cbn. split; [constructor | split; [constructor | apply Bal_nil]].
    - apply Forall_forall. intros d Hd. rewrite forallb_forall in Hcs.
      apply (proj1 (pp_bal_all d)). apply Hcs. exact Hd. }
  destruct HA as (A1 & A2 & A3).
  destruct (program_bal pkg (main_children s2) (main_method s2) (rev (children_res s2)) Hpk A2 A3 (Forall_rev A1))
    as (B1 & B2 & B3).
  repeat split; apply neutral_balanced; assumption.
Qed.

(* ---- inventory *)
Lemma functional_interface_marks : forall n, marks (functional_interface n) = [].
Proof. intros. unfold functional_interface. cbv zeta. mk. reflexivity. Qed.

Lemma functional_interfaces_marks : forall l, marks (functional_interfaces l) = [].
Proof.
  intros l. unfold functional_interfaces. cbv zeta.
  assert (H : marks (flat_map functional_interface l) = []).
  { induction l as [|n l IH]; [reflexivity|]. cbn [flat_map]. now rewrite marks_app, functional_interface_marks, IH. }
  destruct (nonempty l); mk; rewrite ?H; reflexivity.
Qed.

Lemma program_marks : forall pkg mc mm ifs cr, Forall Lex mc -> Lex mm ->
  marks (program_text pkg mc mm ifs cr) = flat_map marks (rev mc) ++ marks mm ++ flat_map marks cr.
Proof.
  intros pkg mc mm ifs cr Hmc Hmm. unfold program_text. cbv zeta.
  assert (Hd : flat_map marks (map main_decl (rev mc)) = flat_map marks (rev mc)).
  { assert (HL : Forall Lex (rev mc)) by (apply Forall_rev; exact Hmc).
    induction HL as [|d r Hd Hr IH]; [reflexivity|].
    cbn [map flat_map]. rewrite IH. f_equal. unfold main_decl. mk. now apply marks_lstrip. }
  rewrite !marks_app, marks_brace, !marks_app, functional_interfaces_marks.
  rewrite (marks_if_segs0 mm) by (unfold main_method_decl; mk; now apply marks_lstrip).
  rewrite marks_if_segs0 by (mk; reflexivity).
  rewrite !(marks_joins (T (nl ++ nl)%string)) by reflexivity. rewrite Hd.
  destruct (negb (str_empty pkg)); mk; rewrite <- ?app_assoc; reflexivity.
Qed.

Lemma flat_map_perm : forall (A B : Type) (f g : A -> list B) l,
  Forall (fun d => Permutation (f d) (g d)) l -> Permutation (flat_map f l) (flat_map g l).
Proof.
  intros A B f g l H. induction H as [|d l Hd Hl IH]; [constructor|].
  cbn [flat_map]. now apply Permutation_app.
Qed.

Lemma flat_map_rev_perm : forall (l : list segs), Permutation (flat_map marks (rev l)) (flat_map marks l).
Proof. intros l. apply Permutation_flat_map. apply Permutation_sym, Permutation_rev. Qed.

Lemma declares_exactly_lem : forall o pkg p,
  wf_program p = true -> lex_program p = true ->
  Permutation (marks (print_segs o pkg p)) (program_inventory p).
Proof.
  intros o pkg p Hwf Hlex. rewrite (print_segs_pp o pkg p Hwf). cbv zeta.
  set (e := prog_env o p). set (s2 := route_fold e (decls p) (prog_st o p)).
  pose proof Hwf as Hwf'. unfold wf_program in Hwf'. apply andb_true_iff in Hwf'. destruct Hwf' as [Hds Hmains].
  apply Nat.leb_le in Hmains.
  assert (HD : Forall (fun d => Permutation (marks (pp d e)) (inventory d) /\ Lex (pp d e)) (decls p)).
  { apply Forall_forall. intros d Hd. rewrite forallb_forall in Hds. specialize (Hds d Hd).
    apply andb_true_iff in Hds. destruct Hds as [_ Hw].
    unfold lex_program in Hlex. rewrite forallb_forall in Hlex. specialize (Hlex d Hd).
    destruct (proj1 (pp_marks_all d) e Hw Hlex) as [HP HL]. split; [|exact HL].
    unfold inv' in HP. destruct d as [k cs]. cbn [kind_of] in HP. destruct k; try exact HP.
    cbn [wfg arity_ok] in Hw. discriminate. }
  assert (HA : AccP Lex s2).
  { apply route_fold_acc.
    - unfold AccP. cbn. split; [constructor | split; [constructor | apply Lex_nil]].
    - eapply Forall_impl; [|exact HD]. intros d [_ H]. exact H. }
  destruct HA as (A1 & A2 & A3).
  rewrite program_marks by assumption.
  assert (HM : Permutation (Macc s2) (flat_map (fun d => marks (pp d e)) (decls p) ++ Macc (prog_st o p))).
  { apply route_fold_marks; [reflexivity | exact Hmains | left; reflexivity]. }
  unfold Macc in HM at 2. cbn in HM. rewrite app_nil_r in HM.
  eapply perm_trans; [|apply flat_map_perm; eapply Forall_impl; [|exact HD]; intros d [H _]; exact H].
  eapply perm_trans; [|exact HM]. unfold Macc.
  (* rev mc ++ mm ++ rev cr  ~  cr ++ mc ++ mm *)
  eapply perm_trans; [apply Permutation_app; [apply flat_map_rev_perm | apply Permutation_app_head; apply flat_map_rev_perm]|].
  rewrite (app_assoc (flat_map marks (main_children s2))). apply Permutation_app_comm.
Qed.

(* ==================================================================================== *)
(* the `printed iff` equations                                                            *)

(* on a routed tree the visit of a node hands the *_text of the children's texts to append_to *)
Lemma visit_text_lem : forall k cs s, routed true (namespace s) (PN k cs) = true ->
  visit (PN k cs) s = route k (pp_node pp (PN k cs) (env_of s)) s.
Proof. intros k cs s H. rewrite (proj1 (visit_pure_all (PN k cs)) s H). reflexivity. Qed.

Lemma var_decl_shape_lem : forall name fin vt inf cs s,
  routed true (namespace s) (PN (KVarDecl name fin vt inf) cs) = true ->
  exists cr,
    visit (PN (KVarDecl name fin vt inf) cs) s =
    route (KVarDecl name fin vt inf)
      (T (spaces (ident s)) ++ T (if fin then "final " else "") ++
       var_type_text vt inf (ns_is_global (namespace s)) ++
       T (if negb (ns_is_global (namespace s)) then main_prefix (main_vars (ctx_of s)) name else "") ++
       [Decl DVar name] ++ T " = " ++ lstrip_segs (nth_seg 0 cr)) s.
Proof.
  intros name fin vt inf cs s H. rewrite (visit_text_lem _ _ _ H). unfold pp_node. cbv zeta.
  eexists. destruct s. reflexivity.
Qed.

Lemma var_type_text_spec : forall vt inf glob,
  var_type_text vt inf glob =
  match vt with
  | Some _ => [Txt (type_name inf); Txt " "]
  | None => if glob then [Txt (type_name inf); Txt " "] else [Txt "def "]
  end.
Proof. intros [t|] inf []; reflexivity. Qed.

Lemma var_type_not_an_input_lem : forall t t' inf glob, var_type_text (Some t) inf glob = var_type_text (Some t') inf glob.
Proof. reflexivity. Qed.

Definition bool_ty : ptype := TName GOther false "Boolean".

Definition var_witness (vt : option ptype) : pprogram :=
  mkProgram empty_ctx [PN (KVarDecl "x" true vt bool_ty) [PN (KBool "true") []]].

Lemma var_type_refuted_lem :
  wf_program (var_witness (Some bool_ty)) = true /\ wf_program (var_witness None) = true /\
  lex_program (var_witness None) = true /\ clean_program "" (var_witness None) = true /\
  var_witness (Some bool_ty) <> var_witness None /\
  forall o, print_program o "" (var_witness (Some bool_ty)) = print_program o "" (var_witness None).
Proof.
  split; [vm_compute; reflexivity|]. split; [vm_compute; reflexivity|]. split; [vm_compute; reflexivity|].
  split; [vm_compute; reflexivity|]. split; [unfold var_witness; discriminate|]. intros []; vm_compute; reflexivity.
Qed.

Lemma func_decl_shape_lem : forall name rt inf bx fin hb np ntp cs s,
  routed true (namespace s) (PN (KFunc name rt inf bx fin hb np ntp) cs) = true ->
  exists close cr,
    visit (PN (KFunc name rt inf bx fin hb np ntp) cs) s =
    route (KFunc name rt inf bx fin hb np ntp)
      (func_decl_text name rt inf bx fin hb np ntp (negb (hb && last_is_block cs))
                      (closure_of (nth 0 (nodes_stack s) None)) close cr) s.
Proof.
  intros name rt inf bx fin hb np ntp cs s H. rewrite (visit_text_lem _ _ _ H). unfold pp_node. cbv zeta.
  eexists. eexists. destruct s. reflexivity.
Qed.

(* a function that is not a closure: the declared return type is not an input of the text *)
Lemma ret_type_not_an_input_lem : forall name rt rt' inf bx fin hb np ntp ie close cr,
  func_decl_text name rt inf bx fin hb np ntp ie false close cr =
  func_decl_text name rt' inf bx fin hb np ntp ie false close cr.
Proof. reflexivity. Qed.

Lemma func_text_spec : forall name rt inf bx fin hb np ntp ie close cr,
  func_decl_text name rt inf bx fin hb np ntp ie false close cr =
  let tps := joins (T ", ") (firstn ntp (skipn np cr)) in
  let body_res := if hb then last_seg cr else [] in
  let body := if negb (segs_empty body_res)
              then if ie then brace (T nl ++ body_res ++ T nl ++ T close) else body_res
              else [] in
  T close ++ T (if fin then "final " else "") ++ T (if segs_empty body then "abstract " else "") ++
  (if negb (segs_empty tps) then T "<" ++ tps ++ T ">" else []) ++
  T (type_name inf) ++ T " " ++ [Decl DFunc name] ++ paren (joins (T ", ") (firstn np cr)) ++ T " " ++ body.
Proof. reflexivity. Qed.

(* a closure: "def" iff there is no declared return type or it is void, otherwise Closure<T> for
   the boxed inferred type; neither `final` nor the type parameters are printed *)
Lemma closure_text_spec : forall name rt inf bx fin hb np ntp ie close cr,
  func_decl_text name rt inf bx fin hb np ntp ie true close cr =
  T close ++
  match rt with
  | None => T "def"
  | Some t => if is_void_ty t then T "def" else T "Closure<" ++ T (type_name bx) ++ T ">"
  end ++ T " " ++ [Decl DFunc name] ++ T " = " ++
  brace (T " " ++ joins (T ", ") (firstn np cr) ++ T " -> " ++ (if hb then last_seg cr else [])).
Proof. intros. unfold func_decl_text, closure_prefix. reflexivity. Qed.

Definition void_ty : ptype := TName GVoid false "void".

Definition func_witness (rt : option ptype) : pprogram :=
  mkProgram empty_ctx [PN (KFunc "f" rt bool_ty bool_ty false true 0 0) [PN (KBool "true") []]].

Lemma ret_type_refuted_lem :
  wf_program (func_witness (Some bool_ty)) = true /\ wf_program (func_witness None) = true /\
  lex_program (func_witness None) = true /\ clean_program "" (func_witness None) = true /\
  func_witness (Some bool_ty) <> func_witness None /\
  forall o, print_program o "" (func_witness (Some bool_ty)) = print_program o "" (func_witness None).
Proof.
  split; [vm_compute; reflexivity|]. split; [vm_compute; reflexivity|]. split; [vm_compute; reflexivity|].
  split; [vm_compute; reflexivity|]. split; [unfold func_witness; discriminate|]. intros []; vm_compute; reflexivity.
Qed.

Lemma lambda_shape_lem : forall name rt sg np hb cs s,
  routed true (namespace s) (PN (KLambda name rt sg np hb) cs) = true ->
  exists cr,
    visit (PN (KLambda name rt sg np hb) cs) s =
    route (KLambda name rt sg np hb)
      (brace (T " " ++ joins (T ", ") (firstn np cr) ++ T " -> " ++ (if hb then last_seg cr else [])) ++
       T " " ++ T " as " ++ T (type_name sg)) s.
Proof.
  intros name rt sg np hb cs s H. rewrite (visit_text_lem _ _ _ H). unfold pp_node. cbv zeta.
  eexists. destruct s. reflexivity.
Qed.

Lemma new_shape_lem : forall ct cs s,
  routed true (namespace s) (PN (KNew ct) cs) = true ->
  exists cr,
    visit (PN (KNew ct) cs) s =
    route (KNew ct) (T (spaces (ident s)) ++ T "new " ++ T (new_type_text ct) ++ paren (joins (T ", ") cr)) s.
Proof.
  intros ct cs s H. rewrite (visit_text_lem _ _ _ H). unfold pp_node. cbv zeta.
  eexists. destruct s. reflexivity.
Qed.

Lemma new_type_text_spec : forall n arr ci args,
  new_type_text (TApp n arr ci args) = if ci then (n ++ "<>")%string else type_name (TApp n arr ci args).
Proof. reflexivity. Qed.

Lemma func_call_shape_lem : forall f ta ci rc hr cs s,
  routed true (namespace s) (PN (KFuncCall f ta ci rc hr) cs) = true ->
  exists mp cr,
    visit (PN (KFuncCall f ta ci rc hr) cs) s =
    route (KFuncCall f ta ci rc hr) (func_call_text f rc hr (first_is_bottom cs) mp (spaces (ident s)) cr) s.
Proof.
  intros f ta ci rc hr cs s H. rewrite (visit_text_lem _ _ _ H). unfold pp_node. cbv zeta.
  eexists. eexists. destruct s. reflexivity.
Qed.

Lemma func_call_text_spec : forall f rc hr b mp idt cr,
  func_call_text f rc hr b mp idt cr =
  T idt ++
  (if negb (segs_empty (if hr then nth_seg 0 cr else []))
   then (if b then paren (nth_seg 0 cr) else nth_seg 0 cr) ++ T "." else []) ++
  T mp ++ T f ++ T (if rc then ".apply" else "") ++ paren (joins (T ", ") (if hr then tl cr else cr)).
Proof. reflexivity. Qed.

Definition call_witness (ta : list ptype) : pprogram :=
  mkProgram empty_ctx [PN (KVarDecl "x" true (Some bool_ty) bool_ty) [PN (KFuncCall "f" ta false false false) []]].

Lemma call_type_args_refuted_lem :
  wf_program (call_witness [bool_ty]) = true /\ wf_program (call_witness []) = true /\
  lex_program (call_witness [bool_ty]) = true /\ clean_program "" (call_witness [bool_ty]) = true /\
  call_witness [bool_ty] <> call_witness [] /\
  forall o, print_program o "" (call_witness [bool_ty]) = print_program o "" (call_witness []).
Proof.
  split; [vm_compute; reflexivity|]. split; [vm_compute; reflexivity|]. split; [vm_compute; reflexivity|].
  split; [vm_compute; reflexivity|]. split; [unfold call_witness; discriminate|]. intros []; vm_compute; reflexivity.
Qed.

(* a function declared inside a function is printed as a closure: its type parameters are not *)
Definition closure_witness : pprogram :=
  mkProgram empty_ctx
    [PN (KFunc "f" (Some void_ty) void_ty void_ty false true 0 0)
        [PN (KBlock true)
            [PN (KFunc "g" (Some void_ty) void_ty void_ty false true 0 1)
                [PN (KTypeParam "T" None) []; PN (KBlock true) []]]]].

Lemma same_marks_false : forall a b, same_marks a b = false -> ~ Permutation a b.
Proof.
  assert (mark_eqb_spec : forall a b, mark_eqb a b = true <-> a = b).
  { intros a b; split.
    - destruct a as [k1 s1|s1|s1], b as [k2 s2|s2|s2]; cbn; try discriminate.
      + intros H. apply andb_true_iff in H. destruct H as [H1 H2]. apply String.eqb_eq in H1. subst.
        destruct k1, k2; try discriminate; reflexivity.
      + intros H. apply String.eqb_eq in H. now subst.
      + intros H. apply String.eqb_eq in H. now subst.
    - intros <-. destruct a as [k s|s|s]; cbn; rewrite String.eqb_refl; [destruct k|..]; reflexivity. }
  assert (remove_one_perm : forall m l l', remove_one m l = Some l' -> Permutation l (m :: l')).
  { intros m l; induction l as [|x l IH]; intros l' H; [discriminate|].
    cbn [remove_one] in H. destruct (mark_eqb m x) eqn:E.
    - apply mark_eqb_spec in E. subst. injection H as <-. apply Permutation_refl.
    - destruct (remove_one m l) as [r'|]; [|discriminate]. injection H as <-.
      eapply perm_trans; [apply perm_skip, IH; reflexivity | apply perm_swap]. }
  assert (remove_one_in : forall m l, In m l -> exists l', remove_one m l = Some l').
  { intros m l; induction l as [|x l IH]; intros H; [destruct H|].
    cbn [remove_one]. destruct (mark_eqb m x) eqn:E; [eexists; reflexivity|].
    destruct H as [-> | H].
    - rewrite (proj2 (mark_eqb_spec m m) eq_refl) in E. discriminate.
    - destruct (IH H) as [l' ->]. eexists; reflexivity. }
  induction a as [|m r IH]; intros b Hf Hp.
  - apply Permutation_nil in Hp. subst. discriminate.
  - cbn [same_marks] in Hf.
    assert (Hin : In m b) by (eapply Permutation_in; [exact Hp | left; reflexivity]).
    destruct (remove_one_in m b Hin) as [b' E]. rewrite E in Hf.
    apply (IH b' Hf). apply remove_one_perm in E.
    eapply Permutation_cons_inv. eapply perm_trans; [exact Hp | exact E].
Qed.

Lemma same_marks_spec : forall a b, same_marks a b = true <-> Permutation a b.
Proof.
  intros a b. split.
  - revert b. induction a as [|m r IH]; intros b H.
    + destruct b; [constructor | discriminate].
    + cbn [same_marks] in H. destruct (remove_one m b) as [b'|] eqn:E; [|discriminate].
      apply IH in H. apply Permutation_sym.
      assert (G : forall l l', remove_one m l = Some l' -> Permutation l (m :: l')).
      { induction l as [|x l IHl]; intros l' H0; [discriminate|].
        cbn [remove_one] in H0. destruct (mark_eqb m x) eqn:Ex.
        - injection H0 as <-.
          assert (m = x).
          { destruct m as [k1 s1|s1|s1], x as [k2 s2|s2|s2]; cbn in Ex; try discriminate.
            - apply andb_true_iff in Ex. destruct Ex as [H1 H2]. apply String.eqb_eq in H1. subst.
              destruct k1, k2; try discriminate; reflexivity.
            - apply String.eqb_eq in Ex. now subst.
            - apply String.eqb_eq in Ex. now subst. }
          subst. apply Permutation_refl.
        - destruct (remove_one m l) as [r'|]; [|discriminate]. injection H0 as <-.
          eapply perm_trans; [apply perm_skip, IHl; reflexivity | apply perm_swap]. }
      eapply perm_trans; [apply G; exact E | apply perm_skip, Permutation_sym, H].
  - intros H. destruct (same_marks a b) eqn:E; [reflexivity|]. exfalso. exact (same_marks_false a b E H).
Qed.

Lemma closure_tparams_refuted_lem :
  forallb (routed true ["global"]) (decls closure_witness) = true /\
  lex_program closure_witness = true /\ clean_program "" closure_witness = true /\
  wf_program closure_witness = false /\
  forall o, ~ Permutation (marks (print_segs o "" closure_witness)) (program_inventory closure_witness).
Proof.
  split; [vm_compute; reflexivity|]. split; [vm_compute; reflexivity|]. split; [vm_compute; reflexivity|].
  split; [vm_compute; reflexivity|].
  intros o. apply same_marks_false. destruct o; vm_compute; reflexivity.
Qed.

(* ---- modifiers, bounds, inheritance clauses: the headers of the declarations *)
Lemma field_shape_lem : forall name ft fin cs s,
  routed true (namespace s) (PN (KField name ft fin) cs) = true ->
  visit (PN (KField name ft fin) cs) s =
  route (KField name ft fin)
    (T "public " ++ T (if fin then "final " else "") ++ T (type_name ft) ++ T " " ++ [Decl DField name]) s.
Proof. intros name ft fin cs s H. rewrite (visit_text_lem _ _ _ H). reflexivity. Qed.

Lemma type_param_shape_lem : forall name b cs s,
  routed true (namespace s) (PN (KTypeParam name b) cs) = true ->
  visit (PN (KTypeParam name b) cs) s =
  route (KTypeParam name b)
    ([Decl DTypeParam name] ++ match b with Some t => T " extends " ++ T (type_name t) | None => [] end) s.
Proof. intros name b cs s H. rewrite (visit_text_lem _ _ _ H). reflexivity. Qed.

Lemma class_shape_lem : forall name ct fin nf ns nfn cs s,
  routed true (namespace s) (PN (KClass name ct fin nf ns nfn) cs) = true ->
  exists sup cr,
    visit (PN (KClass name ct fin nf ns nfn) cs) s =
    route (KClass name ct fin nf ns nfn)
      (class_text name ct fin nf ns nfn cs (ifaces (ctx_of s)) sup (ident s) cr) s.
Proof.
  intros name ct fin nf ns nfn cs s H. rewrite (visit_text_lem _ _ _ H). unfold pp_node. cbv zeta.
  eexists. eexists. destruct s. reflexivity.
Qed.

(* "final" iff final; class / interface / abstract class; the name; the type parameters in <>;
   " extends " and the superclasses that are not interfaces of the context; " implements "
   (" extends " for an interface) and those that are; the members in braces *)
Lemma class_text_spec : forall name ct fin nf ns nfn cs ifs sup old cr,
  exists inner,
  class_text name ct fin nf ns nfn cs ifs sup old cr =
  let tps := joins (T ", ") (skipn (nf + ns + nfn) cr) in
  let superclasses := fst (split_supers ifs (supers_of nf ns cs)) in
  let interfaces := snd (split_supers ifs (supers_of nf ns cs)) in
  (T (spaces old) ++ T (if fin then "final " else "") ++
   T (match ct with 0 => "class" | 1 => "interface" | _ => "abstract class" end) ++ T " " ++ [Decl DClass name]) ++
  (if negb (segs_empty tps) then T "<" ++ tps ++ T ">" else []) ++
  (if nonempty superclasses then T " extends " ++ T (join ", " superclasses) else []) ++
  (if nonempty interfaces
   then T (if Nat.eqb ct 1 then " extends " else " implements ") ++ T (join ", " interfaces) else []) ++
  T " " ++ brace inner.
Proof.
  intros. unfold class_text. cbv zeta.
  match goal with |- context [brace ?X] => exists X end.
  set (tpb := negb (segs_empty (joins (T ", ") (skipn (nf + ns + nfn) cr)))).
  set (scb := nonempty (fst (split_supers ifs (supers_of nf ns cs)))).
  set (ifb := nonempty (snd (split_supers ifs (supers_of nf ns cs)))).
  destruct tpb, scb, ifb; rewrite <- ?app_assoc, ?app_nil_r; reflexivity.
Qed.
