(* IR/PrintJava.v -- a Gallina model of src/translators/java.py (JavaTranslator).
   Definitions only.  The generic vocabulary (segments, marks, joins, paren / brace, spaces,
   scan / balanced, same_marks) is the one of IR/PrintKotlin.v; everything that has the same
   name as a definition of PrintKotlin.v (ptype, pkind, pnode, st, visit, ...) is redefined
   here for Java and shadows it.

   INPUT.  `pnode` = PN kind children, one node per AST object, `children` exactly
   node.children(); the kind carries the attributes java.py reads.  harness/ir2print_java.py
   produces the terms.

   STATE.  The translator object is the record `st` (17 components: ident, _cast_number,
   is_func_non_void_block, is_nested_func_block, _inside_is, _inside_is_function, _children_res,
   _main_children, _main_method, _nodes_stack, _visit_is_stack, _namespace, _function_interfaces,
   _x_counter, smart_casts, context, types) plus `program` in `translator`.  Every visit_* method
   is a state-passing function transcribed statement by statement; the decorators append_to
   and change_namespace are functions of the same name.  Lists that Python appends to are
   stored REVERSED (head = last element): _children_res, _main_children, _nodes_stack,
   _visit_is_stack, smart_casts, and _namespace (head = innermost name).
   construct_constructor's `translator = JavaTranslator()` is a second state (nested_init).

   NOT MODELLED, supplied by the serialiser which evaluates the real code:
     - tu.get_type_hint / tu.get_function_reference_type: per Block the record `bhint` for the
       namespace and smart casts of that position;
     - the context: record `jctx` of tables; those whose query depends on the namespace are keyed
       by namespace and looked up with the namespace OF THE MODEL'S STATE.
   Exceptions are not modelled (the model is total and uses defaults).  Strings are byte
   strings; strip / split / \s act on ASCII white space (the serialiser rejects other white space).
   The Python set _function_interfaces is a sorted duplicate-free list (CPython iterates a set of
   small ints < 8 in increasing order; the serialiser rejects functions with 8 or more parameters). *)
From Coq Require Import String Ascii List Arith Bool.
Import ListNotations.
From Heph Require Import IR.PrintKotlin.
Open Scope string_scope.
Open Scope list_scope.

(* ------------------------------------------------------------------------------------ *)
(* strings                                                                                *)

(* str.isspace() on ASCII: \t \n \v \f \r, \x1c-\x1f, space *)
Definition is_ws (a : ascii) : bool :=
  let n := nat_of_ascii a in
  (Nat.leb 9 n && Nat.leb n 13) || (Nat.leb 28 n && Nat.leb n 32).

Definition is_space (a : ascii) : bool := Ascii.eqb a " "%char.

Fixpoint lstrip_str (s : string) : string :=
  match s with
  | EmptyString => EmptyString
  | String a r => if is_ws a then lstrip_str r else s
  end.

Fixpoint rstrip_str (s : string) : string :=
  match s with
  | EmptyString => EmptyString
  | String a r => let r' := rstrip_str r in
                  if str_empty r' && is_ws a then EmptyString else String a r'
  end.

(* number of leading ' ' and the rest: utils.leading_spaces *)
Fixpoint lspaces_str (s : string) : nat * string :=
  match s with
  | EmptyString => (0, EmptyString)
  | String a r => if is_space a then let (n, x) := lspaces_str r in (S n, x) else (0, s)
  end.

Fixpoint has_space (s : string) : bool :=
  match s with EmptyString => false | String a r => is_space a || has_space r end.

Fixpoint has_ws (s : string) : bool :=
  match s with EmptyString => false | String a r => is_ws a || has_ws r end.

(* x.rsplit(' ', 1)[0] *)
Fixpoint before_last_space (s : string) : string :=
  match s with
  | EmptyString => EmptyString
  | String a r => if is_space a && negb (has_space r) then EmptyString
                  else String a (before_last_space r)
  end.

Fixpoint after_last_ws (s : string) : string :=
  match s with
  | EmptyString => EmptyString
  | String a r => if has_ws r then after_last_ws r else if is_ws a then r else s
  end.

(* x.split()[-1] (IndexError on a blank string: "") *)
Definition last_token (s : string) : string := after_last_ws (rstrip_str s).

(* x.replace('...', '[]') *)
Fixpoint replace_dots (s : string) : string :=
  match s with
  | String "."%char (String "."%char (String "."%char r)) => String "["%char (String "]"%char (replace_dots r))
  | String a r => String a (replace_dots r)
  | EmptyString => EmptyString
  end.

(* re.sub(r'\s+', ' ', s), with the flag "the previous character was white space" *)
Fixpoint collapse_str (prev : bool) (s : string) : string * bool :=
  match s with
  | EmptyString => (EmptyString, prev)
  | String a r =>
      if is_ws a
      then if prev then collapse_str true r
           else let (x, f) := collapse_str true r in (String " "%char x, f)
      else let (x, f) := collapse_str false r in (String a x, f)
  end.

(* str(n) *)
Definition digit (n : nat) : string := String (ascii_of_nat (48 + n)) EmptyString.

Fixpoint nat_str_fuel (fuel n : nat) (acc : string) : string :=
  match fuel with
  | 0 => acc
  | S f => let acc' := (digit (Nat.modulo n 10) ++ acc)%string in
           if Nat.ltb n 10 then acc' else nat_str_fuel f (Nat.div n 10) acc'
  end.

Definition nat_str (n : nat) : string := nat_str_fuel (S n) n EmptyString.

(* PRIMITIVES_TO_BOXED.get(x, x) *)
Definition boxed (s : string) : string :=
  if String.eqb s "boolean" then "Boolean"
  else if String.eqb s "byte" then "Byte"
  else if String.eqb s "char" then "Character"
  else if String.eqb s "short" then "Short"
  else if String.eqb s "int" then "Integer"
  else if String.eqb s "long" then "Long"
  else if String.eqb s "float" then "Float"
  else if String.eqb s "double" then "Double"
  else if String.eqb s "void" then "Void"
  else s.

(* ------------------------------------------------------------------------------------ *)
(* segments: the string operations the translator applies to texts of children             *)

Definition set_text (sg : seg) (s : string) : seg :=
  match sg with Txt _ => Txt s | Decl k _ => Decl k s | Lit _ => Lit s | Op _ => Op s end.

(* s.lstrip() *)
Fixpoint lstrip_segs (l : segs) : segs :=
  match l with
  | [] => []
  | sg :: r => let s' := lstrip_str (seg_text sg) in
               if str_empty s' then lstrip_segs r else set_text sg s' :: r
  end.

(* s.rstrip() *)
Fixpoint rstrip_segs (l : segs) : segs :=
  match l with
  | [] => []
  | sg :: r =>
      match rstrip_segs r with
      | [] => let s' := rstrip_str (seg_text sg) in
              if str_empty s' then [] else [set_text sg s']
      | r' => sg :: r'
      end
  end.

Definition strip_segs (l : segs) : segs := rstrip_segs (lstrip_segs l).

Fixpoint split_spaces (l : segs) : nat * segs :=
  match l with
  | [] => (0, [])
  | sg :: r =>
      let (n, s') := lspaces_str (seg_text sg) in
      if str_empty s' then let (m, r') := split_spaces r in (n + m, r')
      else (n, set_text sg s' :: r)
  end.

(* ut.add_string_at(s, sugar, ut.leading_spaces(s)) *)
Definition add_sugar (sugar : segs) (r : segs) : segs :=
  let (n, rest) := split_spaces r in T (spaces n) ++ sugar ++ rest.

Fixpoint collapse_segs (prev : bool) (l : segs) : segs :=
  match l with
  | [] => []
  | sg :: r => let (s', f) := collapse_str prev (seg_text sg) in
               set_text sg s' :: collapse_segs f r
  end.

Definition bracket (r : segs) : segs := T "[" ++ r ++ T "]".

(* ------------------------------------------------------------------------------------ *)
(* types as the translator sees them                                                      *)

(* the exact class of a non-parameterized, non-wildcard type object, as far as java.py
   compares with it (`== jt.Void`, isinstance(_, jt.VoidType), `== jt.Long`, ...) *)
Inductive jcls := JVoid | JLong | JShort | JByte | JNumber | JFloat | JOther.

Inductive ptype :=
| TName (c : jcls) (prim : bool) (name : string)                (* name = t.get_name(), prim = t.is_primitive() *)
| TWild (variance : nat) (bound : option ptype)                 (* types.WildCardType *)
| TApp (name : string) (is_array : bool) (can_infer : bool) (args : list ptype).
    (* a parameterized type of types.py; is_array = isinstance(t_constructor, jt.ArrayType) *)

Definition is_void_cls (c : jcls) : bool := match c with JVoid => true | _ => false end.

(* JavaTranslator.get_type_name(t, get_boxed_void, box) together with type_arg2str *)
Fixpoint type_name_gen (bv box : bool) (t : ptype) : string :=
  match t with
  | TName c _ n => if bv && is_void_cls c then "Void" else if box then boxed n else n
  | TWild _ b => match b with Some t' => type_name_gen bv box t' | None => EmptyString end
  | TApp n arr _ args =>
      if arr
      then match args with a :: _ => (type_name_gen false true a ++ "[]")%string | [] => "[]" end
      else (n ++ "<" ++
           join ", " (map (fun a =>
                             match a with
                             | TWild v b =>
                                 match v with
                                 | 0 => "?"
                                 | 1 => "? extends " ++ match b with Some t' => type_name_gen true true t' | None => EmptyString end
                                 | _ => "? super " ++ match b with Some t' => type_name_gen true true t' | None => EmptyString end
                                 end
                             | _ => type_name_gen true true a
                             end) args) ++ ">")%string
  end.

(* get_type_name(t) *)
Definition type_name (t : ptype) : string := type_name_gen false false t.

Definition opt_name (f : ptype -> string) (t : option ptype) : string :=
  match t with Some t' => f t' | None => EmptyString end.

(* the attribute `.name` *)
Definition ptype_dot_name (t : ptype) : string :=
  match t with TName _ _ n => n | TWild _ _ => "*" | TApp n _ _ _ => n end.

(* `t == jt.Void` / isinstance(t, jt.VoidType) *)
Definition is_void_ty (t : ptype) : bool :=
  match t with TName JVoid _ _ => true | _ => false end.

Definition opt_is_void (t : option ptype) : bool :=
  match t with Some t' => is_void_ty t' | None => false end.

Definition ty_is_app (t : ptype) : bool := match t with TApp _ _ _ _ => true | _ => false end.
Definition ty_is_primitive (t : ptype) : bool := match t with TName _ p _ => p | _ => false end.
Definition ty_can_infer (t : ptype) : bool := match t with TApp _ _ ci _ => ci | _ => false end.
Definition ty_arg0 (t : ptype) : option ptype := match t with TApp _ _ _ (a :: _) => Some a | _ => None end.
Definition opt_kind_ty (f : ptype -> bool) (t : option ptype) : bool :=
  match t with Some t' => f t' | None => false end.

(* getattr(t, 'is_function_type', lambda: False)() *)
Definition ty_is_fun (t : ptype) : bool :=
  match t with TApp n _ _ _ => String.prefix "Function" n | _ => false end.

Definition opt_is_fun (t : option ptype) : bool :=
  match t with Some t' => ty_is_fun t' | None => false end.

(* ------------------------------------------------------------------------------------ *)
(* the tree                                                                               *)

(* what the serialiser evaluated for the last statement of a Block *)
Record bhint := mkHint {
  h_void : bool;             (* isinstance(get_type_hint(last, no smart casts), jt.VoidType) *)
  h_ty : option ptype;       (* get_type_hint(last, smart_casts=self.smart_casts) *)
  h_sig : option ptype       (* get_function_reference_type(last, ...) when last is a FunctionReference *)
}.

Inductive pkind :=
| KBlock (h : bhint)
| KSuper (class_type : ptype) (is_builtin : bool)
| KClass (name : string) (class_type : nat) (is_final : bool) (nfields nsupers nfuncs : nat)
| KTypeParam (name : string) (bound : option ptype)
| KVarDecl (name : string) (is_final : bool) (var_type : option ptype) (inferred : ptype)
| KCallArg
| KField (name : string) (ftype : ptype) (is_final : bool)
| KParam (name : string) (param_type : ptype) (vararg : bool)
| KFunc (name : string) (ret_type : option ptype) (inferred : ptype) (is_final has_body : bool)
        (nparams ntparams : nat)
| KLambda (name : string) (ret_type : option ptype) (nparams : nat) (has_body : bool)
| KBottom (t : option ptype) (cast : bool)        (* cast = bool(node.t and node.t != tp.Nothing) *)
| KInt (lit : string) (integer_type : option ptype)
| KReal (lit : string) (real_type : option ptype)
| KChar (lit : string)
| KString (lit : string)
| KBool (lit : string)
| KArray (array_type : ptype) (length : nat)
| KVariable (name : string)
| KBinOp (op : string) (is_not : bool)
| KCond
| KIs (is_not : bool) (rexpr_name : string) (rexpr : ptype)     (* rexpr_name = node.rexpr.get_name() *)
| KNew (class_type : ptype)
| KFieldAccess (field : string)
| KFuncRef (func : string)
| KFuncCall (func : string) (type_args : list ptype) (can_infer is_ref_call has_receiver : bool)
| KAssign (name : string) (has_receiver : bool).

Inductive pnode := PN (k : pkind) (children : list pnode).

Definition kind_of (n : pnode) : pkind := match n with PN k _ => k end.
Definition children_of (n : pnode) : list pnode := match n with PN _ cs => cs end.

(* what visit_func_call reads from ctx.get_decl(context, namespace, func) when that is a
   FunctionDeclaration: is_nested_func(), len(params), params[-1].vararg, params[-1].param_type *)
Record call_info := mkCall {
  ci_nested : bool;
  ci_nparams : nat;
  ci_vararg : bool;
  ci_vtype : option ptype
}.

Record jctx := mkCtx {
  main_vars : list string;     (* names with exactly one 'vars' declaration in the context, a global one *)
  main_funcs : list string;    (* the same for 'funcs' *)
  ifaces : list string;        (* classes of the context whose class_type is INTERFACE *)
  fun_ns : list (list string); (* namespaces (reversed) that are a function or lambda of the context *)
  funcref_tab : list (list string * string * string);    (* (namespace, func) -> receiver of visit_func_ref *)
  call_tab : list (list string * string * call_info)
}.

Record pprogram := mkProgram {
  pctx : jctx;
  decls : list pnode        (* Program.children() *)
}.

Definition empty_ctx : jctx := mkCtx [] [] [] [] [] [].

Definition is_block_kind (k : pkind) : bool := match k with KBlock _ => true | _ => false end.
Definition is_bottom_kind (k : pkind) : bool := match k with KBottom _ _ => true | _ => false end.
Definition is_lambda_kind (k : pkind) : bool := match k with KLambda _ _ _ _ => true | _ => false end.
Definition is_funcref_kind (k : pkind) : bool := match k with KFuncRef _ => true | _ => false end.

(* isinstance(node, (ast.VariableDeclaration, ast.FunctionCall, ast.Assignment)) *)
Definition is_decl_call_assign (k : pkind) : bool :=
  match k with KVarDecl _ _ _ _ | KFuncCall _ _ _ _ _ | KAssign _ _ => true | _ => false end.

Definition last_kind (cs : list pnode) : option pkind :=
  match rev cs with c :: _ => Some (kind_of c) | [] => None end.

Definition opt_kind (f : pkind -> bool) (k : option pkind) : bool :=
  match k with Some k' => f k' | None => false end.

(* isinstance(children[-1], ast.Block) *)
Definition last_is_block (cs : list pnode) : bool := opt_kind is_block_kind (last_kind cs).

(* isinstance(children[0], ast.BottomConstant) *)
Definition first_is_bottom (cs : list pnode) : bool :=
  match cs with c :: _ => is_bottom_kind (kind_of c) | [] => false end.

(* node.is_bottom() *)
Fixpoint is_bottom_node (n : pnode) : bool :=
  match n with
  | PN k cs =>
      match k with
      | KBottom _ _ => true
      | KBlock _ =>
          (fix lastb (l : list pnode) : bool :=
             match l with
             | [] => true
             | x :: r => match r with [] => is_bottom_node x | _ => lastb r end
             end) cs
      | KCond => match cs with _ :: t :: f :: _ => is_bottom_node t && is_bottom_node f | _ => false end
      | _ => false
      end
  end.

Definition last_is_bottom (cs : list pnode) : bool :=
  match rev cs with c :: _ => is_bottom_node c | [] => false end.

(* str(Operator) *)
Definition op_str (op : string) (is_not : bool) : string :=
  if is_not then ("!" ++ op)%string else op.

(* ------------------------------------------------------------------------------------ *)
(* the translator object                                                                  *)

Record st := mkSt {
  ident : nat;
  cast_number : bool;
  fnv : bool;
  nfb : bool;
  inside_is : bool;
  inside_is_function : bool;
  children_res : list segs;
  main_children : list segs;
  main_method : segs;
  nodes_stack : list (option pkind);
  is_stack : list (option string);
  namespace : list string;
  fun_ifaces : list nat;
  x_counter : nat;
  smart_casts : list (pnode * ptype);
  context : option jctx;
  types_set : bool
}.

Definition set_ident (v : nat) (s : st) : st :=
  mkSt v (cast_number s) (fnv s) (nfb s) (inside_is s) (inside_is_function s) (children_res s) (main_children s) (main_method s) (nodes_stack s) (is_stack s) (namespace s) (fun_ifaces s) (x_counter s) (smart_casts s) (context s) (types_set s).
Definition set_cast_number (v : bool) (s : st) : st :=
  mkSt (ident s) v (fnv s) (nfb s) (inside_is s) (inside_is_function s) (children_res s) (main_children s) (main_method s) (nodes_stack s) (is_stack s) (namespace s) (fun_ifaces s) (x_counter s) (smart_casts s) (context s) (types_set s).
Definition set_fnv (v : bool) (s : st) : st :=
  mkSt (ident s) (cast_number s) v (nfb s) (inside_is s) (inside_is_function s) (children_res s) (main_children s) (main_method s) (nodes_stack s) (is_stack s) (namespace s) (fun_ifaces s) (x_counter s) (smart_casts s) (context s) (types_set s).
Definition set_nfb (v : bool) (s : st) : st :=
  mkSt (ident s) (cast_number s) (fnv s) v (inside_is s) (inside_is_function s) (children_res s) (main_children s) (main_method s) (nodes_stack s) (is_stack s) (namespace s) (fun_ifaces s) (x_counter s) (smart_casts s) (context s) (types_set s).
Definition set_inside_is (v : bool) (s : st) : st :=
  mkSt (ident s) (cast_number s) (fnv s) (nfb s) v (inside_is_function s) (children_res s) (main_children s) (main_method s) (nodes_stack s) (is_stack s) (namespace s) (fun_ifaces s) (x_counter s) (smart_casts s) (context s) (types_set s).
Definition set_inside_is_function (v : bool) (s : st) : st :=
  mkSt (ident s) (cast_number s) (fnv s) (nfb s) (inside_is s) v (children_res s) (main_children s) (main_method s) (nodes_stack s) (is_stack s) (namespace s) (fun_ifaces s) (x_counter s) (smart_casts s) (context s) (types_set s).
Definition set_children_res (v : list segs) (s : st) : st :=
  mkSt (ident s) (cast_number s) (fnv s) (nfb s) (inside_is s) (inside_is_function s) v (main_children s) (main_method s) (nodes_stack s) (is_stack s) (namespace s) (fun_ifaces s) (x_counter s) (smart_casts s) (context s) (types_set s).
Definition set_main_children (v : list segs) (s : st) : st :=
  mkSt (ident s) (cast_number s) (fnv s) (nfb s) (inside_is s) (inside_is_function s) (children_res s) v (main_method s) (nodes_stack s) (is_stack s) (namespace s) (fun_ifaces s) (x_counter s) (smart_casts s) (context s) (types_set s).
Definition set_main_method (v : segs) (s : st) : st :=
  mkSt (ident s) (cast_number s) (fnv s) (nfb s) (inside_is s) (inside_is_function s) (children_res s) (main_children s) v (nodes_stack s) (is_stack s) (namespace s) (fun_ifaces s) (x_counter s) (smart_casts s) (context s) (types_set s).
Definition set_nodes_stack (v : list (option pkind)) (s : st) : st :=
  mkSt (ident s) (cast_number s) (fnv s) (nfb s) (inside_is s) (inside_is_function s) (children_res s) (main_children s) (main_method s) v (is_stack s) (namespace s) (fun_ifaces s) (x_counter s) (smart_casts s) (context s) (types_set s).
Definition set_is_stack (v : list (option string)) (s : st) : st :=
  mkSt (ident s) (cast_number s) (fnv s) (nfb s) (inside_is s) (inside_is_function s) (children_res s) (main_children s) (main_method s) (nodes_stack s) v (namespace s) (fun_ifaces s) (x_counter s) (smart_casts s) (context s) (types_set s).
Definition set_namespace (v : list string) (s : st) : st :=
  mkSt (ident s) (cast_number s) (fnv s) (nfb s) (inside_is s) (inside_is_function s) (children_res s) (main_children s) (main_method s) (nodes_stack s) (is_stack s) v (fun_ifaces s) (x_counter s) (smart_casts s) (context s) (types_set s).
Definition set_fun_ifaces (v : list nat) (s : st) : st :=
  mkSt (ident s) (cast_number s) (fnv s) (nfb s) (inside_is s) (inside_is_function s) (children_res s) (main_children s) (main_method s) (nodes_stack s) (is_stack s) (namespace s) v (x_counter s) (smart_casts s) (context s) (types_set s).
Definition set_x_counter (v : nat) (s : st) : st :=
  mkSt (ident s) (cast_number s) (fnv s) (nfb s) (inside_is s) (inside_is_function s) (children_res s) (main_children s) (main_method s) (nodes_stack s) (is_stack s) (namespace s) (fun_ifaces s) v (smart_casts s) (context s) (types_set s).
Definition set_smart_casts (v : list (pnode * ptype)) (s : st) : st :=
  mkSt (ident s) (cast_number s) (fnv s) (nfb s) (inside_is s) (inside_is_function s) (children_res s) (main_children s) (main_method s) (nodes_stack s) (is_stack s) (namespace s) (fun_ifaces s) (x_counter s) v (context s) (types_set s).
Definition set_context (v : option jctx) (s : st) : st :=
  mkSt (ident s) (cast_number s) (fnv s) (nfb s) (inside_is s) (inside_is_function s) (children_res s) (main_children s) (main_method s) (nodes_stack s) (is_stack s) (namespace s) (fun_ifaces s) (x_counter s) (smart_casts s) v (types_set s).
Definition set_types_set (v : bool) (s : st) : st :=
  mkSt (ident s) (cast_number s) (fnv s) (nfb s) (inside_is s) (inside_is_function s) (children_res s) (main_children s) (main_method s) (nodes_stack s) (is_stack s) (namespace s) (fun_ifaces s) (x_counter s) (smart_casts s) (context s) v.

Record translator := mkTr {
  tst : st;
  program : option segs                (* self.program *)
}.

(* JavaTranslator.__init__ / _reset_state *)
Definition init_st : st :=
  mkSt 0 false false false false false [] [] [] [None] [None] ["global"] [0; 1; 2; 3] 0 [] None false.
Definition init_tr : translator := mkTr init_st None.

(* self._children_res.append(r) *)
Definition push (r : segs) (s : st) : st := set_children_res (r :: children_res s) s.

(* pop_children_res(children), n = len(children) *)
Definition pop_res (n : nat) (s : st) : list segs * st :=
  (rev (firstn n (children_res s)), set_children_res (skipn n (children_res s)) s).

Definition ctx_of (s : st) : jctx := match context s with Some c => c | None => empty_ctx end.

Fixpoint list_str_eqb (a b : list string) : bool :=
  match a, b with
  | [], [] => true
  | x :: a', y :: b' => String.eqb x y && list_str_eqb a' b'
  | _, _ => false
  end.

Fixpoint mem_ns (x : list string) (l : list (list string)) : bool :=
  match l with [] => false | y :: r => list_str_eqb x y || mem_ns x r end.

Fixpoint lookup2 {A} (ns : list string) (name : string) (l : list (list string * string * A)) : option A :=
  match l with
  | [] => None
  | (ns', name', v) :: r => if list_str_eqb ns ns' && String.eqb name name' then Some v else lookup2 ns name r
  end.

(* self._visit_is_stack.count(name) *)
Fixpoint count_name (name : string) (l : list (option string)) : nat :=
  match l with
  | [] => 0
  | Some x :: r => (if String.eqb x name then 1 else 0) + count_name name r
  | None :: r => count_name name r
  end.

Fixpoint repeat_str (x : string) (n : nat) : string :=
  match n with 0 => EmptyString | S k => (x ++ repeat_str x k)%string end.

(* _get_main_prefix('vars' | 'funcs', name) *)
Definition main_prefix (tab : list string) (name : string) (s : st) : string :=
  if mem_str name tab && Nat.eqb (count_name name (is_stack s)) 0 then "Main." else "".

Definition ns_is_global (ns : list string) : bool := list_str_eqb ns ["global"].

(* (self._namespace[-2],) == ast.GLOBAL_NAMESPACE *)
Definition ns_parent_global (ns : list string) : bool :=
  match ns with _ :: p :: _ => String.eqb p "global" | _ => false end.

(* is_nested_func() of visit_func_decl *)
Definition is_nested_func (s : st) : bool :=
  match namespace s with
  | _ :: parent =>
      mem_ns parent (fun_ns (ctx_of s)) ||
      match parent with
      | pn :: _ => String.eqb pn "true_block" || String.eqb pn "false_block"
      | [] => false
      end
  | [] => false
  end.

(* get_ident() / get_ident(extra=..) / get_ident(old_ident=..) *)
Definition gi (s : st) : string := spaces (ident s).
Definition gi_old (old : nat) (s : st) : string := spaces (if Nat.eqb old 0 then ident s else old).

Definition parent_kind (s : st) : option pkind := nth 1 (nodes_stack s) None.

Definition parent_is_block (s : st) : bool := opt_kind is_block_kind (parent_kind s).
Definition parent_is_function (s : st) : bool :=
  opt_kind (fun k => match k with KLambda _ _ _ _ | KFunc _ _ _ _ _ _ _ => true | _ => false end) (parent_kind s).
Definition parent_is_func_ref (s : st) : bool := opt_kind is_funcref_kind (parent_kind s).

(* ";" if self._parent_is_block() else "" *)
Definition semi (s : st) : string := if parent_is_block s then ";" else "".

(* self._function_interfaces.add(n) *)
Fixpoint add_iface (n : nat) (l : list nat) : list nat :=
  match l with
  | [] => [n]
  | x :: r => if Nat.eqb n x then l else if Nat.ltb n x then n :: l else x :: add_iface n r
  end.

(* ------------------------------------------------------------------------------------ *)
(* the visit_* methods; each returns the string the method returns and the state            *)

(* `c.accept(self)` for a child c: the visit of that child as a function of the state.  The
   methods below receive `kids`, the list of these functions for node.children() (in order),
   next to the children themselves (`cs`, for the isinstance tests on children). *)
Definition kid := st -> st.

(* for c in children: c.accept(self) *)
Definition visit_children (kids : list kid) (s : st) : st :=
  fold_left (fun s (k : kid) => k s) kids s.

(* ---- visit_block *)
(* the loop: the last child is visited with _cast_number = True *)
Fixpoint visit_block_children (kids : list kid) (s : st) : st :=
  match kids with
  | [] => s
  | c :: r =>
      match r with
      | [] => let prev := cast_number s in
              let s := set_cast_number true s in
              let s := c s in
              set_cast_number prev s
      | _ => visit_block_children r (c s)
      end
  end.

Record block_plan := mkPlan {
  bp_ret : string;         (* what is appended to return_stmt = "\n" + ident *)
  bp_sugar : string;
  bp_sugar_semi : string;
  bp_x : nat               (* _x_counter afterwards *)
}.

Definition x_name (x : nat) : string := ("x_" ++ nat_str x)%string.

Definition block_plan_of (h : bhint) (cs : list pnode) (pif fnv0 nfb0 : bool) (x : nat) : block_plan :=
  let lk := last_kind cs in
  let dca := opt_kind is_decl_call_assign lk in
  if negb pif then
    if negb (nonempty cs) then mkPlan "return null;" "" "" x
    else if h_void h then
      if negb dca then mkPlan "return null;" ("Object " ++ x_name x ++ " = ") "" (S x)
      else mkPlan "return null;" "" "" x
    else mkPlan "" "return " "" x
  else if fnv0 then mkPlan "" "return " "" x
  else
    let rn := if nfb0 then "return null;" else "" in
    if nonempty cs && negb dca then
      let is_bottom := last_is_bottom cs in
      let is_lambda := opt_is_fun (h_ty h) in
      let var_prefix :=
        if is_bottom then "Object"
        else if is_lambda then opt_name type_name (h_ty h)
        else if opt_kind is_funcref_kind lk
             then let sig := opt_name (type_name_gen true true) (h_sig h) in
                  if str_empty sig then "var" else sig
             else "Object" in
      let sugar_semi := if negb is_bottom && is_lambda && opt_kind is_lambda_kind lk then ";" else "" in
      mkPlan (rn ++ (if is_lambda && str_empty rn then ";" else ""))
             (var_prefix ++ " " ++ x_name x ++ " = ") sugar_semi (S x)
    else mkPlan rn "" "" x.

Definition sugared_last (pl : block_plan) (c : segs) : segs :=
  add_sugar (T (bp_sugar pl)) c ++ T (bp_sugar_semi pl).

Definition block_body_text (pl : block_plan) (idt : nat) (cr : list segs) : segs :=
  let ret := T nl ++ T (spaces idt) ++ T (bp_ret pl) in
  match cr with
  | [] => brace (T " " ++ ret ++ T (spaces (idt - 2)))
  | [c0] => brace (T nl ++ T (spaces idt) ++ strip_segs (sugared_last pl c0) ++ ret ++ T nl ++
                   T (spaces (idt - 2)))
  | _ => brace (T nl ++ joins (T nl) (removelast cr ++ [sugared_last pl (last_seg cr)]) ++ ret ++ T nl ++
                T (spaces (idt - 2)))
  end.

(* "((Function0<{etype}>) (() -> {res})).apply()" *)
Definition block_wrap (h : bhint) (cs : list pnode) (res : segs) : segs :=
  let etype := if nonempty cs then opt_name (type_name_gen true false) (h_ty h) else "Void" in
  paren (paren (T "Function0<" ++ T (boxed etype) ++ T ">") ++ T " " ++
         paren (paren [] ++ T " -> " ++ res)) ++ T ".apply" ++ paren [].

Definition visit_block (kids : list kid) (h : bhint) (cs : list pnode) (s : st) : segs * st :=
  let fnv0 := fnv s in
  let nfb0 := nfb s in
  let s := set_fnv false s in
  let s := set_nfb false s in
  let s := visit_block_children kids s in
  let (cr, s) := pop_res (List.length cs) s in
  let s := set_fnv fnv0 s in
  let s := set_nfb nfb0 s in
  let pif := parent_is_function s in
  let pl := block_plan_of h cs pif fnv0 nfb0 (x_counter s) in
  let s := set_x_counter (bp_x pl) s in
  let res := block_body_text pl (ident s) cr in
  (if pif then res else block_wrap h cs res, s).

(* ---- visit_call_argument *)
Definition visit_call_argument (kids : list kid) (cs : list pnode) (s : st) : segs * st :=
  let old_ident := ident s in
  let s := set_ident 0 s in
  let s := visit_children kids s in
  let s := set_ident old_ident s in
  let (cr, s) := pop_res (List.length cs) s in
  (nth_seg 0 cr, s).

(* ---- visit_bottom_constant *)
Definition bottom_text (t : option ptype) (cast pfr : bool) (idt : string) (sm : string) : segs :=
  let inner := (if cast then paren (T (opt_name type_name t)) ++ T " " else []) ++ T "null" in
  T idt ++ (if pfr then paren inner else inner) ++ T sm.

Definition visit_bottom_constant (t : option ptype) (cast : bool) (s : st) : segs * st :=
  (bottom_text t cast (parent_is_func_ref s) (gi s) (semi s), s).

(* ---- visit_super_instantiation: the arguments are NOT visited *)
Definition visit_super_instantiation (class_type : ptype) (s : st) : segs * st :=
  (T (type_name class_type), s).

(* ---- visit_class_decl *)
Definition class_prefix (class_type : nat) : string :=
  match class_type with 0 => "class" | 1 => "interface" | _ => "abstract class" end.

(* get_superclasses_interfaces: the printed types of node.superclasses, split by the class_type
   of the class the context has under that name *)
Definition supers_of (nf ns : nat) (cs : list pnode) : list ptype :=
  flat_map (fun c => match kind_of c with KSuper ct _ => [ct] | _ => [] end) (firstn ns (skipn nf cs)).

Definition split_supers (ifs : list string) (sup : list ptype) : list string * list string :=
  (map type_name (filter (fun ct => negb (mem_str (ptype_dot_name ct) ifs)) sup),
   map type_name (filter (fun ct => mem_str (ptype_dot_name ct) ifs) sup)).

(* get_constructor_params: an OrderedDict name -> type name *)
Fixpoint dict_set (k v : string) (d : list (string * string)) : list (string * string) :=
  match d with
  | [] => [(k, v)]
  | (k', v') :: r => if String.eqb k k' then (k, v) :: r else (k', v') :: dict_set k v r
  end.

Definition fields_of (nf : nat) (cs : list pnode) : list (string * string) :=
  flat_map (fun c => match kind_of c with KField n ft _ => [(n, type_name ft)] | _ => [] end) (firstn nf cs).

Definition constructor_params (fl : list (string * string)) : list (string * string) :=
  fold_left (fun d f => dict_set (fst f) (snd f) d) fl [].

(* the first superclass and what construct_constructor's JavaTranslator() returns for its
   arguments: None when there is no superclass *)
Definition nested_init (s : st) : st :=
  set_namespace (namespace s) (set_cast_number true (set_context (context s) init_st)).

Definition first_super (cs : list pnode) (gkids : list (list kid)) (s : st) : option (bool * bool * list segs) :=
  fold_left (fun acc (cg : pnode * list kid) =>
               match acc with
               | Some _ => acc
               | None =>
                   match cg with
                   | (PN (KSuper _ bi) args, g) =>
                       Some (bi, nonempty args, rev (children_res (visit_children g (nested_init s))))
                   | _ => None
                   end
               end) (combine cs gkids) None.

Definition super_call_text (sup : option (bool * bool * list segs)) (idt : nat) : segs :=
  match sup with
  | Some (false, has_args, res) =>
      T nl ++ T (spaces (idt + 2)) ++ T "super" ++
      paren (if has_args then collapse_segs false (joins (T ", ") res) else []) ++ T ";"
  | _ => []
  end.

Definition constructor_text (name : string) (fl : list (string * string))
    (sup : option (bool * bool * list segs)) (idt : nat) : segs :=
  let params := map (fun p => (snd p ++ " " ++ fst p)%string) (constructor_params fl) in
  let fields := map (fun f => ("this." ++ fst f ++ " = " ++ fst f ++ ";")%string) fl in
  let sep := (nl ++ spaces (idt + 2))%string in
  let constructor_fields := ((if nonempty fields then sep else "") ++ join sep fields)%string in
  T (spaces idt) ++ T "public " ++ T name ++ paren (T (join "," params)) ++ T " " ++
  brace (super_call_text sup idt ++ T constructor_fields ++ T nl ++
         T (if nonempty fields then spaces idt else "")).

Definition class_text (name : string) (class_type : nat) (is_final : bool) (nf ns nfn : nat)
    (cs : list pnode) (ifs : list string) (sup : option (bool * bool * list segs))
    (old_ident : nat) (cr : list segs) : segs :=
  let idt := old_ident + 2 in
  let field_res := firstn nf cr in
  let function_res := firstn nfn (skipn (nf + ns) cr) in
  let type_parameters_res := joins (T ", ") (skipn (nf + ns + nfn) cr) in
  let res := T (spaces old_ident) ++ T (if is_final then "final " else "") ++
             T (class_prefix class_type) ++ T " " ++ [Decl DClass name] in
  let res := if negb (segs_empty type_parameters_res)
             then res ++ T "<" ++ type_parameters_res ++ T ">" else res in
  let (superclasses, interfaces) := split_supers ifs (supers_of nf ns cs) in
  let res := if nonempty superclasses then res ++ T " extends " ++ T (join ", " superclasses) else res in
  let res := if nonempty interfaces
             then res ++ T (if Nat.eqb class_type 1 then " extends " else " implements ") ++
                  T (join ", " interfaces)
             else res in
  let inner :=
    if nonempty function_res || nonempty field_res || nonempty superclasses then
      T nl ++
      (if nonempty field_res
       then T (spaces idt) ++ joins (T (nl ++ spaces idt)%string) field_res ++ T (nl ++ nl)%string
       else []) ++
      (if nonempty superclasses || nonempty field_res
       then constructor_text name (fields_of nf cs) sup idt ++
            (if nonempty function_res then T (nl ++ nl)%string else [])
       else []) ++
      (if nonempty function_res then joins (T (nl ++ nl)%string) function_res else []) ++
      T nl ++ T (spaces (idt - 4))
    else [] in
  res ++ T " " ++ brace inner.

Definition visit_class_decl (kids : list kid) (gkids : list (list kid)) (name : string) (class_type : nat)
    (is_final : bool) (nf ns nfn : nat) (cs : list pnode) (s : st) : segs * st :=
  let old_ident := ident s in
  let s := set_ident (ident s + 2) s in
  let s := visit_children kids s in
  let (cr, s) := pop_res (List.length cs) s in
  let sup := if Nat.eqb ns 0 then None else first_super cs gkids s in
  let res := class_text name class_type is_final nf ns nfn cs (ifaces (ctx_of s)) sup old_ident cr in
  (res, set_ident old_ident s).

(* ---- visit_type_param *)
Definition type_param_text (name : string) (bound : option ptype) : segs :=
  [Decl DTypeParam name] ++
  match bound with Some b => T " extends " ++ T (boxed (type_name b)) | None => [] end.

Definition visit_type_param (name : string) (bound : option ptype) (s : st) : segs * st :=
  (type_param_text name bound, s).

(* ---- visit_var_decl: the printed type is ALWAYS the inferred type; var_type is not read *)
Definition var_decl_text (name : string) (is_final : bool) (inferred : ptype) (mp : string)
    (idt : string) (cr : list segs) : segs :=
  T idt ++ T (if is_final then "final " else "") ++ T (type_name inferred) ++ T " " ++ T mp ++
  [Decl DVar name] ++ T " = " ++ lstrip_segs (nth_seg 0 cr) ++ T ";".

Definition visit_var_decl (kids : list kid) (name : string) (is_final : bool) (inferred : ptype)
    (cs : list pnode) (s : st) : segs * st :=
  let prev := cast_number s in
  let s := set_cast_number true s in
  let s := visit_children kids s in
  let (cr, s) := pop_res (List.length cs) s in
  let mp := if negb (ns_is_global (namespace s)) then main_prefix (main_vars (ctx_of s)) name s else "" in
  let res := var_decl_text name is_final inferred mp (gi s) cr in
  (res, set_cast_number prev s).

(* ---- visit_field_decl *)
Definition field_text (name : string) (ftype : ptype) (is_final : bool) : segs :=
  T "public " ++ T (if is_final then "final " else "") ++ T (type_name ftype) ++ T " " ++
  [Decl DField name] ++ T ";".

Definition visit_field_decl (name : string) (ftype : ptype) (is_final : bool) (s : st) : segs * st :=
  (field_text name ftype is_final, s).

(* ---- visit_param_decl: a default value (the child) is neither visited nor printed *)
Definition param_print_type (param_type : ptype) (vararg : bool) : string :=
  if vararg
  then match param_type with
       | TApp _ _ _ (a :: _) => type_name a
       | _ => type_name param_type
       end
  else type_name param_type.

Definition param_text (name : string) (param_type : ptype) (vararg : bool) : segs :=
  T (param_print_type param_type vararg) ++ T (if vararg then "..." else "") ++ T " " ++ [Decl DParam name].

Definition visit_param_decl (name : string) (param_type : ptype) (vararg : bool) (s : st) : segs * st :=
  (param_text name param_type vararg, s).

(* ---- visit_func_decl *)
(* the body string of a function with an expression body *)
Definition expr_body (non_void : bool) (body_res : segs) : segs :=
  if non_void then add_sugar (T "return ") body_res else body_res.

Definition func_decl_text (name : string) (inferred : ptype) (is_final has_body : bool)
    (nparams ntparams : nat) (is_expression nested : bool) (close : string)
    (cr : list segs) : segs :=
  let param_res := firstn nparams cr in
  let type_parameters_res := joins (T ", ") (firstn ntparams (skipn nparams cr)) in
  let body_res := if has_body then last_seg cr else [] in
  let body :=
    if negb (segs_empty body_res) then
      if is_expression
      then brace (T nl ++ expr_body (negb (is_void_ty inferred)) body_res ++ T ";" ++ T nl ++ T close)
      else body_res
    else [] in
  if nested then
    let types := map (fun p => boxed (replace_dots (before_last_space (flatten p)))) param_res ++
                 [boxed (type_name_gen true false inferred)] in
    let params := map (fun p => [Decl DParam (last_token (flatten p))]) param_res in
    T close ++ T "Function" ++ T (nat_str (List.length param_res)) ++ T "<" ++ T (join ", " types) ++
    T "> " ++ [Decl DFunc name] ++ T " = " ++ paren (joins (T ", ") params) ++ T " -> " ++ body ++ T ";"
  else
    T close ++ T "public " ++ T (if is_final then "final " else "") ++
    T (if segs_empty body then "abstract " else "") ++
    (if negb (segs_empty type_parameters_res) then T "<" ++ type_parameters_res ++ T "> " else []) ++
    T (type_name inferred) ++ T " " ++ [Decl DFunc name] ++ paren (joins (T ", ") param_res) ++ T " " ++
    body ++ T (if segs_empty body then ";" else "").

Definition visit_func_decl (kids : list kid) (name : string) (inferred : ptype) (is_final has_body : bool)
    (nparams ntparams : nat) (cs : list pnode) (s : st) : segs * st :=
  let prev_iif := inside_is_function s in
  let s := if inside_is s then set_inside_is_function true s else s in
  let glob := ns_parent_global (namespace s) in
  let old_ident := ident s + (if glob then 2 else 0) in
  let s := set_ident (old_ident + 2) s in
  let prev_cast := cast_number s in
  let fnv0 := fnv s in
  let s := set_fnv (negb (is_void_ty inferred)) s in
  let nfb0 := nfb s in
  let nested := is_nested_func s in
  let s := set_nfb nested s in
  let is_expression := negb (has_body && last_is_block cs) in
  let s := if is_expression then set_cast_number true s else s in
  let s := visit_children kids s in
  let (cr, s) := pop_res (List.length cs) s in
  let nested := is_nested_func s in
  let s := if nested then set_fun_ifaces (add_iface nparams (fun_ifaces s)) s else s in
  let res := func_decl_text name inferred is_final has_body nparams ntparams is_expression nested
                            (gi_old old_ident s) cr in
  let s := set_ident (old_ident - (if glob then 2 else 0)) s in
  let s := set_fnv fnv0 s in
  let s := set_nfb nfb0 s in
  let s := set_cast_number prev_cast s in
  let s := if inside_is s then set_inside_is_function prev_iif s else s in
  (res, s).

(* ---- visit_lambda *)
Definition lambda_text (ret_type : option ptype) (nparams : nat) (has_body is_expression : bool)
    (sm : string) (cr : list segs) : segs :=
  let param_res := firstn nparams cr in
  let body_res := if has_body then last_seg cr else [] in
  let body :=
    if negb (segs_empty body_res) then
      if is_expression
      then brace (expr_body (negb (opt_is_void ret_type)) body_res ++ T ";") ++ T sm
      else body_res ++ T sm
    else [] in
  paren (joins (T ", ") param_res) ++ T " -> " ++ body.

Definition visit_lambda (kids : list kid) (ret_type : option ptype) (nparams : nat) (has_body : bool)
    (cs : list pnode) (s : st) : segs * st :=
  let prev_iif := inside_is_function s in
  let s := if inside_is s then set_inside_is_function true s else s in
  let glob := ns_parent_global (namespace s) in
  let old_ident := ident s + (if glob then 2 else 0) in
  let s := set_ident (old_ident + 2) s in
  let prev_cast := cast_number s in
  let fnv0 := fnv s in
  let s := set_fnv (negb (opt_is_void ret_type)) s in
  let is_expression := negb (has_body && last_is_block cs) in
  let s := if is_expression then set_cast_number true s else s in
  let s := visit_children kids s in
  let (cr, s) := pop_res (List.length cs) s in
  let res := lambda_text ret_type nparams has_body is_expression (semi s) cr in
  let s := set_ident (old_ident - (if glob then 2 else 0)) s in
  let s := set_fnv fnv0 s in
  let s := set_cast_number prev_cast s in
  let s := if inside_is s then set_inside_is_function prev_iif s else s in
  (res, s).

(* ---- constants *)
Definition integer_cast (lit : string) (t : option ptype) : segs :=
  match t with
  | Some (TName JLong _ _) => paren (T "long") ++ [Lit lit]
  | Some (TName JShort _ _) => paren (T "short") ++ [Lit lit]
  | Some (TName JByte _ _) => paren (T "byte") ++ [Lit lit]
  | Some (TName JNumber _ _) => paren (T "Number") ++ T " new Long" ++ paren [Lit lit]
  | _ => [Lit lit]
  end.

Definition integer_text (lit : string) (t : option ptype) (cast : bool) (idt sm : string) : segs :=
  T idt ++ (if cast then integer_cast lit t else [Lit lit]) ++ T sm.

Definition visit_integer_constant (lit : string) (t : option ptype) (s : st) : segs * st :=
  (integer_text lit t (cast_number s) (gi s) (semi s), s).

Definition real_cast (lit : string) (t : option ptype) : segs :=
  match t with
  | Some (TName JFloat _ _) => paren (T "float") ++ [Lit lit]
  | Some (TName JNumber _ _) => paren (T "Number") ++ T " new Double" ++ paren [Lit lit]
  | _ => [Lit lit]
  end.

Definition real_text (lit : string) (t : option ptype) (cast : bool) (idt sm : string) : segs :=
  T idt ++ (if cast then real_cast lit t else [Lit lit]) ++ T sm.

Definition visit_real_constant (lit : string) (t : option ptype) (s : st) : segs * st :=
  (real_text lit t (cast_number s) (gi s) (semi s), s).

Definition char_text (lit : string) (idt sm : string) : segs :=
  T idt ++ T " '" ++ [Lit lit] ++ T "'" ++ T sm.

Definition visit_char_constant (lit : string) (s : st) : segs * st := (char_text lit (gi s) (semi s), s).

Definition string_text (lit : string) (idt sm : string) : segs :=
  T idt ++ T dquote ++ [Lit lit] ++ T dquote ++ T sm.

Definition visit_string_constant (lit : string) (s : st) : segs * st := (string_text lit (gi s) (semi s), s).

Definition boolean_text (lit : string) (idt sm : string) : segs := T idt ++ [Lit lit] ++ T sm.

Definition visit_boolean_constant (lit : string) (s : st) : segs * st := (boolean_text lit (gi s) (semi s), s).

(* ---- visit_array_expr *)
Definition array_empty_text (array_type : ptype) (idt sm : string) : segs :=
  let a0 := ty_arg0 array_type in
  let new_stmt :=
    if opt_kind_ty ty_is_app a0
    then paren (T (opt_name type_name a0) ++ bracket []) ++ T " new Object"
    else T "new " ++ T (opt_name type_name a0) in
  T idt ++ new_stmt ++ bracket (T "0") ++ T sm.

Definition array_new_stmt (t : ptype) : segs :=
  if ty_is_app t && negb (opt_kind_ty ty_is_primitive (ty_arg0 t))
  then paren (T (type_name t)) ++ T " new Object" ++ bracket []
  else T "new " ++ T (type_name t).

Definition array_text (array_type : ptype) (idt sm : string) (cr : list segs) : segs :=
  T idt ++ array_new_stmt array_type ++ brace (joins (T ", ") cr) ++ T sm.

Definition visit_array_expr (kids : list kid) (array_type : ptype) (length : nat)
    (cs : list pnode) (s : st) : segs * st :=
  if Nat.eqb length 0
  then (array_empty_text array_type (gi s) (semi s), s)
  else
    let old_ident := ident s in
    let prev := cast_number s in
    let s := set_cast_number true s in
    let s := set_ident 0 s in
    let s := visit_children kids s in
    let (cr, s) := pop_res (List.length cs) s in
    let s := set_cast_number prev s in
    let s := set_ident old_ident s in
    (array_text array_type (gi s) (semi s) cr, s).

(* ---- visit_variable *)
Definition variable_text (name mp : string) (k : nat) (idt sm : string) : segs :=
  T idt ++ T mp ++ T name ++ T (repeat_str "_is" k) ++ T sm.

Definition visit_variable (name : string) (s : st) : segs * st :=
  (variable_text name (main_prefix (main_vars (ctx_of s)) name s) (count_name name (is_stack s))
                 (gi s) (semi s), s).

(* ---- visit_binary_op *)
Definition binary_op_text (op : string) (is_not : bool) (idt sm : string) (cr : list segs) : segs :=
  T idt ++ paren (nth_seg 0 cr ++ T " " ++ [Op (op_str op is_not)] ++ T " " ++ nth_seg 1 cr) ++ T sm.

Definition visit_binary_op (kids : list kid) (op : string) (is_not : bool) (cs : list pnode) (s : st) : segs * st :=
  let old_ident := ident s in
  let s := set_ident 0 s in
  let s := visit_children kids s in
  let (cr, s) := pop_res (List.length cs) s in
  let res := binary_op_text op is_not (gi_old old_ident s) (semi s) cr in
  (res, set_ident old_ident s).

(* ---- visit_conditional *)
Definition conditional_text (idt sm : string) (cr : list segs) : segs :=
  T idt ++ paren (paren (lstrip_segs (nth_seg 0 cr)) ++ T " ?" ++ T nl ++ nth_seg 1 cr ++ T " : " ++ T nl ++
                  T " " ++ nth_seg 2 cr) ++ T sm.

Definition lexpr_of (n : pnode) : pnode :=
  match n with PN _ (l :: _) => l | _ => n end.

Definition visit_conditional (kids : list kid) (cs : list pnode) (s : st) : segs * st :=
  let prev_inside_is := inside_is s in
  let s := set_inside_is true s in
  let old_ident := ident s in
  let s := set_ident (ident s + 2) s in
  let prev_namespace := namespace s in
  let s :=
    match kids with
    | [vcond; vtb; vfb] =>
        let cond := nth 0 cs (PN KCond []) in
        let s := vcond s in
        match kind_of cond with
        | KIs is_not _ rx =>
            if negb is_not then
              let s := set_namespace ("true_block" :: prev_namespace) s in
              let s := set_smart_casts ((lexpr_of cond, rx) :: smart_casts s) s in
              let s := vtb s in
              let s := set_smart_casts (tl (smart_casts s)) s in
              let s := set_is_stack (tl (is_stack s)) s in
              let s := set_namespace ("false_block" :: prev_namespace) s in
              vfb s
            else
              let s := set_namespace ("true_block" :: prev_namespace) s in
              let s := set_is_stack (tl (is_stack s)) s in
              let s := vtb s in
              let s := set_namespace ("false_block" :: prev_namespace) s in
              let s := set_smart_casts ((lexpr_of cond, rx) :: smart_casts s) s in
              let s := vfb s in
              set_smart_casts (tl (smart_casts s)) s
        | _ => vfb (vtb s)
        end
    | _ => visit_children kids s          (* not the three children of a Conditional *)
    end in
  let (cr, s) := pop_res (List.length cs) s in
  let res := conditional_text (gi_old old_ident s) (semi s) cr in
  let s := set_ident old_ident s in
  let s := set_inside_is prev_inside_is s in
  let s := set_namespace prev_namespace s in
  (res, s).

(* ---- visit_is *)
Definition var_name_of (cs : list pnode) : option string :=
  match cs with PN (KVariable name) _ :: _ => Some name | _ => None end.

Definition is_text (is_not : bool) (rexpr_name : string) (new_var : string) (idt : string)
    (cr : list segs) : segs :=
  let body := nth_seg 0 cr ++ T " " ++ [Op "instanceof"] ++ T " " ++ T rexpr_name ++ T new_var in
  T idt ++ (if is_not then T "!" ++ paren body else body).

Definition visit_is (kids : list kid) (is_not : bool) (rexpr_name : string) (cs : list pnode) (s : st) : segs * st :=
  let old_ident := ident s in
  let s := set_ident 0 s in
  let s :=
    match kids with
    | c :: r =>
        let s := c s in
        let s := match var_name_of cs with
                 | Some name => set_is_stack (Some name :: is_stack s) s
                 | None => s
                 end in
        visit_children r s
    | [] => s
    end in
  let (cr, s) := pop_res (List.length cs) s in
  let new_var := match var_name_of cs with
                 | Some name => (" " ++ name ++ repeat_str "_is" (count_name name (is_stack s)))%string
                 | None => ""
                 end in
  let res := is_text is_not rexpr_name new_var (gi_old old_ident s) cr in
  (res, set_ident old_ident s).

(* ---- visit_new: the diamond iff can_infer_type_args is True *)
Definition new_type_text (class_type : ptype) : string :=
  if ty_can_infer class_type then (ptype_dot_name class_type ++ "<>")%string else type_name class_type.

Definition new_text (class_type : ptype) (idt sm : string) (cr : list segs) : segs :=
  T idt ++ T "new " ++ T (new_type_text class_type) ++ paren (joins (T ", ") cr) ++ T sm.

Definition visit_new (kids : list kid) (class_type : ptype) (cs : list pnode) (s : st) : segs * st :=
  let old_ident := ident s in
  let s := set_ident 0 s in
  let prev := cast_number s in
  let s := set_cast_number true s in
  let s := visit_children kids s in
  let (cr, s) := pop_res (List.length cs) s in
  let s := set_ident old_ident s in
  let res := new_text class_type (gi s) (semi s) cr in
  (res, set_cast_number prev s).

(* ---- visit_field_access *)
Definition field_access_text (field : string) (bottom : bool) (idt sm : string) (cr : list segs) : segs :=
  T idt ++ (if bottom then paren (nth_seg 0 cr) else nth_seg 0 cr) ++ T "." ++ T field ++ T sm.

Definition visit_field_access (kids : list kid) (field : string) (cs : list pnode) (s : st) : segs * st :=
  let old_ident := ident s in
  let s := set_ident 0 s in
  let s := visit_children kids s in
  let (cr, s) := pop_res (List.length cs) s in
  let s := set_ident old_ident s in
  (field_access_text field (first_is_bottom cs) (gi s) (semi s) cr, s).

(* ---- visit_func_ref *)
Definition func_ref_text (func : string) (table_receiver : string) (idt sm : string) (cr : list segs) : segs :=
  let receiver := if nonempty cr then nth_seg 0 cr else T table_receiver in
  T idt ++ receiver ++ T (if segs_empty receiver then "" else "::") ++ T func ++ T sm.

Definition visit_func_ref (kids : list kid) (func : string) (cs : list pnode) (s : st) : segs * st :=
  let old_ident := ident s in
  let s := set_ident 0 s in
  let s := visit_children kids s in
  let s := set_ident old_ident s in
  let (cr, s) := pop_res (List.length cs) s in
  let tr := match lookup2 (namespace s) func (funcref_tab (ctx_of s)) with Some r => r | None => "" end in
  (func_ref_text func tr (gi s) (semi s) cr, s).

(* ---- visit_func_call: type arguments are never printed *)
Definition vararg_array (vt : option ptype) (varargs : list segs) : segs :=
  (match vt with
   | Some t =>
       if negb (opt_kind_ty ty_is_primitive (ty_arg0 t))
       then paren (T (type_name t)) ++ T " new Object" ++ bracket []
       else T "new " ++ T (type_name t)
   | None => T "new "
   end) ++ brace (joins (T ", ") varargs).

Definition func_call_text (func : string) (is_ref_call has_receiver bottom : bool)
    (info : option call_info) (mp_funcs mp_vars : string) (idt sm : string) (cr : list segs) : segs :=
  let nested := match info with Some i => ci_nested i | None => false end in
  let receiver := if has_receiver then nth_seg 0 cr else [] in
  let args := if has_receiver then tl cr else cr in
  let args :=
    match info with
    | Some i =>
        if ci_nested i && Nat.ltb 0 (ci_nparams i) && ci_vararg i
        then firstn (ci_nparams i - 1) args ++ [vararg_array (ci_vtype i) (skipn (ci_nparams i - 1) args)]
        else args
    | None => args
    end in
  let receiver_expr :=
    if negb (segs_empty receiver)
    then (if bottom then paren (nth_seg 0 cr) else nth_seg 0 cr) ++ T "."
    else [] in
  T idt ++ T (if is_ref_call then mp_vars else "") ++ receiver_expr ++ T mp_funcs ++ T func ++
  T (if nested || is_ref_call then ".apply" else "") ++ paren (joins (T ", ") args) ++ T sm.

Definition visit_func_call (kids : list kid) (func : string) (is_ref_call has_receiver : bool)
    (cs : list pnode) (s : st) : segs * st :=
  let old_ident := ident s in
  let s := set_ident 0 s in
  let prev := cast_number s in
  let s := set_cast_number true s in
  let s := visit_children kids s in
  let s := set_ident old_ident s in
  let info := lookup2 (namespace s) func (call_tab (ctx_of s)) in
  let (cr, s) := pop_res (List.length cs) s in
  let res := func_call_text func is_ref_call has_receiver (first_is_bottom cs) info
                            (main_prefix (main_funcs (ctx_of s)) func s)
                            (main_prefix (main_vars (ctx_of s)) func s) (gi s) (semi s) cr in
  (res, set_cast_number prev s).

(* ---- visit_assign *)
Definition assign_text (name mp : string) (has_receiver bottom : bool) (idt : string) (cr : list segs) : segs :=
  let receiver := if has_receiver then nth_seg 0 cr else [] in
  let expr := if has_receiver then nth_seg 1 cr else nth_seg 0 cr in
  let receiver_expr :=
    if negb (segs_empty receiver)
    then (if bottom then paren (nth_seg 0 cr) else nth_seg 0 cr) ++ T "."
    else [] in
  T idt ++ receiver_expr ++ T mp ++ T name ++ T " = " ++ expr ++ T ";".

Definition visit_assign (kids : list kid) (name : string) (has_receiver : bool)
    (cs : list pnode) (s : st) : segs * st :=
  let old_ident := ident s in
  let s := set_ident 0 s in
  let prev := cast_number s in
  let s := set_cast_number true s in
  let s := visit_children kids s in
  let s := set_ident old_ident s in
  let (cr, s) := pop_res (List.length cs) s in
  let res := assign_text name (main_prefix (main_vars (ctx_of s)) name s) has_receiver (first_is_bottom cs)
                         (gi_old old_ident s) cr in
  let s := set_ident old_ident s in
  (res, set_cast_number prev s).

(* ---- the decorators *)
Definition is_main_func (k : pkind) : bool :=
  match k with KFunc name _ _ _ _ _ _ => String.eqb name "main" | _ => false end.

Definition is_var_or_func (k : pkind) : bool :=
  match k with KFunc _ _ _ _ _ _ _ | KVarDecl _ _ _ _ => true | _ => false end.

(* @append_to: _nodes_stack, and where the returned string goes *)
Definition route (k : pkind) (res : segs) (s : st) : st :=
  if ns_is_global (namespace s) && is_main_func k then set_main_method res s
  else if ns_is_global (namespace s) && is_var_or_func k then set_main_children (res :: main_children s) s
  else push res s.

Definition append_to (k : pkind) (f : st -> segs * st) (s : st) : st :=
  let s := set_nodes_stack (Some k :: nodes_stack s) s in
  let (res, s) := f s in
  let s := set_nodes_stack (tl (nodes_stack s)) s in
  route k res s.

(* @change_namespace *)
Definition change_namespace (name : string) (f : st -> segs * st) (s : st) : segs * st :=
  let initial := namespace s in
  let s := set_namespace (name :: initial) s in
  let (res, s) := f s in
  (res, set_namespace initial s).

(* ASTVisitor.visit: dispatch on the class of the node; kids = the visits of the children,
   gkids = the visits of the children's children (construct_constructor visits the arguments
   of the first superclass with another translator) *)
Definition visit_kind (k : pkind) (cs : list pnode) (kids : list kid) (gkids : list (list kid)) (s : st) : st :=
  match k with
  | KBlock h => append_to k (visit_block kids h cs) s
  | KSuper ct _ => append_to k (visit_super_instantiation ct) s
  | KClass name ct fin nf ns nfn =>
      append_to k (change_namespace name (visit_class_decl kids gkids name ct fin nf ns nfn cs)) s
  | KTypeParam name b => append_to k (visit_type_param name b) s
  | KVarDecl name fin _ inf => append_to k (visit_var_decl kids name fin inf cs) s
  | KCallArg => append_to k (visit_call_argument kids cs) s
  | KField name ft fin => append_to k (visit_field_decl name ft fin) s
  | KParam name pt va => append_to k (visit_param_decl name pt va) s
  | KFunc name _ inf fin hb np ntp =>
      append_to k (change_namespace name (visit_func_decl kids name inf fin hb np ntp cs)) s
  | KLambda name rt np hb => append_to k (change_namespace name (visit_lambda kids rt np hb cs)) s
  | KBottom t c => append_to k (visit_bottom_constant t c) s
  | KInt lit it => append_to k (visit_integer_constant lit it) s
  | KReal lit rt => append_to k (visit_real_constant lit rt) s
  | KChar lit => append_to k (visit_char_constant lit) s
  | KString lit => append_to k (visit_string_constant lit) s
  | KBool lit => append_to k (visit_boolean_constant lit) s
  | KArray at_ len => append_to k (visit_array_expr kids at_ len cs) s
  | KVariable name => append_to k (visit_variable name) s
  | KBinOp op nt => append_to k (visit_binary_op kids op nt cs) s
  | KCond => append_to k (visit_conditional kids cs) s
  | KIs nt rn _ => append_to k (visit_is kids nt rn cs) s
  | KNew ct => append_to k (visit_new kids ct cs) s
  | KFieldAccess f => append_to k (visit_field_access kids f cs) s
  | KFuncRef f => append_to k (visit_func_ref kids f cs) s
  | KFuncCall f _ _ rc hr => append_to k (visit_func_call kids f rc hr cs) s
  | KAssign name hr => append_to k (visit_assign kids name hr cs) s
  end.

(* node.accept(self): structural recursion through the children lists *)
Fixpoint visit (n : pnode) (s : st) {struct n} : st :=
  match n with
  | PN k cs =>
      visit_kind k cs (map (fun c => fun s' => visit c s') cs)
                 (map (fun c => map (fun g => fun s' => visit g s') (children_of c)) cs) s
  end.

(* ---- _get_functional_interfaces *)
Definition range (n : nat) : list nat := seq 0 n.

Definition functional_interface (number : nat) : segs :=
  let type_params := join ", " (map (fun i => if Nat.ltb i number then ("A" ++ nat_str (i + 1))%string else "R")
                                    (range (number + 1))) in
  let params := join ", " (map (fun i => ("A" ++ nat_str (i + 1) ++ " a" ++ nat_str (i + 1))%string)
                               (range number)) in
  T "interface Function" ++ T (nat_str number) ++ T "<" ++ T type_params ++ T "> " ++
  brace (T nl ++ T (spaces 2) ++ T "public R apply" ++ paren (T params) ++ T ";" ++ T nl) ++ T (nl ++ nl)%string.

Definition functional_interfaces (l : list nat) : segs :=
  let res := flat_map functional_interface l in
  if nonempty l then T (nl ++ nl)%string ++ res else [].

(* ---- visit_program *)
Definition main_decl (d : segs) : segs := T (spaces 2) ++ T "static " ++ lstrip_segs d.

Definition program_text (pkg : string) (main_children0 : list segs) (main_method0 : segs)
    (ifs : list nat) (cr : list segs) : segs :=
  let package_str := if negb (str_empty pkg) then T "package " ++ T pkg ++ T ";" ++ T (nl ++ nl)%string else [] in
  let main_decls := map main_decl (rev main_children0) in
  let main_cls :=
    T "class Main " ++
    brace (T nl ++ joins (T (nl ++ nl)%string) main_decls ++
           (if negb (segs_empty main_method0) then T (nl ++ nl)%string ++ main_decl main_method0 else []) ++
           T nl) in
  let other_classes := joins (T (nl ++ nl)%string) cr in
  package_str ++ main_cls ++ functional_interfaces ifs ++
  (if negb (segs_empty other_classes) then T (nl ++ nl)%string ++ other_classes else []).

(* visit_program ends with self._reset_state() *)
Definition visit_program_st (pkg : string) (p : pprogram) (s : st) : segs * st :=
  let s := set_types_set true s in
  let s := set_context (Some (pctx p)) s in
  let s := visit_children (map visit (decls p)) s in
  let s := set_ident 2 s in
  let mc := main_children s in
  let mm := main_method s in
  let (cr, s) := pop_res (List.length (decls p)) s in
  (program_text pkg mc mm (fun_ifaces s) cr, s).

Definition visit_program (pkg : string) (p : pprogram) (t : translator) : translator :=
  let (r, _) := visit_program_st pkg p (tst t) in
  mkTr init_st (Some r).

(* BaseTranslator.result *)
Definition result_segs (t : translator) : segs :=
  match program t with Some r => r | None => [] end.

Definition result (t : translator) : string := flatten (result_segs t).

(* utils.translate_program(translator, program) *)
Definition translate_program (pkg : string) (t : translator) (p : pprogram) : string * translator :=
  let t' := visit_program pkg p t in (result t', t').

Definition print_segs (pkg : string) (p : pprogram) : segs :=
  result_segs (visit_program pkg p init_tr).

Definition print_program (pkg : string) (p : pprogram) : string :=
  fst (translate_program pkg init_tr p).

Fixpoint run_history (t : translator) (h : list (string * pprogram)) : list string * translator :=
  match h with
  | [] => ([], t)
  | (pkg, p) :: r =>
      let (x, t') := translate_program pkg t p in
      let (xs, t'') := run_history t' r in
      (x :: xs, t'')
  end.

(* ------------------------------------------------------------------------------------ *)
(* correspondence drivers (evaluated by the case files of harness/printcorr_java.py)        *)

Fixpoint mismatches (i : nat) (cases : list (string * pprogram * string)) : list nat :=
  match cases with
  | [] => []
  | (pkg, p, expected) :: r =>
      if String.eqb (print_program pkg p) expected then mismatches (S i) r
      else i :: mismatches (S i) r
  end.

(* first byte offset where two strings differ (debugging aid of the harness) *)
Fixpoint first_diff (i : nat) (a b : string) : option nat :=
  match a, b with
  | EmptyString, EmptyString => None
  | String x a', String y b' => if Ascii.eqb x y then first_diff (S i) a' b' else Some i
  | _, _ => Some i
  end.

Definition st_eqb_init (s : st) : bool :=
  Nat.eqb (ident s) 0 && negb (cast_number s) && negb (fnv s) && negb (nfb s) && negb (inside_is s) &&
  negb (inside_is_function s) && negb (nonempty (children_res s)) && negb (nonempty (main_children s)) &&
  negb (nonempty (main_method s)) &&
  match nodes_stack s with [None] => true | _ => false end &&
  match is_stack s with [None] => true | _ => false end &&
  ns_is_global (namespace s) &&
  match fun_ifaces s with [0; 1; 2; 3] => true | _ => false end &&
  Nat.eqb (x_counter s) 0 && negb (nonempty (smart_casts s)) &&
  match context s with None => true | _ => false end && negb (types_set s).

Definition history_mismatches (h : list (string * pprogram)) (expected : list string) : list nat * bool :=
  let (ts, t) := run_history init_tr h in (text_mismatches 0 ts expected, st_eqb_init (tst t)).

(* ------------------------------------------------------------------------------------ *)
(* specification vocabulary for C11 / C12 (evaluated by harness/printcorr_java.py, proved in *)
(* PrintJavaProofs.v)                                                                      *)

(* the namespace a child is visited in, as java.py computes it (change_namespace; true_block /
   false_block when the condition of a Conditional is an Is) *)
Definition enters (k : pkind) : option string :=
  match k with
  | KClass name _ _ _ _ _ => Some name
  | KFunc name _ _ _ _ _ _ => Some name
  | KLambda name _ _ _ => Some name
  | _ => None
  end.

Definition is_is_kind (k : pkind) : bool := match k with KIs _ _ _ => true | _ => false end.

(* routing: no variable / function declaration is visited while _namespace is the global one,
   except the node itself when `top` (a declaration of the program): those are the nodes whose
   result append_to sends to _main_children / _main_method instead of _children_res *)
Fixpoint routed (top : bool) (ns : list string) (n : pnode) : bool :=
  match n with
  | PN k cs =>
      (top || negb (ns_is_global ns && is_var_or_func k)) &&
      match enters k with
      | Some name => forallb (routed false (name :: ns)) cs
      | None =>
          match k, cs with
          | KCond, [cond; tb; fb] =>
              if is_is_kind (kind_of cond)
              then routed false ns cond && routed false ("true_block" :: ns) tb &&
                   routed false ("false_block" :: ns) fb
              else forallb (routed false ns) cs
          | _, _ => forallb (routed false ns) cs
          end
      end
  end.

(* the instanceof bookkeeping is balanced: an Is on a variable occurs only as the condition of
   a Conditional (visit_is pushes the name on _visit_is_stack, visit_conditional pops one entry) *)
Fixpoint is_wf (n : pnode) : bool :=
  match n with
  | PN k cs =>
      match k with
      | KIs _ _ _ => match var_name_of cs with None => forallb is_wf cs | Some _ => false end
      | KCond =>
          match cs with
          | [cond; tb; fb] =>
              (match cond with
               | PN (KIs _ _ _) ccs => match var_name_of ccs with Some _ => forallb is_wf ccs | None => false end
               | _ => is_wf cond
               end) && is_wf tb && is_wf fb
          | _ => forallb is_wf cs
          end
      | _ => forallb is_wf cs
      end
  end.

(* what a node itself declares / carries; the operator of an Is is printed as `instanceof` *)
Definition own_marks (k : pkind) : list mark :=
  match k with
  | KClass name _ _ _ _ _ => mk_mark (MDecl DClass) name
  | KTypeParam name _ => mk_mark (MDecl DTypeParam) name
  | KVarDecl name _ _ _ => mk_mark (MDecl DVar) name
  | KField name _ _ => mk_mark (MDecl DField) name
  | KParam name _ _ => mk_mark (MDecl DParam) name
  | KFunc name _ _ _ _ _ _ => mk_mark (MDecl DFunc) name
  | KInt lit _ => mk_mark MLit lit
  | KReal lit _ => mk_mark MLit lit
  | KChar lit => mk_mark MLit lit
  | KString lit => mk_mark MLit lit
  | KBool lit => mk_mark MLit lit
  | KBinOp op nt => mk_mark MOp (op_str op nt)
  | KIs _ _ _ => mk_mark MOp "instanceof"
  | _ => []
  end.

(* the inventory of a tree: every declaration, literal and operator node, pre-order *)
Fixpoint inventory (n : pnode) : list mark :=
  match n with PN k cs => own_marks k ++ flat_map inventory cs end.

Definition program_inventory (p : pprogram) : list mark := flat_map inventory (decls p).

Definition is_param_kind (k : pkind) : bool := match k with KParam _ _ _ => true | _ => false end.
Definition is_field_kind (k : pkind) : bool := match k with KField _ _ _ => true | _ => false end.
Definition is_super_kind (k : pkind) : bool := match k with KSuper _ _ => true | _ => false end.
Definition is_class_kind (k : pkind) : bool := match k with KClass _ _ _ _ _ _ => true | _ => false end.

(* is_nested_func() for a function whose namespace (with its own name) is ns *)
Definition nested_at (ctx : jctx) (ns : list string) : bool :=
  match ns with
  | _ :: parent =>
      mem_ns parent (fun_ns ctx) ||
      match parent with
      | pn :: _ => String.eqb pn "true_block" || String.eqb pn "false_block"
      | [] => false
      end
  | [] => false
  end.

(* the superclass arguments are printed (inside the generated constructor) only for the first
   superclass, when it is not a Builtin and the constructor is generated: some superclass is not
   an interface of the context, or there are fields *)
Definition super_args_ok (ctx : jctx) (nf ns : nat) (cs : list pnode) : bool :=
  let sup := firstn ns (skipn nf cs) in
  match sup with
  | [] => true
  | first :: others =>
      forallb (fun c => negb (nonempty (children_of c))) others &&
      (negb (nonempty (children_of first)) ||
       (match kind_of first with KSuper _ bi => negb bi | _ => false end &&
        (Nat.ltb 0 nf || nonempty (fst (split_supers (ifaces ctx) (supers_of nf ns cs))))))
  end.

(* the shape children() gives every node, as far as the visit_* methods index children_res, and
   the positions in which the translator prints everything it is given: parameters without
   default values, nested functions without type parameters, superclass arguments as above *)
Definition arity_ok (ctx : jctx) (ns : list string) (k : pkind) (cs : list pnode) : bool :=
  let n := List.length cs in
  match k with
  | KBlock _ | KNew _ => true
  | KSuper _ _ => true
  | KClass _ _ _ nf nsup nfn =>
      Nat.leb (nf + nsup + nfn) n && forallb (fun c => is_field_kind (kind_of c)) (firstn nf cs) &&
      forallb (fun c => is_super_kind (kind_of c)) (firstn nsup (skipn nf cs)) &&
      forallb (fun c => negb (is_super_kind (kind_of c))) (skipn (nf + nsup) cs) &&
      super_args_ok ctx nf nsup cs
  | KTypeParam _ _ | KField _ _ _ | KParam _ _ _ | KBottom _ _ | KInt _ _ | KReal _ _ | KChar _ | KString _
  | KBool _ | KVariable _ => Nat.eqb n 0
  | KVarDecl _ _ _ _ | KCallArg | KFieldAccess _ => Nat.eqb n 1
  | KIs _ _ _ => Nat.eqb n 1
  | KFuncRef _ => Nat.leb n 1
  | KFunc name _ _ _ hb np ntp =>
      Nat.eqb n (np + ntp + (if hb then 1 else 0)) &&
      forallb (fun c => is_param_kind (kind_of c)) (firstn np cs) &&
      (if nested_at ctx (name :: ns) then Nat.eqb ntp 0 else true)
  | KLambda _ _ np hb => Nat.eqb n (np + (if hb then 1 else 0))
  | KArray _ len => if Nat.eqb len 0 then Nat.eqb n 0 else true
  | KBinOp _ _ => Nat.eqb n 2
  | KCond => Nat.eqb n 3
  | KFuncCall _ _ _ _ hr => if hr then Nat.leb 1 n else true
  | KAssign _ hr => Nat.eqb n (if hr then 2 else 1)
  end.

Fixpoint wfj (ctx : jctx) (ns : list string) (n : pnode) : bool :=
  match n with
  | PN k cs =>
      arity_ok ctx ns k cs &&
      (* a SuperClassInstantiation is a child of a class only *)
      (is_class_kind k || forallb (fun c => negb (is_super_kind (kind_of c))) cs) &&
      match enters k with
      | Some name => forallb (wfj ctx (name :: ns)) cs
      | None =>
          match k, cs with
          | KCond, [cond; tb; fb] =>
              if is_is_kind (kind_of cond)
              then wfj ctx ns cond && wfj ctx ("true_block" :: ns) tb && wfj ctx ("false_block" :: ns) fb
              else forallb (wfj ctx ns) cs
          | _, _ => forallb (wfj ctx ns) cs
          end
      end
  end.

Definition count_mains (l : list pnode) : nat :=
  List.length (filter (fun d => is_main_func (kind_of d)) l).

(* a program: declarations (classes, functions, variables), at most one top-level `main` (a
   second one overwrites _main_method), routed and shaped as above *)
Definition wf_program (p : pprogram) : bool :=
  forallb (fun d => (is_class_kind (kind_of d) || is_var_or_func (kind_of d)) &&
                    routed true ["global"] d && wfj (pctx p) ["global"] d && is_wf d) (decls p) &&
  Nat.leb (count_mains (decls p)) 1.

(* lexical hypotheses: names, literals and operators contain no white space (the translator
   strips, splits and, inside super(...), collapses white space of texts it has already built);
   parameter names are not empty (a nested function recovers them with split()[-1]) *)
Definition ws_free (s : string) : bool := negb (has_ws s).

Definition lex_kind (k : pkind) : bool :=
  match k with
  | KClass name _ _ _ _ _ | KTypeParam name _ | KVarDecl name _ _ _ | KField name _ _
  | KFunc name _ _ _ _ _ _ => ws_free name
  | KParam name _ _ => ws_free name && negb (str_empty name)
  | KInt lit _ | KReal lit _ | KChar lit | KString lit | KBool lit => ws_free lit
  | KBinOp op nt => ws_free (op_str op nt)
  | _ => true
  end.

Fixpoint lex (n : pnode) : bool :=
  match n with PN k cs => lex_kind k && forallb lex cs end.

Definition lex_program (p : pprogram) : bool := forallb lex (decls p).

(* every string of a node that ends up in the text *)
Definition hint_strings (h : bhint) : list string :=
  [opt_name type_name (h_ty h); opt_name (type_name_gen true false) (h_ty h);
   opt_name (type_name_gen true true) (h_sig h)].

Definition kind_strings (k : pkind) : list string :=
  match k with
  | KBlock h => hint_strings h
  | KCond | KCallArg => []
  | KSuper ct _ => [type_name ct]
  | KClass name _ _ _ _ _ => [name]
  | KTypeParam name b => [name; opt_name type_name b]
  | KVarDecl name _ _ inf => [name; type_name inf]
  | KField name ft _ => [name; type_name ft]
  | KParam name pt va => [name; param_print_type pt va]
  | KFunc name _ inf _ _ _ _ => [name; type_name inf; type_name_gen true false inf]
  | KLambda _ _ _ _ => []
  | KBottom t _ => [opt_name type_name t]
  | KInt lit _ | KReal lit _ | KChar lit | KString lit | KBool lit => [lit]
  | KArray at_ _ => [type_name at_; opt_name type_name (ty_arg0 at_)]
  | KVariable name => [name]
  | KBinOp op nt => [op_str op nt]
  | KIs _ rn _ => [rn]
  | KNew ct => [new_type_text ct]
  | KFieldAccess f | KFuncRef f => [f]
  | KFuncCall f _ _ _ _ => [f]
  | KAssign name _ => [name]
  end.

Definition clean_kind (k : pkind) : bool := forallb clean_str (kind_strings k).

Fixpoint clean (n : pnode) : bool :=
  match n with PN k cs => clean_kind k && forallb clean cs end.

Definition clean_ctx (c : jctx) : bool :=
  forallb (fun e => clean_str (snd e)) (funcref_tab c) &&
  forallb (fun e => clean_str (opt_name type_name (ci_vtype (snd e)))) (call_tab c).

Definition clean_program (pkg : string) (p : pprogram) : bool :=
  clean_str pkg && clean_ctx (pctx p) && forallb clean (decls p).

(* variable declarations that carry no declared type (visit_var_decl prints one nevertheless) *)
Fixpoint erased_vars (n : pnode) : nat :=
  match n with
  | PN k cs =>
      (match k with KVarDecl _ _ None _ => 1 | _ => 0 end) +
      fold_right (fun c acc => erased_vars c + acc) 0 cs
  end.

(* what harness/printcorr_java.py evaluates per program *)
Definition c12_report (pkg : string) (p : pprogram) (expected : string)
  : bool * bool * bool * bool * bool * bool * bool * nat :=
  let r := print_segs pkg p in
  let t := flatten r in
  (String.eqb t expected, wf_program p, lex_program p, clean_program pkg p,
   balanced "("%char ")"%char expected, balanced "{"%char "}"%char expected,
   same_marks (marks r) (program_inventory p),
   fold_right (fun d acc => erased_vars d + acc) 0 (decls p)).
