(* Properties_C11_groovy.v -- the property theorems for the GROOVY translator, nothing else.
   `visit`, `visit_program`, `reset_state`, `translate_program`, `print_program`, `run_history`
   are the definitions of IR/PrintGroovy.v that the correspondence check
   (harness/printcorr_groovy.py) evaluates against the real GroovyTranslator.  `init_st o` /
   `init_tr o` is the object GroovyTranslator(package, {'cast_numbers': o}) constructs.
   Determinism is definitional (they are functions). *)
From Coq Require Import String Ascii List Arith Bool.
Import ListNotations.
From Heph Require Import IR.PrintGroovy IR.PrintGroovyProofs.

(* the frame of a visit: every visit of a node (with the decorators append_to / change_namespace)
   leaves every scalar component of the translator object as it found it -- ident, is_unit,
   _cast_number, _inside_is, _inside_is_function, _nodes_stack, _namespace, _function_interfaces,
   context, types, always_cast_numbers.  For every tree, every state.  Only the three
   accumulators _children_res, _main_children, _main_method change (groovy_visit_routes_one below). *)
Theorem groovy_visit_restores : forall n s,
  ident (visit n s) = ident s /\ is_unit (visit n s) = is_unit s /\
  cast_number (visit n s) = cast_number s /\ inside_is (visit n s) = inside_is s /\
  inside_is_function (visit n s) = inside_is_function s /\ nodes_stack (visit n s) = nodes_stack s /\
  namespace (visit n s) = namespace s /\ fun_ifaces (visit n s) = fun_ifaces s /\
  context (visit n s) = context s /\ types_set (visit n s) = types_set s /\ acn (visit n s) = acn s.
Proof. exact visit_restores_lem. Qed.
Print Assumptions groovy_visit_restores.

(* on a routed tree (no variable / function declaration is visited in the global namespace
   below the top level: `routed`, part of wf_program) a visit changes exactly one accumulator by
   exactly one result -- the one append_to routes the node to: _main_method for a top-level
   main, _main_children for a top-level variable or function, _children_res otherwise -- and
   nothing else of the object *)
Theorem groovy_visit_routes_one : forall n s, routed true (namespace s) n = true ->
  exists r, visit n s = route (kind_of n) r s.
Proof. exact visit_routes_one_lem. Qed.
Print Assumptions groovy_visit_routes_one.

(* below the top level: exactly one result is pushed on _children_res *)
Theorem groovy_visit_pushes_one : forall n s, routed false (namespace s) n = true ->
  exists r, visit n s = push r s.
Proof. exact visit_pushes_one_lem. Qed.
Print Assumptions groovy_visit_pushes_one.

(* _reset_state assigns every component its initial value (always_cast_numbers is a
   construction-time option and is never assigned) *)
Theorem groovy_reset_state_initial : forall s, reset_state s = init_st (acn s).
Proof. exact reset_state_lem. Qed.
Print Assumptions groovy_reset_state_initial.

(* visit_program ends with _reset_state(): whatever state the translator object was in, after a
   translation every component has its initial value *)
Theorem groovy_translation_resets_state : forall pkg p t,
  tst (snd (translate_program pkg t p)) = init_st (acn (tst t)).
Proof. exact translation_resets_state_lem. Qed.
Print Assumptions groovy_translation_resets_state.

(* the text left behind by an earlier translation is never read *)
Theorem groovy_prior_output_irrelevant : forall pkg p s a b,
  visit_program pkg p (mkTr s a) = visit_program pkg p (mkTr s b).
Proof. exact prior_output_irrelevant_lem. Qed.
Print Assumptions groovy_prior_output_irrelevant.

(* neither are the context and the type list an earlier translation left (visit_program assigns
   both before it reads anything) *)
Theorem groovy_prior_context_irrelevant : forall pkg p s c ts a b,
  visit_program pkg p (mkTr (set_types_set ts (set_context c s)) a) = visit_program pkg p (mkTr s b).
Proof. exact prior_context_irrelevant_lem. Qed.
Print Assumptions groovy_prior_context_irrelevant.

(* history independence: after ANY sequence of earlier translations by the same object (other
   programs, the same program, other packages) the text of p is the text from a fresh object *)
Theorem groovy_history_independent : forall o h pkg p,
  fst (translate_program pkg (snd (run_history (init_tr o) h)) p) = print_program o pkg p.
Proof. exact history_independent_lem. Qed.
Print Assumptions groovy_history_independent.

(* every text produced along a history is the fresh-translator text of its program *)
Theorem groovy_history_texts : forall o h,
  fst (run_history (init_tr o) h) = map (fun x => print_program o (fst x) (snd x)) h.
Proof. exact history_texts_lem. Qed.
Print Assumptions groovy_history_texts.

(* and the object is in its initial state after every history *)
Theorem groovy_history_state : forall o h, tst (snd (run_history (init_tr o) h)) = init_st o.
Proof. exact history_state_lem. Qed.
Print Assumptions groovy_history_state.
