(* IR/Corr17.v -- comparison helpers for harness/c17.py. Definitions only. *)
From Coq Require Import List Arith Bool.
Import ListNotations.
From Heph Require Import Types.Syntax IR.Syntax IR.Switches.

Definition vcase := (bool * bool * variance * option (bool * bool) * bool * nat * variance)%type.

Fixpoint vmismatches (i : nat) (cs : list vcase) : list nat :=
  match cs with
  | [] => []
  | (du, dc, pv, ch, ib, pick, r) :: cs' =>
      (if var_eqb (get_type_arg_variance du dc pv ch ib pick) r then [] else [i]) ++ vmismatches (S i) cs'
  end.

(* 0 = every demanded predicate holds; otherwise the first one that fails *)
Definition verdict (s : switches) (p : node) : nat :=
  if sw_no_use_site s && negb (chk_no_use_site p) then
    (* 11: every projection that occurs is a bounded covariant one or an unbounded star (the two shapes produced by
       _to_type_variable_free: 'out Bound' for a bounded variable, '*' at a contravariant position) *)
    (if forallb (fun t => match t with TWild Cov (Some _) => true | TWild Inv None => true | TWild _ _ => false | _ => true end) (type_occurrences p) then 11 else 1)
  else if sw_no_contra s && negb (chk_no_contra p) then 2
  else if sw_no_bounds s && negb (chk_no_bounds p) then 3
  else if sw_no_param_funcs s && negb (chk_no_param_funcs p) then 4
  else if negb (sw_decl_variance_lang s) && negb (chk_no_decl_variance p) then 5
  else if negb (chk_func_params_invariant p) then 6
  else 0.
