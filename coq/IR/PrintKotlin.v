(* IR/PrintKotlin.v -- a Gallina model of src/translators/kotlin.py (KotlinTranslator).
   Definitions only.

   INPUT.  A printing-oriented tree `pnode` = PN kind children, one node per AST object that
   the translator visits, where `children` is exactly `node.children()` (in that order) and
   `kind` carries the attributes the translator reads (names, literals, operators, flags, the
   numbers of params / fields / ... by which the implementation splits `children_res`, and
   the types as `ptype`).  harness/ir2print.py produces these terms from ast.Program.

   STATE.  The translator object is modelled explicitly: record `st` (ident, is_unit,
   is_lambda, _cast_integers, _children_res, _nodes_stack, context) is what the visit_* methods
   of the nodes read and write; record `translator` adds `program`, which only visit_program
   assigns.  Every visit_* method is a state-passing function st -> st transcribed statement by
   statement (the implementation really depends on this: visit_super_instantiation sets ident
   to 0 and never restores it, which changes the indentation of the member functions visited
   after it).  The string that a method builds from the popped children results is factored
   out as a pure function `*_text` of those results and of the state values it reads; where
   the format strings contain brackets the text functions use `paren` / `brace`, so that
   "(if (" is T "(" ++ T "if " ++ T "(" ++ ... -- the flattened text is the same.
   `children_res` and `nodes_stack` are stored REVERSED (head = last element of the Python list).

   OUTPUT.  Texts are lists of segments (`segs`); the text is `flatten`.  A segment is plain
   text or a marked piece: the name of a declaration in declaration position, a literal, an
   operator.  The marks do not influence the text; they are what the C12 theorems talk about.

   The last section is the vocabulary of the C12 statements (marks, inventory, wf, clean, scan /
   balanced) and the report function the harness evaluates per program.

   What is NOT modelled: tu.is_sam (it walks the context and deep-copies declarations); the
   serialiser evaluates the real is_sam for every class of the context and hands the model the
   table of SAM class names (`sams`), which the model consults where the implementation calls
   is_sam.  Exceptions (IndexError on malformed trees) are not modelled: the model is total
   and uses defaults.  Strings are byte strings (UTF-8); `s[k:]` and `.lower()` of the
   implementation act on code points, so the model is exact on ASCII prefixes / type names. *)
From Coq Require Import String Ascii List Arith Bool.
Import ListNotations.
Open Scope string_scope.
Open Scope list_scope.

(* ------------------------------------------------------------------------------------ *)
(* strings                                                                                *)

Definition nl : string := String (ascii_of_nat 10) EmptyString.

Fixpoint spaces (n : nat) : string :=
  match n with 0 => EmptyString | S k => String " "%char (spaces k) end.

Definition str_empty (s : string) : bool :=
  match s with EmptyString => true | _ => false end.

Fixpoint join (sep : string) (l : list string) : string :=
  match l with
  | [] => EmptyString
  | x :: r => match r with [] => x | _ => (x ++ sep ++ join sep r)%string end
  end.

Fixpoint string_drop (n : nat) (s : string) : string :=
  match n with
  | 0 => s
  | S k => match s with EmptyString => EmptyString | String _ r => string_drop k r end
  end.

Definition lower_ascii (a : ascii) : ascii :=
  let n := nat_of_ascii a in
  if Nat.leb 65 n && Nat.leb n 90 then ascii_of_nat (n + 32) else a.

Fixpoint lower (s : string) : string :=
  match s with EmptyString => EmptyString | String a r => String (lower_ascii a) (lower r) end.

Definition starts_with_minus (s : string) : bool :=
  match s with String a _ => Ascii.eqb a "-"%char | EmptyString => false end.

Fixpoint mem_str (x : string) (l : list string) : bool :=
  match l with [] => false | y :: r => String.eqb x y || mem_str x r end.

(* ------------------------------------------------------------------------------------ *)
(* segments                                                                               *)

Inductive dkind := DClass | DField | DFunc | DParam | DTypeParam | DVar.

Inductive seg :=
| Txt (s : string)
| Decl (k : dkind) (name : string)     (* a declared name, in declaration position *)
| Lit (s : string)                      (* the text of a literal *)
| Op (s : string).                      (* the text of an operator *)

Definition segs := list seg.

Definition seg_text (sg : seg) : string :=
  match sg with Txt s => s | Decl _ s => s | Lit s => s | Op s => s end.

Fixpoint flatten (l : segs) : string :=
  match l with [] => EmptyString | sg :: r => (seg_text sg ++ flatten r)%string end.

Definition T (s : string) : segs := [Txt s].

(* Python `if some_str:` *)
Definition segs_empty (l : segs) : bool := forallb (fun sg => str_empty (seg_text sg)) l.

Fixpoint joins (sep : segs) (l : list segs) : segs :=
  match l with
  | [] => []
  | x :: r => match r with [] => x | _ => x ++ sep ++ joins sep r end
  end.

(* Python `s[n:]` on the flattened text *)
Fixpoint drop_segs (l : segs) (n : nat) : segs :=
  match n with
  | 0 => l
  | _ => match l with
         | [] => []
         | sg :: r =>
             let len := String.length (seg_text sg) in
             if Nat.leb len n then drop_segs r (n - len)
             else Txt (string_drop n (seg_text sg)) :: r
         end
  end.

(* ------------------------------------------------------------------------------------ *)
(* types as the translator sees them                                                      *)

(* the class of a non-parameterized, non-wildcard type object: the kotlin_types builtins the
   translator compares with (exact class), any other Builtin, a SimpleClassifier, anything else
   (type parameters, unapplied type constructors, ...) *)
Inductive tcls := CUnit | CLong | CShort | CByte | CNumber | CFloat | CBuiltin | CSimple | COther.

Inductive ptype :=
| TName (c : tcls) (name : string)
| TWild (variance : nat) (bound : option ptype)                 (* types.WildCardType *)
| TApp (name : string) (specialized : bool) (can_infer : bool) (args : list ptype).
    (* types.ParameterizedType; specialized = isinstance(t_constructor, kt.SpecializedArrayType) *)

(* KotlinTranslator.get_type_name together with type_arg2str *)
Fixpoint type_name (t : ptype) : string :=
  match t with
  | TName _ n => n
  | TWild _ b => match b with Some t' => type_name t' | None => EmptyString end
  | TApp n spec _ args =>
      if spec
      then match args with a :: _ => (type_name a ++ "Array")%string | [] => "Array" end
      else (n ++ "<" ++
           join ", " (map (fun a =>
                             match a with
                             | TWild v b =>
                                 match v with
                                 | 0 => "*"
                                 | 1 => "out " ++ match b with Some t' => type_name t' | None => EmptyString end
                                 | _ => "in " ++ match b with Some t' => type_name t' | None => EmptyString end
                                 end
                             | _ => type_name a
                             end) args) ++ ">")%string
  end.

(* the attribute `.name` of a type object *)
Definition ptype_dot_name (t : ptype) : string :=
  match t with TName _ n => n | TWild _ _ => "*" | TApp n _ _ _ => n end.

(* `t == kt.Unit` *)
Definition is_unit_ty (t : ptype) : bool :=
  match t with TName CUnit _ => true | _ => false end.

Definition opt_is_unit (t : option ptype) : bool :=
  match t with Some t' => is_unit_ty t' | None => false end.

Definition ty_specialized (t : ptype) : bool :=
  match t with TApp _ spec _ _ => spec | _ => false end.

Definition ty_arg0_name (t : ptype) : string :=
  match t with TApp _ _ _ (a :: _) => type_name a | _ => EmptyString end.

Definition ty_can_infer (t : ptype) : bool :=
  match t with TApp _ _ ci _ => ci | _ => false end.

(* ------------------------------------------------------------------------------------ *)
(* the tree                                                                               *)

Inductive binop_cls := BLogical | BEquality | BComparison | BArith.

Inductive pkind :=
| KBlock (is_func_block : bool)
| KSuper (class_type : ptype) (args_none : bool)
| KClass (name : string) (class_type : nat) (is_final : bool) (nfields nsupers nfuncs : nat)
| KTypeParam (name : string) (variance : nat) (bound : option ptype)
| KVarDecl (name : string) (is_final : bool) (var_type : option ptype) (inferred : ptype)
| KCallArg (name : option string)
| KField (name : string) (ftype : ptype) (is_final can_override override : bool)
| KParam (name : string) (param_type : ptype) (vararg : bool)
| KFunc (name : string) (ret_type : option ptype) (inferred : ptype)
        (is_final override has_body : bool) (nparams ntparams : nat)
| KLambda (ret_type : option ptype) (nparams : nat) (has_body : bool)
| KBottom (t : option ptype)
| KInt (lit : string) (integer_type : option ptype)
| KReal (lit : string) (real_type : option ptype)
| KChar (lit : string)
| KString (lit : string)
| KBool (lit : string)
| KArray (array_type : ptype) (length : nat)
| KVariable (name : string)
| KBinOp (c : binop_cls) (op : string) (is_not : bool)
| KCond
| KIs (op : string) (is_not : bool) (rexpr : ptype)
| KNew (class_type : ptype)
| KFieldAccess (field : string)
| KFuncRef (func : string)
| KFuncCall (func : string) (type_args : list ptype) (can_infer has_receiver : bool)
| KAssign (name : string) (has_receiver : bool).

Inductive pnode := PN (k : pkind) (children : list pnode).

Definition kind_of (n : pnode) : pkind := match n with PN k _ => k end.
Definition children_of (n : pnode) : list pnode := match n with PN _ cs => cs end.

Record pprogram := mkProgram {
  sams : list string;       (* names of the context's classes for which tu.is_sam holds *)
  decls : list pnode        (* Program.children() *)
}.

Definition is_block_kind (k : pkind) : bool := match k with KBlock _ => true | _ => false end.
Definition is_bottom_kind (k : pkind) : bool := match k with KBottom _ => true | _ => false end.

(* isinstance(children[-1], ast.Block) *)
Definition last_is_block (cs : list pnode) : bool :=
  match rev cs with c :: _ => is_block_kind (kind_of c) | [] => false end.

(* isinstance(children[0], ast.BottomConstant) *)
Definition first_is_bottom (cs : list pnode) : bool :=
  match cs with c :: _ => is_bottom_kind (kind_of c) | [] => false end.

(* str(Operator) *)
Definition op_str (op : string) (is_not : bool) : string :=
  if is_not then ("!" ++ op)%string else op.

(* ------------------------------------------------------------------------------------ *)
(* the translator object                                                                  *)

Record st := mkSt {
  ident : nat;
  is_unit : bool;
  is_lambda : bool;
  cast_integers : bool;
  children_res : list segs;            (* _children_res, reversed *)
  nodes_stack : list (option pkind);   (* _nodes_stack, reversed *)
  context : option (list string)       (* self.context, as far as it is consulted: the SAM table *)
}.

Record translator := mkTr {
  tst : st;
  program : option segs                (* self.program *)
}.

(* KotlinTranslator.__init__ / _reset_state *)
Definition init_st : st := mkSt 0 false false false [] [None] None.
Definition init_tr : translator := mkTr init_st None.

Definition set_ident (v : nat) (s : st) : st :=
  mkSt v (is_unit s) (is_lambda s) (cast_integers s) (children_res s) (nodes_stack s) (context s).
Definition set_is_unit (v : bool) (s : st) : st :=
  mkSt (ident s) v (is_lambda s) (cast_integers s) (children_res s) (nodes_stack s) (context s).
Definition set_is_lambda (v : bool) (s : st) : st :=
  mkSt (ident s) (is_unit s) v (cast_integers s) (children_res s) (nodes_stack s) (context s).
Definition set_cast (v : bool) (s : st) : st :=
  mkSt (ident s) (is_unit s) (is_lambda s) v (children_res s) (nodes_stack s) (context s).
Definition set_res (v : list segs) (s : st) : st :=
  mkSt (ident s) (is_unit s) (is_lambda s) (cast_integers s) v (nodes_stack s) (context s).
Definition set_stack (v : list (option pkind)) (s : st) : st :=
  mkSt (ident s) (is_unit s) (is_lambda s) (cast_integers s) (children_res s) v (context s).
Definition set_context (v : option (list string)) (s : st) : st :=
  mkSt (ident s) (is_unit s) (is_lambda s) (cast_integers s) (children_res s) (nodes_stack s) v.

(* self._children_res.append(r) *)
Definition push (r : segs) (s : st) : st := set_res (r :: children_res s) s.

(* pop_children_res(children), n = len(children): the last n results in order, and the state
   without them (for n = 0 both Python branches give [] and an unchanged list) *)
Definition pop_res (n : nat) (s : st) : list segs * st :=
  (rev (firstn n (children_res s)), set_res (skipn n (children_res s)) s).

(* tu.is_sam(self.context, cls_decl=node) / tu.is_sam(self.context, etype=t) *)
Definition sam_decl (ctx : option (list string)) (name : string) : bool :=
  match ctx with Some l => mem_str name l | None => false end.

Definition sam_type (ctx : option (list string)) (t : ptype) : bool :=
  match ctx with
  | Some l => match t with
              | TName CSimple n => mem_str n l
              | TApp n _ _ _ => mem_str n l
              | _ => false
              end
  | None => false
  end.

Definition nth_seg (i : nat) (l : list segs) : segs := nth i l [].
Definition last_seg (l : list segs) : segs := last l [].
Definition nonempty {A} (l : list A) : bool := match l with [] => false | _ => true end.

Definition paren (r : segs) : segs := T "(" ++ r ++ T ")".
Definition brace (r : segs) : segs := T "{" ++ r ++ T "}".

(* ------------------------------------------------------------------------------------ *)
(* the visit_* methods, parameterised by the recursive `node.accept(self)`                 *)

Definition visitor := pnode -> st -> st.

(* for c in children: c.accept(self) *)
Definition visit_children (rec : visitor) (cs : list pnode) (s : st) : st :=
  fold_left (fun s c => rec c s) cs s.

(* ---- visit_block *)
Definition block_text (is_func_block is_unit0 is_lambda0 : bool) (idt : nat) (cr : list segs) : segs :=
  let res := T nl ++ joins (T nl) (removelast cr) in
  let res := if nonempty (removelast cr) then res ++ T nl else res in
  let ret_keyword :=
    if is_func_block && negb is_unit0 && negb is_lambda0 then T "return " else [] in
  let res :=
    if nonempty cr
    then res ++ T (spaces idt) ++ ret_keyword ++ last_seg cr ++ T nl ++ T (spaces idt)
    else res ++ T (spaces idt) ++ ret_keyword ++ T nl ++ T (spaces idt) in
  if is_lambda0 then res else brace res.

Definition visit_block (rec : visitor) (is_func_block : bool) (cs : list pnode) (s : st) : st :=
  let is_unit0 := is_unit s in
  let is_lambda0 := is_lambda s in
  let s := set_is_unit false s in
  let s := set_is_lambda false s in
  let s := visit_children rec cs s in
  let (cr, s) := pop_res (List.length cs) s in
  let res := block_text is_func_block is_unit0 is_lambda0 (ident s) cr in
  let s := set_is_unit is_unit0 s in
  let s := set_is_lambda is_lambda0 s in
  push res s.

(* ---- visit_super_instantiation *)
Definition super_text (class_type : ptype) (args_none : bool) (cr : list segs) : segs :=
  if args_none
  then T (type_name class_type)
  else T (type_name class_type) ++ paren (joins (T ", ") cr).

Definition visit_super_instantiation (rec : visitor) (class_type : ptype) (args_none : bool)
    (cs : list pnode) (s : st) : st :=
  let s := set_ident 0 s in
  let s := visit_children rec cs s in
  let (cr, s) := pop_res (List.length cs) s in
  push (super_text class_type args_none cr) s.

(* ---- visit_class_decl *)
Definition class_prefix (class_type : nat) : string :=
  match class_type with 0 => "class" | 1 => "interface" | _ => "abstract class" end.

Definition class_text (name : string) (class_type : nat) (is_final : bool)
    (nfields nsupers nfuncs : nat) (is_sam : bool) (old_ident : nat) (cr : list segs) : segs :=
  let field_res := firstn nfields cr in
  let superclasses_res := firstn nsupers (skipn nfields cr) in
  let function_res := firstn nfuncs (skipn (nfields + nsupers) cr) in
  let type_parameters_res := joins (T ", ") (skipn (nfields + nsupers + nfuncs) cr) in
  let prefix := if is_sam then "interface" else class_prefix class_type in
  let res := T (spaces old_ident) ++
             T (if is_sam then "fun " else "") ++
             T (if negb is_final && negb (Nat.eqb class_type 1) && negb is_sam then "open " else "") ++
             T prefix ++ T " " ++ [Decl DClass name] in
  let res := if negb (segs_empty type_parameters_res)
             then res ++ T "<" ++ type_parameters_res ++ T ">" else res in
  let res := if nonempty field_res
             then res ++ paren (joins (T ", ") field_res) else res in
  let res := if nonempty superclasses_res
             then res ++ T ": " ++ joins (T ", ") superclasses_res else res in
  if nonempty function_res
  then res ++ T " " ++ brace (T nl ++ joins (T (nl ++ nl)%string) function_res ++ T nl ++
                              T (spaces old_ident))
  else res.

Definition visit_class_decl (rec : visitor) (name : string) (class_type : nat) (is_final : bool)
    (nfields nsupers nfuncs : nat) (cs : list pnode) (s : st) : st :=
  let old_ident := ident s in
  let s := set_ident (ident s + 2) s in
  let s := visit_children rec cs s in
  let (cr, s) := pop_res (List.length cs) s in
  let is_sam := sam_decl (context s) name in
  let res := class_text name class_type is_final nfields nsupers nfuncs is_sam old_ident cr in
  let s := set_ident old_ident s in
  push res s.

(* ---- visit_type_param *)
Definition variance_str (v : nat) : string :=
  match v with 1 => "out" | 2 => "in" | _ => "" end.

Definition type_param_text (name : string) (variance : nat) (bound : option ptype) : segs :=
  T (variance_str variance) ++ T (if Nat.eqb variance 0 then "" else " ") ++
  [Decl DTypeParam name] ++ T ": " ++
  T (match bound with Some b => type_name b | None => "Any" end).

Definition visit_type_param (name : string) (variance : nat) (bound : option ptype) (s : st) : st :=
  push (type_param_text name variance bound) s.

(* ---- visit_var_decl *)
Definition type_annotation (t : option ptype) : segs :=
  match t with Some t' => T ": " ++ T (type_name t') | None => [] end.

Definition var_decl_text (name : string) (is_final : bool) (var_type : option ptype)
    (old_ident : nat) (cr : list segs) : segs :=
  T (spaces old_ident) ++ T (if is_final then "val " else "var ") ++ [Decl DVar name] ++
  type_annotation var_type ++ T " = " ++ nth_seg 0 cr.

Definition visit_var_decl (rec : visitor) (name : string) (is_final : bool) (var_type : option ptype)
    (cs : list pnode) (s : st) : st :=
  let old_ident := ident s in
  let s := set_ident 0 s in
  let prev := cast_integers s in
  let s := match var_type with None => set_cast true s | Some _ => s end in
  let s := visit_children rec cs s in
  let (cr, s) := pop_res (List.length cs) s in
  let res := var_decl_text name is_final var_type old_ident cr in
  let s := set_ident old_ident s in
  let s := set_cast prev s in
  push res s.

(* ---- visit_call_argument *)
Definition name_truthy (name : option string) : bool :=
  match name with Some n => negb (str_empty n) | None => false end.

Definition call_argument_text (name : option string) (cr : list segs) : segs :=
  if name_truthy name
  then T (match name with Some n => n | None => "" end) ++ T " = " ++ nth_seg 0 cr
  else nth_seg 0 cr.

Definition visit_call_argument (rec : visitor) (name : option string) (cs : list pnode) (s : st) : st :=
  let old_ident := ident s in
  let s := set_ident 0 s in
  let s := visit_children rec cs s in
  let s := set_ident old_ident s in
  let (cr, s) := pop_res (List.length cs) s in
  push (call_argument_text name cr) s.

(* ---- visit_field_decl *)
Definition field_text (name : string) (ftype : ptype) (is_final can_override override : bool) : segs :=
  T (if can_override then "open " else "") ++
  T (if override then "override " else "") ++
  T (if is_final then "val " else "var ") ++
  [Decl DField name] ++ T ": " ++ T (type_name ftype).

Definition visit_field_decl (name : string) (ftype : ptype) (is_final can_override override : bool)
    (s : st) : st :=
  push (field_text name ftype is_final can_override override) s.

(* ---- visit_param_decl *)
(* the printed type of a parameter: the element type for varargs *)
Definition param_print_type (param_type : ptype) (vararg : bool) : string :=
  if vararg
  then match param_type with
       | TApp _ _ _ (a :: _) => type_name a
       | _ => type_name param_type
       end
  else type_name param_type.

Definition param_text (name : string) (param_type : ptype) (vararg : bool) (has_children : bool)
    (cr : list segs) : segs :=
  let res := T (if vararg then "vararg " else "") ++ [Decl DParam name] ++ T ": " ++
             T (param_print_type param_type vararg) in
  if has_children then res ++ T " = " ++ nth_seg 0 cr else res.

Definition visit_param_decl (rec : visitor) (name : string) (param_type : ptype) (vararg : bool)
    (cs : list pnode) (s : st) : st :=
  let old_ident := ident s in
  let s := set_ident 0 s in
  let s := visit_children rec cs s in
  let s := set_ident old_ident s in
  (* `if len(children): children_res = self.pop_children_res(children)`; for no children
     nothing is popped, which is what pop_res 0 does *)
  let (cr, s) := pop_res (List.length cs) s in
  push (param_text name param_type vararg (nonempty cs) cr) s.

(* ---- visit_func_decl *)
Definition func_decl_text (name : string) (ret_type : option ptype) (inferred : ptype)
    (is_final override has_body : bool) (nparams ntparams : nat) (is_expression : bool)
    (old_ident : nat) (cr : list segs) : segs :=
  let param_res := firstn nparams cr in
  let type_parameters_res := joins (T ", ") (firstn ntparams (skipn nparams cr)) in
  let body_res := if has_body then last_seg cr else [] in
  let prefix := T (spaces old_ident) ++
                T (if is_final then "" else "open ") ++
                T (if override then "override " else "") ++
                T (if has_body then "" else "abstract ") in
  let type_params := if negb (segs_empty type_parameters_res)
                     then T "<" ++ type_parameters_res ++ T ">" else [] in
  let res := prefix ++ T "fun " ++ type_params ++ [Decl DFunc name] ++
             paren (joins (T ", ") param_res) in
  let res := res ++ type_annotation ret_type in
  if negb (segs_empty body_res)
  then res ++ T " " ++
       T (if is_expression && negb (is_unit_ty inferred) then "=" else "") ++
       T nl ++ body_res
  else res.

Definition visit_func_decl (rec : visitor) (name : string) (ret_type : option ptype) (inferred : ptype)
    (is_final override has_body : bool) (nparams ntparams : nat) (cs : list pnode) (s : st) : st :=
  let old_ident := ident s in
  let s := set_ident (ident s + 2) s in
  let prev_is_unit := is_unit s in
  let s := set_is_unit (is_unit_ty inferred) s in
  let prev_c := cast_integers s in
  let is_expression := negb (has_body && last_is_block cs) in
  let s := if is_expression then set_cast true s else s in
  let s := visit_children rec cs s in
  let (cr, s) := pop_res (List.length cs) s in
  let res := func_decl_text name ret_type inferred is_final override has_body nparams ntparams
                            is_expression old_ident cr in
  let s := set_ident old_ident s in
  let s := set_is_unit prev_is_unit s in
  let s := set_cast prev_c s in
  push res s.

(* ---- visit_lambda *)
(* inside_block_unit_function(): _nodes_stack[-2] is a Block and _nodes_stack[-3] a Lambda or
   FunctionDeclaration whose ret_type == kt.Unit *)
Definition inside_block_unit_function (stack : list (option pkind)) : bool :=
  match nth 1 stack None with
  | Some (KBlock _) =>
      match nth 2 stack None with
      | Some (KLambda rt _ _) => opt_is_unit rt
      | Some (KFunc _ rt _ _ _ _ _ _) => opt_is_unit rt
      | _ => false
      end
  | _ => false
  end.

(* use_lambda: _nodes_stack[-2] is a VariableDeclaration whose inferred_type is a SAM type *)
Definition use_lambda_of (ctx : option (list string)) (stack : list (option pkind)) : bool :=
  match nth 1 stack None with
  | Some (KVarDecl _ _ _ inf) => sam_type ctx inf
  | _ => false
  end.

Definition sam_name_of (stack : list (option pkind)) : string :=
  match nth 1 stack None with
  | Some (KVarDecl _ _ _ inf) => type_name inf
  | _ => ""
  end.

Definition lambda_text (ret_type : option ptype) (nparams : nat) (has_body : bool)
    (is_expression use_lambda in_unit_block : bool) (sam_name : string) (idt : nat)
    (cr : list segs) : segs :=
  let param_res := firstn nparams cr in
  let body_res := if has_body then last_seg cr else [] in
  if is_expression || use_lambda
  then T (if in_unit_block then "var y = " else "") ++
       T (if use_lambda then sam_name else "") ++
       brace (joins (T ", ") param_res ++ T " -> " ++ body_res)
  else T (spaces idt) ++ T "fun " ++ paren (joins (T ", ") param_res) ++
       type_annotation ret_type ++ T " " ++ body_res.

Definition visit_lambda (rec : visitor) (ret_type : option ptype) (nparams : nat) (has_body : bool)
    (cs : list pnode) (s : st) : st :=
  let old_ident := ident s in
  let is_expression := negb (has_body && last_is_block cs) in
  let s := set_ident (if is_expression then 0 else ident s + 2) s in
  let prev_is_unit := is_unit s in
  let prev_is_lambda := is_lambda s in
  let s := set_is_unit (opt_is_unit ret_type) s in
  let use_lambda := use_lambda_of (context s) (nodes_stack s) in
  let s := set_is_lambda use_lambda s in
  let sam_name := if use_lambda then sam_name_of (nodes_stack s) else "" in
  let prev_c := cast_integers s in
  let s := if is_expression then set_cast true s else s in
  let s := visit_children rec cs s in
  let (cr, s) := pop_res (List.length cs) s in
  let s := set_ident old_ident s in
  let res := lambda_text ret_type nparams has_body is_expression use_lambda
                         (inside_block_unit_function (nodes_stack s)) sam_name (ident s) cr in
  let s := set_is_unit prev_is_unit s in
  let s := set_is_lambda prev_is_lambda s in
  let s := set_cast prev_c s in
  push res s.

(* ---- constants *)
Definition bottom_text (t : option ptype) (idt : nat) : segs :=
  T (spaces idt) ++
  match t with
  | Some t' => paren (T "TODO" ++ paren [] ++ T " as " ++ T (type_name t'))
  | None => T "TODO" ++ paren []
  end.

Definition visit_bottom_constant (t : option ptype) (s : st) : st :=
  push (bottom_text t (ident s)) s.

Definition integer_suffix (t : option ptype) : string :=
  match t with
  | Some (TName CLong _) => ".toLong()"
  | Some (TName CShort _) => ".toShort()"
  | Some (TName CByte _) => ".toByte()"
  | Some (TName CNumber _) => " as Number"
  | _ => ""
  end.

Definition integer_text (lit : string) (integer_type : option ptype) (cast : bool) (idt : nat) : segs :=
  if negb cast
  then T (spaces idt) ++ [Lit lit]
  else
    let suffix := integer_suffix integer_type in
    if negb (str_empty suffix) && starts_with_minus lit
    then T (spaces idt) ++ paren [Lit lit] ++ T suffix
    else T (spaces idt) ++ [Lit lit] ++ T suffix.

Definition visit_integer_constant (lit : string) (integer_type : option ptype) (s : st) : st :=
  push (integer_text lit integer_type (cast_integers s) (ident s)) s.

Definition real_suffix (t : option ptype) : string :=
  match t with Some (TName CFloat _) => "f" | _ => "" end.

Definition real_text (lit : string) (real_type : option ptype) (idt : nat) : segs :=
  T (spaces idt) ++ [Lit lit] ++ T (real_suffix real_type).

Definition visit_real_constant (lit : string) (real_type : option ptype) (s : st) : st :=
  push (real_text lit real_type (ident s)) s.

Definition char_text (lit : string) (idt : nat) : segs :=
  T (spaces idt) ++ T "'" ++ [Lit lit] ++ T "'".

Definition visit_char_constant (lit : string) (s : st) : st :=
  push (char_text lit (ident s)) s.

Definition dquote : string := String (ascii_of_nat 34) EmptyString.

Definition string_text (lit : string) (idt : nat) : segs :=
  T (spaces idt) ++ T dquote ++ [Lit lit] ++ T dquote.

Definition visit_string_constant (lit : string) (s : st) : st :=
  push (string_text lit (ident s)) s.

Definition boolean_text (lit : string) (idt : nat) : segs :=
  T (spaces idt) ++ [Lit lit].

Definition visit_boolean_constant (lit : string) (s : st) : st :=
  push (boolean_text lit (ident s)) s.

(* ---- visit_array_expr *)
Definition array_empty_text (array_type : ptype) (idt : nat) : segs :=
  if negb (ty_specialized array_type)
  then T (spaces idt) ++ T "emptyArray<" ++ T (ty_arg0_name array_type) ++ T ">" ++ paren []
  else T (spaces idt) ++ T (ty_arg0_name array_type) ++ T "Array" ++ paren (T "0").

Definition array_text (array_type : ptype) (idt : nat) (cr : list segs) : segs :=
  if negb (ty_specialized array_type)
  then T (spaces idt) ++ T "arrayOf<" ++ T (ty_arg0_name array_type) ++ T ">" ++
       paren (joins (T ", ") cr)
  else T (spaces idt) ++ T (lower (ty_arg0_name array_type)) ++ T "ArrayOf" ++
       paren (joins (T ", ") cr).

Definition visit_array_expr (rec : visitor) (array_type : ptype) (length : nat)
    (cs : list pnode) (s : st) : st :=
  if Nat.eqb length 0
  then push (array_empty_text array_type (ident s)) s
  else
    let old_ident := ident s in
    let s := set_ident 0 s in
    let s := visit_children rec cs s in
    let (cr, s) := pop_res (List.length cs) s in
    let s := set_ident old_ident s in
    push (array_text array_type (ident s) cr) s.

(* ---- visit_variable *)
Definition variable_text (name : string) (idt : nat) : segs := T (spaces idt) ++ T name.

Definition visit_variable (name : string) (s : st) : st :=
  push (variable_text name (ident s)) s.

(* ---- visit_binary_op *)
Definition binary_op_text (op : string) (is_not : bool) (old_ident : nat) (cr : list segs) : segs :=
  T (spaces old_ident) ++
  paren (nth_seg 0 cr ++ T " " ++ [Op (op_str op is_not)] ++ T " " ++ nth_seg 1 cr).

Definition visit_binary_op (rec : visitor) (op : string) (is_not : bool) (cs : list pnode) (s : st) : st :=
  let old_ident := ident s in
  let s := set_ident 0 s in
  let s := visit_children rec cs s in
  let (cr, s) := pop_res (List.length cs) s in
  let res := binary_op_text op is_not old_ident cr in
  let s := set_ident old_ident s in
  push res s.

(* ---- visit_conditional; idt is self.ident at the time of the slice children_res[0][self.ident:] *)
Definition conditional_text (old_ident idt : nat) (cr : list segs) : segs :=
  T (spaces old_ident) ++
  paren (T "if " ++ paren (drop_segs (nth_seg 0 cr) idt) ++
         T nl ++ nth_seg 1 cr ++ T nl ++ T (spaces old_ident) ++ T "else" ++ T nl ++
         nth_seg 2 cr).

Definition visit_conditional (rec : visitor) (cs : list pnode) (s : st) : st :=
  let old_ident := ident s in
  let s := set_ident (ident s + 2) s in
  let s := visit_children rec cs s in
  let (cr, s) := pop_res (List.length cs) s in
  let res := conditional_text old_ident (ident s) cr in
  let s := set_ident old_ident s in
  push res s.

(* ---- visit_is *)
Definition is_text (op : string) (is_not : bool) (rexpr : ptype) (old_ident : nat) (cr : list segs) : segs :=
  T (spaces old_ident) ++ nth_seg 0 cr ++ T " " ++ [Op (op_str op is_not)] ++ T " " ++
  T (ptype_dot_name rexpr).

Definition visit_is (rec : visitor) (op : string) (is_not : bool) (rexpr : ptype)
    (cs : list pnode) (s : st) : st :=
  let old_ident := ident s in
  let s := set_ident 0 s in
  let s := visit_children rec cs s in
  let (cr, s) := pop_res (List.length cs) s in
  let res := is_text op is_not rexpr old_ident cr in
  let s := set_ident old_ident s in
  push res s.

(* ---- visit_new: the type arguments are dropped iff can_infer_type_args is True *)
Definition new_type_text (class_type : ptype) : string :=
  if ty_can_infer class_type then ptype_dot_name class_type else type_name class_type.

Definition new_text (class_type : ptype) (idt : nat) (cr : list segs) : segs :=
  T (spaces idt) ++ T (new_type_text class_type) ++ paren (joins (T ", ") cr).

Definition visit_new (rec : visitor) (class_type : ptype) (cs : list pnode) (s : st) : st :=
  let old_ident := ident s in
  let s := set_ident 0 s in
  let s := visit_children rec cs s in
  let (cr, s) := pop_res (List.length cs) s in
  let s := set_ident old_ident s in
  push (new_text class_type (ident s) cr) s.

(* '({})'.format(children_res[0]) if isinstance(receiver, BottomConstant) else children_res[0] *)
Definition receiver_expr (bottom : bool) (cr : list segs) : segs :=
  if bottom then paren (nth_seg 0 cr) else nth_seg 0 cr.

(* ---- visit_field_access *)
Definition field_access_text (field : string) (bottom : bool) (idt : nat) (cr : list segs) : segs :=
  T (spaces idt) ++ receiver_expr bottom cr ++ T "." ++ T field.

Definition visit_field_access (rec : visitor) (field : string) (cs : list pnode) (s : st) : st :=
  let old_ident := ident s in
  let s := set_ident 0 s in
  let s := visit_children rec cs s in
  let (cr, s) := pop_res (List.length cs) s in
  let s := set_ident old_ident s in
  push (field_access_text field (first_is_bottom cs) (ident s) cr) s.

(* ---- visit_func_ref *)
Definition func_ref_text (func : string) (idt : nat) (cr : list segs) : segs :=
  T (spaces idt) ++ (if nonempty cr then nth_seg 0 cr else []) ++ T "::" ++ T func.

Definition visit_func_ref (rec : visitor) (func : string) (cs : list pnode) (s : st) : st :=
  let old_ident := ident s in
  let s := set_ident 0 s in
  let s := visit_children rec cs s in
  let s := set_ident old_ident s in
  let (cr, s) := pop_res (List.length cs) s in
  push (func_ref_text func (ident s) cr) s.

(* ---- visit_func_call: explicit type arguments iff not can_infer_type_args and there are some *)
Definition type_args_str (type_args : list ptype) (can_infer : bool) : string :=
  if negb can_infer && nonempty type_args
  then ("<" ++ join "," (map type_name type_args) ++ ">")%string
  else "".

Definition func_call_text (func : string) (type_args : list ptype) (can_infer has_receiver : bool)
    (bottom : bool) (idt : nat) (cr : list segs) : segs :=
  if has_receiver
  then T (spaces idt) ++ receiver_expr bottom cr ++ T "." ++ T func ++
       T (type_args_str type_args can_infer) ++ paren (joins (T ", ") (tl cr))
  else T (spaces idt) ++ T func ++ T (type_args_str type_args can_infer) ++
       paren (joins (T ", ") cr).

Definition visit_func_call (rec : visitor) (func : string) (type_args : list ptype)
    (can_infer has_receiver : bool) (cs : list pnode) (s : st) : st :=
  let old_ident := ident s in
  let s := set_ident 0 s in
  let s := visit_children rec cs s in
  let s := set_ident old_ident s in
  let (cr, s) := pop_res (List.length cs) s in
  push (func_call_text func type_args can_infer has_receiver (first_is_bottom cs) (ident s) cr) s.

(* ---- visit_assign *)
Definition assign_text (name : string) (has_receiver : bool) (bottom : bool) (old_ident : nat)
    (cr : list segs) : segs :=
  if has_receiver
  then T (spaces old_ident) ++ receiver_expr bottom cr ++ T "." ++ T name ++ T " = " ++ nth_seg 1 cr
  else T (spaces old_ident) ++ T name ++ T " = " ++ nth_seg 0 cr.

Definition visit_assign (rec : visitor) (name : string) (has_receiver : bool)
    (cs : list pnode) (s : st) : st :=
  let old_ident := ident s in
  let prev := cast_integers s in
  let s := set_cast true s in
  let s := set_ident 0 s in
  let s := visit_children rec cs s in
  let s := set_ident old_ident s in
  let (cr, s) := pop_res (List.length cs) s in
  let res := assign_text name has_receiver (first_is_bottom cs) old_ident cr in
  let s := set_ident old_ident s in
  let s := set_cast prev s in
  push res s.

(* the decorator @append_to *)
Definition append_to (k : pkind) (f : st -> st) (s : st) : st :=
  let s := set_stack (Some k :: nodes_stack s) s in
  let s := f s in
  set_stack (tl (nodes_stack s)) s.

(* ASTVisitor.visit: dispatch on the class of the node *)
Definition visit_node (rec : visitor) (n : pnode) (s : st) : st :=
  match n with
  | PN k cs =>
      match k with
      | KBlock fb => append_to k (visit_block rec fb cs) s
      | KSuper ct an => append_to k (visit_super_instantiation rec ct an cs) s
      | KClass name ct fin nf ns nfn => append_to k (visit_class_decl rec name ct fin nf ns nfn cs) s
      | KTypeParam name v b => append_to k (visit_type_param name v b) s
      | KVarDecl name fin vt _ => append_to k (visit_var_decl rec name fin vt cs) s
      | KCallArg name => append_to k (visit_call_argument rec name cs) s
      | KField name ft fin co ov => append_to k (visit_field_decl name ft fin co ov) s
      | KParam name pt va => append_to k (visit_param_decl rec name pt va cs) s
      | KFunc name rt inf fin ov hb np ntp =>
          append_to k (visit_func_decl rec name rt inf fin ov hb np ntp cs) s
      | KLambda rt np hb => append_to k (visit_lambda rec rt np hb cs) s
      | KBottom t => append_to k (visit_bottom_constant t) s
      | KInt lit it => append_to k (visit_integer_constant lit it) s
      | KReal lit rt => append_to k (visit_real_constant lit rt) s
      | KChar lit => append_to k (visit_char_constant lit) s
      | KString lit => append_to k (visit_string_constant lit) s
      | KBool lit => append_to k (visit_boolean_constant lit) s
      | KArray at_ len => append_to k (visit_array_expr rec at_ len cs) s
      | KVariable name => append_to k (visit_variable name) s
      | KBinOp BEquality op nt =>
          (* visit_equality_expr *)
          let prev := cast_integers s in
          let s := set_cast true s in
          let s := append_to k (visit_binary_op rec op nt cs) s in
          set_cast prev s
      | KBinOp _ op nt => append_to k (visit_binary_op rec op nt cs) s
      | KCond => append_to k (visit_conditional rec cs) s
      | KIs op nt rx => append_to k (visit_is rec op nt rx cs) s
      | KNew ct => append_to k (visit_new rec ct cs) s
      | KFieldAccess f => append_to k (visit_field_access rec f cs) s
      | KFuncRef f => append_to k (visit_func_ref rec f cs) s
      | KFuncCall f ta ci hr => append_to k (visit_func_call rec f ta ci hr cs) s
      | KAssign name hr => append_to k (visit_assign rec name hr cs) s
      end
  end.

(* node.accept(self): structural recursion through the children lists *)
Fixpoint visit (n : pnode) (s : st) {struct n} : st := visit_node visit n s.

(* visit_program *)
Definition program_text (pkg : string) (cr : list segs) : segs :=
  (if negb (str_empty pkg) then T "package " ++ T pkg ++ T nl else []) ++
  joins (T (nl ++ nl)%string) cr.

Definition visit_program (pkg : string) (p : pprogram) (t : translator) : translator :=
  let s := set_context (Some (sams p)) (tst t) in
  let s := visit_children visit (decls p) s in
  let (cr, s) := pop_res (List.length (decls p)) s in
  mkTr s (Some (program_text pkg cr)).

(* BaseTranslator.result (the exception for program = None is a default here) *)
Definition result_segs (t : translator) : segs :=
  match program t with Some r => r | None => [] end.

Definition result (t : translator) : string := flatten (result_segs t).

(* utils.translate_program(translator, program) on a translator object t: the text and the
   state the object is left in *)
Definition translate_program (pkg : string) (t : translator) (p : pprogram) : string * translator :=
  let t' := visit_program pkg p t in (result t', t').

(* the text of a program from a fresh translator *)
Definition print_segs (pkg : string) (p : pprogram) : segs :=
  result_segs (visit_program pkg p init_tr).

Definition print_program (pkg : string) (p : pprogram) : string :=
  fst (translate_program pkg init_tr p).

(* a history: programs translated one after the other by the same translator object (the
   package can be reassigned in between, as hephaestus.py does) *)
Fixpoint run_history (t : translator) (h : list (string * pprogram)) : list string * translator :=
  match h with
  | [] => ([], t)
  | (pkg, p) :: r =>
      let (x, t') := translate_program pkg t p in
      let (xs, t'') := run_history t' r in
      (x :: xs, t'')
  end.

(* ------------------------------------------------------------------------------------ *)
(* correspondence drivers (evaluated by the case files of harness/c11.py, c12.py)          *)

(* indexes of the cases whose expected text (from the real KotlinTranslator) differs *)
Fixpoint mismatches (i : nat) (cases : list (string * pprogram * string)) : list nat :=
  match cases with
  | [] => []
  | (pkg, p, expected) :: r =>
      if String.eqb (print_program pkg p) expected then mismatches (S i) r
      else i :: mismatches (S i) r
  end.

(* the state a translation must leave behind: everything initial; the context is the one of
   the last program (it is reassigned at the start of every visit_program) *)
Definition clean_st (s : st) : bool :=
  Nat.eqb (ident s) 0 && negb (is_unit s) && negb (is_lambda s) && negb (cast_integers s) &&
  negb (nonempty (children_res s)) &&
  match nodes_stack s with [None] => true | _ => false end.

Fixpoint text_mismatches (i : nat) (got expected : list string) : list nat :=
  match got, expected with
  | g :: gr, e :: er => if String.eqb g e then text_mismatches (S i) gr er
                        else i :: text_mismatches (S i) gr er
  | [], [] => []
  | _, _ => [i]
  end.

(* a history run on the model with the translator state threaded through: the indexes of the
   texts that differ from the implementation's, and whether the final state is clean *)
Definition history_mismatches (h : list (string * pprogram)) (expected : list string) : list nat * bool :=
  let (ts, t) := run_history init_tr h in (text_mismatches 0 ts expected, clean_st (tst t)).

(* ------------------------------------------------------------------------------------ *)
(* specification vocabulary for C12 (evaluated by harness/c12.py, proved in PrintProofs.v)  *)

(* the marked pieces of a text, in text order; pieces with empty text are nothing visible *)
Inductive mark :=
| MDecl (k : dkind) (name : string)
| MLit (s : string)
| MOp (s : string).

Definition mk_mark (f : string -> mark) (s : string) : list mark :=
  if str_empty s then [] else [f s].

Definition seg_marks (sg : seg) : list mark :=
  match sg with
  | Txt _ => []
  | Decl k s => mk_mark (MDecl k) s
  | Lit s => mk_mark MLit s
  | Op s => mk_mark MOp s
  end.

Definition marks (l : segs) : list mark := flat_map seg_marks l.

(* what a node itself declares / carries *)
Definition own_marks (k : pkind) : list mark :=
  match k with
  | KClass name _ _ _ _ _ => mk_mark (MDecl DClass) name
  | KTypeParam name _ _ => mk_mark (MDecl DTypeParam) name
  | KVarDecl name _ _ _ => mk_mark (MDecl DVar) name
  | KField name _ _ _ _ => mk_mark (MDecl DField) name
  | KParam name _ _ => mk_mark (MDecl DParam) name
  | KFunc name _ _ _ _ _ _ _ => mk_mark (MDecl DFunc) name
  | KInt lit _ => mk_mark MLit lit
  | KReal lit _ => mk_mark MLit lit
  | KChar lit => mk_mark MLit lit
  | KString lit => mk_mark MLit lit
  | KBool lit => mk_mark MLit lit
  | KBinOp _ op nt => mk_mark MOp (op_str op nt)
  | KIs op nt _ => mk_mark MOp (op_str op nt)
  | _ => []
  end.

(* the inventory of a tree: every declaration, literal and operator node, pre-order *)
Fixpoint inventory (n : pnode) : list mark :=
  match n with PN k cs => own_marks k ++ flat_map inventory cs end.

Definition program_inventory (p : pprogram) : list mark := flat_map inventory (decls p).

(* kinds whose text starts with the indentation " " * ident *)
Definition prefixing (k : pkind) : bool :=
  match k with
  | KBlock _ | KSuper _ _ | KTypeParam _ _ _ | KCallArg _ | KField _ _ _ _ _ | KParam _ _ _
  | KLambda _ _ _ => false
  | _ => true
  end.

(* the shape the implementation's children() gives every node: the arities by which the
   visit_* methods index children_res; an empty array has no elements; the condition of a
   conditional is an expression printed with its indentation (children_res[0][self.ident:]
   removes exactly that) *)
Definition arity_ok (k : pkind) (cs : list pnode) : bool :=
  let n := List.length cs in
  match k with
  | KBlock _ | KNew _ => true
  | KSuper _ an => if an then Nat.eqb n 0 else true
  | KClass _ _ _ nf ns nfn => Nat.leb (nf + ns + nfn) n
  | KTypeParam _ _ _ | KField _ _ _ _ _ | KBottom _ | KInt _ _ | KReal _ _ | KChar _ | KString _
  | KBool _ | KVariable _ => Nat.eqb n 0
  | KVarDecl _ _ _ _ | KCallArg _ | KIs _ _ _ | KFieldAccess _ => Nat.eqb n 1
  | KParam _ _ _ | KFuncRef _ => Nat.leb n 1
  | KFunc _ _ _ _ _ hb np ntp => Nat.eqb n (np + ntp + (if hb then 1 else 0))
  | KLambda _ np hb => Nat.eqb n (np + (if hb then 1 else 0))
  | KArray _ len => if Nat.eqb len 0 then Nat.eqb n 0 else true
  | KBinOp _ _ _ => Nat.eqb n 2
  | KCond => Nat.eqb n 3 && match cs with c :: _ => prefixing (kind_of c) | [] => true end
  | KFuncCall _ _ _ hr => if hr then Nat.leb 1 n else true
  | KAssign _ hr => Nat.eqb n (if hr then 2 else 1)
  end.

Fixpoint wf (n : pnode) : bool :=
  match n with PN k cs => arity_ok k cs && forallb wf cs end.

Definition wf_program (p : pprogram) : bool := forallb wf (decls p).

(* no round bracket or brace *)
Definition clean_char (a : ascii) : bool :=
  negb (Ascii.eqb a "("%char || Ascii.eqb a ")"%char || Ascii.eqb a "{"%char || Ascii.eqb a "}"%char).

Fixpoint clean_str (s : string) : bool :=
  match s with EmptyString => true | String a r => clean_char a && clean_str r end.

Definition opt_type_name (t : option ptype) : string :=
  match t with Some t' => type_name t' | None => EmptyString end.

(* every string of a node that ends up in the text *)
Definition kind_strings (k : pkind) : list string :=
  match k with
  | KBlock _ | KCond => []
  | KSuper ct _ => [type_name ct]
  | KClass name _ _ _ _ _ => [name]
  | KTypeParam name _ b => [name; opt_type_name b]
  | KVarDecl name _ vt inf => [name; opt_type_name vt; type_name inf]
  | KCallArg name => [match name with Some n => n | None => EmptyString end]
  | KField name ft _ _ _ => [name; type_name ft]
  | KParam name pt va => [name; param_print_type pt va]
  | KFunc name rt _ _ _ _ _ _ => [name; opt_type_name rt]
  | KLambda rt _ _ => [opt_type_name rt]
  | KBottom t => [opt_type_name t]
  | KInt lit _ | KReal lit _ | KChar lit | KString lit | KBool lit => [lit]
  | KArray at_ _ => [ty_arg0_name at_; lower (ty_arg0_name at_)]
  | KVariable name => [name]
  | KBinOp _ op nt => [op_str op nt]
  | KIs op nt rx => [op_str op nt; ptype_dot_name rx]
  | KNew ct => [new_type_text ct]
  | KFieldAccess f | KFuncRef f => [f]
  | KFuncCall f ta ci _ => [f; type_args_str ta ci]
  | KAssign name _ => [name]
  end.

Definition clean_kind (k : pkind) : bool := forallb clean_str (kind_strings k).

Fixpoint clean (n : pnode) : bool :=
  match n with PN k cs => clean_kind k && forallb clean cs end.

Definition clean_program (pkg : string) (p : pprogram) : bool :=
  clean_str pkg && forallb clean (decls p).

(* bracket depth: scan o c s d = depth after s, starting at depth d; None when a closing
   bracket has no opening one *)
Fixpoint scan (o c : ascii) (s : string) (d : nat) : option nat :=
  match s with
  | EmptyString => Some d
  | String a r =>
      if Ascii.eqb a o then scan o c r (S d)
      else if Ascii.eqb a c then match d with 0 => None | S d' => scan o c r d' end
      else scan o c r d
  end.

Definition balanced (o c : ascii) (s : string) : bool :=
  match scan o c s 0 with Some 0 => true | _ => false end.

(* what harness/c12.py evaluates per program: whether the model's text is the real translator's
   (`expected`), whether the program has the shape / lexical hypotheses of the theorems, the
   two balance checks ON THE REAL TEXT, and whether the marks of the model's text are a
   permutation of the inventory (decided by counting) *)
Definition mark_eqb (a b : mark) : bool :=
  match a, b with
  | MDecl k1 s1, MDecl k2 s2 =>
      String.eqb s1 s2 &&
      match k1, k2 with
      | DClass, DClass | DField, DField | DFunc, DFunc | DParam, DParam
      | DTypeParam, DTypeParam | DVar, DVar => true
      | _, _ => false
      end
  | MLit s1, MLit s2 => String.eqb s1 s2
  | MOp s1, MOp s2 => String.eqb s1 s2
  | _, _ => false
  end.

Fixpoint remove_one (m : mark) (l : list mark) : option (list mark) :=
  match l with
  | [] => None
  | x :: r => if mark_eqb m x then Some r
              else match remove_one m r with Some r' => Some (x :: r') | None => None end
  end.

Fixpoint same_marks (a b : list mark) : bool :=
  match a with
  | [] => match b with [] => true | _ => false end
  | m :: r => match remove_one m b with Some b' => same_marks r b' | None => false end
  end.

Definition c12_report (pkg : string) (p : pprogram) (expected : string)
  : bool * bool * bool * bool * bool * bool :=
  let r := print_segs pkg p in
  let t := flatten r in
  (String.eqb t expected, wf_program p, clean_program pkg p,
   balanced "("%char ")"%char expected, balanced "{"%char "}"%char expected,
   same_marks (marks r) (program_inventory p)).

(* bracket balance of a text of any language: (), {}, [] *)
Definition balance3 (t : string) : bool * bool * bool :=
  (balanced "("%char ")"%char t, balanced "{"%char "}"%char t, balanced "["%char "]"%char t).
