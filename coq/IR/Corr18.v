(* IR/Corr18.v -- comparison for harness/c18.py. Definitions only. *)
From Coq Require Import List Arith Bool.
Import ListNotations.
From Heph Require Import IR.Depth.

Definition gcase := (nat * nat * bool * bool * bool * bool * ckind * nat * nat * list gen)%type.

Fixpoint gens_eqb (a b : list gen) : bool :=
  match a, b with
  | [], [] => true
  | x :: a', y :: b' => gen_eqb x y && gens_eqb a' b'
  | _, _ => false
  end.

Fixpoint gmismatches (i : nat) (cs : list gcase) : list nat :=
  match cs with
  | [] => []
  | (d, md, ol, ev, iv, ib, ck, vars, mv, e) :: cs' =>
      (if gens_eqb (get_generators d md ol ev iv ib ck vars mv) e then [] else [i]) ++ gmismatches (S i) cs'
  end.
