(* Properties_C18.v -- the property theorems, nothing else. *)
From Coq Require Import List Arith Bool.
Import ListNotations.
From Heph Require Import IR.Depth IR.DepthProofs.

(* at the configured depth (or when only leaves are requested) only leaf generators are offered *)
Theorem leaves_forced : forall depth max_depth only_leaves exclude_var is_bool ck vars max_vars g,
  (max_depth <= depth \/ only_leaves = true) ->
  In g (get_generators depth max_depth only_leaves exclude_var false is_bool ck vars max_vars) ->
  is_leaf_gen g = true.
Proof. exact leaves_forced_lem. Qed.
Print Assumptions leaves_forced.

(* the same-depth re-dispatch of gen_variable (exclude_var) cannot pick gen_variable again *)
Theorem no_variable_when_excluded : forall depth max_depth only_leaves is_bool ck vars max_vars,
  (max_depth <= depth \/ only_leaves = true) ->
  ~ In GVariable (get_generators depth max_depth only_leaves true false is_bool ck vars max_vars).
Proof. exact no_variable_when_excluded_lem. Qed.
Print Assumptions no_variable_when_excluded.

(* the random choice among the candidates never fails *)
Theorem generators_nonempty : forall depth max_depth ol ev iv ib ck vars mv,
  get_generators depth max_depth ol ev iv ib ck vars mv <> [].
Proof. exact generators_nonempty_lem. Qed.
Print Assumptions generators_nonempty.

Theorem composite_generators_increment_depth : forall g, is_leaf_gen g = false -> 1 <= inc g.
Proof. exact composite_increments_lem. Qed.
Print Assumptions composite_generators_increment_depth.

(* every run of the recursion scheme: the nesting is bounded by a function of the configured depth *)
Theorem height_bounded : forall max d t, Gen max d t -> height t <= S (2 * max + 1 - d).
Proof. exact height_bounded_lem. Qed.
Print Assumptions height_bounded.

Theorem nesting_bounded : forall max t, Gen max 1 t -> height t <= 2 * max + 1.
Proof. exact nesting_bounded_lem. Qed.
Print Assumptions nesting_bounded.
