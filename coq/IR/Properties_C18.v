(* Properties_C18.v -- the property theorems, nothing else. *)
From Coq Require Import List Arith Bool.
Import ListNotations.
From Heph Require Import IR.Work IR.WorkProofs IR.Depth IR.DepthProofs.

(* at the configured depth (or when only leaves are requested) only leaf generators are offered *)
Theorem leaves_forced : forall depth max_depth only_leaves exclude_var is_bool ck vars max_vars g,
  (max_depth <= depth \/ only_leaves = true) ->
  In g (get_generators depth max_depth only_leaves exclude_var false is_bool ck vars max_vars) ->
  is_leaf_gen g = true.
Proof. exact leaves_forced_lem. Qed.
Print Assumptions leaves_forced.

(* the same-depth re-dispatch of gen_variable (exclude_var) cannot pick gen_variable again *)
Theorem no_variable_when_excluded : forall depth max_depth only_leaves is_bool ck vars max_vars,
  (max_depth <= depth \/ only_leaves = true) ->
  ~ In GVariable (get_generators depth max_depth only_leaves true false is_bool ck vars max_vars).
Proof. exact no_variable_when_excluded_lem. Qed.
Print Assumptions no_variable_when_excluded.

(* the random choice among the candidates never fails *)
Theorem generators_nonempty : forall depth max_depth ol ev iv ib ck vars mv,
  get_generators depth max_depth ol ev iv ib ck vars mv <> [].
Proof. exact generators_nonempty_lem. Qed.
Print Assumptions generators_nonempty.

Theorem composite_generators_increment_depth : forall g, is_leaf_gen g = false -> 1 <= inc g.
Proof. exact composite_increments_lem. Qed.
Print Assumptions composite_generators_increment_depth.

(* every run of the recursion scheme: the nesting is bounded by a function of the configured depth *)
Theorem height_bounded : forall max A a d t,
    Gen max A a d t -> a <= A -> height t <= a + 1 + (A + 1) * (2 * max + 1 - d).
Proof. exact height_bounded_lem. Qed.
Print Assumptions height_bounded.

(* A = the deepest array nesting of a type of the program: array expressions do not increment the depth *)
Theorem nesting_bounded : forall max A t, Gen max A A 1 t -> height t <= (A + 1) * (2 * max + 1).
Proof. exact nesting_bounded_lem. Qed.
Print Assumptions nesting_bounded.

Theorem nesting_bounded_without_arrays : forall max t, Gen max 0 0 1 t -> height t <= 2 * max + 1.
Proof. exact nesting_bounded_no_arrays_lem. Qed.
Print Assumptions nesting_bounded_without_arrays.

(* ---- the other counters that bound the pipeline's work (IR/Work.v) ---- *)

(* process_cp_transformations + ProgramProcessor.transform_program: whatever the transformations do,
   the loop ends after exactly the remaining number of schedule entries, with the counter at the end *)
Theorem schedule_loop_terminates : forall p o,
    cur p <= slen p ->
    exists applied,
      cp_loop (slen p - cur p) p o 0 [] = Some ({| cur := slen p; slen := slen p |}, slen p - cur p, applied).
Proof. exact cp_loop_terminates. Qed.
Print Assumptions schedule_loop_terminates.

Theorem schedule_loop_calls_each_entry_once : forall n p o k q a,
    cp_loop n p o 0 [] = Some (q, k, a) -> k = slen p - cur p /\ can_transform q = false.
Proof. exact cp_loop_calls. Qed.
Print Assumptions schedule_loop_calls_each_entry_once.

(* TypeErasure.visit_func_decl: at most max_combinations + 1 feasibility checks of the search,
   and never more than there are combinations *)
Theorem erasure_search_budget : forall results budget,
    0 < budget -> snd (search budget 0 results 0) <= S budget.
Proof. exact search_checks_bounded. Qed.
Print Assumptions erasure_search_budget.

Theorem erasure_search_total : forall results budget i k,
    snd (search budget i results k) <= k + length results.
Proof. exact search_checks_le_total. Qed.
Print Assumptions erasure_search_total.

Theorem erasure_search_applies_first_feasible : forall results budget j,
    fst (search budget 0 results 0) = Some j ->
    nth j results false = true /\ (forall m, m < j -> nth m results false = false) /\ (budget = 0 \/ j <= budget).
Proof. exact search_finds_first. Qed.
Print Assumptions erasure_search_applies_first_feasible.

Theorem erasure_search_gives_up_only_within_budget : forall results budget m,
    fst (search budget 0 results 0) = None ->
    m < length results -> (budget = 0 \/ m <= budget) -> nth m results false = false.
Proof. exact search_none. Qed.
Print Assumptions erasure_search_gives_up_only_within_budget.

(* gen_new: beyond twice the depth limit every non-primitive constructor argument is a bottom
   constant, in leaves-only mode too *)
Theorem new_cut_forced : forall sn d m ol, 2 * m < d -> gen_bottom_rule sn d m false ol = true.
Proof. exact gen_bottom_forced. Qed.
Print Assumptions new_cut_forced.

Theorem new_cut_ignores_only_leaves : forall sn d m pr ol ol',
    gen_bottom_rule sn d m pr ol = gen_bottom_rule sn d m pr ol'.
Proof. exact gen_bottom_ignores_only_leaves. Qed.
Print Assumptions new_cut_ignores_only_leaves.
