(* IR/Properties_Diff.v -- statements proved about IR/Diff.v (proofs in IR/DiffProofs.v;
   slot_at is defined there). *)
From Coq Require Import List Arith Bool.
Import ListNotations.
From Heph Require Import Types.Syntax Types.Corr IR.Syntax IR.Diff IR.DiffProofs.

(* D0 *)
Theorem ty_eqb_eq : forall a b, ty_eqb a b = true <-> a = b.
Proof. exact DiffProofs.ty_eqb_eq. Qed.
Print Assumptions ty_eqb_eq.

Theorem oty_eqb_eq : forall a b, oty_eqb a b = true <-> a = b.
Proof. exact DiffProofs.oty_eqb_eq. Qed.
Print Assumptions oty_eqb_eq.

Theorem otys_eqb_eq : forall a b, otys_eqb a b = true <-> a = b.
Proof. exact DiffProofs.otys_eqb_eq. Qed.
Print Assumptions otys_eqb_eq.

Theorem bools_eqb_eq : forall a b, bools_eqb a b = true <-> a = b.
Proof. exact DiffProofs.bools_eqb_eq. Qed.
Print Assumptions bools_eqb_eq.

(* D1 *)
Theorem erased_from_iff : forall p p', erased_from p p' = true <-> ErasedFrom p p'.
Proof. exact DiffProofs.erased_from_iff. Qed.
Print Assumptions erased_from_iff.

(* D2 *)
Theorem erased_from_refl : forall p, erased_from p p = true.
Proof. exact DiffProofs.erased_from_refl. Qed.
Print Assumptions erased_from_refl.

(* D3 *)
Theorem erasure_only_removes_types :
  forall p p', ErasedFrom p p' -> forall t, TypeOccurs t p' -> TypeOccurs t p.
Proof. exact DiffProofs.erasure_only_removes_types. Qed.
Print Assumptions erasure_only_removes_types.

(* D4 *)
Theorem erasure_keeps_shape :
  forall p p', ErasedFrom p p' ->
  map (fun n => (kind_of n, name_of_node n, num_of n)) (nodes p) =
  map (fun n => (kind_of n, name_of_node n, num_of n)) (nodes p').
Proof. exact DiffProofs.erasure_keeps_shape. Qed.
Print Assumptions erasure_keeps_shape.

(* D5 *)
Theorem erasure_is_local :
  forall p p', ErasedFrom p p' ->
  Forall2 (fun n n' =>
    (kind_of n <> kVarDecl /\ kind_of n <> kFuncDecl -> tys_of n' = tys_of n) /\
    (kind_of n <> kNew /\ kind_of n <> kFunctionCall -> flags_of n' = flags_of n) /\
    (forall i, 1 <= i -> nth_error (tys_of n') i = nth_error (tys_of n) i))
    (nodes p) (nodes p').
Proof. exact DiffProofs.erasure_is_local. Qed.
Print Assumptions erasure_is_local.

(* D6 *)
Theorem type_changes_nil_iff : forall path p p', type_changes path p p' = Some [] <-> p = p'.
Proof. exact DiffProofs.type_changes_nil_iff. Qed.
Print Assumptions type_changes_nil_iff.

(* D7 *)
Theorem type_changes_same_skeleton :
  forall path p p' cs, type_changes path p p' = Some cs ->
  map (fun n => (kind_of n, name_of_node n, num_of n, flags_of n, length (tys_of n))) (nodes p) =
  map (fun n => (kind_of n, name_of_node n, num_of n, flags_of n, length (tys_of n))) (nodes p').
Proof. exact DiffProofs.type_changes_same_skeleton. Qed.
Print Assumptions type_changes_same_skeleton.

(* D8 *)
Theorem type_changes_complete :
  forall p p' cs, type_changes [] p p' = Some cs ->
  forall path i o o',
    In (path, i, o, o') cs <->
    (slot_at p path i = Some o /\ slot_at p' path i = Some o' /\ o <> o').
Proof. exact DiffProofs.type_changes_complete. Qed.
Print Assumptions type_changes_complete.

(* D8, from an arbitrary starting path *)
Theorem type_changes_complete_from :
  forall p pre p' cs, type_changes pre p p' = Some cs ->
  forall q i o o',
    In (q, i, o, o') cs <->
    exists path, q = pre ++ path /\
      slot_at p path i = Some o /\ slot_at p' path i = Some o' /\ o <> o'.
Proof. exact DiffProofs.type_changes_spec. Qed.
Print Assumptions type_changes_complete_from.
