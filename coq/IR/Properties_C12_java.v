(* Properties_C12_java.v -- the property theorems for the JAVA translator, nothing else.
   All statements are about the definitions of IR/PrintJava.v that harness/printcorr_java.py
   evaluates against the real JavaTranslator: `visit`, `print_segs`, `print_program` (= flatten
   of print_segs, the byte-compared text), the text functions `*_text`, and the vocabulary
   `marks` (the marked pieces of a text: declared names in declaration position, literals,
   operators), `inventory` (the declaration / literal / operator nodes of a tree), `wf_program`
   (node shapes, routing of declarations into Main, at most one top-level main, what the
   translator prints of what it is given), `lex_program` (no white space inside names, literals,
   operators), `clean_program` (no round bracket or brace inside them or inside printed type
   names), `balanced`. *)
From Coq Require Import String Ascii List Arith Bool Permutation.
Import ListNotations.
From Heph Require Import IR.PrintKotlin IR.PrintProofs IR.PrintJava IR.PrintJavaProofs.
Open Scope string_scope.
Open Scope list_scope.

(* (c)+(d) inventory: the text declares exactly the classes, fields, functions, parameters,
   type parameters and variables of the program and carries exactly its literals and operators
   (an Is as `instanceof`): the marked pieces of the text are, as a multiset, the inventory of
   the tree.  This covers the routing of the top-level functions and variables into class Main
   and the superclass arguments printed inside the generated constructors. *)
Theorem declares_exactly : forall pkg p,
  wf_program p = true -> lex_program p = true ->
  Permutation (marks (print_segs pkg p)) (program_inventory p).
Proof. exact declares_exactly_lem. Qed.
Print Assumptions declares_exactly.

(* REFUTED without the lexical hypothesis: a string literal with two consecutive blanks among the
   arguments of a superclass constructor call is printed with one (construct_constructor applies
   re.sub(r'\s+', ' ', ...) to the translated arguments): the program is wf and clean, but the
   literal of the text is not the literal of the program.  Witness: class A(f: String);
   class B : A("a  b"). *)
Theorem literal_in_super_args_altered_refuted :
  exists p, wf_program p = true /\ clean_program "" p = true /\
            ~ Permutation (marks (print_segs "" p)) (program_inventory p).
Proof. exact literal_in_super_args_altered_lem. Qed.
Print Assumptions literal_in_super_args_altered_refuted.

(* the boolean the harness evaluates for this is exact *)
Theorem same_marks_exact : forall a b, same_marks a b = true <-> Permutation a b.
Proof. exact same_marks_spec. Qed.
Print Assumptions same_marks_exact.

(* (b) balance: round brackets and braces of the whole text are balanced (never negative, zero
   at the end) whenever no name, literal, operator or printed type name contains one *)
Theorem brackets_balanced : forall pkg p,
  wf_program p = true -> clean_program pkg p = true ->
  balanced "("%char ")"%char (print_program pkg p) = true /\
  balanced "{"%char "}"%char (print_program pkg p) = true.
Proof. exact brackets_balanced_lem. Qed.
Print Assumptions brackets_balanced.

(* (a) REFUTED for Java: "a declared variable type is printed iff the program carries it".
   A variable declaration WITHOUT declared type (var_type = None, e.g. after type erasure) is
   printed with an explicit type, the inferred one: the text is  indentation, final?, the name
   of the INFERRED type, the name, " = ", the initializer, ";".  Known finding C12-java-var. *)
Theorem var_type_printed_even_if_absent : forall name fin inf cs s,
  routed false (namespace s) (PN (KVarDecl name fin None inf) cs) = true ->
  exists mp idt cr,
    children_res (visit (PN (KVarDecl name fin None inf) cs) s) =
    (T idt ++ T (if fin then "final " else "") ++ T (type_name inf) ++ T " " ++ T mp ++
     [Decl DVar name] ++ T " = " ++ lstrip_segs (nth_seg 0 cr) ++ T ";") :: children_res s.
Proof. exact var_type_absent_lem. Qed.
Print Assumptions var_type_printed_even_if_absent.

(* and in general the text of a variable declaration does not depend on var_type at all *)
Theorem var_decl_shape : forall name fin vt inf cs s,
  routed false (namespace s) (PN (KVarDecl name fin vt inf) cs) = true ->
  exists mp idt cr,
    children_res (visit (PN (KVarDecl name fin vt inf) cs) s) =
    (T idt ++ T (if fin then "final " else "") ++ T (type_name inf) ++ T " " ++ T mp ++
     [Decl DVar name] ++ T " = " ++ lstrip_segs (nth_seg 0 cr) ++ T ";") :: children_res s.
Proof. exact var_decl_shape_lem. Qed.
Print Assumptions var_decl_shape.

(* return types: the text of a function declaration is func_decl_text of its children's texts;
   ret_type is not an argument of it: the INFERRED return type is always printed, as the type of
   the method or, for a nested function, as the last argument of its FunctionN type *)
Theorem func_decl_shape : forall name rt inf fin hb np ntp cs s,
  routed false (namespace s) (PN (KFunc name rt inf fin hb np ntp) cs) = true ->
  exists nested close cr,
    children_res (visit (PN (KFunc name rt inf fin hb np ntp) cs) s) =
    func_decl_text name inf fin hb np ntp (negb (hb && last_is_block cs)) nested close cr :: children_res s.
Proof. exact func_decl_shape_lem. Qed.
Print Assumptions func_decl_shape.

(* a method: "public ", "final " iff is_final, "abstract " (and ";") iff there is no body, the
   type parameters, the inferred return type, the name, the parameters, the body *)
Theorem ret_type_always_printed_and_func_modifiers : forall name inf fin hb np ntp ie close cr,
  exists tparams params body,
    func_decl_text name inf fin hb np ntp ie false close cr =
    T close ++ T "public " ++ T (if fin then "final " else "") ++
    T (if segs_empty body then "abstract " else "") ++ tparams ++
    T (type_name inf) ++ T " " ++ [Decl DFunc name] ++ paren params ++ T " " ++ body ++
    T (if segs_empty body then ";" else "").
Proof. exact func_modifiers_lem. Qed.
Print Assumptions ret_type_always_printed_and_func_modifiers.

(* a nested function: a variable of a FunctionN type whose last argument is the (boxed) inferred
   return type, initialised with a lambda; its type parameters are not printed *)
Theorem nested_func_shape : forall name inf fin hb np ntp ie close cr,
  exists types params body,
    func_decl_text name inf fin hb np ntp ie true close cr =
    T close ++ T "Function" ++ T (nat_str (List.length (firstn np cr))) ++ T "<" ++
    T (join ", " (types ++ [boxed (type_name_gen true false inf)])) ++ T "> " ++ [Decl DFunc name] ++ T " = " ++
    paren params ++ T " -> " ++ body ++ T ";".
Proof. exact func_nested_lem. Qed.
Print Assumptions nested_func_shape.

(* lambdas: the return type is never printed (it only decides whether `return` is inserted) *)
Theorem lambda_shape : forall name rt np hb cs s,
  routed false (namespace s) (PN (KLambda name rt np hb) cs) = true ->
  exists sm cr,
    children_res (visit (PN (KLambda name rt np hb) cs) s) =
    lambda_text rt np hb (negb (hb && last_is_block cs)) sm cr :: children_res s.
Proof. exact lambda_shape_lem. Qed.
Print Assumptions lambda_shape.

Theorem lambda_ret_type_never_printed : forall rt rt' np hb ie sm cr, opt_is_void rt = opt_is_void rt' ->
  lambda_text rt np hb ie sm cr = lambda_text rt' np hb ie sm cr.
Proof. exact lambda_ret_type_lem. Qed.
Print Assumptions lambda_ret_type_never_printed.

(* explicit type arguments of a constructor call: the diamond iff can_infer_type_args *)
Theorem new_shape : forall ct cs s, routed false (namespace s) (PN (KNew ct) cs) = true ->
  exists idt sm cr,
    children_res (visit (PN (KNew ct) cs) s) =
    (T idt ++ T "new " ++ T (new_type_text ct) ++ paren (joins (T ", ") cr) ++ T sm) :: children_res s.
Proof. exact new_shape_lem. Qed.
Print Assumptions new_shape.

Theorem new_diamond_iff_can_infer : forall n arr ci args,
  new_type_text (TApp n arr ci args) = if ci then (n ++ "<>")%string else type_name (TApp n arr ci args).
Proof. exact new_type_text_spec. Qed.
Print Assumptions new_diamond_iff_can_infer.

(* REFUTED for Java: "explicit type arguments of a call are printed iff they cannot be
   inferred": they are never printed -- the text of a call is func_call_text, which has neither
   type_args nor can_infer_type_args among its arguments *)
Theorem call_type_args_never_printed : forall f ta ci rc hr cs s,
  routed false (namespace s) (PN (KFuncCall f ta ci rc hr) cs) = true ->
  exists info mpf mpv idt sm cr,
    children_res (visit (PN (KFuncCall f ta ci rc hr) cs) s) =
    func_call_text f rc hr (first_is_bottom cs) info mpf mpv idt sm cr :: children_res s.
Proof. exact func_call_shape_lem. Qed.
Print Assumptions call_type_args_never_printed.

(* modifiers, bounds, inheritance clauses *)
Theorem field_modifiers : forall name ft fin cs s,
  routed false (namespace s) (PN (KField name ft fin) cs) = true ->
  children_res (visit (PN (KField name ft fin) cs) s) =
  (T "public " ++ T (if fin then "final " else "") ++ T (type_name ft) ++ T " " ++ [Decl DField name] ++ T ";")
  :: children_res s.
Proof. exact field_shape_lem. Qed.
Print Assumptions field_modifiers.

Theorem type_parameter_bound : forall name b cs s,
  routed false (namespace s) (PN (KTypeParam name b) cs) = true ->
  children_res (visit (PN (KTypeParam name b) cs) s) =
  ([Decl DTypeParam name] ++ match b with Some t => T " extends " ++ T (boxed (type_name t)) | None => [] end)
  :: children_res s.
Proof. exact type_param_shape_lem. Qed.
Print Assumptions type_parameter_bound.

Theorem parameter_shape : forall name pt va cs s,
  routed false (namespace s) (PN (KParam name pt va) cs) = true ->
  children_res (visit (PN (KParam name pt va) cs) s) =
  (T (param_print_type pt va) ++ T (if va then "..." else "") ++ T " " ++ [Decl DParam name]) :: children_res s.
Proof. exact param_shape_lem. Qed.
Print Assumptions parameter_shape.

Theorem class_decl_shape : forall name ct fin nf ns nfn cs s,
  routed false (namespace s) (PN (KClass name ct fin nf ns nfn) cs) = true ->
  exists ifs sup old cr,
    children_res (visit (PN (KClass name ct fin nf ns nfn) cs) s) =
    class_text name ct fin nf ns nfn cs ifs sup old cr :: children_res s.
Proof. exact class_shape_lem. Qed.
Print Assumptions class_decl_shape.

(* "final " iff is_final, class / interface / abstract class, the name, the type parameters,
   " extends " the superclasses (not interfaces of the context) iff there are some,
   " implements " (" extends " for an interface) the interfaces iff there are some, the body *)
Theorem class_header : forall name ct fin nf ns nfn cs ifs sup old cr,
  exists body,
    class_text name ct fin nf ns nfn cs ifs sup old cr =
    let tparams := joins (T ", ") (skipn (nf + ns + nfn) cr) in
    let superclasses := fst (split_supers ifs (supers_of nf ns cs)) in
    let interfaces := snd (split_supers ifs (supers_of nf ns cs)) in
    let res := T (spaces old) ++ T (if fin then "final " else "") ++ T (class_prefix ct) ++ T " " ++ [Decl DClass name] in
    let res := if negb (segs_empty tparams) then res ++ T "<" ++ tparams ++ T ">" else res in
    let res := if nonempty superclasses then res ++ T " extends " ++ T (join ", " superclasses) else res in
    let res := if nonempty interfaces
               then res ++ T (if Nat.eqb ct 1 then " extends " else " implements ") ++ T (join ", " interfaces)
               else res in
    res ++ T " " ++ brace body.
Proof. exact class_header_lem. Qed.
Print Assumptions class_header.
