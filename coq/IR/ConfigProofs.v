(* IR/ConfigProofs.v -- what src/args.py makes of the four switches (Generated/Config.v is
   regenerated from the source on every run; these statements are re-checked against it). *)
From Coq Require Import List Arith Bool.
Import ListNotations.
From Heph Require Import Generated.Config.

Definition row_ok (r : (bool * bool * bool * bool) * (bool * bool * nat * nat)) : bool :=
  let '((f_usv, f_contra, f_bounds, f_pfun), (dis_usv, dis_contra, p_bounds, p_pfun)) := r in
  Bool.eqb dis_usv f_usv && Bool.eqb dis_contra f_contra &&
  (negb f_bounds || Nat.eqb p_bounds 0) && (negb f_pfun || Nat.eqb p_pfun 0).

Lemma config_table_complete_lem : length config_table = 16.
Proof. reflexivity. Qed.

Lemma config_flags_respected_lem : forallb row_ok config_table = true.
Proof. vm_compute. reflexivity. Qed.

Lemma config_flags_respected_forall_lem :
  forall f_usv f_contra f_bounds f_pfun dis_usv dis_contra p_bounds p_pfun,
    In ((f_usv, f_contra, f_bounds, f_pfun), (dis_usv, dis_contra, p_bounds, p_pfun)) config_table ->
    dis_usv = f_usv /\ dis_contra = f_contra /\ (f_bounds = true -> p_bounds = 0) /\ (f_pfun = true -> p_pfun = 0).
Proof.
  intros f1 f2 f3 f4 d1 d2 p1 p2 Hin.
  pose proof config_flags_respected_lem as H.
  rewrite forallb_forall in H. specialize (H _ Hin). unfold row_ok in H.
  repeat rewrite andb_true_iff in H. destruct H as [[[H1 H2] H3] H4].
  apply Bool.eqb_prop in H1. apply Bool.eqb_prop in H2.
  repeat split; auto.
  - intros ->. simpl in H3. apply Nat.eqb_eq in H3. exact H3.
  - intros ->. simpl in H4. apply Nat.eqb_eq in H4. exact H4.
Qed.
