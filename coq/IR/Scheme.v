(* IR/Scheme.v -- the recursion scheme of the expression generator as a TABLE, and its reading as a
   nondeterministic recursion (C18).  The table itself (Generated/GenScheme.v) is produced from the source
   of /repo/src/generators/generator.py by harness/gen2coq.py on every run of ./check C18.
   Definitions only.

   One entry per method of class Generator from which generate_expr is reachable (plus one entry standing
   for the constant generators of src/generators/generators.py).  A site is one call `self.m(...)`:
     s_off    self.depth at the call minus self.depth at entry of the calling method (0 = outside the
              incremented region `self.depth += k ... self.depth = initial_depth`)
     s_ol     how the callee's only_leaves is bound: literal True, False / default, the caller's own, unknown
     s_disp   0 = direct call; for the calls generate_expr makes through the list returned by get_generators:
              1 = offered for the void type, 2 = offered in the branch `self.depth >= max_depth or only_leaves`,
              3 = offered otherwise only
     s_bottom gen_bottom of a generate_expr call: 0 absent, 1 type-directed, 2 guarded by depth > 2 * max_depth, 3 True
   e_leak is the offset at which the method can return (gen_is_expr returns from inside its incremented
   region without restoring the depth). *)
From Coq Require Import List Arith Bool String.
Import ListNotations.
From Heph Require Import IR.Depth.
Local Open Scope string_scope.
Local Open Scope nat_scope.

Inductive olk := OLt | OLf | OLp | OLa.

Record site := mkSite { s_callee : nat; s_off : nat; s_ol : olk; s_disp : nat; s_bottom : nat; s_line : nat }.

Record entry := mkEntry { e_id : nat; e_name : string; e_incr : bool; e_inc : nat; e_leak : nat; e_leaf : bool;
                          e_inside : list nat; e_outside : list nat; e_sites : list site }.

Definition table := list entry.

(* a node of the call graph: generator id and the value of only_leaves it runs with *)
Definition node := (nat * bool)%type.

Definition mode_after (k : olk) (b : bool) : list bool :=
  match k with OLt => [true] | OLf => [false] | OLp => [b] | OLa => [true; false] end.

(* with only_leaves the dispatcher cannot use a site offered only in the full branch *)
Definition site_enabled (s : site) (b : bool) : bool := negb (b && (s_disp s =? 3)).

Definition nidx (n : node) : nat := 2 * fst n + (if snd n then 1 else 0).
Definition rank (r : list nat) (n : node) : nat := nth (nidx n) r 0.

(* flat = the call does not happen inside an incremented region and is not on the list of edges that are
   bounded by something else than the depth *)
Definition flat (lst : entry -> site -> bool) (e : entry) (s : site) : bool := (s_off s =? 0) && negb (lst e s).

Definition rank_ok (lst : entry -> site -> bool) (T : table) (r : list nat) : bool :=
  forallb (fun e => forallb (fun b => forallb (fun s =>
     if site_enabled s b && flat lst e s
     then forallb (fun b' => rank r (s_callee s, b') <? rank r (e_id e, b)) (mode_after (s_ol s) b)
     else true) (e_sites e)) [false; true]) T.

Fixpoint ids_from (k : nat) (T : table) : bool :=
  match T with [] => true | e :: T' => (e_id e =? k) && ids_from (S k) T' end.

Definition callees_ok (T : table) : bool :=
  forallb (fun e => forallb (fun s => s_callee s <? List.length T) (e_sites e)) T.

Definition mem (x : nat) (l : list nat) : bool := existsb (Nat.eqb x) l.

(* the summary columns of an entry agree with its sites *)
Definition sides_ok (T : table) : bool :=
  forallb (fun e =>
    Bool.eqb (e_incr e) (0 <? e_inc e) &&
    forallb (fun s => (s_off s <=? e_inc e) && (if 0 <? s_off s then mem (s_callee s) (e_inside e) else mem (s_callee s) (e_outside e))) (e_sites e) &&
    forallb (fun c => existsb (fun s => (s_callee s =? c) && (0 <? s_off s)) (e_sites e)) (e_inside e) &&
    forallb (fun c => existsb (fun s => (s_callee s =? c) && (s_off s =? 0)) (e_sites e)) (e_outside e)) T.

Definition leaks_ok (leaky : string -> bool) (T : table) : bool :=
  forallb (fun e => (e_leak e =? 0) || leaky (e_name e)) T.

(* longest chains of flat edges, by relaxation; used as a certificate only (rank_ok re-checks it) *)
Definition relax (lst : entry -> site -> bool) (T : table) (r : list nat) : list nat :=
  flat_map (fun e => map (fun b =>
     fold_right Nat.max 0 (flat_map (fun s =>
        if site_enabled s b && flat lst e s then map (fun b' => S (rank r (s_callee s, b'))) (mode_after (s_ol s) b) else [])
        (e_sites e))) [false; true]) T.

Fixpoint iter {A} (n : nat) (f : A -> A) (x : A) : A := match n with 0 => x | S n' => iter n' f (f x) end.

Definition compute_ranks (lst : entry -> site -> bool) (T : table) : list nat :=
  iter (2 * List.length T) (relax lst T) (repeat 0 (2 * List.length T)).

Definition scheme_ok (lst : entry -> site -> bool) (leaky : string -> bool) (T : table) : bool :=
  ids_from 0 T && callees_ok T && sides_ok T && leaks_ok leaky T && rank_ok lst T (compute_ranks lst T).

(* frames per unit of (depth climbed + listed edges used + 1): one more than the longest chain of flat edges *)
Definition scheme_bound (lst : entry -> site -> bool) (T : table) : nat := S (list_max (compute_ranks lst T)).

(* ---------- the table read as a nondeterministic recursion ---------- *)

Inductive label := LIncr | LListed | LFlat.

Definition lab (lst : entry -> site -> bool) (e : entry) (s : site) : label :=
  if 0 <? s_off s then LIncr else if lst e s then LListed else LFlat.

(* a frame: generator, its only_leaves, self.depth at its entry *)
Definition state := (node * nat)%type.

(* one call: any site of the caller's entry; the callee starts at least s_off deeper (deeper still when a
   callee that ran before it leaked its increment); the dispatcher cannot use a full-branch site once
   self.depth >= max_depth or only_leaves *)
Inductive step (lst : entry -> site -> bool) (T : table) (max : nat) : state -> label -> state -> Prop :=
| Step g b d e s b' d' :
    nth_error T g = Some e -> In s (e_sites e) -> In b' (mode_after (s_ol s) b) ->
    ((max <=? d) || b = true -> s_disp s <> 3) ->
    d + s_off s <= d' ->
    step lst T max ((g, b), d) (lab lst e s) ((s_callee s, b'), d').

Definition is_listed (l : label) : nat := match l with LListed => 1 | _ => 0 end.
Definition is_incr (l : label) : nat := match l with LIncr => 1 | _ => 0 end.

(* a call stack: number of frames below the top, of listed edges, of incrementing edges *)
Inductive chain (lst : entry -> site -> bool) (T : table) (max : nat) : state -> nat -> nat -> nat -> state -> Prop :=
| C_nil x : chain lst T max x 0 0 0 x
| C_cons x l y n k i z :
    step lst T max x l y -> chain lst T max y n k i z ->
    chain lst T max x (S n) (is_listed l + k) (is_incr l + i) z.

(* ---------- what the generated table is compared with ---------- *)

Definition name_of (T : table) (g : nat) : string :=
  match nth_error T g with Some e => e_name e | None => "" end.

Definition find_entry (T : table) (nm : string) : option entry := find (fun e => (e_name e =? nm)%string) T.

(* non-incrementing recursive edges that the depth does not bound; each is bounded (or not) by something else:
     gen_array_expr -> generate_expr   element type: the array nesting of the type decreases
     gen_assignment -> generate_expr   right-hand side: the void type is replaced by the variable's type
     gen_variable   -> generate_expr   re-dispatch with exclude_var (no node is produced; below max_depth
                                       gen_variable can be drawn again: terminates with probability 1 only)
     _gen_func_ref  -> generate_expr   receiver of a function reference: a class type, not a function type
     _gen_func_call -> generate_expr   receiver of a call, generated BEFORE the depth is incremented: nothing
                                       but the random draws bounds a.f().g().h()... *)
Definition listed_names : list (string * string) :=
  [("gen_array_expr", "generate_expr"); ("gen_assignment", "generate_expr"); ("gen_variable", "generate_expr");
   ("_gen_func_ref", "generate_expr"); ("_gen_func_call", "generate_expr")].

Definition listed_in (T : table) (e : entry) (s : site) : bool :=
  existsb (fun p => (fst p =? e_name e)%string && (snd p =? name_of T (s_callee s))%string) listed_names.

(* gen_is_expr returns `self.generate_expr(expr_type, only_leaves=True, ...)` after `self.depth += 3` *)
Definition leaky_names (nm : string) : bool := (nm =? "gen_is_expr")%string.

(* the generators of the get_generators model (IR/Depth.v) by the name of the method they stand for *)
Definition gen_name (g : gen) : string :=
  match g with
  | GNew => "gen_new" | GConst => "gens.constant" | GArray => "gen_array_expr" | GLogical => "gen_logical_expr"
  | GEquality => "gen_equality_expr" | GComparison => "gen_comparison_expr" | GFieldAccess => "gen_field_access"
  | GConditional => "gen_conditional" | GIs => "gen_is_expr" | GFunCall => "gen_func_call"
  | GVariable => "gen_variable" | GAssignment => "gen_assignment"
  end.

(* gen_func_call delegates to _gen_func_call / _gen_func_call_ref, which hold the increment *)
Definition inc_name (g : gen) : string := match g with GFunCall => "_gen_func_call" | _ => gen_name g end.

Definition entry_inc (T : table) (nm : string) : option nat :=
  match find_entry T nm with Some e => Some (e_inc e) | None => None end.

Definition offered (T : table) (c : nat) (nm : string) : bool :=
  match find_entry T "generate_expr" with
  | Some e => existsb (fun s => (s_disp s =? c) && (name_of T (s_callee s) =? nm)%string) (e_sites e)
  | None => false
  end.

(* a path of the call graph that the dispatcher permits at every depth (no full-branch site), that uses no
   listed edge and no site cut by `self.depth > 2 * max_depth` (gen_new's constructor arguments); as a cycle with
   an incrementing site: every round raises the depth, nothing cuts it *)
Fixpoint cycle_from (T : table) (lst : entry -> site -> bool) (n : node) (c : list (nat * node)) (last : node) : bool :=
  match c with
  | [] => (fst n =? fst last) && Bool.eqb (snd n) (snd last)
  | (j, n') :: c' =>
      match nth_error T (fst n) with
      | Some e => match nth_error (e_sites e) j with
                  | Some s => negb (s_disp s =? 3) && negb ((s_off s =? 0) && lst e s) && negb (s_bottom s =? 2) && (s_callee s =? fst n') &&
                              existsb (Bool.eqb (snd n')) (mode_after (s_ol s) (snd n)) && cycle_from T lst n' c' last
                  | None => false
                  end
      | None => false
      end
  end.

(* c = [(site index, next node); ...] starting and ending at n, with at least one incrementing site *)
Definition cycle_ok (T : table) (lst : entry -> site -> bool) (n : node) (c : list (nat * node)) : bool :=
  cycle_from T lst n c n &&
  existsb (fun p => match nth_error T (fst (fst p)) with
                    | Some e => match nth_error (e_sites e) (snd p) with Some s => 0 <? s_off s | None => false end
                    | None => false end)
          (combine (n :: map snd c) (map fst c)).
