(* IR/ScopeScan.v -- an exhaustive scanner for the identifier rules of C05 (unique within a scope, not
   reserved).  Unlike the reference checker (IR/Check.v, which meets declarations only where its typing
   recursion takes it) it examines EVERY node of the tree; IR/CheckSpecProofs.v proves it equivalent to the
   declarative ScopesChecked / ScopesExtra of IR/CheckSpec.v.  On well-shaped programs its errors with the
   codes 21 / 22 are the ones the reference checker reports (same paths): compared on every generated program.
   codes: 21 identifier declared twice in one block / parameter list    22 reserved word (local variable, top level)
          31 two fields / two functions of one class share a name         32 two parameters of a lambda share a name
          33 two top-level declarations of one kind share a name          34 reserved word (any other declaration)
   Definitions only. *)
From Coq Require Import List Arith Bool.
Import ListNotations.
From Heph Require Import Types.Syntax IR.Syntax.

Definition serr := (list nat * nat)%type.

Definition is_kind (k : nat) (n : node) : bool := Nat.eqb (kind_of n) k.
Definition is_local_decl (n : node) : bool := is_kind kVarDecl n || is_kind kFuncDecl n.
Definition is_top_decl (n : node) : bool := is_kind kClassDecl n || is_kind kFuncDecl n || is_kind kVarDecl n.
Definition is_any_decl (n : node) : bool :=
  is_kind kClassDecl n || is_kind kFieldDecl n || is_kind kFuncDecl n || is_kind kParamDecl n || is_kind kVarDecl n.
Definition mem_nat (x : nat) (l : list nat) : bool := existsb (Nat.eqb x) l.

(* indices of the members satisfying P whose name an earlier member satisfying P already has *)
Fixpoint dups_from (P : node -> bool) (seen : list nat) (i : nat) (l : list node) : list nat :=
  match l with
  | [] => []
  | s :: l' =>
      if P s then (if mem_nat (name_of_node s) seen then [i] else []) ++ dups_from P (name_of_node s :: seen) (S i) l'
      else dups_from P seen (S i) l'
  end.
Definition dups (P : node -> bool) (l : list node) : list nat := dups_from P [] 0 l.

(* indices of the members satisfying P whose name is reserved *)
Fixpoint reserved_from (P : node -> bool) (kw : list nat) (i : nat) (l : list node) : list nat :=
  match l with
  | [] => []
  | s :: l' => (if P s && mem_nat (name_of_node s) kw then [i] else []) ++ reserved_from P kw (S i) l'
  end.

Definition at_idx (path : list nat) (code : nat) (l : list nat) : list serr := map (fun i => (path ++ [i], code)) l.
Definition once (path : list nat) (code : nat) (l : list nat) : list serr := match l with [] => [] | _ => [(path, code)] end.

(* what the reference checker looks at, per node *)
Definition local_checked (kw : list nat) (path : list nat) (n : node) : list serr :=
  (if is_kind kBlock n
   then at_idx path 21 (dups is_local_decl (kids_of n)) ++ at_idx path 22 (reserved_from (is_kind kVarDecl) kw 0 (kids_of n))
   else []) ++
  (if is_kind kFuncDecl n then once path 21 (dups (is_kind kParamDecl) (kids_of n)) else []).

(* what the property asks in addition, per node *)
Definition local_extra (kw : list nat) (path : list nat) (n : node) : list serr :=
  (if is_kind kClassDecl n
   then at_idx path 31 (dups (is_kind kFieldDecl) (kids_of n)) ++ at_idx path 31 (dups (is_kind kFuncDecl) (kids_of n))
   else []) ++
  (if is_kind kLambda n then once path 32 (dups (is_kind kParamDecl) (kids_of n)) else []) ++
  (if is_any_decl n && mem_nat (name_of_node n) kw then [(path, 34)] else []).

(* every node with its path *)
Fixpoint walk (f : list nat -> node -> list serr) (path : list nat) (n : node) {struct n} : list serr :=
  match n with
  | N _ _ _ _ _ kids =>
      f path n ++
      (fix go (i : nat) (l : list node) : list serr :=
         match l with
         | [] => []
         | c :: l' => walk f (path ++ [i]) c ++ go (S i) l'
         end) 0 kids
  end.

Definition scan_checked (kw : list nat) (p : node) : list serr :=
  walk (local_checked kw) [] p ++ at_idx [] 22 (reserved_from is_top_decl kw 0 (kids_of p)).

Definition scan_extra (kw : list nat) (p : node) : list serr :=
  walk (local_extra kw) [] p ++
  at_idx [] 33 (dups (is_kind kClassDecl) (kids_of p)) ++ at_idx [] 33 (dups (is_kind kFuncDecl) (kids_of p)) ++
  at_idx [] 33 (dups (is_kind kVarDecl) (kids_of p)).
