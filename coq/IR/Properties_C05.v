(* Properties_C05.v -- the property theorems, nothing else.  Whole programs are validated per
   program (kernel evaluation of the reference checker); these theorems say what an accepting
   verdict establishes. *)
From Coq Require Import List Arith Bool.
Import ListNotations.
From Heph Require Import Types.Syntax Types.Subst Types.Subtype Types.Decl IR.Syntax IR.Check IR.CheckProofs.

Theorem accepted_position_is_justified : forall L w a b,
  assignable false L w (TOk a) (Some b) = true ->
  match norm_expected (Some b) with
  | None => True
  | Some b' => SubA w [] (lhs L a) (rhs L b') \/ is_assignable w 40 (lhs L a) (rhs L b') = Rt \/
               sub_ref w 40 [] (lhs L a) (rhs L b') = Unk
  end.
Proof. exact assignable_accepts_lem. Qed.
Print Assumptions accepted_position_is_justified.

Theorem strictly_accepted_position_is_justified : forall L w a b,
  assignable true L w (TOk a) (Some b) = true ->
  exists b', norm_expected (Some b) = Some b' /\
             (SubA w [] (lhs L a) (rhs L b') \/ is_assignable w 40 (lhs L a) (rhs L b') = Rt).
Proof. exact assignable_strict_lem. Qed.
Print Assumptions strictly_accepted_position_is_justified.

Theorem accepted_program_has_no_error_of_this_property : forall codes l, only_codes codes l = [] ->
  forall e, In e l -> existsb (Nat.eqb (snd (fst (fst e)))) codes = false.
Proof. exact only_codes_nil_lem. Qed.
Print Assumptions accepted_program_has_no_error_of_this_property.
