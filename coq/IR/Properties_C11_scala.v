(* Properties_C11_scala.v -- the property theorems for the SCALA translator, nothing else.
   `visit`, `translate_program`, `print_program`, `run_history` are the definitions of
   IR/PrintScala.v that the correspondence check (harness/printcorr_scala.py) evaluates against
   the real ScalaTranslator.  Determinism is definitional (they are functions). *)
From Coq Require Import String Ascii List Arith Bool.
Import ListNotations.
From Heph Require Import IR.PrintScala IR.PrintScalaProofs.

(* balanced push/pop: every visit of a node pushes exactly one result on _children_res and
   leaves is_unit, is_lambda, _cast_integers, _nodes_stack and context as they were; ident is
   restored or left at 0 (visit_super_instantiation assigns 0 and does not restore it; a block
   passes that on).  For every tree, every state. *)
Theorem scala_visit_restores : forall n s,
  exists r,
    children_res (visit n s) = r :: children_res s /\
    is_unit (visit n s) = is_unit s /\ is_lambda (visit n s) = is_lambda s /\
    cast_integers (visit n s) = cast_integers s /\ nodes_stack (visit n s) = nodes_stack s /\
    context (visit n s) = context s /\
    (ident (visit n s) = ident s \/ ident (visit n s) = 0).
Proof. exact visit_restores_lem. Qed.
Print Assumptions scala_visit_restores.

(* a translation leaves every accumulator of the translator object as it found it (ident up to
   the reset to 0); context is the translated program's *)
Theorem scala_translation_restores_state : forall pkg p t,
  let t' := snd (translate_program pkg t p) in
  is_unit (tst t') = is_unit (tst t) /\ is_lambda (tst t') = is_lambda (tst t) /\
  cast_integers (tst t') = cast_integers (tst t) /\ children_res (tst t') = children_res (tst t) /\
  nodes_stack (tst t') = nodes_stack (tst t) /\
  (ident (tst t') = ident (tst t) \/ ident (tst t') = 0) /\
  context (tst t') = Some p.
Proof. exact translation_restores_state_lem. Qed.
Print Assumptions scala_translation_restores_state.

(* from a fresh translator: back to the initial state in every component but context, which
   ScalaTranslator never resets and never reads (visit_program reassigns it) *)
Theorem scala_fresh_translator_restored : forall pkg p,
  tst (snd (translate_program pkg init_tr p)) = set_context (Some p) init_st.
Proof. exact fresh_translator_restored_lem. Qed.
Print Assumptions scala_fresh_translator_restored.

(* the text and the context left behind by earlier translations are never read *)
Theorem scala_prior_output_irrelevant : forall pkg p s c a b,
  visit_program pkg p (mkTr (set_context c s) a) = visit_program pkg p (mkTr s b).
Proof. exact prior_output_irrelevant_lem. Qed.
Print Assumptions scala_prior_output_irrelevant.

(* history independence: after ANY sequence of earlier translations by the same object (other
   programs, the same program, other packages) the text of p is the text from a fresh object *)
Theorem scala_history_independent : forall h pkg p,
  fst (translate_program pkg (snd (run_history init_tr h)) p) = print_program pkg p.
Proof. exact history_independent_lem. Qed.
Print Assumptions scala_history_independent.

(* every text produced along a history is the fresh-translator text of its program *)
Theorem scala_history_texts : forall h,
  fst (run_history init_tr h) = map (fun x => print_program (fst x) (snd x)) h.
Proof. exact history_texts_lem. Qed.
Print Assumptions scala_history_texts.
