(* IR/CheckSpecProofs.v -- the sub-checkers of IR/Check.v (and the scanner IR/ScopeScan.v) decide the
   declarative specifications of IR/CheckSpec.v, for ALL trees. *)
From Coq Require Import List Arith Bool Lia.
Import ListNotations.
From Heph Require Import Types.Syntax Types.Subst Types.Subtype Types.Decl Types.TableOk Types.Corr Types.RefSound
     IR.Syntax IR.Check IR.CheckProofs IR.DiffProofs IR.SwitchProofs IR.CheckSpec IR.ScopeScan.

(* ====================================================================== generic list facts *)

Lemma existsb_nat_In : forall x l, existsb (Nat.eqb x) l = true <-> In x l.
Proof.
  intros x l. rewrite existsb_exists. split.
  - intros [y [Hy E]]. apply Nat.eqb_eq in E. subst. exact Hy.
  - intros H. exists x. split; [exact H | apply Nat.eqb_refl].
Qed.

Lemma forallb_false_ex : forall {A} (f : A -> bool) l,
  forallb f l = false <-> exists x, In x l /\ f x = false.
Proof.
  intros A f l. induction l as [|a l IH]; simpl.
  - split; [discriminate | intros [x [[] _]]].
  - rewrite andb_false_iff, IH. split.
    + intros [H|[x [Hx Hf]]]; [exists a; auto | exists x; auto].
    + intros [x [[->|Hx] Hf]]; [left; exact Hf | right; exists x; auto].
Qed.

Lemma app_nil_iff : forall {A} (l1 l2 : list A), l1 ++ l2 = [] <-> l1 = [] /\ l2 = [].
Proof. intros A l1 l2. split; [apply app_eq_nil | intros [-> ->]; reflexivity]. Qed.

Lemma nil_iff_no_member : forall {A} (l : list A), l = [] <-> forall x, ~ In x l.
Proof.
  intros A l. split.
  - intros -> x [].
  - intros H. destruct l as [|a l]; [reflexivity | exfalso; apply (H a); left; reflexivity].
Qed.

(* ====================================================================== (a) type variables in scope *)

Lemma tvars_of_iff : forall t x, In x (tvars_of t) <-> TvIn x t.
Proof.
  apply (ty_ind' (fun t => forall x, In x (tvars_of t) <-> TvIn x t)).
  - intros b pr x. simpl. split; [intros [] | intros H; inversion H].
  - intros c x. simpl. split; [intros [] | intros H; inversion H].
  - intros c l IH x. simpl. rewrite in_flat_map. rewrite Forall_forall in IH. split.
    + intros [a [Ha Hx]]. apply (TvArg x c l a Ha). apply IH; assumption.
    + intros H. inversion H as [| |c' l' a Ha Hx|]; subst. exists a. split; [exact Ha|]. apply IH; assumption.
  - intros c x. simpl. split; [intros [] | intros H; inversion H].
  - intros y v ob IH x. destruct ob as [b|]; simpl.
    + split.
      * intros [->|Hx]; [constructor|]. apply TvBound. apply (IH b eq_refl). exact Hx.
      * intros H. inversion H; subst; [left; reflexivity|]. right. apply (IH b eq_refl). assumption.
    + split.
      * intros [->|[]]. constructor.
      * intros H. inversion H; subst. left; reflexivity.
  - intros v ob IH x. destruct ob as [b|]; simpl.
    + split.
      * intros Hx. apply TvWild. apply (IH b eq_refl). exact Hx.
      * intros H. inversion H; subst. apply (IH b eq_refl). assumption.
    + split; [intros [] | intros H; inversion H].
  - intros x. simpl. split; [intros [] | intros H; inversion H].
  - intros i u l _ _ x. simpl. split; [intros [] | intros H; inversion H].
Qed.

Lemma uses_tv_iff : forall n x, In x (flat_map tvars_of (present (tys_of n))) <-> UsesTv n x.
Proof.
  intros n x. rewrite in_flat_map. unfold UsesTv. split.
  - intros [t [Ht Hx]]. exists t. split; [apply in_present; exact Ht | apply tvars_of_iff; exact Hx].
  - intros [t [Ht Hx]]. exists t. split; [apply in_present; exact Ht | apply tvars_of_iff; exact Hx].
Qed.

Lemma tparam_names_iff : forall l x,
  In x (flat_map (fun t => match t with TVar x _ _ => [x] | _ => [] end) (present l)) <->
  exists v b, In (Some (TVar x v b)) l.
Proof.
  intros l x. rewrite in_flat_map. split.
  - intros [t [Ht Hx]]. apply in_present in Ht. destruct t; simpl in Hx; try contradiction.
    destruct Hx as [->|[]]. eauto.
  - intros [v [b H]]. exists (TVar x v b). split; [apply in_present; exact H | left; reflexivity].
Qed.

Lemma declared_tvars_iff : forall n x, In x (declared_tvars n) <-> Declares n x.
Proof.
  intros n x. unfold declared_tvars, Declares.
  destruct (Nat.eqb (kind_of n) kClassDecl) eqn:E1.
  - apply Nat.eqb_eq in E1. rewrite tparam_names_iff. split.
    + intros H. left. split; assumption.
    + intros [[_ H]|[E2 _]]; [exact H|]. rewrite E1 in E2. discriminate.
  - apply Nat.eqb_neq in E1. destruct (Nat.eqb (kind_of n) kFuncDecl) eqn:E2.
    + apply Nat.eqb_eq in E2. rewrite tparam_names_iff. split.
      * intros H. right. split; assumption.
      * intros [[E _]|[_ H]]; [contradiction | exact H].
    + apply Nat.eqb_neq in E2. split; [intros [] | intros [[E _]|[E _]]; contradiction].
Qed.

(* the loop over the children, named *)
Definition tv_go (scope : list nat) (path : list nat) : nat -> list node -> list err :=
  fix go (i : nat) (l : list node) : list err :=
    match l with
    | [] => []
    | c :: l' => tv_scope scope (path ++ [i]) c ++ go (S i) l'
    end.

Lemma tv_scope_eq : forall scope path n,
  tv_scope scope path n =
  (if forallb (fun x => existsb (Nat.eqb x) (declared_tvars n ++ scope)) (flat_map tvars_of (present (tys_of n)))
   then [] else [mkerr path 24]) ++ tv_go (declared_tvars n ++ scope) path 0 (kids_of n).
Proof. intros scope path [k nm num fl tys kids]. reflexivity. Qed.

Lemma tv_go_in : forall scope path l i e,
  In e (tv_go scope path i l) <-> exists j c, nth_error l j = Some c /\ In e (tv_scope scope (path ++ [i + j]) c).
Proof.
  intros scope path l. induction l as [|c l IH]; intros i e.
  - simpl. split; [intros [] | intros [j [c [H _]]]; destruct j; discriminate].
  - change (tv_go scope path i (c :: l)) with (tv_scope scope (path ++ [i]) c ++ tv_go scope path (S i) l).
    rewrite in_app_iff, IH. split.
    + intros [H|[j [d [Hj H]]]].
      * exists 0, c. rewrite Nat.add_0_r. split; [reflexivity | exact H].
      * exists (S j), d. rewrite Nat.add_succ_r. split; [exact Hj | exact H].
    + intros [[|j] [d [Hj H]]].
      * left. simpl in Hj. injection Hj as <-. rewrite Nat.add_0_r in H. exact H.
      * right. exists j, d. rewrite Nat.add_succ_r in H. split; [exact Hj | exact H].
Qed.

(* what is wrong at a node reached with the outer scope  scope  through the ancestors  anc *)
Definition BadAt (scope : list nat) (anc : list node) (m : node) : Prop :=
  exists x, UsesTv m x /\ ~ (In x scope \/ InScope anc m x).

Lemma in_scope_cons : forall n anc m x, InScope (n :: anc) m x <-> Declares n x \/ InScope anc m x.
Proof.
  intros n anc m x. unfold InScope. split.
  - intros [a [[<-|[<-|Ha]] Hd]].
    + right. exists m. split; [left; reflexivity | exact Hd].
    + left. exact Hd.
    + right. exists a. split; [right; exact Ha | exact Hd].
  - intros [Hd|[a [[<-|Ha] Hd]]].
    + exists n. split; [right; left; reflexivity | exact Hd].
    + exists m. split; [left; reflexivity | exact Hd].
    + exists a. split; [right; right; exact Ha | exact Hd].
Qed.

Lemma tv_scope_in : forall n scope path e,
  In e (tv_scope scope path n) <->
  exists sub anc m, Path n sub anc m /\ e = mkerr (path ++ sub) 24 /\ BadAt scope anc m.
Proof.
  apply (node_ind' (fun n => forall scope path e,
    In e (tv_scope scope path n) <->
    exists sub anc m, Path n sub anc m /\ e = mkerr (path ++ sub) 24 /\ BadAt scope anc m)).
  intros k nm num fl tys kids IH scope path e.
  set (n := N k nm num fl tys kids) in *.
  rewrite tv_scope_eq, in_app_iff, tv_go_in.
  rewrite Forall_forall in IH.
  assert (Hhere : In e (if forallb (fun x => existsb (Nat.eqb x) (declared_tvars n ++ scope))
                                  (flat_map tvars_of (present (tys_of n))) then [] else [mkerr path 24]) <->
                  e = mkerr path 24 /\ BadAt scope [] n).
  { destruct (forallb _ _) eqn:E.
    - split; [intros [] |]. intros [_ [x [Hu Hn]]]. exfalso. apply Hn.
      rewrite forallb_forall in E. apply uses_tv_iff in Hu. specialize (E x Hu).
      apply existsb_nat_In in E. apply in_app_iff in E. destruct E as [E|E].
      + right. exists n. split; [left; reflexivity | apply declared_tvars_iff; exact E].
      + left. exact E.
    - apply forallb_false_ex in E. destruct E as [x [Hx Hf]]. split.
      + intros [<-|[]]. split; [reflexivity|]. exists x. split; [apply uses_tv_iff; exact Hx|].
        intros Hin. assert (existsb (Nat.eqb x) (declared_tvars n ++ scope) = true); [|congruence].
        apply existsb_nat_In. apply in_app_iff. destruct Hin as [Hin|[a [[<-|[]] Hd]]].
        * right. exact Hin.
        * left. apply declared_tvars_iff. exact Hd.
      + intros [-> _]. left. reflexivity. }
  rewrite Hhere. clear Hhere. split.
  - intros [[-> Hb]|[j [c [Hj Hin]]]].
    + exists [], [], n. split; [constructor|]. split; [rewrite app_nil_r; reflexivity | exact Hb].
    + assert (Hc : In c kids) by (eapply nth_error_In; exact Hj).
      apply (IH c Hc) in Hin. destruct Hin as [sub [anc [m [Hp [-> [x [Hu Hn]]]]]]].
      exists (j :: sub), (n :: anc), m. split; [econstructor; [exact Hj | exact Hp]|].
      split; [rewrite <- app_assoc; reflexivity|].
      exists x. split; [exact Hu|]. intros Hs. apply Hn. destruct Hs as [Hs|Hs].
      * left. apply in_app_iff. right. exact Hs.
      * apply in_scope_cons in Hs. destruct Hs as [Hd|Hs].
        -- left. apply in_app_iff. left. apply declared_tvars_iff. exact Hd.
        -- right. exact Hs.
  - intros [sub [anc [m [Hp [-> Hb]]]]]. inversion Hp as [n0|n0 i c sub' anc' m0 Hi Hp']; subst.
    + left. split; [rewrite app_nil_r; reflexivity | exact Hb].
    + right. exists i, c. split; [exact Hi|].
      assert (Hc : In c kids) by (eapply nth_error_In; exact Hi).
      apply (IH c Hc). exists sub', anc', m. split; [exact Hp'|].
      split; [simpl; rewrite <- app_assoc; reflexivity|].
      destruct Hb as [x [Hu Hn]]. exists x. split; [exact Hu|]. intros Hs. apply Hn.
      destruct Hs as [Hs|Hs].
      * apply in_app_iff in Hs. destruct Hs as [Hs|Hs].
        -- right. apply in_scope_cons. left. apply declared_tvars_iff. exact Hs.
        -- left. exact Hs.
      * right. apply in_scope_cons. right. exact Hs.
Qed.

Lemma tv_scope_all_eq : forall p, tv_scope_all p = tv_go [] [] 0 (kids_of p).
Proof. intros [k nm num fl tys kids]. reflexivity. Qed.

(* every reported error names a position that really holds an out-of-scope variable, and every such position
   is reported *)
Lemma tv_scope_all_in_lem : forall p e,
  In e (tv_scope_all p) <-> exists path, e = mkerr path 24 /\ TvEscapes p path.
Proof.
  intros p e. rewrite tv_scope_all_eq, tv_go_in. split.
  - intros [j [c [Hj Hin]]]. apply tv_scope_in in Hin.
    destruct Hin as [sub [anc [m [Hp [-> [x [Hu Hn]]]]]]].
    exists (j :: sub). split; [reflexivity|].
    exists (p :: anc), m, x. split; [econstructor; eassumption|].
    split; [discriminate|]. split; [exact Hu|]. intros Hs. apply Hn. right. exact Hs.
  - intros [path [-> [anc [m [x [Hp [Hne [Hu Hn]]]]]]]].
    inversion Hp as [n0|n0 i c sub' anc' m0 Hi Hp']; subst; [congruence|].
    exists i, c. split; [exact Hi|]. apply tv_scope_in. exists sub', anc', m.
    split; [exact Hp'|]. split; [reflexivity|]. exists x. split; [exact Hu|].
    intros [[]|Hs]. apply Hn. exact Hs.
Qed.

(* scopes are decidable (through the checker's own test), which turns "no escape" into "closed" *)
Lemma in_scope_dec : forall anc m x, InScope anc m x \/ ~ InScope anc m x.
Proof.
  intros anc m x.
  destruct (existsb (fun a => existsb (Nat.eqb x) (declared_tvars a)) (m :: anc)) eqn:E.
  - left. apply existsb_exists in E. destruct E as [a [Ha Hd]].
    exists a. split; [exact Ha|]. apply declared_tvars_iff. apply existsb_nat_In. exact Hd.
  - right. intros [a [Ha Hd]]. assert (existsb (fun a => existsb (Nat.eqb x) (declared_tvars a)) (m :: anc) = true); [|congruence].
    apply existsb_exists. exists a. split; [exact Ha|]. apply existsb_nat_In. apply declared_tvars_iff. exact Hd.
Qed.

Lemma tv_closed_iff_lem : forall p, tv_scope_all p = [] <-> TvClosed p.
Proof.
  intros p. rewrite nil_iff_no_member. split.
  - intros H path anc m x Hp Hne Hu.
    destruct (in_scope_dec (tl anc) m x) as [Hs|Hs]; [exact Hs|]. exfalso.
    apply (H (mkerr path 24)). apply tv_scope_all_in_lem. exists path. split; [reflexivity|].
    exists anc, m, x. auto.
  - intros H e Hin. apply tv_scope_all_in_lem in Hin.
    destruct Hin as [path [_ [anc [m [x [Hp [Hne [Hu Hn]]]]]]]]. apply Hn. eapply H; eassumption.
Qed.

Lemma tv_closed_no_escape_lem : forall p, TvClosed p <-> forall path, ~ TvEscapes p path.
Proof.
  intros p. split.
  - intros H path [anc [m [x [Hp [Hne [Hu Hn]]]]]]. apply Hn. eapply H; eassumption.
  - intros H path anc m x Hp Hne Hu. destruct (in_scope_dec (tl anc) m x) as [Hs|Hs]; [exact Hs|].
    exfalso. apply (H path). exists anc, m, x. auto.
Qed.

(* ====================================================================== (c) bounds of type occurrences *)

Lemma in_combine_nth : forall {A B} (l1 : list A) (l2 : list B) a b,
  In (a, b) (combine l1 l2) <-> exists i, nth_error l1 i = Some a /\ nth_error l2 i = Some b.
Proof.
  intros A B l1. induction l1 as [|x l1 IH]; intros l2 a b.
  - simpl. split; [intros [] | intros [i [H _]]; destruct i; discriminate].
  - destruct l2 as [|y l2].
    + simpl. split; [intros [] | intros [i [_ H]]; destruct i; discriminate].
    + simpl. rewrite IH. split.
      * intros [E|[i [H1 H2]]].
        -- injection E as -> ->. exists 0. split; reflexivity.
        -- exists (S i). split; assumption.
      * intros [[|i] [H1 H2]].
        -- simpl in H1, H2. injection H1 as ->. injection H2 as ->. left. reflexivity.
        -- right. exists i. split; assumption.
Qed.

Section BoundProofs.
  Context (strict : bool) (L : lang) (w : world) (cs : list cls).

  Lemma assignable_iff : forall a b,
    assignable strict L w (TOk a) (Some b) = true <-> Justified strict L w a b.
  Proof.
    intros a b. unfold assignable, Justified.
    destruct (norm_expected (Some b)) as [b'|].
    - fold (unbox a). fold (top_of L). fold (lhs L a). fold (rhs L b').
      destruct (sub_ref w 40 [] (lhs L a) (rhs L b')) eqn:E.
      + split; [intros _; left; reflexivity | reflexivity].
      + split.
        * intros H. right; right. split; [reflexivity|].
          destruct (is_assignable w 40 (lhs L a) (rhs L b')); try discriminate; reflexivity.
        * intros [H|[[H _]|[_ H]]]; try discriminate. rewrite H. reflexivity.
      + split.
        * intros H. right; left. split; [reflexivity|]. destruct strict; [discriminate | reflexivity].
        * intros [H|[[_ H]|[H _]]]; try discriminate. rewrite H. reflexivity.
    - destruct strict; simpl; split; congruence.
  Qed.

  Lemma arg_within_iff : forall (pa : ty * ty) b',
    match snd pa with
    | TWild Contra (Some l) => assignable strict L w (TOk l) (Some b')
    | TWild _ _ => true
    | a => assignable strict L w (TOk a) (Some b')
    end = true <-> ArgWithin strict L w (snd pa) b'.
  Proof.
    intros [p a] b'. cbn [snd]. unfold ArgWithin.
    destruct a as [x pr|c|c l|c|x v o|v o| |i u l]; try apply assignable_iff.
    destruct v; destruct o as [l|]; try apply assignable_iff; split; auto.
  Qed.

  Lemma type_bounds_ok_iff_lem : forall t, type_bounds_ok strict L w cs t = true <-> BoundsRespected strict L w cs t.
  Proof.
    intros t. unfold BoundsRespected.
    destruct t as [x pr|c|c args|c|x v o|v o| |i u l];
      try (split; [intros _ c0 args0 cl0 E; discriminate E | reflexivity]).
    unfold type_bounds_ok. fold (find_cls cs c).
    destruct (find_cls cs c) as [cl|] eqn:Ecl.
    2:{ split; [intros _ c0 args0 cl0 E Hf; injection E as <- <-; rewrite Ecl in Hf; discriminate | reflexivity]. }
    destruct (Nat.eqb (length (cl_tparams cl)) (length args)) eqn:Elen; cbn [negb].
    2:{ apply Nat.eqb_neq in Elen. split; [|reflexivity].
        intros _ c0 args0 cl0 E Hf Hl. injection E as <- <-. rewrite Ecl in Hf. injection Hf as <-. contradiction. }
    rewrite forallb_forall. split.
    - intros H c0 args0 cl0 E Hf _ i p a b Hp Ha Hb Hnw.
      injection E as <- <-. rewrite Ecl in Hf. injection Hf as <-.
      assert (Hin : In (p, a) (combine (cl_tparams cl) args)) by (apply in_combine_nth; eauto).
      specialize (H (p, a) Hin). cbn [fst snd] in H. rewrite Hb in H.
      destruct (existsb (fun qa => is_wild (snd qa) && occurs (fst qa) b) (combine (cl_tparams cl) args)) eqn:Ex.
      + exfalso. apply existsb_exists in Ex. destruct Ex as [[q a'] [Hq Hw]]. cbn [fst snd] in Hw.
        apply andb_true_iff in Hw. destruct Hw as [Hw Ho].
        apply in_combine_nth in Hq. destruct Hq as [j [Hq1 Hq2]].
        rewrite (Hnw j q a' Hq1 Hq2 Hw) in Ho. discriminate.
      + apply (arg_within_iff (p, a)). exact H.
    - intros H [p a] Hin. cbn [fst snd].
      destruct (tvar_bound p) as [b|] eqn:Hb; [|reflexivity].
      destruct (existsb (fun qa => is_wild (snd qa) && occurs (fst qa) b) (combine (cl_tparams cl) args)) eqn:Ex; [reflexivity|].
      apply in_combine_nth in Hin. destruct Hin as [i [Hp Ha]].
      apply (arg_within_iff (p, a)). apply (H c args cl eq_refl Ecl (proj1 (Nat.eqb_eq _ _) Elen) i p a b Hp Ha Hb).
      intros j q a' Hq1 Hq2 Hw.
      destruct (occurs q b) eqn:Ho; [|reflexivity].
      assert (existsb (fun qa => is_wild (snd qa) && occurs (fst qa) b) (combine (cl_tparams cl) args) = true); [|congruence].
      apply existsb_exists. exists (q, a'). split; [apply in_combine_nth; eauto|]. cbn [fst snd]. rewrite Hw, Ho. reflexivity.
  Qed.

  (* what an accepted argument means in terms of the declarative relation *)
  Lemma justified_sound_lem : forall a b, Justified strict L w a b ->
    match norm_expected (Some b) with
    | None => strict = false
    | Some b' => SubA w [] (lhs L a) (rhs L b') \/ is_assignable w 40 (lhs L a) (rhs L b') = Rt \/
                 (sub_ref w 40 [] (lhs L a) (rhs L b') = Unk /\ strict = false)
    end.
  Proof.
    intros a b. unfold Justified. destruct (norm_expected (Some b)) as [b'|]; [|auto].
    intros [H|[H|[_ H]]].
    - left. eapply sub_ref_yes_sound_lem; eauto.
    - right; right. exact H.
    - right; left. exact H.
  Qed.

  Lemma dep_proj_ok_iff_lem : forall t, dep_proj_ok cs t = true <-> DepProjOk cs t.
  Proof.
    intros t. unfold DepProjOk.
    destruct t as [x pr|c|c args|c|x v o|v o| |i u l];
      try (split; [intros _ c0 args0 cl0 E; discriminate E | reflexivity]).
    unfold dep_proj_ok. fold (find_cls cs c).
    destruct (find_cls cs c) as [cl|] eqn:Ecl.
    2:{ split; [intros _ c0 args0 cl0 E Hf; injection E as <- <-; rewrite Ecl in Hf; discriminate | reflexivity]. }
    destruct (Nat.eqb (length (cl_tparams cl)) (length args)) eqn:Elen; cbn [negb].
    2:{ apply Nat.eqb_neq in Elen. split; [|reflexivity].
        intros _ c0 args0 cl0 E Hf Hl. injection E as <- <-. rewrite Ecl in Hf. injection Hf as <-. contradiction. }
    rewrite forallb_forall. split.
    - intros H c0 args0 cl0 E Hf _ i x vi bi v bd Hp Ha j y vj vb bb aj Hq Haj.
      injection E as <- <-. rewrite Ecl in Hf. injection Hf as <-.
      assert (Hin : In (TVar x vi bi, TWild v (Some bd)) (combine (cl_tparams cl) args)) by (apply in_combine_nth; eauto).
      specialize (H _ Hin). simpl in H. rewrite forallb_forall in H.
      assert (Hin2 : In (TVar y vj (Some (TVar x vb bb)), aj) (combine (cl_tparams cl) args)) by (apply in_combine_nth; eauto).
      specialize (H _ Hin2). simpl in H. rewrite Nat.eqb_refl in H. simpl in H. exact H.
    - intros H [p a] Hin. simpl.
      destruct a as [x pr|c'|c' l'|c'|x v o|v o| |i u l]; try reflexivity.
      destruct o as [bd|]; [|reflexivity].
      rewrite forallb_forall. intros [q aj] Hin2. simpl.
      destruct (tvar_bound q) as [b|] eqn:Hb; [|reflexivity].
      destruct b as [x pr|c'|c' l'|c'|x vb bb|v' o'| |i u l]; try reflexivity.
      destruct p as [x' pr|c'|c' l'|c'|x' vi bi|v' o'| |i u l]; try reflexivity.
      destruct (Nat.eqb x x') eqn:Ex; [|reflexivity]. apply Nat.eqb_eq in Ex. subst x'. simpl.
      destruct q as [y pr|c'|c' l'|c'|y vj oj|v' o'| |i u l]; try discriminate.
      simpl in Hb. subst oj.
      apply in_combine_nth in Hin. destruct Hin as [i [Hp Ha]].
      apply in_combine_nth in Hin2. destruct Hin2 as [j [Hq Haj]].
      exact (H c args cl eq_refl Ecl (proj1 (Nat.eqb_eq _ _) Elen) i x vi bi v bd Hp Ha j y vj vb bb aj Hq Haj).
  Qed.
End BoundProofs.

(* ---------- program level: the error lists of codes 27 and 28 ---------- *)

Lemma map_filter_nil : forall {A B} (g : A -> B) (f : A -> bool) l,
  map g (filter (fun x => negb (f x)) l) = [] <-> forall x, In x l -> f x = true.
Proof.
  intros A B g f l. split.
  - intros H x Hx. destruct (f x) eqn:E; [reflexivity|]. exfalso.
    assert (Hin : In x (filter (fun x => negb (f x)) l)) by (apply filter_In; split; [exact Hx | rewrite E; reflexivity]).
    destruct (filter (fun x => negb (f x)) l); [destruct Hin | discriminate].
  - intros H. induction l as [|a l IH]; [reflexivity|]. simpl.
    rewrite (H a (or_introl eq_refl)). simpl. apply IH. intros x Hx. apply H. right. exact Hx.
Qed.

Lemma wf_types_nil_iff_lem : forall cs p, wf_types cs p = [] <-> forall t, TypeOccurs t p -> DepProjOk cs t.
Proof.
  intros cs p. unfold wf_types. rewrite map_filter_nil. split.
  - intros H t Ht. apply dep_proj_ok_iff_lem. apply H. apply type_occurs_iff_l. exact Ht.
  - intros H t Ht. apply dep_proj_ok_iff_lem. apply H. apply type_occurs_iff_l. exact Ht.
Qed.

Lemma dedup_ty_in : forall l seen t, In t (dedup_ty seen l) <-> In t l /\ ~ In t seen.
Proof.
  induction l as [|a l IH]; intros seen t; simpl.
  - tauto.
  - destruct (existsb (ty_eqb a) seen) eqn:E.
    + apply existsb_exists in E. destruct E as [s [Hs Heq]]. apply ty_eqb_eq in Heq. subst s.
      rewrite IH. split.
      * intros [H1 H2]. auto.
      * intros [[->|H1] H2]; [contradiction | auto].
    + assert (Hn : ~ In a seen).
      { intros Hin. assert (existsb (ty_eqb a) seen = true); [|congruence].
        apply existsb_exists. exists a. split; [exact Hin | apply ty_eqb_eq; reflexivity]. }
      simpl. rewrite IH. simpl. split.
      * intros [<-|[H1 H2]]; [auto|]. split; [auto|]. intros H3. apply H2. right. exact H3.
      * intros [[<-|H1] H2]; [auto|].
        destruct (ty_eqb a t) eqn:Eat.
        -- apply ty_eqb_eq in Eat. left. exact Eat.
        -- right. split; [exact H1|]. intros [<-|H3]; [|contradiction].
           assert (ty_eqb a a = true) by (apply ty_eqb_eq; reflexivity). congruence.
Qed.

(* the code-28 part of check_program, named *)
Definition has_bounded_param (cs : list cls) (t : ty) : bool :=
  match t with
  | TApp c _ => match find (fun cl => Nat.eqb (cl_cid cl) c) cs with
                | Some cl => existsb (fun tp => match tvar_bound tp with Some _ => true | None => false end) (cl_tparams cl)
                | None => false
                end
  | _ => false
  end.

Definition bound_errs (strict : bool) (L : lang) (w : world) (cs : list cls) (p : node) : list err :=
  map (fun t => (([] : list nat), 28, Some t, (None : option ty)))
      (filter (fun t => negb (type_bounds_ok strict L w cs t))
              (dedup_ty [] (filter (has_bounded_param cs) (type_occurrences p)))).

(* a class without a bounded parameter passes trivially: the pre-filter loses nothing *)
Lemma unbounded_ok : forall strict L w cs t, has_bounded_param cs t = false -> type_bounds_ok strict L w cs t = true.
Proof.
  intros strict L w cs t H. destruct t as [x pr|c|c args|c|x v o|v o| |i u l]; try reflexivity.
  unfold type_bounds_ok. unfold has_bounded_param in H.
  destruct (find (fun cl => Nat.eqb (cl_cid cl) c) cs) as [cl|]; [|reflexivity].
  destruct (negb (Nat.eqb (length (cl_tparams cl)) (length args))); [reflexivity|].
  apply forallb_forall. intros [p a] Hin. cbn [fst snd].
  destruct (tvar_bound p) eqn:Hb; [|reflexivity]. exfalso.
  assert (existsb (fun tp => match tvar_bound tp with Some _ => true | None => false end) (cl_tparams cl) = true); [|congruence].
  apply existsb_exists. exists p. split; [eapply in_combine_l; exact Hin | rewrite Hb; reflexivity].
Qed.

Lemma bound_errs_nil_iff_lem : forall strict L w cs p,
  bound_errs strict L w cs p = [] <-> forall t, TypeOccurs t p -> BoundsRespected strict L w cs t.
Proof.
  intros strict L w cs p. unfold bound_errs. rewrite map_filter_nil. split.
  - intros H t Ht. apply type_bounds_ok_iff_lem.
    destruct (has_bounded_param cs t) eqn:E; [|apply unbounded_ok; exact E].
    apply H. apply dedup_ty_in. split; [|intros []]. apply filter_In. split; [|exact E].
    apply type_occurs_iff_l. exact Ht.
  - intros H t Ht. apply dedup_ty_in in Ht. destruct Ht as [Ht _]. apply filter_In in Ht.
    apply type_bounds_ok_iff_lem. apply H. apply type_occurs_iff_l. apply Ht.
Qed.

(* ====================================================================== what an accepting verdict of check_program establishes *)

Lemma check_program_tail : forall infer strict L cn bclasses bt arr kw p,
  exists front,
    check_program infer strict L cn bclasses bt arr kw p =
    front ++ tv_scope_all p ++ wf_types (classes_of cn p) p ++
    bound_errs strict L (world_of (classes_of cn p) bclasses bt arr) (classes_of cn p) p.
Proof.
  intros. unfold check_program, bound_errs, has_bounded_param. eexists. reflexivity.
Qed.

Definition code_of (e : err) : nat := snd (fst (fst e)).

Lemma accepted_part : forall codes all part c,
  (forall e, In e part -> In e all) -> (forall e, In e part -> code_of e = c) -> In c codes ->
  only_codes codes all = [] -> part = [].
Proof.
  intros codes all part c Hsub Hc Hin Hnil. apply nil_iff_no_member. intros e He.
  pose proof (only_codes_nil_lem codes all Hnil e (Hsub e He)) as Hf.
  fold (code_of e) in Hf. rewrite (Hc e He) in Hf.
  assert (existsb (Nat.eqb c) codes = true); [|congruence].
  apply existsb_nat_In. exact Hin.
Qed.

Lemma accepted_tv_closed_lem : forall infer strict L cn bclasses bt arr kw p,
  only_codes scoping_codes (check_program infer strict L cn bclasses bt arr kw p) = [] -> TvClosed p.
Proof.
  intros infer strict L cn bclasses bt arr kw p H. apply tv_closed_iff_lem.
  destruct (check_program_tail infer strict L cn bclasses bt arr kw p) as [front E].
  apply (accepted_part scoping_codes _ (tv_scope_all p) 24) in H; [exact H | | |].
  - intros e He. rewrite E. apply in_app_iff. right. apply in_app_iff. left. exact He.
  - intros e He. apply tv_scope_all_in_lem in He. destruct He as [path [-> _]]. reflexivity.
  - unfold scoping_codes. simpl. tauto.
Qed.

Lemma accepted_bounds_lem : forall infer strict L cn bclasses bt arr kw p,
  only_codes typing_codes (check_program infer strict L cn bclasses bt arr kw p) = [] ->
  forall t, TypeOccurs t p ->
    BoundsRespected strict L (world_of (classes_of cn p) bclasses bt arr) (classes_of cn p) t /\
    DepProjOk (classes_of cn p) t.
Proof.
  intros infer strict L cn bclasses bt arr kw p H.
  destruct (check_program_tail infer strict L cn bclasses bt arr kw p) as [front E].
  assert (H28 : bound_errs strict L (world_of (classes_of cn p) bclasses bt arr) (classes_of cn p) p = []).
  { apply (accepted_part typing_codes _ (bound_errs strict L (world_of (classes_of cn p) bclasses bt arr) (classes_of cn p) p) 28) in H; [exact H | | |].
    - intros e He. rewrite E. apply in_app_iff. right. apply in_app_iff. right. apply in_app_iff. right. exact He.
    - intros e He. unfold bound_errs in He. apply in_map_iff in He. destruct He as [t [<- _]]. reflexivity.
    - unfold typing_codes. simpl. tauto. }
  assert (H27 : wf_types (classes_of cn p) p = []).
  { apply (accepted_part typing_codes _ (wf_types (classes_of cn p) p) 27) in H; [exact H | | |].
    - intros e He. rewrite E. apply in_app_iff. right. apply in_app_iff. right. apply in_app_iff. left. exact He.
    - intros e He. unfold wf_types in He. apply in_map_iff in He. destruct He as [t [<- _]]. reflexivity.
    - unfold typing_codes. simpl. tauto. }
  intros t Ht. split.
  - exact (proj1 (bound_errs_nil_iff_lem _ _ _ _ _) H28 t Ht).
  - exact (proj1 (wf_types_nil_iff_lem _ _) H27 t Ht).
Qed.

(* ====================================================================== (b) unique and non-reserved identifiers: the scanner *)

Lemma mem_nat_In : forall x l, mem_nat x l = true <-> In x l.
Proof. intros. unfold mem_nat. apply existsb_nat_In. Qed.

Lemma distinct_nil : forall P, DistinctNames P [].
Proof. intros P i j a b Hi. destruct i; discriminate. Qed.

Lemma distinct_cons : forall (P : node -> Prop) s l,
  DistinctNames P (s :: l) <->
  DistinctNames P l /\ (P s -> forall b, In b l -> P b -> name_of_node s <> name_of_node b).
Proof.
  intros P s l. split.
  - intros H. split.
    + intros i j a b Hi Hj Pa Pb E. assert (S i = S j) by (apply (H (S i) (S j) a b); assumption). lia.
    + intros Ps b Hb Pb E. apply In_nth_error in Hb. destruct Hb as [j Hj].
      assert (0 = S j) by (apply (H 0 (S j) s b); auto). discriminate.
  - intros [Hl Hs] i j a b Hi Hj Pa Pb E. destruct i as [|i], j as [|j]; simpl in Hi, Hj.
    + reflexivity.
    + injection Hi as <-. exfalso. apply (Hs Pa b); [eapply nth_error_In; exact Hj | exact Pb | exact E].
    + injection Hj as <-. exfalso. apply (Hs Pb a); [eapply nth_error_In; exact Hi | exact Pa | symmetry; exact E].
    + f_equal. apply (Hl i j a b); assumption.
Qed.

Lemma distinct_ext : forall (P Q : node -> Prop) l, (forall n, P n <-> Q n) -> (DistinctNames P l <-> DistinctNames Q l).
Proof.
  intros P Q l H. split; intros D i j a b Hi Hj Pa Pb E; apply (D i j a b); auto; apply H; assumption.
Qed.

Lemma dups_from_nil : forall P l seen i,
  dups_from P seen i l = [] <->
  (forall a, In a l -> P a = true -> ~ In (name_of_node a) seen) /\ DistinctNames (fun a => P a = true) l.
Proof.
  intros P l. induction l as [|s l IH]; intros seen i.
  - simpl. split; [intros _; split; [intros a [] | apply distinct_nil] | reflexivity].
  - simpl. rewrite distinct_cons. destruct (P s) eqn:Ps.
    + rewrite app_nil_iff, IH. split.
      * intros [Hm [Hseen Hd]]. split; [|split].
        -- intros a [<-|Ha] Pa.
           ++ intros Hin. apply mem_nat_In in Hin. rewrite Hin in Hm. discriminate.
           ++ intros Hin. apply (Hseen a Ha Pa). right. exact Hin.
        -- exact Hd.
        -- intros _ b Hb Pb E. apply (Hseen b Hb Pb). left. exact E.
      * intros [Hseen [Hd Hs]]. split; [|split].
        -- destruct (mem_nat (name_of_node s) seen) eqn:Hm; [|reflexivity].
           apply mem_nat_In in Hm. exfalso. apply (Hseen s (or_introl eq_refl) Ps). exact Hm.
        -- intros a Ha Pa [E|Hin].
           ++ apply (Hs eq_refl a Ha Pa). exact E.
           ++ apply (Hseen a (or_intror Ha) Pa). exact Hin.
        -- exact Hd.
    + rewrite IH. split.
      * intros [Hseen Hd]. split; [|split].
        -- intros a [<-|Ha] Pa; [congruence | apply Hseen; assumption].
        -- exact Hd.
        -- intros E. discriminate.
      * intros [Hseen [Hd _]]. split; [|exact Hd]. intros a Ha Pa. apply Hseen; [right; exact Ha | exact Pa].
Qed.

Lemma dups_nil : forall P l, dups P l = [] <-> DistinctNames (fun a => P a = true) l.
Proof.
  intros P l. unfold dups. rewrite dups_from_nil. split; [intros [_ H]; exact H|].
  intros H. split; [|exact H]. intros a _ _ [].
Qed.

Lemma reserved_from_nil : forall P kw l i,
  reserved_from P kw i l = [] <-> forall s, In s l -> P s = true -> ~ In (name_of_node s) kw.
Proof.
  intros P kw l. induction l as [|s l IH]; intros i; simpl.
  - split; [intros _ s [] | reflexivity].
  - rewrite app_nil_iff, IH. split.
    + intros [Hs Hl] a [<-|Ha] Pa Hin; [|exact (Hl a Ha Pa Hin)].
      apply mem_nat_In in Hin. rewrite Pa, Hin in Hs. discriminate.
    + intros H. split; [|intros a Ha; apply H; right; exact Ha].
      destruct (P s) eqn:Ps; [|reflexivity]. destruct (mem_nat (name_of_node s) kw) eqn:Hm; [|reflexivity].
      exfalso. apply (H s (or_introl eq_refl) Ps). apply mem_nat_In. exact Hm.
Qed.

Lemma at_idx_nil : forall path c l, at_idx path c l = [] <-> l = [].
Proof. intros path c l. unfold at_idx. destruct l; simpl; split; intros H; try reflexivity; discriminate H. Qed.

Lemma once_nil : forall path c l, once path c l = [] <-> l = [].
Proof. intros path c l. unfold once. destruct l; simpl; split; intros H; try reflexivity; discriminate H. Qed.

Lemma is_kind_iff : forall k n, is_kind k n = true <-> IsKind k n.
Proof. intros k n. unfold is_kind, IsKind. apply Nat.eqb_eq. Qed.

Lemma is_local_decl_iff : forall n, is_local_decl n = true <-> LocalDecl n.
Proof. intros n. unfold is_local_decl, LocalDecl. rewrite orb_true_iff, !is_kind_iff. reflexivity. Qed.

Lemma is_top_decl_iff : forall n, is_top_decl n = true <-> TopDecl n.
Proof. intros n. unfold is_top_decl, TopDecl. rewrite !orb_true_iff, !is_kind_iff. unfold IsKind. tauto. Qed.

Lemma is_any_decl_iff : forall n, is_any_decl n = true <-> AnyDecl n.
Proof. intros n. unfold is_any_decl, AnyDecl. rewrite !orb_true_iff, !is_kind_iff. unfold IsKind. tauto. Qed.

Lemma dups_kind_nil : forall k l, dups (is_kind k) l = [] <-> DistinctNames (IsKind k) l.
Proof. intros k l. rewrite dups_nil. apply distinct_ext. intros n. apply is_kind_iff. Qed.

(* the traversal meets every node *)
Definition walk_go (f : list nat -> node -> list serr) (path : list nat) : nat -> list node -> list serr :=
  fix go (i : nat) (l : list node) : list serr :=
    match l with
    | [] => []
    | c :: l' => walk f (path ++ [i]) c ++ go (S i) l'
    end.

Lemma walk_eq : forall f path n, walk f path n = f path n ++ walk_go f path 0 (kids_of n).
Proof. intros f path [k nm num fl tys kids]. reflexivity. Qed.

Lemma nodes_eq : forall n, nodes n = n :: flat_map nodes (kids_of n).
Proof. intros [k nm num fl tys kids]. reflexivity. Qed.

Lemma walk_nil : forall f (Q : node -> Prop), (forall path m, f path m = [] <-> Q m) ->
  forall n path, walk f path n = [] <-> forall m, In m (nodes n) -> Q m.
Proof.
  intros f Q HQ. apply (node_ind' (fun n => forall path, walk f path n = [] <-> forall m, In m (nodes n) -> Q m)).
  intros k nm num fl tys kids IH path. set (n := N k nm num fl tys kids).
  rewrite walk_eq, nodes_eq, app_nil_iff, HQ. change (kids_of n) with kids.
  assert (Hgo : forall i, walk_go f path i kids = [] <-> forall c, In c kids -> forall m, In m (nodes c) -> Q m).
  { induction IH as [|c l Hc Hl IHl]; intros i.
    - simpl. split; [intros _ c [] | reflexivity].
    - change (walk_go f path i (c :: l)) with (walk f (path ++ [i]) c ++ walk_go f path (S i) l).
      rewrite app_nil_iff, Hc, IHl. split.
      + intros [H1 H2] d [<-|Hd]; [exact H1 | exact (H2 d Hd)].
      + intros H. split; [apply H; left; reflexivity | intros d Hd; apply H; right; exact Hd]. }
  rewrite Hgo. split.
  - intros [Hn Hk] m [<-|Hm]; [exact Hn|]. apply in_flat_map in Hm. destruct Hm as [c [Hc Hm]]. exact (Hk c Hc m Hm).
  - intros H. split; [apply H; left; reflexivity|]. intros c Hc m Hm. apply H. right. apply in_flat_map. exists c. auto.
Qed.

Definition LocalCheckedOk (kw : list nat) (n : node) : Prop :=
  (kind_of n = kBlock -> DistinctNames LocalDecl (kids_of n) /\
                         forall s, In s (kids_of n) -> kind_of s = kVarDecl -> ~ In (name_of_node s) kw) /\
  (kind_of n = kFuncDecl -> DistinctNames (IsKind kParamDecl) (kids_of n)).

Lemma local_checked_nil : forall kw path n, local_checked kw path n = [] <-> LocalCheckedOk kw n.
Proof.
  intros kw path n. unfold local_checked, LocalCheckedOk. rewrite app_nil_iff.
  assert (H1 : (if is_kind kBlock n
                then at_idx path 21 (dups is_local_decl (kids_of n)) ++ at_idx path 22 (reserved_from (is_kind kVarDecl) kw 0 (kids_of n))
                else []) = [] <->
               (kind_of n = kBlock -> DistinctNames LocalDecl (kids_of n) /\
                         forall s, In s (kids_of n) -> kind_of s = kVarDecl -> ~ In (name_of_node s) kw)).
  { destruct (is_kind kBlock n) eqn:E.
    - apply is_kind_iff in E. rewrite app_nil_iff, !at_idx_nil, dups_nil, reserved_from_nil.
      rewrite (distinct_ext _ LocalDecl _ is_local_decl_iff). split.
      + intros [Hd Hr] _. split; [exact Hd|]. intros s Hs Hk. apply Hr; [exact Hs | apply is_kind_iff; exact Hk].
      + intros H. destruct (H E) as [Hd Hr]. split; [exact Hd|]. intros s Hs Hk. apply Hr; [exact Hs | apply is_kind_iff; exact Hk].
    - split; [|reflexivity]. intros _ Hk. apply is_kind_iff in Hk. congruence. }
  assert (H2 : (if is_kind kFuncDecl n then once path 21 (dups (is_kind kParamDecl) (kids_of n)) else []) = [] <->
               (kind_of n = kFuncDecl -> DistinctNames (IsKind kParamDecl) (kids_of n))).
  { destruct (is_kind kFuncDecl n) eqn:E.
    - apply is_kind_iff in E. rewrite once_nil, dups_kind_nil. split; [intros H _; exact H | intros H; exact (H E)].
    - split; [|reflexivity]. intros _ Hk. apply is_kind_iff in Hk. congruence. }
  rewrite H1, H2. reflexivity.
Qed.

Lemma scan_checked_iff_lem : forall kw p, scan_checked kw p = [] <-> ScopesChecked kw p.
Proof.
  intros kw p. unfold scan_checked.
  rewrite app_nil_iff, at_idx_nil, reserved_from_nil, (walk_nil _ _ (local_checked_nil kw)). split.
  - intros [Hw Ht]. constructor.
    + intros n Hn Hk. exact (proj1 (proj1 (Hw n Hn) Hk)).
    + intros n Hn Hk. exact (proj2 (Hw n Hn) Hk).
    + intros n s Hn Hk Hs Hv. exact (proj2 (proj1 (Hw n Hn) Hk) s Hs Hv).
    + intros d Hd Htd. apply Ht; [exact Hd | apply is_top_decl_iff; exact Htd].
  - intros [Hb Hp Hl Ht]. split.
    + intros n Hn. split.
      * intros Hk. split; [exact (Hb n Hn Hk)|]. intros s Hs Hv. exact (Hl n s Hn Hk Hs Hv).
      * intros Hk. exact (Hp n Hn Hk).
    + intros d Hd Htd. apply Ht; [exact Hd | apply is_top_decl_iff; exact Htd].
Qed.

Definition LocalExtraOk (kw : list nat) (n : node) : Prop :=
  (kind_of n = kClassDecl -> DistinctNames (IsKind kFieldDecl) (kids_of n) /\ DistinctNames (IsKind kFuncDecl) (kids_of n)) /\
  (kind_of n = kLambda -> DistinctNames (IsKind kParamDecl) (kids_of n)) /\
  (AnyDecl n -> ~ In (name_of_node n) kw).

Lemma local_extra_nil : forall kw path n, local_extra kw path n = [] <-> LocalExtraOk kw n.
Proof.
  intros kw path n. unfold local_extra, LocalExtraOk. rewrite !app_nil_iff.
  assert (H1 : (if is_kind kClassDecl n
                then at_idx path 31 (dups (is_kind kFieldDecl) (kids_of n)) ++ at_idx path 31 (dups (is_kind kFuncDecl) (kids_of n))
                else []) = [] <->
               (kind_of n = kClassDecl -> DistinctNames (IsKind kFieldDecl) (kids_of n) /\ DistinctNames (IsKind kFuncDecl) (kids_of n))).
  { destruct (is_kind kClassDecl n) eqn:E.
    - apply is_kind_iff in E. rewrite app_nil_iff, !at_idx_nil, !dups_kind_nil. split; [intros H _; exact H | intros H; exact (H E)].
    - split; [|reflexivity]. intros _ Hk. apply is_kind_iff in Hk. congruence. }
  assert (H2 : (if is_kind kLambda n then once path 32 (dups (is_kind kParamDecl) (kids_of n)) else []) = [] <->
               (kind_of n = kLambda -> DistinctNames (IsKind kParamDecl) (kids_of n))).
  { destruct (is_kind kLambda n) eqn:E.
    - apply is_kind_iff in E. rewrite once_nil, dups_kind_nil. split; [intros H _; exact H | intros H; exact (H E)].
    - split; [|reflexivity]. intros _ Hk. apply is_kind_iff in Hk. congruence. }
  assert (H3 : (if is_any_decl n && mem_nat (name_of_node n) kw then [(path, 34)] else []) = [] <->
               (AnyDecl n -> ~ In (name_of_node n) kw)).
  { destruct (is_any_decl n) eqn:E; simpl.
    - apply is_any_decl_iff in E. destruct (mem_nat (name_of_node n) kw) eqn:Hm.
      + apply mem_nat_In in Hm. split; [discriminate | intros H; exfalso; exact (H E Hm)].
      + split; [|reflexivity]. intros _ _ Hin. apply mem_nat_In in Hin. congruence.
    - split; [|reflexivity]. intros _ Ha. apply is_any_decl_iff in Ha. congruence. }
  rewrite H1, H2, H3. reflexivity.
Qed.

Lemma scan_extra_iff_lem : forall kw p, scan_extra kw p = [] <-> ScopesExtra kw p.
Proof.
  intros kw p. unfold scan_extra.
  rewrite !app_nil_iff, !at_idx_nil, !dups_kind_nil, (walk_nil _ _ (local_extra_nil kw)). split.
  - intros [Hw [Hc [Hf Hv]]]. constructor; try assumption.
    + intros n Hn Hk. exact (proj1 (proj1 (Hw n Hn) Hk)).
    + intros n Hn Hk. exact (proj2 (proj1 (Hw n Hn) Hk)).
    + intros n Hn Hk. exact (proj1 (proj2 (Hw n Hn)) Hk).
    + intros n Hn Ha. exact (proj2 (proj2 (Hw n Hn)) Ha).
  - intros [H1 H2 H3 H4 H5 H6 H7]. split; [|auto]. intros n Hn. split; [|split].
    + intros Hk. split; [exact (H1 n Hn Hk) | exact (H2 n Hn Hk)].
    + intros Hk. exact (H3 n Hn Hk).
    + intros Ha. exact (H7 n Hn Ha).
Qed.

Lemma scan_intended_iff_lem : forall kw p, scan_checked kw p ++ scan_extra kw p = [] <-> ScopesIntended kw p.
Proof. intros kw p. unfold ScopesIntended. rewrite app_nil_iff, scan_checked_iff_lem, scan_extra_iff_lem. reflexivity. Qed.

(* ====================================================================== non-vacuity: trees with nested scopes *)

Definition tvT := TVar 1 Inv None.
Definition tvU := TVar 2 Inv (Some tvT).
(* class C<T> { val f : T;  fun m<U : T>(p : U) : T { val v : U = p; v } }   fun g() : C<...> = TODO() *)
Definition ex_method (body_ty : ty) : node :=
  N kFuncDecl 12 1 [false; false; true; true] [Some tvT; None; Some tvU]
    [N kParamDecl 13 0 [false; false] [Some tvU] [];
     N kBlock 0 0 [true] []
       [N kVarDecl 14 0 [true] [Some body_ty; None] [N 16 13 0 [] [] []];
        N 16 14 0 [] [] []]].
Definition ex_cls (body_ty : ty) : node :=
  N kClassDecl 10 0 [false] [Some tvT] [N kFieldDecl 11 0 [true; false; false] [Some tvT] []; ex_method body_ty].
Definition ex_top (t : ty) : node :=
  N kFuncDecl 15 0 [false; false; false; true] [Some t; None] [N kBlock 0 0 [true] [] [N 9 0 0 [] [Some t] []]].
(* the method's variable uses the method's U (bounded by the class's T): closed;
   the top-level function g uses U outside the class: g itself and the constant in its body escape *)
Definition ex_tv_closed : node := N 0 0 0 [] [] [ex_cls tvU; ex_top (TApp 100 [TBuiltin 1 false])].
Definition ex_tv_open : node := N 0 0 0 [] [] [ex_cls tvU; ex_top (TApp 100 [tvU])].

Lemma tv_examples_lem :
  TvClosed ex_tv_closed /\ ~ TvClosed ex_tv_open /\ TvEscapes ex_tv_open [1; 0; 0] /\
  tv_scope_all ex_tv_open = [mkerr [1] 24; mkerr [1; 0; 0] 24].
Proof.
  split; [apply tv_closed_iff_lem; vm_compute; reflexivity|].
  split; [intros H; apply tv_closed_iff_lem in H; vm_compute in H; discriminate H|].
  split; [|vm_compute; reflexivity].
  assert (H : In (mkerr [1; 0; 0] 24) (tv_scope_all ex_tv_open)) by (vm_compute; right; left; reflexivity).
  apply tv_scope_all_in_lem in H. destruct H as [path [E H]]. injection E as <-. exact H.
Qed.

Definition exL : lang := {| l_bool := 2; l_any := 1; l_unit := 3; l_string := 4; l_char := 5; l_numbers := [6]; l_java_lambda := false |}.
Definition ex_cn : list (nat * nat) := [(10, 100)].

(* fun h(a, b) { val x = true; val z = (c) -> { val <n1> = true; val <n2> = true; true }; true }  and a class with two fields *)
Definition ex_var (nm : nat) : node := N kVarDecl nm 0 [true] [Some (TBuiltin 2 false); None] [N 12 1 0 [] [] []].
Definition ex_lambda (n1 n2 : nat) : node :=
  N kLambda 30 1 [true] [Some (TBuiltin 2 false); None]
    [N kParamDecl 23 0 [false; false] [Some (TBuiltin 2 false)] [];
     N kBlock 0 0 [false] [] [ex_var n1; ex_var n2; N 12 1 0 [] [] []]].
Definition ex_fun (n1 n2 : nat) : node :=
  N kFuncDecl 20 2 [false; false; false; true] [Some (TBuiltin 2 false); None]
    [N kParamDecl 21 0 [false; false] [Some (TBuiltin 2 false)] [];
     N kParamDecl 22 0 [false; false] [Some (TBuiltin 2 false)] [];
     N kBlock 0 0 [true] [] [ex_var 24; N kVarDecl 26 0 [true] [None; None] [ex_lambda n1 n2]; N 12 1 0 [] [] []]].
Definition ex_cls2 (f1 f2 : nat) : node :=
  N kClassDecl 10 0 [false] [] [N kFieldDecl f1 0 [true; false; false] [Some (TBuiltin 2 false)] [];
                                N kFieldDecl f2 0 [true; false; false] [Some (TBuiltin 2 false)] []].
Definition ex_sc_ok : node := N 0 0 0 [] [] [ex_cls2 11 12; ex_fun 24 25].      (* the inner block re-declares the outer name 24: allowed *)
Definition ex_sc_dup : node := N 0 0 0 [] [] [ex_cls2 11 12; ex_fun 25 25].     (* twice 25 in the lambda's block *)
Definition ex_sc_kw : node := N 0 0 0 [] [] [ex_cls2 11 12; ex_fun 24 99].      (* 99 is reserved *)
Definition ex_sc_fields : node := N 0 0 0 [] [] [ex_cls2 11 11; ex_fun 24 25].  (* two fields named 11 *)
Definition ex_kw : list nat := [99].

Lemma scope_examples_lem :
  ScopesIntended ex_kw ex_sc_ok /\ ~ ScopesChecked ex_kw ex_sc_dup /\ ~ ScopesChecked ex_kw ex_sc_kw /\
  check_program false false exL ex_cn [] [] None ex_kw ex_sc_ok = [] /\
  check_program false false exL ex_cn [] [] None ex_kw ex_sc_dup = [mkerr [1; 2; 1; 0; 1; 1] 21] /\
  check_program false false exL ex_cn [] [] None ex_kw ex_sc_kw = [mkerr [1; 2; 1; 0; 1; 1] 22].
Proof.
  split; [apply scan_intended_iff_lem; vm_compute; reflexivity|].
  split; [intros H; apply scan_checked_iff_lem in H; vm_compute in H; discriminate H|].
  split; [intros H; apply scan_checked_iff_lem in H; vm_compute in H; discriminate H|].
  vm_compute. repeat split.
Qed.

(* the reference checker does NOT establish the intended rule: two fields of one class may share a name *)
Lemma checker_misses_member_lists_lem :
  exists L cn kw p, check_program false false L cn [] [] None kw p = [] /\ ScopesChecked kw p /\ ~ ScopesIntended kw p.
Proof.
  exists exL, ex_cn, ex_kw, ex_sc_fields.
  split; [vm_compute; reflexivity|].
  split; [apply scan_checked_iff_lem; vm_compute; reflexivity|].
  intros H. apply scan_intended_iff_lem in H. vm_compute in H. discriminate H.
Qed.

(* class B (100); class D (102); class A<T : B> (101); class F<X, Y : X> (103) *)
Definition ex_mkcls (nm cid : nat) (ps : list ty) : cls :=
  {| cl_name := nm; cl_cid := cid; cl_kind := 0; cl_final := false; cl_tparams := ps; cl_supers := []; cl_fields := []; cl_funcs := [] |}.
Definition ex_cs : list cls :=
  [ex_mkcls 10 100 []; ex_mkcls 12 102 []; ex_mkcls 11 101 [TVar 1 Inv (Some (TClass 100))];
   ex_mkcls 13 103 [TVar 2 Inv None; TVar 3 Inv (Some (TVar 2 Inv None))]].
Definition ex_w : world := world_of ex_cs [] [] None.

Lemma bound_examples_lem :
  BoundsRespected true exL ex_w ex_cs (TApp 101 [TClass 100]) /\
  BoundsRespected true exL ex_w ex_cs (TApp 101 [TWild Cov (Some (TClass 102))]) /\
  BoundsRespected true exL ex_w ex_cs (TApp 103 [TClass 100; TClass 100]) /\
  ~ BoundsRespected false exL ex_w ex_cs (TApp 101 [TClass 102]) /\
  ~ BoundsRespected false exL ex_w ex_cs (TApp 101 [TWild Contra (Some (TClass 102))]) /\
  ~ BoundsRespected false exL ex_w ex_cs (TApp 103 [TClass 100; TClass 102]) /\
  DepProjOk ex_cs (TApp 103 [TWild Cov (Some (TClass 100)); TWild Cov (Some (TClass 100))]) /\
  ~ DepProjOk ex_cs (TApp 103 [TWild Cov (Some (TClass 100)); TClass 100]).
Proof.
  repeat split;
    first [ apply type_bounds_ok_iff_lem; vm_compute; reflexivity
          | apply dep_proj_ok_iff_lem; vm_compute; reflexivity
          | intros H; apply type_bounds_ok_iff_lem in H; vm_compute in H; discriminate H
          | intros H; apply dep_proj_ok_iff_lem in H; vm_compute in H; discriminate H ].
Qed.

(* ====================================================================== (b) what the reference checker itself is PROVED to report:
   reserved top-level names, duplicate parameters of top-level functions and of methods *)

Lemma in_combine_seq : forall {A} (l : list A) i d k, nth_error l i = Some d -> In (k + i, d) (combine (seq k (length l)) l).
Proof.
  intros A l. induction l as [|a l IH]; intros i d k H.
  - destruct i; discriminate.
  - destruct i as [|i]; simpl in *.
    + injection H as ->. left. rewrite Nat.add_0_r. reflexivity.
    + right. rewrite Nat.add_succ_r. apply (IH i d (S k) H).
Qed.

Lemma nodup_length_le : forall (l : list nat), length (nodup Nat.eq_dec l) <= length l.
Proof. induction l as [|a l IH]; simpl; [lia|]. destruct (in_dec Nat.eq_dec a l); simpl; lia. Qed.

Lemma nodup_length_iff : forall (l : list nat), length l = length (nodup Nat.eq_dec l) <-> NoDup l.
Proof.
  induction l as [|a l IH]; simpl.
  - split; [constructor | reflexivity].
  - destruct (in_dec Nat.eq_dec a l) as [Hin|Hn].
    + split.
      * intros H. pose proof (nodup_length_le l). lia.
      * intros H. inversion H; contradiction.
    + simpl. split.
      * intros H. constructor; [exact Hn | apply IH; lia].
      * intros H. inversion H; subst. f_equal. apply IH. assumption.
Qed.

Lemma nodup_names_iff : forall (P : node -> bool) l,
  NoDup (map name_of_node (filter P l)) <-> DistinctNames (fun a => P a = true) l.
Proof.
  intros P l. induction l as [|s l IH]; simpl.
  - split; [intros _; apply distinct_nil | constructor].
  - rewrite distinct_cons. destruct (P s) eqn:Ps; simpl.
    + split.
      * intros H. inversion H as [|x xs Hn Hd]; subst. split; [apply IH; exact Hd|].
        intros _ b Hb Pb E. apply Hn. rewrite E. apply in_map. apply filter_In. auto.
      * intros [Hd Hs]. constructor; [|apply IH; exact Hd].
        intros Hin. apply in_map_iff in Hin. destruct Hin as [b [E Hb]]. apply filter_In in Hb.
        apply (Hs eq_refl b (proj1 Hb) (proj2 Hb)). symmetry. exact E.
    + rewrite IH. split; [intros H; split; [exact H | intros E; discriminate] | intros [H _]; exact H].
Qed.

Definition dupp_of (path : list nat) (f : node) : list err :=
  if Nat.eqb (length (kids_of_kind kParamDecl f)) (length (nodup Nat.eq_dec (map name_of_node (kids_of_kind kParamDecl f))))
  then [] else [mkerr path 21].

Lemma dupp_of_in : forall path f, ~ DistinctNames (IsKind kParamDecl) (kids_of f) -> In (mkerr path 21) (dupp_of path f).
Proof.
  intros path f H. unfold dupp_of.
  destruct (Nat.eqb _ _) eqn:E; [|left; reflexivity]. exfalso. apply H.
  apply Nat.eqb_eq in E. rewrite <- (map_length name_of_node) in E. apply nodup_length_iff in E.
  unfold kids_of_kind in E. apply nodup_names_iff in E.
  eapply distinct_ext; [|exact E]. intros n. symmetry. apply (is_kind_iff kParamDecl n).
Qed.

Lemma chk_func_dupp : forall infer strict L w cs topfuncs topvars kw fu G path f as_lambda e,
  In e (dupp_of path f) -> In e (chk_func infer strict L w cs topfuncs topvars kw (S fu) G path f as_lambda).
Proof.
  intros. 
  change (chk_func infer strict L w cs topfuncs topvars kw (S fu) G path f as_lambda) with
    (let ps := kids_of_kind kParamDecl f in
        let body := filter (fun c => negb (Nat.eqb (kind_of c) kParamDecl)) (kids_of f) in
        let defaults :=
          flat_map (fun ip => match kids_of (snd ip) with
                              | [d] => let '(td, ed) := chk infer strict L w cs topfuncs topvars kw fu (undirect G) (path ++ [fst ip; 0]) (nth_ty (snd ip) 0) d in
                                       ed ++ (chk_assign strict L w td ((nth_ty (snd ip) 0)) (path ++ [fst ip]) 19)
                              | _ => []
                              end) (combine (seq 0 (length ps)) ps) in
        let dupp := dupp_of path f in
        let G' := {| e_vars := rev (map (fun p => (name_of_node p, nth_ty p 0, true)) ps) ++ e_vars G;
                     e_funcs := e_funcs G; e_cls := e_cls G;
                     e_lambda_depth := if as_lambda then length ps else length ps + length (e_vars G);
                     e_in_lambda := as_lambda || e_in_lambda G;
                     e_cur := if infer && (match nth_ty f 0 with None => true | Some _ => false end) then name_of_node f else 0;
                     e_direct := infer && (match nth_ty f 0 with None => true | Some _ => false end) |} in
        let erased := infer && (match nth_ty f 0 with None => true | Some _ => false end) in
        let rt := if erased then None else func_ret f in
        let is_unit := match func_ret f with Some (TBuiltin u _) => Nat.eqb u (l_unit L) | _ => false end in
        match body with
        | [b] =>
            let '(tb, eb) := chk infer strict L w cs topfuncs topvars kw fu G' (path ++ [length ps]) (if is_unit then None else rt) b in
            defaults ++ dupp ++ eb ++ (if is_unit || erased then [] else chk_assign strict L w tb rt path 5)
        | _ => defaults ++ dupp
        end).
  cbv zeta.
  destruct (filter (fun c => negb (Nat.eqb (kind_of c) kParamDecl)) (kids_of f)) as [|b [|b' l]].
  - apply in_app_iff. right. exact H.
  - destruct (chk _ _ _ _ _ _ _ _ _ _ _ _ _) as [tb eb]. apply in_app_iff. right. apply in_app_iff. left. exact H.
  - apply in_app_iff. right. exact H.
Qed.

(* ---------- the statement loop of a block: everything the scanner finds in a visited block is reported ---------- *)
Section BlockLoop.
  Context (infer strict : bool) (L : lang) (w : world) (cs : list cls) (topfuncs : list func)
          (topvars : list (nat * option ty * bool)) (kw : list nat).

  (* the statement loop of the Block case of chk, named *)
  Definition block_go (fu : nat) (path : list nat) (exp : option ty) :=
    fix go (i : nat) (G : env) (seen : list nat) (l : list node) (last : tres) : tres * list err :=
               match l with
               | [] => (last, [])
               | s :: l' =>
                   match kind_of s with
                   | 6 => (* VarDecl *)
                       let vt0 := match nth_ty s 0 with Some t => Some t | None => if infer then None else nth_ty s 1 end in
                       let '(ti, ei) := match kids_of s with [x] => chk infer strict L w cs topfuncs topvars kw fu (direct G (infer && (match nth_ty s 0 with None => true | Some _ => false end))) (path ++ [i; 0]) vt0 x | _ => (TUnk, []) end in
                       let vt := match vt0, ti with
                                 | Some t, _ => Some t
                                 | None, TOk t => if infer then Some t else nth_ty s 1
                                 | None, TBot => if infer then Some TNothing else nth_ty s 1
                                 | None, _ => nth_ty s 1
                                 end in
                       let dup := if existsb (Nat.eqb (name_of_node s)) seen then [mkerr (path ++ [i]) 21] else [] in
                       let kwe := if existsb (Nat.eqb (name_of_node s)) kw then [mkerr (path ++ [i]) 22] else [] in
                       let G' := {| e_vars := (name_of_node s, vt, flag s 0) :: e_vars G; e_funcs := e_funcs G; e_cls := e_cls G;
                                    e_lambda_depth := S (e_lambda_depth G); e_in_lambda := e_in_lambda G; e_cur := e_cur G; e_direct := false |} in
                       let '(r, er) := go (S i) G' (name_of_node s :: seen) l' TUnk in
                       (r, ei ++ (chk_assign strict L w ti (vt) (path ++ [i]) 1) ++ dup ++ kwe ++ er)
                   | 4 => (* nested function *)
                       let fn := mk_func s in
                       let G' := {| e_vars := e_vars G; e_funcs := fn :: e_funcs G; e_cls := e_cls G;
                                    e_lambda_depth := e_lambda_depth G; e_in_lambda := e_in_lambda G; e_cur := e_cur G; e_direct := false |} in
                       let ef := chk_func infer strict L w cs topfuncs topvars kw fu G' (path ++ [i]) s (l_java_lambda L) in
                       let dup := if existsb (Nat.eqb (name_of_node s)) seen then [mkerr (path ++ [i]) 21] else [] in
                       let '(r, er) := go (S i) G' (name_of_node s :: seen) l' TUnk in
                       (r, ef ++ dup ++ er)
                   | _ =>
                       let '(t, e1) := chk infer strict L w cs topfuncs topvars kw fu (direct G (e_direct G && (match l' with [] => true | _ => false end))) (path ++ [i]) (match l' with [] => exp | _ => None end) s in
                       let '(r, er) := go (S i) G seen l' t in
                       (r, e1 ++ er)
                   end
               end.

  Lemma chk_block_eq : forall fu G path exp e, kind_of e = kBlock ->
    chk infer strict L w cs topfuncs topvars kw (S fu) G path exp e = block_go fu path exp 0 G [] (kids_of e) TUnk.
  Proof.
    intros fu G path exp [k nm num fl tys kids] Hk. simpl in Hk. subst k. reflexivity.
  Qed.

  Ltac other_case IH :=
    match goal with |- context [chk ?a ?b ?c ?d ?e ?f ?g ?h ?fu ?G1 ?p1 ?x1 ?s] =>
      destruct (chk a b c d e f g h fu G1 p1 x1 s) as [t e1] end;
    match goal with |- context [block_go ?fu ?path ?exp (S ?i) ?G' ?sn ?l ?la] =>
      let IH1 := fresh "IH1" in let IH2 := fresh "IH2" in
      destruct (IH (S i) G' sn la) as [IH1 IH2]; destruct (block_go fu path exp (S i) G' sn l la) as [r er];
      cbn [snd] in *; split; intros j Hj; apply in_or_app; right; [apply IH1 | apply IH2]; exact Hj end.

  Lemma block_go_reports : forall fu path exp l i G seen last,
    (forall j, In j (dups_from is_local_decl seen i l) -> In (mkerr (path ++ [j]) 21) (snd (block_go fu path exp i G seen l last))) /\
    (forall j, In j (reserved_from (is_kind kVarDecl) kw i l) -> In (mkerr (path ++ [j]) 22) (snd (block_go fu path exp i G seen l last))).
  Proof.
    intros fu path exp l. induction l as [|s l IH]; intros i G seen last.
    - split; intros j [].
    - change (block_go fu path exp i G seen (s :: l) last) with
        (match kind_of s with
         | 6 =>
             let vt0 := match nth_ty s 0 with Some t => Some t | None => if infer then None else nth_ty s 1 end in
             let '(ti, ei) := match kids_of s with [x] => chk infer strict L w cs topfuncs topvars kw fu (direct G (infer && (match nth_ty s 0 with None => true | Some _ => false end))) (path ++ [i; 0]) vt0 x | _ => (TUnk, []) end in
             let vt := match vt0, ti with
                       | Some t, _ => Some t
                       | None, TOk t => if infer then Some t else nth_ty s 1
                       | None, TBot => if infer then Some TNothing else nth_ty s 1
                       | None, _ => nth_ty s 1
                       end in
             let dup := if existsb (Nat.eqb (name_of_node s)) seen then [mkerr (path ++ [i]) 21] else [] in
             let kwe := if existsb (Nat.eqb (name_of_node s)) kw then [mkerr (path ++ [i]) 22] else [] in
             let G' := {| e_vars := (name_of_node s, vt, flag s 0) :: e_vars G; e_funcs := e_funcs G; e_cls := e_cls G;
                          e_lambda_depth := S (e_lambda_depth G); e_in_lambda := e_in_lambda G; e_cur := e_cur G; e_direct := false |} in
             let '(r, er) := block_go fu path exp (S i) G' (name_of_node s :: seen) l TUnk in
             (r, ei ++ (chk_assign strict L w ti (vt) (path ++ [i]) 1) ++ dup ++ kwe ++ er)
         | 4 =>
             let fn := mk_func s in
             let G' := {| e_vars := e_vars G; e_funcs := fn :: e_funcs G; e_cls := e_cls G;
                          e_lambda_depth := e_lambda_depth G; e_in_lambda := e_in_lambda G; e_cur := e_cur G; e_direct := false |} in
             let ef := chk_func infer strict L w cs topfuncs topvars kw fu G' (path ++ [i]) s (l_java_lambda L) in
             let dup := if existsb (Nat.eqb (name_of_node s)) seen then [mkerr (path ++ [i]) 21] else [] in
             let '(r, er) := block_go fu path exp (S i) G' (name_of_node s :: seen) l TUnk in
             (r, ef ++ dup ++ er)
         | _ =>
             let '(t, e1) := chk infer strict L w cs topfuncs topvars kw fu (direct G (e_direct G && (match l with [] => true | _ => false end))) (path ++ [i]) (match l with [] => exp | _ => None end) s in
             let '(r, er) := block_go fu path exp (S i) G seen l t in
             (r, e1 ++ er)
         end).
      cbn [dups_from reserved_from]. unfold is_local_decl, is_kind, kVarDecl, kFuncDecl.
      destruct (kind_of s) as [|[|[|[|[|[|[|k]]]]]]] eqn:Hk; cbn [Nat.eqb orb andb];
        cbv zeta.
      1-4, 6, 8: other_case IH.
      + (* nested function *)
        match goal with |- context [block_go fu path exp (S i) ?G' ?sn l ?la] =>
          destruct (IH (S i) G' sn la) as [IH1 IH2]; destruct (block_go fu path exp (S i) G' sn l la) as [r er] end.
        cbn [snd] in *. split; intros j Hj.
        * apply in_or_app. right. apply in_app_iff in Hj. apply in_or_app. destruct Hj as [Hj|Hj].
          -- left. unfold mem_nat in Hj. destruct (existsb (Nat.eqb (name_of_node s)) seen); [|destruct Hj].
             destruct Hj as [<-|[]]. left. reflexivity.
          -- right. apply IH1. exact Hj.
        * apply in_or_app. right. apply in_or_app. right. apply IH2. exact Hj.
      + (* variable *)
        destruct (match kids_of s with [x] => _ | _ => _ end) as [ti ei].
        match goal with |- context [block_go fu path exp (S i) ?G' ?sn l ?la] =>
          destruct (IH (S i) G' sn la) as [IH1 IH2]; destruct (block_go fu path exp (S i) G' sn l la) as [r er] end.
        cbn [snd] in *. split; intros j Hj.
        * apply in_or_app. right. apply in_or_app. right. apply in_app_iff in Hj. apply in_or_app. destruct Hj as [Hj|Hj].
          -- left. unfold mem_nat in Hj. destruct (existsb (Nat.eqb (name_of_node s)) seen); [|destruct Hj].
             destruct Hj as [<-|[]]. left. reflexivity.
          -- right. apply in_or_app. right. apply IH1. exact Hj.
        * apply in_or_app. right. apply in_or_app. right. apply in_or_app. right.
          apply in_app_iff in Hj. apply in_or_app. destruct Hj as [Hj|Hj].
          -- left. unfold mem_nat in Hj. destruct (existsb (Nat.eqb (name_of_node s)) kw); [|destruct Hj].
             destruct Hj as [<-|[]]. left. reflexivity.
          -- right. apply IH2. exact Hj.
  Qed.
End BlockLoop.


Lemma chk_block_reports : forall infer strict L w cs topfuncs topvars kw fu G path exp b, kind_of b = kBlock ->
  (forall j, In j (dups is_local_decl (kids_of b)) ->
             In (mkerr (path ++ [j]) 21) (snd (chk infer strict L w cs topfuncs topvars kw (S fu) G path exp b))) /\
  (forall j, In j (reserved_from (is_kind kVarDecl) kw 0 (kids_of b)) ->
             In (mkerr (path ++ [j]) 22) (snd (chk infer strict L w cs topfuncs topvars kw (S fu) G path exp b))).
Proof.
  intros. rewrite chk_block_eq by assumption. apply block_go_reports.
Qed.

Lemma chk_func_body : forall infer strict L w cs topfuncs topvars kw fu G path f as_lambda b e,
  body_of f = [b] ->
  (forall G' exp', In e (snd (chk infer strict L w cs topfuncs topvars kw fu G' (path ++ [length (kids_of_kind kParamDecl f)]) exp' b))) ->
  In e (chk_func infer strict L w cs topfuncs topvars kw (S fu) G path f as_lambda).
Proof.
  intros infer strict L w cs topfuncs topvars kw fu G path f as_lambda b e Hb H.
  change (chk_func infer strict L w cs topfuncs topvars kw (S fu) G path f as_lambda) with
    (let ps := kids_of_kind kParamDecl f in
        let body := body_of f in
        let defaults :=
          flat_map (fun ip => match kids_of (snd ip) with
                              | [d] => let '(td, ed) := chk infer strict L w cs topfuncs topvars kw fu (undirect G) (path ++ [fst ip; 0]) (nth_ty (snd ip) 0) d in
                                       ed ++ (chk_assign strict L w td ((nth_ty (snd ip) 0)) (path ++ [fst ip]) 19)
                              | _ => []
                              end) (combine (seq 0 (length ps)) ps) in
        let dupp := dupp_of path f in
        let G' := {| e_vars := rev (map (fun p => (name_of_node p, nth_ty p 0, true)) ps) ++ e_vars G;
                     e_funcs := e_funcs G; e_cls := e_cls G;
                     e_lambda_depth := if as_lambda then length ps else length ps + length (e_vars G);
                     e_in_lambda := as_lambda || e_in_lambda G;
                     e_cur := if infer && (match nth_ty f 0 with None => true | Some _ => false end) then name_of_node f else 0;
                     e_direct := infer && (match nth_ty f 0 with None => true | Some _ => false end) |} in
        let erased := infer && (match nth_ty f 0 with None => true | Some _ => false end) in
        let rt := if erased then None else func_ret f in
        let is_unit := match func_ret f with Some (TBuiltin u _) => Nat.eqb u (l_unit L) | _ => false end in
        match body with
        | [b] =>
            let '(tb, eb) := chk infer strict L w cs topfuncs topvars kw fu G' (path ++ [length ps]) (if is_unit then None else rt) b in
            defaults ++ dupp ++ eb ++ (if is_unit || erased then [] else chk_assign strict L w tb rt path 5)
        | _ => defaults ++ dupp
        end).
  cbv zeta. rewrite Hb.
  match goal with |- context [chk ?a ?b0 ?c ?d ?e0 ?f0 ?g ?h ?fu ?G1 ?p1 ?x1 b] =>
    specialize (H G1 x1); destruct (chk a b0 c d e0 f0 g h fu G1 p1 x1 b) as [tb eb] end.
  cbn [snd] in H. apply in_or_app. right. apply in_or_app. right. apply in_or_app. left. exact H.
Qed.

Lemma block_ok_iff : forall kw b,
  BlockOk kw b <-> dups is_local_decl (kids_of b) = [] /\ reserved_from (is_kind kVarDecl) kw 0 (kids_of b) = [].
Proof.
  intros kw b. unfold BlockOk. rewrite dups_nil, reserved_from_nil, (distinct_ext _ LocalDecl _ is_local_decl_iff).
  split; intros [H1 H2]; (split; [exact H1|]); intros s Hs Hk; apply H2; try exact Hs; apply is_kind_iff; exact Hk.
Qed.



Local Opaque chk chk_func chk_assign find_method abstract_funcs.

Lemma top_reserved_reported : forall infer strict L cn bclasses bt arr kw p i d,
  nth_error (kids_of p) i = Some d -> TopDecl d -> In (name_of_node d) kw ->
  In (mkerr [i] 22) (check_program infer strict L cn bclasses bt arr kw p).
Proof.
  intros infer strict L cn bclasses bt arr kw p i d Hi Hd Hkw.
  apply existsb_nat_In in Hkw.
  unfold check_program. apply in_or_app. left. apply in_flat_map. exists (i, d).
  split; [exact (in_combine_seq (kids_of p) i d 0 Hi)|].
  cbv beta iota zeta.
  destruct Hd as [Hk|[Hk|Hk]]; rewrite Hk; cbv beta iota zeta.
  - rewrite Hkw. apply in_or_app. right. apply in_or_app. right. left. reflexivity.
  - rewrite Hkw. apply in_or_app. right. left. reflexivity.
  - destruct (kids_of d) as [|x [|y l]].
    + rewrite Hkw. apply in_or_app. right. apply in_or_app. right. left. reflexivity.
    + destruct (chk _ _ _ _ _ _ _ _ _ _ _ _ _) as [ti ei]. rewrite Hkw. apply in_or_app. right. apply in_or_app. right. left. reflexivity.
    + rewrite Hkw. apply in_or_app. right. apply in_or_app. right. left. reflexivity.
Qed.

Lemma top_func_params_reported : forall infer strict L cn bclasses bt arr kw p i d,
  nth_error (kids_of p) i = Some d -> kind_of d = kFuncDecl -> ~ DistinctNames (IsKind kParamDecl) (kids_of d) ->
  In (mkerr [i] 21) (check_program infer strict L cn bclasses bt arr kw p).
Proof.
  intros infer strict L cn bclasses bt arr kw p i d Hi Hk Hd.
  unfold check_program. apply in_or_app. left. apply in_flat_map. exists (i, d).
  split; [exact (in_combine_seq (kids_of p) i d 0 Hi)|].
  cbv beta iota zeta. rewrite Hk. cbv beta iota zeta.
  apply in_or_app. left. apply chk_func_dupp. apply dupp_of_in. exact Hd.
Qed.

Lemma method_params_reported : forall infer strict L cn bclasses bt arr kw p i d j s,
  nth_error (kids_of p) i = Some d -> kind_of d = kClassDecl ->
  nth_error (kids_of d) j = Some s -> kind_of s = kFuncDecl -> ~ DistinctNames (IsKind kParamDecl) (kids_of s) ->
  In (mkerr [i; j] 21) (check_program infer strict L cn bclasses bt arr kw p).
Proof.
  intros infer strict L cn bclasses bt arr kw p i d j s Hi Hk Hj Hks Hd.
  unfold check_program. apply in_or_app. left. apply in_flat_map. exists (i, d).
  split; [exact (in_combine_seq (kids_of p) i d 0 Hi)|].
  cbv beta iota zeta. rewrite Hk. cbv beta iota zeta.
  apply in_or_app. left. apply in_flat_map. exists (j, s).
  split; [exact (in_combine_seq (kids_of d) j s 0 Hj)|].
  cbv beta iota zeta. rewrite Hks. cbv beta iota zeta.
  change (Nat.eqb kFuncDecl kSuperInst) with false. change (Nat.eqb kFuncDecl kFuncDecl) with true. cbv beta iota.
  apply in_or_app. left. apply chk_func_dupp. apply dupp_of_in. exact Hd.
Qed.

Lemma distinct_params_dec : forall l, DistinctNames (IsKind kParamDecl) l \/ ~ DistinctNames (IsKind kParamDecl) l.
Proof.
  intros l. destruct (dups (is_kind kParamDecl) l) eqn:E.
  - left. apply dups_kind_nil. exact E.
  - right. intros H. apply dups_kind_nil in H. congruence.
Qed.

Lemma accepted_top_level_lem : forall infer strict L cn bclasses bt arr kw p,
  only_codes scoping_codes (check_program infer strict L cn bclasses bt arr kw p) = [] ->
  (forall d, In d (kids_of p) -> TopDecl d -> ~ In (name_of_node d) kw) /\
  (forall d, In d (kids_of p) -> kind_of d = kFuncDecl -> DistinctNames (IsKind kParamDecl) (kids_of d)) /\
  (forall d s, In d (kids_of p) -> kind_of d = kClassDecl -> In s (kids_of d) -> kind_of s = kFuncDecl ->
               DistinctNames (IsKind kParamDecl) (kids_of s)).
Proof.
  intros infer strict L cn bclasses bt arr kw p H.
  assert (Hno : forall path c, In c scoping_codes -> ~ In (mkerr path c) (check_program infer strict L cn bclasses bt arr kw p)).
  { intros path c Hc Hin. pose proof (only_codes_nil_lem _ _ H _ Hin) as Hf. unfold mkerr in Hf. cbn [fst snd] in Hf.
    assert (existsb (Nat.eqb c) scoping_codes = true) by (apply existsb_nat_In; exact Hc). congruence. }
  split; [|split].
  - intros d Hd Ht Hkw. apply In_nth_error in Hd. destruct Hd as [i Hi].
    apply (Hno [i] 22); [unfold scoping_codes; simpl; tauto|]. eapply top_reserved_reported; eassumption.
  - intros d Hd Hk. destruct (distinct_params_dec (kids_of d)) as [Hy|Hn]; [exact Hy|]. exfalso.
    apply In_nth_error in Hd. destruct Hd as [i Hi].
    apply (Hno [i] 21); [unfold scoping_codes; simpl; tauto|]. eapply top_func_params_reported; eassumption.
  - intros d s Hd Hk Hs Hks. destruct (distinct_params_dec (kids_of s)) as [Hy|Hn]; [exact Hy|]. exfalso.
    apply In_nth_error in Hd. destruct Hd as [i Hi]. apply In_nth_error in Hs. destruct Hs as [j Hj].
    apply (Hno [i; j] 21); [unfold scoping_codes; simpl; tauto|]. eapply method_params_reported; eassumption.
Qed.

(* ====================================================================== further refutation witnesses, code 8, coherence of the two position notions *)

Lemma targs_ok_iff_lem : forall strict L w tparams targs m0,
  targs_ok strict L w tparams targs m0 = true <-> TargsWithin strict L w tparams targs m0.
Proof.
  intros strict L w tparams targs m0. unfold targs_ok, TargsWithin. rewrite forallb_forall. split.
  - intros H i p a b Hp Ha Hb Hw.
    assert (Hin : In (p, a) (combine tparams targs)) by (apply in_combine_nth; eauto).
    specialize (H (p, a) Hin). cbn [fst snd] in H. rewrite Hb in H.
    apply assignable_iff. destruct a; try exact H. discriminate Hw.
  - intros H [p a] Hin. cbn [fst snd]. destruct (tvar_bound p) as [b|] eqn:Hb; [|reflexivity].
    apply in_combine_nth in Hin. destruct Hin as [i [Hp Ha]].
    destruct (is_wild a) eqn:Hw.
    + destruct a; try discriminate Hw. reflexivity.
    + specialize (H i p a b Hp Ha Hb Hw). apply assignable_iff in H. destruct a; try exact H. discriminate Hw.
Qed.


(* fun h2() { New<no recorded type>( (c) -> { val 25; val 25; true } ); true }: the reference checker does not visit the arguments *)
Definition ex_unvisited : node :=
  N 0 0 0 [] []
    [N kFuncDecl 20 0 [false; false; false; true] [Some (TBuiltin 2 false); None]
       [N kBlock 0 0 [true] [] [N kNew 0 0 [false] [None] [ex_lambda 25 25]; N 12 1 0 [] [] []]]].
(* a parameter and a nested function named by a reserved word *)
Definition ex_reserved_param : node :=
  N 0 0 0 [] []
    [N kFuncDecl 20 1 [false; false; false; true] [Some (TBuiltin 2 false); None]
       [N kParamDecl 99 0 [false; false] [Some (TBuiltin 2 false)] [];
        N kBlock 0 0 [true] [] [N 12 1 0 [] [] []]]].

Lemma checker_misses_unvisited_lem :
  exists L cn kw p, check_program false false L cn [] [] None kw p = [] /\ ~ ScopesChecked kw p.
Proof.
  exists exL, ex_cn, ex_kw, ex_unvisited. split; [vm_compute; reflexivity|].
  intros H. apply scan_checked_iff_lem in H. vm_compute in H. discriminate H.
Qed.

Lemma checker_misses_reserved_param_lem :
  exists L cn kw p n, check_program false false L cn [] [] None kw p = [] /\ ScopesChecked kw p /\
                      In n (nodes p) /\ kind_of n = kParamDecl /\ In (name_of_node n) kw.
Proof.
  exists exL, ex_cn, ex_kw, ex_reserved_param, (N kParamDecl 99 0 [false; false] [Some (TBuiltin 2 false)] []).
  split; [vm_compute; reflexivity|]. split; [apply scan_checked_iff_lem; vm_compute; reflexivity|].
  split; [simpl; tauto|]. split; [reflexivity | simpl; tauto].
Qed.

(* the two ways the specifications address nodes agree: the pre-order list and the position relation *)
Lemma nodes_iff_path_lem : forall p m, In m (nodes p) <-> exists path anc, Path p path anc m.
Proof.
  apply (node_ind' (fun p => forall m, In m (nodes p) <-> exists path anc, Path p path anc m)).
  intros k nm num fl tys kids IH m. set (n := N k nm num fl tys kids).
  rewrite nodes_eq. change (kids_of n) with kids. rewrite Forall_forall in IH. split.
  - intros [<-|H].
    + exists [], []. constructor.
    + apply in_flat_map in H. destruct H as [c [Hc Hm]]. apply (IH c Hc) in Hm. destruct Hm as [path [anc Hp]].
      apply In_nth_error in Hc. destruct Hc as [i Hi]. exists (i :: path), (n :: anc). econstructor; [exact Hi | exact Hp].
  - intros [path [anc Hp]]. inversion Hp as [n0|n0 i c sub anc' m0 Hi Hp']; subst.
    + left. reflexivity.
    + right. apply in_flat_map. exists c. assert (Hc : In c kids) by (eapply nth_error_In; exact Hi).
      split; [exact Hc|]. apply (IH c Hc). eauto.
Qed.

(* ====================================================================== (b) the body blocks of top-level functions and of methods *)

Lemma top_func_body_reported : forall infer strict L cn bclasses bt arr kw p i d b,
  nth_error (kids_of p) i = Some d -> kind_of d = kFuncDecl -> body_of d = [b] -> kind_of b = kBlock ->
  (forall j, In j (dups is_local_decl (kids_of b)) ->
     In (mkerr (([i] ++ [length (kids_of_kind kParamDecl d)]) ++ [j]) 21) (check_program infer strict L cn bclasses bt arr kw p)) /\
  (forall j, In j (reserved_from (is_kind kVarDecl) kw 0 (kids_of b)) ->
     In (mkerr (([i] ++ [length (kids_of_kind kParamDecl d)]) ++ [j]) 22) (check_program infer strict L cn bclasses bt arr kw p)).
Proof.
  intros infer strict L cn bclasses bt arr kw p i d b Hi Hk Hb Hkb.
  split; intros j Hj; unfold check_program; apply in_or_app; left; apply in_flat_map; exists (i, d);
    (split; [exact (in_combine_seq (kids_of p) i d 0 Hi)|]);
    cbv beta iota zeta; rewrite Hk; cbv beta iota zeta;
    apply in_or_app; left; apply (chk_func_body _ _ _ _ _ _ _ _ _ _ _ _ _ b); try exact Hb; intros G' exp';
    apply chk_block_reports; assumption.
Qed.

Lemma method_body_reported : forall infer strict L cn bclasses bt arr kw p i d j0 s b,
  nth_error (kids_of p) i = Some d -> kind_of d = kClassDecl ->
  nth_error (kids_of d) j0 = Some s -> kind_of s = kFuncDecl -> body_of s = [b] -> kind_of b = kBlock ->
  (forall j, In j (dups is_local_decl (kids_of b)) ->
     In (mkerr (([i; j0] ++ [length (kids_of_kind kParamDecl s)]) ++ [j]) 21) (check_program infer strict L cn bclasses bt arr kw p)) /\
  (forall j, In j (reserved_from (is_kind kVarDecl) kw 0 (kids_of b)) ->
     In (mkerr (([i; j0] ++ [length (kids_of_kind kParamDecl s)]) ++ [j]) 22) (check_program infer strict L cn bclasses bt arr kw p)).
Proof.
  intros infer strict L cn bclasses bt arr kw p i d j0 s b Hi Hk Hj0 Hks Hb Hkb.
  split; intros j Hj; unfold check_program; apply in_or_app; left; apply in_flat_map; exists (i, d);
    (split; [exact (in_combine_seq (kids_of p) i d 0 Hi)|]);
    cbv beta iota zeta; rewrite Hk; cbv beta iota zeta;
    apply in_or_app; left; apply in_flat_map; exists (j0, s);
    (split; [exact (in_combine_seq (kids_of d) j0 s 0 Hj0)|]);
    cbv beta iota zeta; rewrite Hks; cbv beta iota zeta;
    change (Nat.eqb kFuncDecl kSuperInst) with false; change (Nat.eqb kFuncDecl kFuncDecl) with true; cbv beta iota;
    apply in_or_app; left; apply (chk_func_body _ _ _ _ _ _ _ _ _ _ _ _ _ b); try exact Hb; intros G' exp';
    apply chk_block_reports; assumption.
Qed.

Lemma accepted_body_blocks_lem : forall infer strict L cn bclasses bt arr kw p,
  only_codes scoping_codes (check_program infer strict L cn bclasses bt arr kw p) = [] ->
  (forall d b, In d (kids_of p) -> kind_of d = kFuncDecl -> body_of d = [b] -> kind_of b = kBlock -> BlockOk kw b) /\
  (forall d s b, In d (kids_of p) -> kind_of d = kClassDecl -> In s (kids_of d) -> kind_of s = kFuncDecl ->
                 body_of s = [b] -> kind_of b = kBlock -> BlockOk kw b).
Proof.
  intros infer strict L cn bclasses bt arr kw p H.
  assert (Hno : forall path c, In c scoping_codes -> ~ In (mkerr path c) (check_program infer strict L cn bclasses bt arr kw p)).
  { intros path c Hc Hin. pose proof (only_codes_nil_lem _ _ H _ Hin) as Hf. unfold mkerr in Hf. cbn [fst snd] in Hf.
    assert (existsb (Nat.eqb c) scoping_codes = true) by (apply existsb_nat_In; exact Hc). congruence. }
  assert (H21 : In 21 scoping_codes) by (unfold scoping_codes; simpl; tauto).
  assert (H22 : In 22 scoping_codes) by (unfold scoping_codes; simpl; tauto).
  split.
  - intros d b Hd Hk Hb Hkb. apply In_nth_error in Hd. destruct Hd as [i Hi].
    destruct (top_func_body_reported infer strict L cn bclasses bt arr kw p i d b Hi Hk Hb Hkb) as [R1 R2].
    apply block_ok_iff. split.
    + destruct (dups is_local_decl (kids_of b)) as [|j l]; [reflexivity|]. exfalso. exact (Hno _ 21 H21 (R1 j (or_introl eq_refl))).
    + destruct (reserved_from (is_kind kVarDecl) kw 0 (kids_of b)) as [|j l]; [reflexivity|]. exfalso. exact (Hno _ 22 H22 (R2 j (or_introl eq_refl))).
  - intros d s b Hd Hk Hs Hks Hb Hkb. apply In_nth_error in Hd. destruct Hd as [i Hi]. apply In_nth_error in Hs. destruct Hs as [j0 Hj0].
    destruct (method_body_reported infer strict L cn bclasses bt arr kw p i d j0 s b Hi Hk Hj0 Hks Hb Hkb) as [R1 R2].
    apply block_ok_iff. split.
    + destruct (dups is_local_decl (kids_of b)) as [|j l]; [reflexivity|]. exfalso. exact (Hno _ 21 H21 (R1 j (or_introl eq_refl))).
    + destruct (reserved_from (is_kind kVarDecl) kw 0 (kids_of b)) as [|j l]; [reflexivity|]. exfalso. exact (Hno _ 22 H22 (R2 j (or_introl eq_refl))).
Qed.
