(* IR/Depth.v -- the depth logic that is meant to bound the generator's work (C18):
   Generator.get_generators as a pure function of (depth, max_depth, only_leaves, exclude_var,
   the expected type's kind, the variable budget), and an abstract recursion scheme over it.
   Definitions only. *)
From Coq Require Import List Arith Bool.
Import ListNotations.

Inductive gen :=
| GNew | GConst | GArray | GLogical | GEquality | GComparison
| GFieldAccess | GConditional | GIs | GFunCall | GVariable | GAssignment.

Definition gen_eqb (a b : gen) : bool :=
  match a, b with
  | GNew, GNew | GConst, GConst | GArray, GArray | GLogical, GLogical | GEquality, GEquality
  | GComparison, GComparison | GFieldAccess, GFieldAccess | GConditional, GConditional | GIs, GIs
  | GFunCall, GFunCall | GVariable, GVariable | GAssignment, GAssignment => true
  | _, _ => false
  end.

(* constant_candidates.get(expr_type.name): a scalar constant generator, the array generator, or none *)
Inductive ckind := CNone | CScalar | CArray.

(* get_generators(expr_type, only_leaves, subtype, exclude_var): is_void = (expr_type == void),
   is_bool = (expr_type == boolean type), vars = _vars_in_context[namespace], max_vars = cfg.limits.max_var_decls *)
Definition get_generators (depth max_depth : nat) (only_leaves exclude_var is_void is_bool : bool)
           (ck : ckind) (vars max_vars : nat) : list gen :=
  if is_void then [GFunCall; GAssignment]
  else if (max_depth <=? depth) || only_leaves then
    match ck with
    | CScalar => [GConst]
    | CArray => [GArray]
    | CNone => GNew :: (if (vars <? max_vars) && negb only_leaves && negb exclude_var then [GVariable] else [])
    end
  else
    let cands := match ck with
                 | CScalar => GConst :: (if is_bool then [GLogical; GEquality; GComparison] else []) ++
                                        (if exclude_var then [] else [GVariable])
                 | CArray => GArray :: (if exclude_var then [] else [GVariable])
                 | CNone => [GNew]
                 end in
    [GFieldAccess; GConditional; GIs; GFunCall; GVariable] ++ cands.

Definition is_leaf_gen (g : gen) : bool :=
  match g with GNew | GConst | GArray | GVariable => true | _ => false end.

(* depth increment applied by a generator before it generates its sub-expressions *)
Definition inc (g : gen) : nat :=
  match g with
  | GConditional | GIs => 3
  | GVariable | GConst | GArray => 0     (* gen_array_expr generates its elements at the same depth *)
  | _ => 1
  end.

(* ---------- abstract recursion scheme ----------
   A tree records the composite nodes produced for one expression.  At depth d a generator
   offered by get_generators produces a node whose children are generated at depth d + inc g
   (inc g >= 1 for every generator that has children and increments the depth); gen_new stops
   producing children (bottom constants) once d + 1 > 2 * max_depth; GVariable re-dispatches at
   the same depth with exclude_var (which removes GVariable from the leaf candidates), GConst is
   a leaf.  gen_array_expr does NOT increment the depth: the elements of an array expression are
   generated at the SAME depth, for the element type, whose array nesting is one less -- so the
   scheme carries a second counter a, the array nesting still available (at most A, the deepest
   array nesting of a type of the program; it is A again below every depth-incrementing node). *)
Inductive tree := Leaf | Node (children : list tree).

Fixpoint height (t : tree) : nat :=
  match t with
  | Leaf => 0
  | Node l => S (fold_right (fun c m => Nat.max (height c) m) 0 l)
  end.

Inductive Gen (max A : nat) : nat -> nat -> tree -> Prop :=
| G_Leaf a d : Gen max A a d Leaf                             (* constants, variables, bottoms *)
| G_Same a d t : Gen max A a d t -> Gen max A a d t            (* gen_variable -> generate_expr(exclude_var) *)
| G_Node a d k cs :
    1 <= k ->
    d <= 2 * max ->                                            (* beyond that gen_new yields only bottoms *)
    (forall c, In c cs -> Gen max A A (d + k) c) ->
    Gen max A a d (Node cs)
| G_Array a d cs :                                             (* gen_array_expr: same depth, smaller element type *)
    (forall c, In c cs -> Gen max A a d c) ->
    Gen max A (S a) d (Node cs)
| G_Deep a d cs :
    2 * max < d ->
    (forall c, In c cs -> c = Leaf) ->                         (* gen_new past the cut: bottom constants *)
    Gen max A a d (Node cs).
