(* IR/CheckProofs.v -- what acceptance by the reference checker means at one typed position. *)
From Coq Require Import List Arith Bool.
Import ListNotations.
From Heph Require Import Types.Syntax Types.Subst Types.Subtype Types.Decl Types.RefSound IR.Syntax IR.Check.

Definition unbox (a : ty) : ty := match a with TBuiltin x true => TBuiltin x false | x => x end.

(* both sides as the checker compares them: the actual type unboxed, unbounded type variables
   bounded by the language's top type *)
Definition top_of (L : lang) : ty := TBuiltin (l_any L) false.
Definition lhs (L : lang) (a : ty) : ty := topify (top_of L) (unbox a).
Definition rhs (L : lang) (b : ty) : ty := topify (top_of L) b.

(* in non-strict mode an accepted position with a known actual and expected type is justified
   either declaratively, or by the (modelled) implementation's own is_assignable, or was left
   unchecked because the reference checker ran out of fuel *)
Lemma assignable_accepts_lem : forall L w a b,
  assignable false L w (TOk a) (Some b) = true ->
  match norm_expected (Some b) with
  | None => True
  | Some b' => SubA w [] (lhs L a) (rhs L b') \/ is_assignable w 40 (lhs L a) (rhs L b') = Rt \/
               sub_ref w 40 [] (lhs L a) (rhs L b') = Unk
  end.
Proof.
  intros L w a b H. unfold assignable in H.
  destruct (norm_expected (Some b)) as [b'|]; [|exact I].
  fold (unbox a) in H. fold (top_of L) in H. fold (lhs L a) in H. fold (rhs L b') in H.
  destruct (sub_ref w 40 [] (lhs L a) (rhs L b')) eqn:E.
  - left. eapply sub_ref_yes_sound_lem; eauto.
  - right; left. destruct (is_assignable w 40 (lhs L a) (rhs L b')); try discriminate; reflexivity.
  - right; right; reflexivity.
Qed.

(* in strict mode nothing is left unchecked *)
Lemma assignable_strict_lem : forall L w a b,
  assignable true L w (TOk a) (Some b) = true ->
  exists b', norm_expected (Some b) = Some b' /\
             (SubA w [] (lhs L a) (rhs L b') \/ is_assignable w 40 (lhs L a) (rhs L b') = Rt).
Proof.
  intros L w a b H. unfold assignable in H.
  destruct (norm_expected (Some b)) as [b'|]; [|discriminate].
  exists b'. split; [reflexivity|]. fold (unbox a) in H. fold (top_of L) in H. fold (lhs L a) in H. fold (rhs L b') in H.
  destruct (sub_ref w 40 [] (lhs L a) (rhs L b')) eqn:E.
  - left. eapply sub_ref_yes_sound_lem; eauto.
  - right. destruct (is_assignable w 40 (lhs L a) (rhs L b')); try discriminate; reflexivity.
  - discriminate.
Qed.

(* topify only adds the top bound: a type without unbounded variables is unchanged *)
Fixpoint no_free_unbounded (t : ty) : bool :=
  match t with
  | TVar _ _ None => false
  | TVar _ _ (Some b) => no_free_unbounded b
  | TApp _ l => forallb no_free_unbounded l
  | TWild _ (Some b) => no_free_unbounded b
  | _ => true
  end.

Lemma only_codes_nil_lem : forall codes l, only_codes codes l = [] ->
  forall e, In e l -> existsb (Nat.eqb (snd (fst (fst e)))) codes = false.
Proof.
  intros codes l H e Hin. unfold only_codes in H.
  destruct (existsb (Nat.eqb (snd (fst (fst e)))) codes) eqn:E; [|reflexivity].
  assert (In e (filter (fun e => existsb (Nat.eqb (snd (fst (fst e)))) codes) l)) by (apply filter_In; split; assumption).
  rewrite H in H0. destruct H0.
Qed.
