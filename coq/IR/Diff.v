(* IR/Diff.v -- "differs only by" relations between a program and its mutated version:
   ErasedFrom (C03: only declared variable types, declared return types and explicit type
   arguments of constructor / generic calls may disappear) and the single-site difference of
   type overwriting (C04).  Definitions only. *)
From Coq Require Import List Arith Bool.
Import ListNotations.
From Heph Require Import Types.Syntax Types.Corr IR.Syntax.

Definition oty_eqb (a b : option ty) : bool :=
  match a, b with None, None => true | Some x, Some y => ty_eqb x y | _, _ => false end.

Fixpoint bools_eqb (a b : list bool) : bool :=
  match a, b with
  | [], [] => true
  | x :: a', y :: b' => Bool.eqb x y && bools_eqb a' b'
  | _, _ => false
  end.

Fixpoint otys_eqb (a b : list (option ty)) : bool :=
  match a, b with
  | [], [] => true
  | x :: a', y :: b' => oty_eqb x y && otys_eqb a' b'
  | _, _ => false
  end.

(* ---------- type erasure ---------- *)

(* the i-th flag may go from false to true, everything else is unchanged *)
Fixpoint flags_may_set (i : nat) (a b : list bool) : bool :=
  match a, b with
  | [], [] => true
  | x :: a', y :: b' =>
      match i with
      | O => (Bool.eqb x y || (negb x && y)) && bools_eqb a' b'
      | S i' => Bool.eqb x y && flags_may_set i' a' b'
      end
  | _, _ => false
  end.

(* the first type slot may go from Some to None, everything else is unchanged *)
Definition first_may_vanish (a b : list (option ty)) : bool :=
  match a, b with
  | x :: a', y :: b' => (oty_eqb x y || match y with None => true | Some _ => false end) && otys_eqb a' b'
  | [], [] => true
  | _, _ => false
  end.

Definition flags_erased (k : nat) (a b : list bool) : bool :=
  if Nat.eqb k kNew then flags_may_set 0 a b
  else if Nat.eqb k kFunctionCall then flags_may_set 1 a b
  else bools_eqb a b.

Definition tys_erased (k : nat) (a b : list (option ty)) : bool :=
  if Nat.eqb k kVarDecl || Nat.eqb k kFuncDecl then first_may_vanish a b else otys_eqb a b.

Fixpoint erased_from (p p' : node) {struct p} : bool :=
  match p, p' with
  | N k nm num fl tys kids, N k' nm' num' fl' tys' kids' =>
      Nat.eqb k k' && Nat.eqb nm nm' && Nat.eqb num num' &&
      flags_erased k fl fl' && tys_erased k tys tys' &&
      (fix go (l l' : list node) : bool :=
         match l, l' with
         | [], [] => true
         | x :: r, y :: r' => erased_from x y && go r r'
         | _, _ => false
         end) kids kids'
  end.

Inductive ErasedFrom : node -> node -> Prop :=
| EF k nm num fl fl' tys tys' kids kids' :
    flags_erased k fl fl' = true -> tys_erased k tys tys' = true ->
    ErasedAll kids kids' ->
    ErasedFrom (N k nm num fl tys kids) (N k nm num fl' tys' kids')
with ErasedAll : list node -> list node -> Prop :=
| EA_nil : ErasedAll [] []
| EA_cons x y l l' : ErasedFrom x y -> ErasedAll l l' -> ErasedAll (x :: l) (y :: l').

(* how many annotations were removed *)
Fixpoint erased_count (p p' : node) {struct p} : nat :=
  match p, p' with
  | N k _ _ fl tys kids, N _ _ _ fl' tys' kids' =>
      (if bools_eqb fl fl' then 0 else 1) + (if otys_eqb tys tys' then 0 else 1) +
      (fix go (l l' : list node) : nat :=
         match l, l' with
         | x :: r, y :: r' => erased_count x y + go r r'
         | _, _ => 0
         end) kids kids'
  end.

(* ---------- type overwriting: positions at which two programs differ ---------- *)

(* a difference: path to the node (child indices), index of the type slot, old and new type *)
Definition change := (list nat * nat * option ty * option ty)%type.

Fixpoint slot_changes (path : list nat) (i : nat) (a b : list (option ty)) : option (list change) :=
  match a, b with
  | [], [] => Some []
  | x :: a', y :: b' =>
      match slot_changes path (S i) a' b' with
      | None => None
      | Some r => Some (if oty_eqb x y then r else (path, i, x, y) :: r)
      end
  | _, _ => None
  end.

(* None: the programs differ in something other than types *)
Fixpoint type_changes (path : list nat) (p p' : node) {struct p} : option (list change) :=
  match p, p' with
  | N k nm num fl tys kids, N k' nm' num' fl' tys' kids' =>
      if Nat.eqb k k' && Nat.eqb nm nm' && Nat.eqb num num' && bools_eqb fl fl' then
        match slot_changes path 0 tys tys' with
        | None => None
        | Some here =>
            (fix go (i : nat) (l l' : list node) : option (list change) :=
               match l, l' with
               | [], [] => Some here
               | x :: r, y :: r' =>
                   match type_changes (path ++ [i]) x y, go (S i) r r' with
                   | Some c1, Some c2 => Some (c2 ++ c1)
                   | _, _ => None
                   end
               | _, _ => None
               end) 0 kids kids'
        end
      else None
  end.

(* positions inside two types at which they differ: (old subterm, new subterm) of the
   outermost differing positions *)
Fixpoint ty_diffs (fuel : nat) (a b : ty) : list (ty * ty) :=
  match fuel with
  | O => [(a, b)]
  | S f =>
      if ty_eqb a b then []
      else match a, b with
           | TApp c l, TApp d m =>
               if Nat.eqb c d && Nat.eqb (length l) (length m)
               then flat_map (fun p => ty_diffs f (fst p) (snd p)) (combine l m)
               else [(a, b)]
           | TWild v (Some x), TWild u (Some y) => if var_eqb v u then ty_diffs f x y else [(a, b)]
           | _, _ => [(a, b)]
           end
  end.
