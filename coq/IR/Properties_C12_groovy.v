(* Properties_C12_groovy.v -- the property theorems for the GROOVY translator, nothing else.
   All statements are about the definitions of IR/PrintGroovy.v that harness/printcorr_groovy.py
   evaluates against the real GroovyTranslator: `visit`, `route`, `print_segs`, `print_program o`
   (= flatten of print_segs, the byte-compared text; o = the option cast_numbers), the *_text
   functions the visit_* methods are transcribed with, and the vocabulary `marks` (the marked
   pieces of a text: declared names in declaration position, literals, operators), `inventory`
   (the declaration / literal / operator nodes of a tree, pre-order; a type test counts as the
   operator instanceof or !instanceof), `wf_program` (`routed`: no variable / function
   declaration is visited in the global namespace below the top level; `wfg`: the arities
   children() gives every node, super instantiations only as superclasses with arguments only
   where the generated constructor prints them, closures without type parameters; at most one
   top-level main), `lex_program` (names, literals, operators without white space: the
   translator lstrips and, in super(...), collapses white space of finished texts),
   `clean_program` (every name, literal, operator and printed type name is by itself balanced
   for (), {} and []), `balanced`. *)
From Coq Require Import String Ascii List Arith Bool Permutation.
Import ListNotations.
From Heph Require Import IR.PrintGroovy IR.PrintGroovyProofs.
Open Scope string_scope.
Open Scope list_scope.

(* (c)+(d) inventory: the text declares exactly the classes, fields, functions, parameters, type
   parameters and variables of the program and carries exactly its literals and operators: the
   marked pieces of the text are, as a multiset, the inventory of the tree.  For every program of
   the expected shape, for both values of cast_numbers. *)
Theorem groovy_declares_exactly : forall o pkg p,
  wf_program p = true -> lex_program p = true ->
  Permutation (marks (print_segs o pkg p)) (program_inventory p).
Proof. exact declares_exactly_lem. Qed.
Print Assumptions groovy_declares_exactly.

(* the boolean the harness evaluates for the inventory is exact *)
Theorem groovy_same_marks_exact : forall a b, same_marks a b = true <-> Permutation a b.
Proof. exact same_marks_spec. Qed.
Print Assumptions groovy_same_marks_exact.

(* REFUTED without the shape hypothesis "closures have no type parameters": a function declared
   inside a function (fun f() { fun <T> g() {} }) is printed as a closure `def g = { -> .. }`
   and its type parameter is not in the text (routed, lex, clean hold; wf_program does not) *)
Theorem groovy_closure_type_parameters_not_printed_refuted :
  forallb (routed true ["global"]) (decls closure_witness) = true /\
  lex_program closure_witness = true /\ clean_program "" closure_witness = true /\
  wf_program closure_witness = false /\
  forall o, ~ Permutation (marks (print_segs o "" closure_witness)) (program_inventory closure_witness).
Proof. exact closure_tparams_refuted_lem. Qed.
Print Assumptions groovy_closure_type_parameters_not_printed_refuted.

(* (b) balance: round brackets, braces and square brackets of the whole text are balanced (never
   negative, zero at the end) whenever every name, literal, operator and printed type name is by
   itself balanced (in particular when none of them contains a bracket) *)
Theorem groovy_brackets_balanced : forall o pkg p,
  wf_program p = true -> clean_program pkg p = true ->
  balanced "("%char ")"%char (print_program o pkg p) = true /\
  balanced "{"%char "}"%char (print_program o pkg p) = true /\
  balanced "["%char "]"%char (print_program o pkg p) = true.
Proof. exact brackets_balanced_lem. Qed.
Print Assumptions groovy_brackets_balanced.

(* (a) variable declarations.  The text is: indentation, "final " iff final, the TYPE PART, "Main."
   iff the name is the one global variable of that name and the declaration is not global, the
   name, " = ", the lstripped text of the initializer. *)
Theorem groovy_var_decl_shape : forall name fin vt inf cs s,
  routed true (namespace s) (PN (KVarDecl name fin vt inf) cs) = true ->
  exists cr,
    visit (PN (KVarDecl name fin vt inf) cs) s =
    route (KVarDecl name fin vt inf)
      (T (spaces (ident s)) ++ T (if fin then "final " else "") ++
       var_type_text vt inf (ns_is_global (namespace s)) ++
       T (if negb (ns_is_global (namespace s)) then main_prefix (main_vars (ctx_of s)) name else "") ++
       [Decl DVar name] ++ T " = " ++ lstrip_segs (nth_seg 0 cr)) s.
Proof. exact var_decl_shape_lem. Qed.
Print Assumptions groovy_var_decl_shape.

(* the type part: the INFERRED type and a blank when a declared type is present or the
   declaration is global (a static field of Main); "def " exactly when var_type is absent and the
   declaration is not global *)
Theorem groovy_var_type_text : forall vt inf glob,
  var_type_text vt inf glob =
  match vt with
  | Some _ => [Txt (type_name inf); Txt " "]
  | None => if glob then [Txt (type_name inf); Txt " "] else [Txt "def "]
  end.
Proof. exact var_type_text_spec. Qed.
Print Assumptions groovy_var_type_text.

(* which declared type is present is not an input: only the inferred type is printed *)
Theorem groovy_declared_var_type_not_an_input : forall t t' inf glob,
  var_type_text (Some t) inf glob = var_type_text (Some t') inf glob.
Proof. exact var_type_not_an_input_lem. Qed.
Print Assumptions groovy_declared_var_type_not_an_input.

(* REFUTED "a declared variable type is printed iff the program carries it": two different
   well-formed, clean programs -- the top-level variable `val x: Boolean = true` and the same
   without declared type -- have the same text `static final Boolean x = true` *)
Theorem groovy_var_type_printed_iff_present_refuted :
  wf_program (var_witness (Some bool_ty)) = true /\ wf_program (var_witness None) = true /\
  lex_program (var_witness None) = true /\ clean_program "" (var_witness None) = true /\
  var_witness (Some bool_ty) <> var_witness None /\
  forall o, print_program o "" (var_witness (Some bool_ty)) = print_program o "" (var_witness None).
Proof. exact var_type_refuted_lem. Qed.
Print Assumptions groovy_var_type_printed_iff_present_refuted.

(* function declarations: the text is func_decl_text of the children's texts; the function is
   printed as a closure iff its parent node is neither the program nor a class declaration *)
Theorem groovy_func_decl_shape : forall name rt inf bx fin hb np ntp cs s,
  routed true (namespace s) (PN (KFunc name rt inf bx fin hb np ntp) cs) = true ->
  exists close cr,
    visit (PN (KFunc name rt inf bx fin hb np ntp) cs) s =
    route (KFunc name rt inf bx fin hb np ntp)
      (func_decl_text name rt inf bx fin hb np ntp (negb (hb && last_is_block cs))
                      (closure_of (nth 0 (nodes_stack s) None)) close cr) s.
Proof. exact func_decl_shape_lem. Qed.
Print Assumptions groovy_func_decl_shape.

(* methods and top-level functions: indentation, "final " iff final, "abstract " iff there is no
   body, the type parameters in <>, the INFERRED return type, the name, the parameters, the body *)
Theorem groovy_func_text : forall name rt inf bx fin hb np ntp ie close cr,
  func_decl_text name rt inf bx fin hb np ntp ie false close cr =
  let tps := joins (T ", ") (firstn ntp (skipn np cr)) in
  let body_res := if hb then last_seg cr else [] in
  let body := if negb (segs_empty body_res)
              then if ie then brace (T nl ++ body_res ++ T nl ++ T close) else body_res
              else [] in
  T close ++ T (if fin then "final " else "") ++ T (if segs_empty body then "abstract " else "") ++
  (if negb (segs_empty tps) then T "<" ++ tps ++ T ">" else []) ++
  T (type_name inf) ++ T " " ++ [Decl DFunc name] ++ paren (joins (T ", ") (firstn np cr)) ++ T " " ++ body.
Proof. exact func_text_spec. Qed.
Print Assumptions groovy_func_text.

(* ... so the declared return type is not an input of that text *)
Theorem groovy_ret_type_not_an_input : forall name rt rt' inf bx fin hb np ntp ie close cr,
  func_decl_text name rt inf bx fin hb np ntp ie false close cr =
  func_decl_text name rt' inf bx fin hb np ntp ie false close cr.
Proof. exact ret_type_not_an_input_lem. Qed.
Print Assumptions groovy_ret_type_not_an_input.

(* REFUTED "a declared return type is printed iff the program carries it": the top-level function
   `fun f(): Boolean = true` and the same without declared return type have the same text *)
Theorem groovy_ret_type_printed_iff_present_refuted :
  wf_program (func_witness (Some bool_ty)) = true /\ wf_program (func_witness None) = true /\
  lex_program (func_witness None) = true /\ clean_program "" (func_witness None) = true /\
  func_witness (Some bool_ty) <> func_witness None /\
  forall o, print_program o "" (func_witness (Some bool_ty)) = print_program o "" (func_witness None).
Proof. exact ret_type_refuted_lem. Qed.
Print Assumptions groovy_ret_type_printed_iff_present_refuted.

(* closures: "def" iff there is no declared return type or it is void, otherwise Closure<T> for
   the boxed inferred type T; then the name and " = { params -> body}".  Neither `final` nor the
   type parameters are inputs. *)
Theorem groovy_closure_text : forall name rt inf bx fin hb np ntp ie close cr,
  func_decl_text name rt inf bx fin hb np ntp ie true close cr =
  T close ++
  match rt with
  | None => T "def"
  | Some t => if is_void_ty t then T "def" else T "Closure<" ++ T (type_name bx) ++ T ">"
  end ++ T " " ++ [Decl DFunc name] ++ T " = " ++
  brace (T " " ++ joins (T ", ") (firstn np cr) ++ T " -> " ++ (if hb then last_seg cr else [])).
Proof. exact closure_text_spec. Qed.
Print Assumptions groovy_closure_text.

(* lambdas: "{ params -> body}  as S" for the signature S = FunctionN<parameter types, return
   type>: a declared return type is printed exactly as the last type argument of S *)
Theorem groovy_lambda_shape : forall name rt sg np hb cs s,
  routed true (namespace s) (PN (KLambda name rt sg np hb) cs) = true ->
  exists cr,
    visit (PN (KLambda name rt sg np hb) cs) s =
    route (KLambda name rt sg np hb)
      (brace (T " " ++ joins (T ", ") (firstn np cr) ++ T " -> " ++ (if hb then last_seg cr else [])) ++
       T " " ++ T " as " ++ T (type_name sg)) s.
Proof. exact lambda_shape_lem. Qed.
Print Assumptions groovy_lambda_shape.

(* constructor calls: "new", the type -- its explicit type arguments replaced by the diamond iff
   can_infer_type_args -- and the arguments *)
Theorem groovy_new_shape : forall ct cs s,
  routed true (namespace s) (PN (KNew ct) cs) = true ->
  exists cr,
    visit (PN (KNew ct) cs) s =
    route (KNew ct) (T (spaces (ident s)) ++ T "new " ++ T (new_type_text ct) ++ paren (joins (T ", ") cr)) s.
Proof. exact new_shape_lem. Qed.
Print Assumptions groovy_new_shape.

Theorem groovy_new_type_args_printed_iff_not_inferable : forall n arr ci args,
  new_type_text (TApp n arr ci args) = if ci then (n ++ "<>")%string else type_name (TApp n arr ci args).
Proof. exact new_type_text_spec. Qed.
Print Assumptions groovy_new_type_args_printed_iff_not_inferable.

(* calls: the text is func_call_text, which has neither the type arguments nor
   can_infer_type_args among its inputs *)
Theorem groovy_func_call_shape : forall f ta ci rc hr cs s,
  routed true (namespace s) (PN (KFuncCall f ta ci rc hr) cs) = true ->
  exists mp cr,
    visit (PN (KFuncCall f ta ci rc hr) cs) s =
    route (KFuncCall f ta ci rc hr) (func_call_text f rc hr (first_is_bottom cs) mp (spaces (ident s)) cr) s.
Proof. exact func_call_shape_lem. Qed.
Print Assumptions groovy_func_call_shape.

Theorem groovy_func_call_text : forall f rc hr b mp idt cr,
  func_call_text f rc hr b mp idt cr =
  T idt ++
  (if negb (segs_empty (if hr then nth_seg 0 cr else []))
   then (if b then paren (nth_seg 0 cr) else nth_seg 0 cr) ++ T "." else []) ++
  T mp ++ T f ++ T (if rc then ".apply" else "") ++ paren (joins (T ", ") (if hr then tl cr else cr)).
Proof. exact func_call_text_spec. Qed.
Print Assumptions groovy_func_call_text.

(* REFUTED "explicit type arguments are printed iff they are not inferable": the call f<Boolean>()
   with can_infer_type_args = False and the call f() have the same text *)
Theorem groovy_call_type_args_never_printed_refuted :
  wf_program (call_witness [bool_ty]) = true /\ wf_program (call_witness []) = true /\
  lex_program (call_witness [bool_ty]) = true /\ clean_program "" (call_witness [bool_ty]) = true /\
  call_witness [bool_ty] <> call_witness [] /\
  forall o, print_program o "" (call_witness [bool_ty]) = print_program o "" (call_witness []).
Proof. exact call_type_args_refuted_lem. Qed.
Print Assumptions groovy_call_type_args_never_printed_refuted.

(* modifiers, bounds, inheritance clauses: the headers the declarations are printed with *)
Theorem groovy_field_modifiers : forall name ft fin cs s,
  routed true (namespace s) (PN (KField name ft fin) cs) = true ->
  visit (PN (KField name ft fin) cs) s =
  route (KField name ft fin)
    (T "public " ++ T (if fin then "final " else "") ++ T (type_name ft) ++ T " " ++ [Decl DField name]) s.
Proof. exact field_shape_lem. Qed.
Print Assumptions groovy_field_modifiers.

Theorem groovy_type_parameter_bound : forall name b cs s,
  routed true (namespace s) (PN (KTypeParam name b) cs) = true ->
  visit (PN (KTypeParam name b) cs) s =
  route (KTypeParam name b)
    ([Decl DTypeParam name] ++ match b with Some t => T " extends " ++ T (type_name t) | None => [] end) s.
Proof. exact type_param_shape_lem. Qed.
Print Assumptions groovy_type_parameter_bound.

Theorem groovy_class_decl_shape : forall name ct fin nf ns nfn cs s,
  routed true (namespace s) (PN (KClass name ct fin nf ns nfn) cs) = true ->
  exists sup cr,
    visit (PN (KClass name ct fin nf ns nfn) cs) s =
    route (KClass name ct fin nf ns nfn)
      (class_text name ct fin nf ns nfn cs (ifaces (ctx_of s)) sup (ident s) cr) s.
Proof. exact class_shape_lem. Qed.
Print Assumptions groovy_class_decl_shape.

(* "final " iff final; class / interface / abstract class; the name; the type parameters in <>;
   " extends " and the superclasses that are not interfaces of the context; " implements "
   (" extends " for an interface) and those that are; the members in braces *)
Theorem groovy_class_header : forall name ct fin nf ns nfn cs ifs sup old cr,
  exists inner,
  class_text name ct fin nf ns nfn cs ifs sup old cr =
  let tps := joins (T ", ") (skipn (nf + ns + nfn) cr) in
  let superclasses := fst (split_supers ifs (supers_of nf ns cs)) in
  let interfaces := snd (split_supers ifs (supers_of nf ns cs)) in
  (T (spaces old) ++ T (if fin then "final " else "") ++
   T (match ct with 0 => "class" | 1 => "interface" | _ => "abstract class" end) ++ T " " ++ [Decl DClass name]) ++
  (if negb (segs_empty tps) then T "<" ++ tps ++ T ">" else []) ++
  (if nonempty superclasses then T " extends " ++ T (join ", " superclasses) else []) ++
  (if nonempty interfaces
   then T (if Nat.eqb ct 1 then " extends " else " implements ") ++ T (join ", " interfaces) else []) ++
  T " " ++ brace inner.
Proof. exact class_text_spec. Qed.
Print Assumptions groovy_class_header.
