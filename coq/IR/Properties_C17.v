(* Properties_C17.v -- the property theorems, nothing else. *)
From Coq Require Import List Arith Bool.
Import ListNotations.
From Heph Require Import Types.Syntax IR.Syntax IR.Switches IR.SwitchProofs.

Theorem type_occurs_iff : forall t p, TypeOccurs t p <-> In t (type_occurrences p).
Proof. exact type_occurs_iff_l. Qed.
Print Assumptions type_occurs_iff.

Theorem chk_no_use_site_iff : forall p, chk_no_use_site p = true <-> NoUseSite p.
Proof. exact chk_no_use_site_iff_l. Qed.
Print Assumptions chk_no_use_site_iff.

Theorem chk_no_contra_iff : forall p, chk_no_contra p = true <-> NoContraUseSite p.
Proof. exact chk_no_contra_iff_l. Qed.
Print Assumptions chk_no_contra_iff.

Theorem chk_no_bounds_iff : forall p, chk_no_bounds p = true <-> NoBounds p.
Proof. exact chk_no_bounds_iff_l. Qed.
Print Assumptions chk_no_bounds_iff.

Theorem chk_no_param_funcs_iff : forall p, chk_no_param_funcs p = true <-> NoParamFuncs p.
Proof. exact chk_no_param_funcs_iff_l. Qed.
Print Assumptions chk_no_param_funcs_iff.

Theorem chk_no_decl_variance_iff : forall p, chk_no_decl_variance p = true <-> NoDeclVariance p.
Proof. exact chk_no_decl_variance_iff_l. Qed.
Print Assumptions chk_no_decl_variance_iff.

Theorem chk_func_params_invariant_iff :
  forall p, chk_func_params_invariant p = true <-> FuncParamsInvariant p.
Proof. exact chk_func_params_invariant_iff_l. Qed.
Print Assumptions chk_func_params_invariant_iff.

Theorem chk_honoured_iff : forall s p, chk_honoured s p = true <-> Honoured s p.
Proof. exact chk_honoured_iff_l. Qed.
Print Assumptions chk_honoured_iff.

Theorem use_site_disabled : forall dc pv ch ib pick,
  get_type_arg_variance true dc pv ch ib pick = Inv.
Proof. exact use_site_disabled_l. Qed.
Print Assumptions use_site_disabled.

Theorem contra_disabled : forall du pv ch ib pick,
  get_type_arg_variance du true pv ch ib pick <> Contra.
Proof. exact contra_disabled_l. Qed.
Print Assumptions contra_disabled.

Theorem bound_mentioned_invariant : forall du dc pv ch pick,
  get_type_arg_variance du dc pv ch true pick = Inv.
Proof. exact bound_mentioned_invariant_l. Qed.
Print Assumptions bound_mentioned_invariant.

Theorem no_choices_invariant : forall du dc pv ib pick,
  get_type_arg_variance du dc pv None ib pick = Inv.
Proof. exact no_choices_invariant_l. Qed.
Print Assumptions no_choices_invariant.

Theorem covariant_only_if_allowed : forall du dc pv ch ib pick,
  get_type_arg_variance du dc pv ch ib pick = Cov ->
  du = false /\ ib = false /\ pv <> Contra /\ exists cc, ch = Some (true, cc).
Proof. exact covariant_only_if_allowed_l. Qed.
Print Assumptions covariant_only_if_allowed.

Theorem contravariant_only_if_allowed : forall du dc pv ch ib pick,
  get_type_arg_variance du dc pv ch ib pick = Contra ->
  du = false /\ dc = false /\ ib = false /\ pv <> Cov /\ exists cv, ch = Some (cv, true).
Proof. exact contravariant_only_if_allowed_l. Qed.
Print Assumptions contravariant_only_if_allowed.

Theorem prob_zero_never : forall d, rbool 0 d = false.
Proof. exact prob_zero_never_l. Qed.
Print Assumptions prob_zero_never.

Theorem no_bound_when_disabled : forall d, gen_param_has_bound 0 d = false.
Proof. exact no_bound_when_disabled_l. Qed.
Print Assumptions no_bound_when_disabled.

Theorem no_func_type_params_when_disabled : forall d, func_gets_type_params 0 d = false.
Proof. exact no_func_type_params_when_disabled_l. Qed.
Print Assumptions no_func_type_params_when_disabled.

Theorem no_variance_without_flag : forall c p, gen_param_variance false c p = Inv.
Proof. exact no_variance_without_flag_l. Qed.
Print Assumptions no_variance_without_flag.

Theorem func_type_params_invariant : forall c p, func_param_variance c p = Inv.
Proof. exact func_type_params_invariant_l. Qed.
Print Assumptions func_type_params_invariant.

Theorem switches_not_vacuous :
  chk_no_use_site ex_prog = false /\ chk_no_bounds ex_prog = false /\
  chk_no_param_funcs ex_prog = false /\ chk_no_decl_variance ex_prog = false /\
  chk_no_contra ex_prog = true /\ chk_func_params_invariant ex_prog = true.
Proof. exact switches_not_vacuous_l. Qed.
Print Assumptions switches_not_vacuous.

Theorem variance_reachable :
  get_type_arg_variance false false Inv (Some (true, true)) false 1 = Cov /\
  get_type_arg_variance false false Inv (Some (true, true)) false 2 = Contra /\
  get_type_arg_variance false true Inv (Some (true, true)) false 1 = Cov /\
  gen_param_variance true true 2 = Contra /\
  rbool 500 499 = true.
Proof. exact variance_reachable_l. Qed.
Print Assumptions variance_reachable.

(* what src/args.py makes of the four flags: Generated/Config.v is regenerated from the source
   on every run by actually running the argument processing on each of the 16 combinations *)
From Heph Require Import Generated.Config IR.ConfigProofs.

Theorem config_table_complete : length config_table = 16.
Proof. exact config_table_complete_lem. Qed.
Print Assumptions config_table_complete.

Theorem config_flags_respected :
  forall f_usv f_contra f_bounds f_pfun dis_usv dis_contra p_bounds p_pfun,
    In ((f_usv, f_contra, f_bounds, f_pfun), (dis_usv, dis_contra, p_bounds, p_pfun)) config_table ->
    dis_usv = f_usv /\ dis_contra = f_contra /\ (f_bounds = true -> p_bounds = 0) /\ (f_pfun = true -> p_pfun = 0).
Proof. exact config_flags_respected_forall_lem. Qed.
Print Assumptions config_flags_respected.
